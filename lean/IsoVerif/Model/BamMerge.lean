/-
C12 — executable model of the alignment intake of src/alignment_processor.py (core Lean only).

* `BAMOnlineMerger` (`_set`, `get`): a priority queue holding one entry `(reference_start, reference_end,
  bam_index, alignment)` per non-exhausted iterator; `get` pops the minimum, refills from the same iterator,
  yields `(bam_index, alignment)`.
* `AlignmentCollector.process` + `AbstractAlignmentStorage.add_alignment / alignment_is_not_adjacent`:
  the region clusters (a new cluster starts when the next alignment does not overlap the running region
  `(min start, max (end-1))`).
* `forward_alignments` / `BAMAlignmentStorage.get_alignments` / `InMemoryAlignmentStorage.get_alignments`:
  which alignments are handed to `process_alignments_in_region` for which (sub-)region, and the per-alignment
  map to records.

An alignment record is abstracted to `(reference_start, reference_end, tag)`; `tag` stands for the rest of the
record (name, CIGAR, sequence, flags ...).  pysam's `fetch(chr, a, b + 1)` is modelled by `fetch` (assumed: yields
exactly the alignments with `start ≤ b ∧ a ≤ end - 1`, in file order).
-/
import IsoVerif.Gen.Prims
import IsoVerif.Gen.Constants

namespace IsoVerif.Model.C12
open IsoVerif.Gen

/-- one alignment record: 0-based `reference_start`, exclusive `reference_end`, and the rest of the record -/
structure Aln where
  start : Int
  stop : Int
  tag : Nat
deriving DecidableEq, Repr, Inhabited

/-- queue entry / yielded pair: `(bam_index, alignment)`; the queue key is `(start, stop, bam_index)` -/
abbrev Entry := Nat × Aln

/-- tuple comparison of `make_alignment_tuple` results, restricted to the three integer components
    (the fourth component, the pysam record, is only reached on a full tie, which needs two entries of the
    same iterator in the queue: excluded by `Props.C12.queue_indices_nodup`) -/
def keyLe (x y : Entry) : Bool :=
  decide (x.2.start < y.2.start) ||
  (decide (x.2.start = y.2.start) &&
    (decide (x.2.stop < y.2.stop) || (decide (x.2.stop = y.2.stop) && decide (x.1 ≤ y.1))))

/-- `PriorityQueue.get_nowait`: the minimal entry (first one on a full tie) -/
def minEntry : List Entry → Option Entry
  | [] => none
  | x :: t =>
    match minEntry t with
    | none => some x
    | some m => if keyLe x m then some x else some m

structure MState where
  queue : List Entry
  its : List (List Aln)
deriving Repr

/-- `try: put_nowait(make_alignment_tuple(i, next(iterators[i])))  except StopIteration: pass` -/
def advance (i : Nat) (s : MState) : MState :=
  match s.its[i]? with
  | some (a :: t) => { queue := (i, a) :: s.queue, its := s.its.set i t }
  | _ => s

/-- `_set`: `for i, it in enumerate(iterators): try put(next(it))` -/
def initGo : Nat → List (List Aln) → List Entry × List (List Aln)
  | _, [] => ([], [])
  | i, [] :: fs => let r := initGo (i + 1) fs; (r.1, [] :: r.2)
  | i, (a :: t) :: fs => let r := initGo (i + 1) fs; ((i, a) :: r.1, t :: r.2)

def initState (files : List (List Aln)) : MState :=
  let r := initGo 0 files
  { queue := r.1, its := r.2 }

/-- `get`: `while not empty: t = get_nowait(); refill from iterator t[2]; yield t[2], t[3]` -/
def run : Nat → MState → List Entry
  | 0, _ => []
  | n + 1, s =>
    match minEntry s.queue with
    | none => []
    | some m => m :: run n (advance m.1 { s with queue := s.queue.erase m })

/-- everything still to be yielded -/
def content (s : MState) : List Aln := s.queue.map Prod.snd ++ s.its.flatten

/-- the merged stream of a list of per-file streams; the fuel is the number of records (`merge_perm` shows
    that nothing is cut off) -/
def merge (files : List (List Aln)) : List Entry :=
  run files.flatten.length (initState files)

/-! ### region clusters of `AlignmentCollector.process` -/

/-- the closed 0-based interval `(reference_start, reference_end - 1)` used by the storages -/
def alnIv (a : Aln) : Iv := (a.start, a.stop - 1)

/-- `process` over the merged stream; state = `none` (storage empty / just reset) or the running region and
    the stored alignments (most recent first).  Generic in the element type so that the same definition serves
    `(bam_index, alignment)` pairs and bare alignments. -/
def clustersGo {E : Type} (al : E → Aln) : Option (Iv × List E) → List E → List (Iv × List E)
  | none, [] => []
  | some (r, cur), [] => [(r, cur.reverse)]
  | none, a :: t => clustersGo al (some (alnIv (al a), [a])) t
  | some (r, cur), a :: t =>
    if overlaps r (alnIv (al a)) then
      clustersGo al (some ((min r.1 (al a).start, max r.2 ((al a).stop - 1)), a :: cur)) t
    else
      (r, cur.reverse) :: clustersGo al (some (alnIv (al a), [a])) t

def clusters {E : Type} (al : E → Aln) (l : List E) : List (Iv × List E) := clustersGo al none l

/-! ### what is forwarded to `process_alignments_in_region` -/

/-- pysam `fetch(chr, r.1, r.2 + 1)` on one coordinate-sorted file (trusted behaviour of pysam) -/
def fetch (r : Iv) (f : List Aln) : List Aln :=
  f.filter (fun a => decide (a.start ≤ r.2) && decide (r.1 ≤ a.stop - 1))

/-- `coverage_dict[b]` after all alignments of a cluster were added (`add_alignment`) -/
def cov (c : List Aln) (b : Int) : Nat :=
  c.countP (fun a => decide (a.start / ap_COVERAGE_BIN ≤ b) && decide (b ≤ (a.stop - 1) / ap_COVERAGE_BIN))

/-- `split_coverage_regions` is a parameter (owned by C05): a function of the region, the coverage dictionary
    and the read count.  `forward_alignments` uses the cluster region itself when one region comes back. -/
abbrev SplitFn := Iv → (Int → Nat) → Nat → List Iv

def subRegions (split : SplitFn) (r : Iv) (c : List Aln) : List Iv :=
  let s := split r (cov c) c.length
  if s.length = 1 then [r] else s

/-- the per-alignment part of `process_genic` / `process_intergenic`: a record or nothing (filtered), as a
    function of the region (gene info, corrector), the bam index (read group by file name) and the alignment -/
abbrev Assign (R : Type) := Iv → Nat → Aln → Option R

/-- default mode: `BAMAlignmentStorage.get_alignments(region)` re-fetches the region from every file and merges -/
def regionRecords {R : Type} (assign : Assign R) (files : List (List Aln)) (sub : Iv) : List R :=
  (merge (files.map (fetch sub))).filterMap (fun e => assign sub e.1 e.2)

/-- forwarded `(sub-region, [(bam_index, alignment)])` pairs, default mode -/
def forwarded (split : SplitFn) (files : List (List Aln)) : List (Iv × List Entry) :=
  (clusters Prod.snd (merge files)).flatMap (fun rc =>
    (subRegions split rc.1 (rc.2.map Prod.snd)).map (fun sub => (sub, merge (files.map (fetch sub)))))

def collect {R : Type} (split : SplitFn) (assign : Assign R) (files : List (List Aln)) : List R :=
  (clusters Prod.snd (merge files)).flatMap (fun rc =>
    (subRegions split rc.1 (rc.2.map Prod.snd)).flatMap (regionRecords assign files))

/-- `--high_memory`: `InMemoryAlignmentStorage.get_alignments`: the stored list itself for the whole region,
    otherwise the stored alignments overlapping the sub-region (the bin-index slice is C05's subject and is
    modelled here by what it selects) -/
def memAlignments (r : Iv) (c : List Entry) (sub : Iv) : List Entry :=
  if sub = r then c else c.filter (fun e => overlaps sub (alnIv e.2))

def forwardedMem (split : SplitFn) (files : List (List Aln)) : List (Iv × List Entry) :=
  (clusters Prod.snd (merge files)).flatMap (fun rc =>
    (subRegions split rc.1 (rc.2.map Prod.snd)).map (fun sub => (sub, memAlignments rc.1 rc.2 sub)))

def collectMem {R : Type} (split : SplitFn) (assign : Assign R) (files : List (List Aln)) : List R :=
  (clusters Prod.snd (merge files)).flatMap (fun rc =>
    (subRegions split rc.1 (rc.2.map Prod.snd)).flatMap (fun sub =>
      (memAlignments rc.1 rc.2 sub).filterMap (fun e => assign sub e.1 e.2)))

/-- additive table over records (`feature ↦ Σ weight`), the shape of the ungrouped count tables -/
def table {R F : Type} (w : R → F → Int) (recs : List R) (f : F) : Int := (recs.map (fun r => w r f)).sum

end IsoVerif.Model.C12
