/-
C03 — the exon-record part of the input annotation check (property C03, audit2-A F3):

  src/gtf2db.py   check_gtf_duplicates, the block `if feature_type == "exon":` (repaired tree): per (sequence, transcript id)
                  the list of (start, end) of the exon records seen so far;
                    * a record whose (start, end) is already in the list  -> warning "Duplicated exon …", gtf_correct = False,
                      the line is NOT copied into the corrected annotation (`continue`), the list is unchanged;
                    * a record that shares a position with a listed exon (`e[0] <= exon[1] and exon[0] <= e[1]`)
                                                                          -> warning "Exon … overlaps …", gtf_correct = False,
                      the line is copied and the exon is appended;
                    * otherwise the line is copied and the exon is appended.
                  The pinned code has no such block: every exon line is copied and `gtf_correct` is untouched
                  (`exonCheckOrig`).

Representation: the dict `transcript_exons` is not a field of the state — its entry for a key is the list of the KEPT
records with that key (`seenOf`), which is what the code maintains (`exons.append(exon)` runs exactly when the line is
copied).  Only records with integer coordinates are modelled (a record whose coordinates do not parse is copied and never
listed).  Core Lean only.
-/
import IsoVerif.Model.Gtf

namespace IsoVerif.Model.C03
open IsoVerif.Gen IsoVerif.Model

/-- one `exon` line of the input GTF: sequence, transcript id (after the renaming of duplicated ids), start, end -/
structure ExonRec where
  seq : Id
  tid : Id
  iv : Iv
deriving DecidableEq, Repr

/-- same key of `transcript_exons` -/
def sameTx (a b : ExonRec) : Bool := a.seq == b.seq && a.tid == b.tid

/-- `e[0] <= exon[1] and exon[0] <= e[1]` -/
def ovl (e x : Iv) : Bool := decide (e.1 ≤ x.2) && decide (x.1 ≤ e.2)

/-- `transcript_exons[(seq, tid)]` when the lines kept so far are `kept` -/
def seenOf (kept : List ExonRec) (r : ExonRec) : List Iv := (kept.filter (sameTx r)).map (·.iv)

/-- what the check says about one exon line -/
inductive ExonVerdict where
  | ok | dup | overlap
deriving DecidableEq, Repr

def exonVerdict (kept : List ExonRec) (r : ExonRec) : ExonVerdict :=
  if r.iv ∈ seenOf kept r then .dup
  else if (seenOf kept r).any (fun e => ovl e r.iv) then .overlap
  else .ok

/-- the loop over the exon lines: (`gtf_correct`, exon lines of the corrected annotation in file order) -/
def exonCheckFrom (kept : List ExonRec) (ok : Bool) : List ExonRec → Bool × List ExonRec
  | [] => (ok, kept)
  | r :: rs =>
    match exonVerdict kept r with
    | .dup => exonCheckFrom kept false rs
    | .overlap => exonCheckFrom (kept ++ [r]) false rs
    | .ok => exonCheckFrom (kept ++ [r]) ok rs

def exonCheck (l : List ExonRec) : Bool × List ExonRec := exonCheckFrom [] true l

/-- the verdict of every line, in file order (the warnings of the log) -/
def exonVerdictsFrom (kept : List ExonRec) : List ExonRec → List ExonVerdict
  | [] => []
  | r :: rs =>
    match exonVerdict kept r with
    | .dup => .dup :: exonVerdictsFrom kept rs
    | v => v :: exonVerdictsFrom (kept ++ [r]) rs

def exonVerdicts (l : List ExonRec) : List ExonVerdict := exonVerdictsFrom [] l

/-- the pinned code: no exon block -/
def exonCheckOrig (l : List ExonRec) : Bool × List ExonRec := (true, l)

/-- the exon records of transcript `(seq, tid)` in file order -/
def exonLinesOf (l : List ExonRec) (seq tid : Id) : List Iv :=
  (l.filter (fun r => r.seq == seq && r.tid == tid)).map (·.iv)

end IsoVerif.Model.C03
