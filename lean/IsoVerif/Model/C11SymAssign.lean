/-
C11 — the translation `x ↦ x + k` on the data of the assignment model (Model/Assign.lean, property C01), as executable
definitions (core Lean only; used by the theorems of Props/C11Assign.lean and, through Driver/C11Assign.lean, compared
with the harness's Python twins on every run).

What is a coordinate and what is not:
  * `Isoform.exons`, `IsoInfo.exons / introns / region`, `Gene.start / stop / introns / exons / splitExons`,
    `ReadProf.blocks / region / introns` are coordinates;
  * the four polyA / polyT positions are coordinates with the sentinel −1 = "not found" (`shiftPos` keeps it);
  * profiles (`intronProf`, `splitProf`, the two `ProfileResult`s) are lists of marks, profile ranges are INDEX ranges:
    unchanged;
  * an event's `isoRegion` / `readRegion` are index ranges (intron / exon numbers): unchanged; its `info` is a genomic
    POSITION for the polyA-site events (`correct_polya_site_*`, `alternative_polya_site_*`, `internal_polya_*`) and a
    LENGTH (`extra`) for the elongation / terminal-site-match events (0 for all other events): only the former moves.
-/
import IsoVerif.Model.Assign
import IsoVerif.Model.C11Symmetry

namespace IsoVerif.Model.C11
open IsoVerif.Gen IsoVerif.Model IsoVerif.Model.C01

def shiftIsoform (k : Int) (m : Isoform) : Isoform := { m with exons := shiftL k m.exons }

def shiftIsoInfo (k : Int) (I : IsoInfo) : IsoInfo :=
  { I with exons := shiftL k I.exons, introns := shiftL k I.introns, region := shiftIv k I.region }

def shiftGene (k : Int) (g : Gene) : Gene :=
  { start := g.start + k, stop := g.stop + k, introns := shiftL k g.introns, exons := shiftL k g.exons,
    splitExons := shiftL k g.splitExons, isos := g.isos.map (shiftIsoInfo k) }

def shiftPolyA (k : Int) (pa : PolyA) : PolyA :=
  { extA := shiftPos k pa.extA, extT := shiftPos k pa.extT, intA := shiftPos k pa.intA, intT := shiftPos k pa.intT }

def shiftReadProf (k : Int) (rp : ReadProf) : ReadProf :=
  { rp with blocks := shiftL k rp.blocks, region := shiftIv k rp.region, introns := shiftL k rp.introns,
            polya := shiftPolyA k rp.polya }

/-- the event types whose `info` is a genomic position -/
def isPosEvent (t : MatchEventSubtype) : Bool :=
  t = .correct_polya_site_left || t = .correct_polya_site_right ||
  t = .alternative_polya_site_left || t = .alternative_polya_site_right ||
  t = .internal_polya_left || t = .internal_polya_right

def shiftEvent (k : Int) (e : Event) : Event :=
  if isPosEvent e.ty then { e with info := shiftPos k e.info } else e

def shiftEvents (k : Int) (evs : List Event) : List Event := evs.map (shiftEvent k)

def shiftMatch (k : Int) (m : IsoMatch) : IsoMatch := { m with events := shiftEvents k m.events }

def shiftAssignment (k : Int) (a : Assignment) : Assignment := { a with isoMatches := a.isoMatches.map (shiftMatch k) }

/-- the comparator output (one event list per isoform id, `none` = it raises) of the shifted input -/
def shiftCj (k : Int) (cj : Nat → Option (List Event)) : Nat → Option (List Event) :=
  fun i => (cj i).map (shiftEvents k)

end IsoVerif.Model.C11
