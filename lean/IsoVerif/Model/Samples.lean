/-
C10 — experiments processed by one invocation.

Executable model of what one IsoQuant process carries from one experiment ("sample") to the next and of
how a sample is processed against that state:

* `ProcState`   – the long-lived state of the main process: the class-level containers / counters of the
                  generated inventory (`Gen.shared_state_inventory`), the fields of the `args` namespace that are
                  assigned while samples are processed (`Gen.args_fields_mutated`) and the fields of the
                  `DatasetProcessor` object that are mutated after `__init__` (`Gen.processor_fields_mutated`);
* `Wiring`      – *where* the source resets / derives that state.  It is computed from generated tables
                  (`wiringOfSource`), so that removing a reset in /repo changes the model that the theorems
                  are about;
* `processSample : Wiring → Config → ProcState → Exec → Sample → Outputs × ProcState`
                – `DatasetProcessor.process_sample`: technical-replica flag, alignment statistics, the polyA
                  requirement flags, the chromosome tasks of `construct_models_in_parallel` run either by the
                  main process (`--threads 1`, python `map`) or by a freshly forked pool whose workers take the
                  tasks in an arbitrary assignment (`ProcessPoolExecutor.map`, results in submission order);
* the known / novel isoform *gates* of `GraphBasedModelConstructor` that read the shared set and the flags
  (`construct_fl_isoforms`, `construct_monoexon_isoforms`, `construct_nonfl_isoforms`);
* `combineTable` – `src/stats.py: combine_table` (outer join of the per-experiment tables on the feature id).

Everything the unmodelled heuristics compute from the reads of a sample alone is *data* of the `Sample`
(candidate lists, counts); the model fixes only how long-lived state enters and leaves.
Core Lean only.
-/
import IsoVerif.Gen.Strategies
import IsoVerif.Gen.SharedState
import IsoVerif.Gen.SampleState
import IsoVerif.Gen.SampleNames

namespace IsoVerif.Model.C10
open IsoVerif.Gen

/-! ## Wiring: reset / derivation sites, read off the generated tables -/

structure Wiring where
  /-- `GraphBasedModelConstructor.detected_known_isoforms` is cleared at the top of every chromosome task -/
  resetDetectedPerTask : Bool
  /-- `require_monointronic_polya` is derived from a preset copy taken in `__init__`,
      not from the value the previous sample left in `args` -/
  monoIntronicFromPreset : Bool
  /-- the same for `require_monoexonic_polya` -/
  monoExonicFromPreset : Bool
  /-- `DatasetProcessor.alignment_stat_counter` is re-initialised by `process_sample` -/
  statsResetPerSample : Bool
  deriving DecidableEq, Repr

def tableGet {α} (k : String) (t : List (String × List α)) : List α :=
  match t.lookup k with
  | some l => l
  | none => []

/-- the right-hand side of `self.args.<flag> = …` in `process_sample` reads the preset copy `self.<copy>`
    (taken from `args.<flag>` in `__init__`, never assigned afterwards) and not `args.<flag>` itself -/
def flagFromPreset (flag copy : String) : Bool :=
  let deps := tableGet flag process_sample_args_assignments
  deps.contains ("self", copy) && !deps.contains ("args", flag)
    && processor_preset_copies.contains (copy, flag) && !processor_fields_mutated.contains copy

def wiringOfSource : Wiring where
  resetDetectedPerTask :=
    (tableGet "construct_models_in_parallel" chr_task_resets).contains "GraphBasedModelConstructor.detected_known_isoforms"
  monoIntronicFromPreset := flagFromPreset "require_monointronic_polya" "preset_require_monointronic_polya"
  monoExonicFromPreset := flagFromPreset "require_monoexonic_polya" "preset_require_monoexonic_polya"
  statsResetPerSample := processor_fields_reset_per_sample.contains "alignment_stat_counter"

/-- the tree after the three C10 fix commits -/
def wiringFixed : Wiring := ⟨true, true, true, true⟩
/-- the pinned tree (nothing reset) -/
def wiringPinned : Wiring := ⟨false, false, false, false⟩

/-! ## Configuration, flags, state -/

/-- `PolyAUsageStrategies` (src/dataset_processor.py) -/
inductive PolyAUsage where
  | auto | never | always
  deriving DecidableEq, Repr

/-- `set_polya_requirement_strategy` -/
def setPolyaRequirementStrategy (flag : Bool) : PolyAUsage → Bool
  | .auto => flag
  | .never => false
  | .always => true

/-- what `isoquant.py` fixes before the `DatasetProcessor` exists and nothing assigns afterwards -/
structure Config where
  presetMonoIntronic : Bool      -- strategy.require_monointronic_polya
  presetMonoExonic : Bool        -- strategy.require_monoexonic_polya
  minKnownCount : Nat            -- strategy.min_known_count
  minNovelCount : Nat            -- strategy.min_novel_count
  flOnly : Bool                  -- strategy.fl_only
  polya : PolyAUsage             -- --polya_requirement
  readGroupFileName : Bool       -- args.read_group == "file_name"
  grouped : Bool                 -- args.read_group is set (grouped tables are written)
  deriving DecidableEq, Repr

def Config.ofPreset (p : ConstructionPreset) (polya : PolyAUsage) (fileName grouped : Bool) : Config :=
  ⟨p.require_monointronic_polya, p.require_monoexonic_polya, p.min_known_count.toNat, p.min_novel_count.toNat,
   p.fl_only, polya, fileName, grouped⟩

/-- the four `args` fields that `process_sample` assigns -/
structure Flags where
  requiresPolya : Bool     -- args.requires_polya_for_construction
  monoIntronic : Bool      -- args.require_monointronic_polya
  monoExonic : Bool        -- args.require_monoexonic_polya
  techReplicas : Bool      -- args.use_technical_replicas
  deriving DecidableEq, Repr

structure ProcState where
  detected : List String      -- GraphBasedModelConstructor.detected_known_isoforms
  assignmentId : Nat          -- ReadAssignment.assignment_id_generator.value
  featureId : Nat             -- FeatureInfo.feature_id_counter.value
  duplicates : Nat            -- MultimapResolver.duplicate_counter
  flags : Flags               -- mutated args fields
  unaligned : Nat             -- DatasetProcessor.alignment_stat_counter[unaligned]
  aligned : Nat               -- … the other entries of alignment_stat_counter, summed
  readGroups : List String    -- DatasetProcessor.all_read_groups
  deriving DecidableEq, Repr

/-- state of a fresh process after `set_additional_params` and `DatasetProcessor.__init__` -/
def initState (cfg : Config) : ProcState :=
  { detected := [], assignmentId := 0, featureId := 0, duplicates := 0,
    flags := ⟨false, cfg.presetMonoIntronic, cfg.presetMonoExonic, cfg.readGroupFileName⟩,
    unaligned := 0, aligned := 0, readGroups := [] }

/-! ## The gates of GraphBasedModelConstructor that read long-lived state -/

/-- one FL path of `construct_fl_isoforms`, in the order the code visits them -/
structure FlCand where
  ref : Option String      -- reference isoform the path is matched to (`is_matching_assignment`)
  knownChain : Bool        -- intron chain ∈ known_isoforms_in_graph (then an unmatched path is dropped)
  count : Nat              -- reads supporting the path
  label : String           -- identifies the novel transcript in the output
  twoExons : Bool          -- len(novel_exons) == 2
  polyaSite : Bool         -- path starts in a polyT / ends in a polyA vertex
  cleanStranded : Bool     -- strand_detector.get_clean_strand(path) ≠ '.'
  strandOk : Bool          -- passes the report_canonical_strategy gate
  groups : Nat             -- distinct read groups among the supporting reads
  deriving DecidableEq, Repr

/-- one entry of `mono_exon_isoform_reads` (`construct_monoexon_isoforms`) -/
structure MonoCand where
  iso : String
  count : Nat
  coverageOk : Bool        -- coverage ≥ min_mono_exon_coverage
  polyaSupport : Nat
  deriving DecidableEq, Repr

/-- one entry of `spliced_isoform_reads` (`construct_nonfl_isoforms`); the terminal supports depend on
    `requires_polya_for_construction` (polyA-confirmed ends vs. ends within `apa_delta`) -/
structure NonflCand where
  iso : String
  count : Nat
  inGraph : Bool           -- iso ∈ known_isoforms_in_graph_ids
  minus : Bool             -- isoform strand '-'
  leftPos : Nat            -- reads starting within apa_delta of the isoform start
  leftPolya : Nat          -- reads with a confirmed polyT site on the left
  rightPos : Nat
  rightPolya : Nat
  deriving DecidableEq, Repr

/-- what `GraphBasedModelConstructor.process` is given for one gene cluster -/
structure GeneData where
  fl : List FlCand
  mono : List MonoCand
  nonfl : List NonflCand
  deriving DecidableEq, Repr

/-- gate accumulator: transcript ids appended to `transcript_model_storage` (reversed) and the shared set -/
abbrev Acc := List String × List String

/-- `construct_fl_isoforms`, one path -/
def flStep (cfg : Config) (fl : Flags) (acc : Acc) (c : FlCand) : Acc :=
  match c.ref with
  | some r =>
    if acc.2.contains r then acc                                   -- already detected: pass
    else if c.count < cfg.minKnownCount then acc                   -- low coverage: pass
    else (r :: acc.1, r :: acc.2)                                  -- report + detected.add
  | none =>
    if c.knownChain then acc                                       -- `continue`
    else if c.count < cfg.minNovelCount then acc
    else if c.twoExons && ((fl.monoIntronic && !c.polyaSite) || !c.cleanStranded) then acc
    else if !c.strandOk then acc
    else if fl.techReplicas && c.groups ≤ 1 then acc               -- technical replicas check
    else (c.label :: acc.1, acc.2)

/-- `construct_monoexon_isoforms`, one isoform -/
def monoStep (cfg : Config) (fl : Flags) (acc : Acc) (c : MonoCand) : Acc :=
  if c.count < cfg.minKnownCount || !c.coverageOk || (fl.monoExonic && c.polyaSupport == 0) then acc
  else if acc.2.contains c.iso then acc
  else (c.iso :: acc.1, c.iso :: acc.2)

def NonflCand.leftSupport (fl : Flags) (c : NonflCand) : Nat :=
  if fl.requiresPolya && c.minus then c.leftPolya else c.leftPos
def NonflCand.rightSupport (fl : Flags) (c : NonflCand) : Nat :=
  if fl.requiresPolya && !c.minus then c.rightPolya else c.rightPos

/-- `construct_nonfl_isoforms`, one isoform -/
def nonflStep (cfg : Config) (fl : Flags) (acc : Acc) (c : NonflCand) : Acc :=
  if acc.2.contains c.iso then acc
  else if !c.inGraph then acc
  else if c.count < cfg.minKnownCount || c.leftSupport fl < 1 || c.rightSupport fl < 1 then acc
  else (c.iso :: acc.1, c.iso :: acc.2)

/-- `GraphBasedModelConstructor.process` as far as the shared set and the flags are concerned:
    FL paths, then known mono-exon isoforms, then (unless fl_only) known non-FL isoforms.
    Returns the transcript ids reported for this gene (in order) and the shared set afterwards. -/
def geneStep (cfg : Config) (fl : Flags) (detected : List String) (g : GeneData) : List String × List String :=
  let a1 := g.fl.foldl (flStep cfg fl) ([], detected)
  let a2 := g.mono.foldl (monoStep cfg fl) a1
  let a3 := if cfg.flOnly then a2 else g.nonfl.foldl (nonflStep cfg fl) a2
  (a3.1.reverse, a3.2)

/-! ## Chromosome tasks, processes, pools -/

structure ChrData where
  name : String
  assignments : Nat        -- ReadAssignment ids drawn by the process that handles this chromosome (both phases)
  features : Nat           -- FeatureInfo ids drawn while its genes are loaded (both phases)
  aligned : Nat            -- alignment records counted by the collector
  genes : List GeneData
  deriving DecidableEq, Repr

/-- output of one chromosome task: transcripts reported per gene cluster -/
abbrev ChrOut := List (List String)

def genesRun (cfg : Config) (fl : Flags) : List String → List GeneData → ChrOut × List String
  | d, [] => ([], d)
  | d, g :: gs =>
    let r := geneStep cfg fl d g
    let rest := genesRun cfg fl r.2 gs
    (r.1 :: rest.1, rest.2)

/-- `construct_models_in_parallel` for one chromosome, executed by a process whose class-level set is `d` -/
def chrTask (w : Wiring) (cfg : Config) (fl : Flags) (d : List String) (c : ChrData) : ChrOut × List String :=
  genesRun cfg fl (if w.resetDetectedPerTask then [] else d) c.genes

/-- python `map`: all tasks in the calling process, state threaded through -/
def runSeq (w : Wiring) (cfg : Config) (fl : Flags) : List String → List ChrData → List ChrOut × List String
  | d, [] => ([], d)
  | d, c :: cs =>
    let r := chrTask w cfg fl d c
    let rest := runSeq w cfg fl r.2 cs
    (r.1 :: rest.1, rest.2)

/-- state of worker `k` of a pool: what it was left with by its previous task, or the forked copy `d0` -/
def workerState (d0 : List String) (ws : List (Nat × List String)) (k : Nat) : List String :=
  match ws.lookup k with
  | some d => d
  | none => d0

/-- `ProcessPoolExecutor.map`: task `i` runs on worker `assign[i]` (worker 0 when the assignment is too short);
    every worker starts as a fork of the main process (`d0`); results come back in submission order and the
    workers' state is lost -/
def runPool (w : Wiring) (cfg : Config) (fl : Flags) (d0 : List String) :
    List (Nat × List String) → List Nat → List ChrData → List ChrOut
  | _, _, [] => []
  | ws, assign, c :: cs =>
    let k := assign.headD 0
    let r := chrTask w cfg fl (workerState d0 ws k) c
    r.1 :: runPool w cfg fl d0 ((k, r.2) :: ws) assign.tail cs

/-- how the tasks of one sample are executed -/
inductive Exec where
  | single                          -- --threads 1
  | pool (assign : List Nat)        -- --threads > 1 with this task → worker assignment
  deriving DecidableEq, Repr

/-! ## One sample -/

structure Sample where
  name : String
  files : Nat              -- libraries (BAM files) of the experiment
  unaligned : Nat          -- unmapped records of its BAM files
  total : Nat              -- assignments used for analysis
  polya : Nat              -- … with a polyA tail
  groups : List String     -- read groups found while collecting
  duplicates : Nat         -- duplicated records met by the multimapper resolver
  chroms : List ChrData    -- in `get_chr_list` order
  deriving DecidableEq, Repr

/-- what is observable in `<out>/<experiment>/` (and the log) about the sample -/
structure Outputs where
  flags : Flags                 -- "Transcript construction options" / gates
  notAligned : Nat              -- `__not_aligned` line of the count tables
  transcripts : List ChrOut     -- transcript models per chromosome task, per gene cluster
  readGroups : List String      -- columns of the grouped tables
  groupedTables : Bool          -- grouped tables are written
  deriving DecidableEq, Repr

/-- `polya_fraction >= args.polya_percentage_threshold`; the code divides floats, the model compares
    `1000·polya ≥ permille·total` with the generated threshold (equal for counts below 10^12) and mirrors the
    `total > 0` guard (`polya_fraction = 0.0` otherwise; the threshold is positive) -/
def polyaRich (s : Sample) : Bool :=
  if s.total > 0 then polya_percentage_threshold_permille * s.total ≤ 1000 * s.polya
  else polya_percentage_threshold_permille == 0

/-- the three polyA flags as `process_sample` assigns them; `prev` is what the previous sample left in `args` -/
def deriveFlags (w : Wiring) (cfg : Config) (prev : Flags) (s : Sample) : Flags :=
  let req := setPolyaRequirementStrategy (polyaRich s) cfg.polya
  let srcI := if w.monoIntronicFromPreset then cfg.presetMonoIntronic else prev.monoIntronic
  let srcE := if w.monoExonicFromPreset then cfg.presetMonoExonic else prev.monoExonic
  { requiresPolya := req,
    monoIntronic := setPolyaRequirementStrategy (srcI || req) cfg.polya,
    monoExonic := setPolyaRequirementStrategy (srcE || req) cfg.polya,
    techReplicas := cfg.readGroupFileName && s.files > 1 }

def sumBy {α} (f : α → Nat) : List α → Nat
  | [] => 0
  | a :: as => f a + sumBy f as

/-- `DatasetProcessor.process_sample` -/
def processSample (w : Wiring) (cfg : Config) (σ : ProcState) (e : Exec) (s : Sample) : Outputs × ProcState :=
  let fl := deriveFlags w cfg σ.flags s
  let un0 := if w.statsResetPerSample then 0 else σ.unaligned
  let al0 := if w.statsResetPerSample then 0 else σ.aligned
  let un := un0 + s.unaligned
  let al := al0 + sumBy ChrData.aligned s.chroms
  match e with
  | .single =>
    let r := runSeq w cfg fl σ.detected s.chroms
    ({ flags := fl, notAligned := un, transcripts := r.1, readGroups := s.groups, groupedTables := cfg.grouped },
     { detected := r.2,
       assignmentId := σ.assignmentId + sumBy ChrData.assignments s.chroms,
       featureId := σ.featureId + sumBy ChrData.features s.chroms,
       duplicates := σ.duplicates + s.duplicates,
       flags := fl, unaligned := un, aligned := al, readGroups := s.groups })
  | .pool assign =>
    let outs := runPool w cfg fl σ.detected [] assign s.chroms
    ({ flags := fl, notAligned := un, transcripts := outs, readGroups := s.groups, groupedTables := cfg.grouped },
     { detected := σ.detected,                   -- the workers' copies die with the pool
       assignmentId := σ.assignmentId,
       featureId := σ.featureId,
       duplicates := σ.duplicates + s.duplicates, -- resolve_multimappers runs in the main process
       flags := fl, unaligned := un, aligned := al, readGroups := s.groups })

/-- `DatasetProcessor.process_all_samples`: the samples of one invocation, in file order -/
def runHistory (w : Wiring) (cfg : Config) : ProcState → List (Exec × Sample) → List Outputs × ProcState
  | σ, [] => ([], σ)
  | σ, (e, s) :: rest =>
    let r := processSample w cfg σ e s
    let t := runHistory w cfg r.2 rest
    (r.1 :: t.1, t.2)

/-! ## Assignment ids: the one place where values of a process-wide counter are compared

`ReadAssignment.assignment_id_generator` numbers the read assignments a process creates.  The ids are written
to the per-chromosome dump and, for multimapped reads, to the per-chromosome resolver file; when the chromosome
is loaded again (`ReadAssignmentLoader.get_next`) a record looks for the resolver entry with *its* id and
chromosome.  The counter value a chromosome starts from depends on everything the process did before. -/

/-- a collected read assignment of the chromosome: read id, "is in the resolver file", resolved verdict -/
structure Rec where
  readId : String
  multi : Bool
  verdict : Nat
  deriving DecidableEq, Repr

/-- an entry of a resolver (`_multimappers_`) file -/
structure Entry where
  readId : String
  id : Nat
  chr : String
  verdict : Nat
  deriving DecidableEq, Repr

inductive LoadResult where
  | untouched                 -- read id not in the chromosome's resolver dictionary
  | incomplete                -- in the dictionary but no entry with this id: dropped with a warning
  | resolved (verdict : Nat)  -- types taken from the entry (a `suspended` verdict drops the record)
  deriving DecidableEq, Repr

/-- entries written for the records of chromosome `c` when the collecting process numbers them from `k` -/
def entriesFrom (c : String) : Nat → List Rec → List Entry
  | _, [] => []
  | k, r :: rs =>
    if r.multi then ⟨r.readId, k, c, r.verdict⟩ :: entriesFrom c (k + 1) rs else entriesFrom c (k + 1) rs

/-- `for a in dict[read_id]: if a.assignment_id == id and a.chr_id == chr: resolved = a` (last match wins) -/
def lookupLast (c : String) (es : List Entry) (rid : String) (id : Nat) : Option Nat :=
  es.foldl (fun acc e => if e.readId == rid && e.id == id && e.chr == c then some e.verdict else acc) none

def loadFrom (c : String) (es : List Entry) : Nat → List Rec → List LoadResult
  | _, [] => []
  | k, r :: rs =>
    (if es.any (fun e => e.readId == r.readId) then
       (match lookupLast c es r.readId k with
        | some v => LoadResult.resolved v
        | none => LoadResult.incomplete)
     else LoadResult.untouched) :: loadFrom c es (k + 1) rs

/-- loading chromosome `c` whose records were numbered from `base`; `foreign` = entries of other chromosomes
    that happen to be in the file (with a pool two workers may hand out the same numbers);
    `construct_models_in_parallel` keeps the entries with `a.chr_id == chr_id` -/
def loadChr (c : String) (base : Nat) (recs : List Rec) (foreign : List Entry) : List LoadResult :=
  loadFrom c ((foreign ++ entriesFrom c base recs).filter (fun e => e.chr == c)) base recs

/-! ## Configuration derived from *all* samples (isoquant.py: set_data_dependent_options) -/

/-- `--read_group`: not given, `file_name`, or another grouping -/
inductive ReadGroupOpt where
  | unset | fileName | other
  deriving DecidableEq, Repr

def hasReplicas (samples : List Sample) : Bool := samples.any (fun s => s.files > 1)

/-- `if args.read_group is None and args.input_data.has_replicas(): args.read_group = "file_name"` -/
def effectiveReadGroup (rg : ReadGroupOpt) (samples : List Sample) : ReadGroupOpt :=
  match rg with
  | .unset => if hasReplicas samples then .fileName else .unset
  | x => x

def Config.withReadGroup (cfg : Config) (rg : ReadGroupOpt) : Config :=
  { cfg with readGroupFileName := rg == .fileName, grouped := rg != .unset }

/-- one invocation: configuration from the command line and *all* its samples, then the samples in order -/
def runInvocation (w : Wiring) (base : Config) (rg : ReadGroupOpt) (hist : List (Exec × Sample)) : List Outputs :=
  let cfg := base.withReadGroup (effectiveReadGroup rg (hist.map Prod.snd))
  (runHistory w cfg (initState cfg) hist).1

/-! ## Parsing the experiment description (src/input_data_storage.py)

`InputDataStorage.get_samples_from_yaml` / `get_samples_from_file` turn the entries of a YAML / list file into
one `SampleData` per experiment.  The parsers are loops with locals that survive from one entry to the next
(`experiment_names`, `current_index`, `readable_names_dict`, `current_sample…`), so "an experiment gets exactly
the fields of its own entry" is a statement about those loops. -/

/-- a long-read file as the parser sees it: the normalised path and the label derived from the file name
    (`os.path.splitext(os.path.basename(fname))[0]`, a function of the path alone) -/
structure InFile where
  path : String
  stem : String
  deriving DecidableEq, Repr

/-- one experiment entry of the YAML list (after the `data format` entry); `none` = key absent -/
structure YamlEntry where
  name : Option String
  files : Option (List InFile)       -- 'long read files'
  labels : Option (List String)      -- 'labels'
  illumina : Option (List String)    -- 'illumina bam'
  deriving DecidableEq, Repr

/-- what `SampleData` is built from -/
structure ParsedSample where
  name : String
  libs : List (List String)               -- file_list (a library = a list of files)
  readable : List (String × String)       -- readable_names_dict[name] in insertion order: file → label
  illumina : Option (List String)
  deriving DecidableEq, Repr

abbrev NameDict := List (String × List (String × String))

def dictGet (d : NameDict) (k : String) : List (String × String) :=
  match d.lookup k with
  | some l => l
  | none => []

def dictSet (d : NameDict) (k : String) (v : List (String × String)) : NameDict :=
  if d.any (fun p => p.1 == k) then d.map (fun p => if p.1 == k then (k, v) else p) else d ++ [(k, v)]

/-- the loop over the files of one entry: `if fname in readable_names_dict[name]: exit(-2)`, else register the label -/
def addFiles : List (String × String) → List (String × String) → Option (List (String × String))
  | cur, [] => some cur
  | cur, (path, label) :: rest =>
    if cur.any (fun p => p.1 == path) then none else addFiles (cur ++ [(path, label)]) rest

/-- locals of the parser loops -/
structure ParseSt where
  names : List String                                                    -- experiment_names
  index : Nat                                                            -- current_index
  dict : NameDict                                                        -- readable_names_dict
  acc : List (String × List (List String) × Option (List String))        -- sample_files / illumina_bam, zipped
  deriving DecidableEq, Repr

def ParseSt.init : ParseSt := ⟨[], 0, [], []⟩

/-- (path, label) pairs of an entry; `none` = the number of labels differs from the number of files -/
def labelled (fs : List InFile) : Option (List String) → Option (List (String × String))
  | none => some (fs.map (fun f => (f.path, f.stem)))
  | some ls => if ls.length != fs.length then none else some ((fs.map InFile.path).zip ls)

/-- Which test the parser applies before it renames a duplicate experiment name to `<prefix><position>`
    (`new_sample_name`), once the name was found in `experiment_names`:
    * `recheck = false` – `if current_sample_name == new_sample_name: exit(-1)` (the tree before the repair of audit
      finding G4: the generated name is compared with the duplicate only);
    * `recheck = true`  – `if new_sample_name in experiment_names: exit(-1)` (the generated name must be free; this
      includes the equality, because the duplicate itself is in `experiment_names`).
    `renameRuleOfSource` reads, per parser, which of the two the current source has (`Gen.rename_exit_test`). -/
def renameBlocked (recheck : Bool) (names : List String) (nm0 auto : String) : Bool :=
  if recheck then names.contains auto else nm0 == auto

/-- (YAML parser, list-file parser) -/
structure RenameRule where
  yaml : Bool
  list : Bool
  deriving DecidableEq, Repr

def renameRuleOfSource : RenameRule :=
  ⟨Gen.rename_exit_test.lookup "get_samples_from_yaml" == some "taken",
   Gen.rename_exit_test.lookup "get_samples_from_file" == some "taken"⟩

/-- the repaired tree -/
def renameRuleFixed : RenameRule := ⟨true, true⟩
/-- the tree before the repair (audit finding G4) -/
def renameRuleOrig : RenameRule := ⟨false, false⟩

/-- one iteration of `for sample in con[1:]`; `none` = the parser exits with an error -/
def yamlStepR (rc : Bool) (pfx : String) (st : ParseSt) (e : YamlEntry) : Option ParseSt :=
  let auto := pfx ++ toString st.index
  let nm0 := match e.name with
    | some n => n
    | none => auto
  if st.names.contains nm0 && renameBlocked rc st.names nm0 auto then none  -- "Change experiment name … and rerun"
  else
    let nm := if st.names.contains nm0 then auto else nm0                 -- duplicate folder prefix: renamed
    match e.files with
    | none => none                                                        -- "does not contain any files"
    | some fs =>
      match labelled fs e.labels with
      | none => none
      | some pairs =>
        match addFiles (dictGet st.dict nm) pairs with
        | none => none                                                    -- file used twice in one experiment
        | some d' =>
          if fs.isEmpty then some { st with index := st.index + 1, dict := dictSet st.dict nm d' }
          else some { names := st.names ++ [nm], index := st.index + 1, dict := dictSet st.dict nm d',
                      acc := st.acc ++ [(nm, fs.map (fun f => [f.path]), e.illumina)] }

def yamlLoopR (rc : Bool) (pfx : String) : ParseSt → List YamlEntry → Option ParseSt
  | st, [] => some st
  | st, e :: es =>
    match yamlStepR rc pfx st e with
    | none => none
    | some st' => yamlLoopR rc pfx st' es

/-- `InputDataStorage.__init__`: one `SampleData` per parsed experiment, labels looked up by the final name -/
def finishParse (st : ParseSt) : List ParsedSample :=
  st.acc.map (fun t => ⟨t.1, t.2.1, dictGet st.dict t.1, t.2.2⟩)

/-- `get_samples_from_yaml` (+ the construction of the samples) under a given rename test -/
def parseYamlR (rc : Bool) (pfx : String) (entries : List YamlEntry) : Option (List ParsedSample) :=
  (yamlLoopR rc pfx ParseSt.init entries).map finishParse

/-- `get_samples_from_yaml` of the current source -/
def parseYaml (pfx : String) (entries : List YamlEntry) : Option (List ParsedSample) :=
  parseYamlR renameRuleOfSource.yaml pfx entries

/-- … of the tree before the repair of G4 -/
def parseYamlOrig (pfx : String) (entries : List YamlEntry) : Option (List ParsedSample) :=
  parseYamlR false pfx entries

/-- what an entry with the explicit name `n` yields *by itself*: `none` = error, `some none` = no files (skipped) -/
def parseOwnYaml (e : YamlEntry) (n : String) : Option (Option ParsedSample) :=
  match e.files with
  | none => none
  | some fs =>
    match labelled fs e.labels with
    | none => none
    | some pairs =>
      match addFiles [] pairs with
      | none => none
      | some d => if fs.isEmpty then some none else some (some ⟨n, fs.map (fun f => [f.path]), d, e.illumina⟩)

/-- every entry parsed by itself, results concatenated in file order (`none` as soon as one entry is an error) -/
def parseEachOwn : List (YamlEntry × String) → Option (List ParsedSample)
  | [] => some []
  | (e, n) :: rest =>
    match parseOwnYaml e n with
    | none => none
    | some r =>
      match parseEachOwn rest with
      | none => none
      | some rs => some (r.toList ++ rs)

/-! ### list files (`--bam_list` / `--fastq_list`) -/

/-- a line of a list file -/
inductive ListLine where
  | header (name : String)                                    -- `#name`, or a blank line (name = "")
  | files (fs : List InFile) (label : Option String)          -- `file [file …][:label]`
  deriving DecidableEq, Repr

structure ListSt where
  st : ParseSt
  cur : List (List String)          -- current_sample
  curName : String                  -- current_sample_name
  deriving DecidableEq, Repr

/-- `sample_files.append(current_sample)` … when the current sample has files -/
def ListSt.flush (s : ListSt) : ParseSt :=
  if s.cur.isEmpty then s.st
  else { s.st with names := s.st.names ++ [s.curName], acc := s.st.acc ++ [(s.curName, s.cur, none)] }

/-- `readable_name = vals[-1] if len(vals) > 1 else stem(files[0])`: one label for all files of the line -/
def lineLabel (fs : List InFile) : Option String → String
  | some l => l
  | none => match fs.head? with
    | some f => f.stem
    | none => ""

def listStepR (rc : Bool) (pfx : String) (s : ListSt) : ListLine → Option ListSt
  | .header nm =>
    let st := s.flush
    let auto := pfx ++ toString st.index
    let nm0 := if nm.isEmpty then auto else nm
    if st.names.contains nm0 && renameBlocked rc st.names nm0 auto then none
    else
      let nm1 := if st.names.contains nm0 then auto else nm0
      some { st := { st with index := st.index + 1 }, cur := [], curName := nm1 }
  | .files fs label =>
    match addFiles (dictGet s.st.dict s.curName) (fs.map (fun f => (f.path, lineLabel fs label))) with
    | none => none
    | some d' => some { s with st := { s.st with dict := dictSet s.st.dict s.curName d' },
                               cur := s.cur ++ [fs.map InFile.path] }

def listLoopR (rc : Bool) (pfx : String) : ListSt → List ListLine → Option ListSt
  | s, [] => some s
  | s, l :: ls =>
    match listStepR rc pfx s l with
    | none => none
    | some s' => listLoopR rc pfx s' ls

/-- `get_samples_from_file` (+ the construction of the samples); the first sample is called `pfx` unless the
    file starts with a header line -/
def parseListR (rc : Bool) (pfx : String) (lines : List ListLine) : Option (List ParsedSample) :=
  (listLoopR rc pfx ⟨ParseSt.init, [], pfx⟩ lines).map (fun s => finishParse s.flush)

/-- `get_samples_from_file` of the current source -/
def parseList (pfx : String) (lines : List ListLine) : Option (List ParsedSample) :=
  parseListR renameRuleOfSource.list pfx lines

/-- … of the tree before the repair of G4 -/
def parseListOrig (pfx : String) (lines : List ListLine) : Option (List ParsedSample) :=
  parseListR false pfx lines

def ListLine.isFiles : ListLine → Bool
  | .files _ _ => true
  | .header _ => false

/-- the file lines of one experiment parsed by themselves: labels registered so far, libraries so far -/
def blockOwn : List (String × String) → List (List String) → List ListLine →
    Option (List (String × String) × List (List String))
  | d, c, [] => some (d, c)
  | d, c, .files fs label :: rest =>
    match addFiles d (fs.map (fun f => (f.path, lineLabel fs label))) with
    | none => none
    | some d' => blockOwn d' (c ++ [fs.map InFile.path]) rest
  | _, _, .header _ :: _ => none

/-- a `#name` header with its file lines, by itself: `none` = error, `some none` = no files (skipped) -/
def ownBlock (n : String) (lines : List ListLine) : Option (Option ParsedSample) :=
  match blockOwn [] [] lines with
  | none => none
  | some (d, c) => if c.isEmpty then some none else some (some ⟨n, c, d, none⟩)

def parseEachOwnBlock : List (String × List ListLine) → Option (List ParsedSample)
  | [] => some []
  | (n, lines) :: rest =>
    match ownBlock n lines with
    | none => none
    | some r =>
      match parseEachOwnBlock rest with
      | none => none
      | some rs => some (r.toList ++ rs)

/-- the description file made of the blocks -/
def renderBlocks (blocks : List (String × List ListLine)) : List ListLine :=
  blocks.flatMap (fun b => ListLine.header b.1 :: b.2)

/-! ## combine_counts -/

/-- a per-experiment table: (feature id, value) rows in file order -/
abbrev Table := List (String × String)

def unionKeys : List String → List String → List String
  | acc, [] => acc
  | acc, k :: ks => if acc.contains k then unionKeys acc ks else unionKeys (acc ++ [k]) ks

/-- `transform_counts`: counts tables lose their last three lines (`__ambiguous`, `__no_feature`, `__not_aligned`) -/
def transformCounts (full : Bool) (t : Table) : Table :=
  if full then t else t.take (t.length - 3)

/-- `combine_table`: successive outer joins on `#feature_id`; a feature missing from an experiment has an empty
    cell (`none`).  Row order is not modelled beyond "first appearance" (compared as a map). -/
def combineTable (full : Bool) (ts : List (String × Table)) : List String × List (String × List (Option String)) :=
  let tabs := ts.map (fun p => transformCounts full p.2)
  let keys := tabs.foldl (fun acc t => unionKeys acc (t.map Prod.fst)) []
  ("#feature_id" :: ts.map Prod.fst, keys.map (fun k => (k, tabs.map (fun t => t.lookup k))))

end IsoVerif.Model.C10
