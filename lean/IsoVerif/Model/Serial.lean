/-
Hand-written executable model of the binary (de)serialisation of /repo (property C15).
Core Lean only.

  src/serialization.py        every write_* / read_*                       (section "primitives")
  src/isoform_assignment.py   MatchEvent, IsoformMatch, ReadAssignment, BasicReadAssignment:
                              serialize / deserialize / deserialize_from_read_assignment / BasicReadAssignment.__init__
  src/polya_finder.py         PolyAInfo (four sign-bit ints inside ReadAssignment)
  src/gene_info.py            GeneInfo.serialize / the part of GeneInfo.deserialize that reads the stream
  src/assignment_io.py        TmpFileAssignmentPrinter, NormalTmpFileAssignmentLoader, QuickTmpFileAssignmentLoader (+ the group loop of
                              ReadAssignmentLoader / BasicReadAssignmentLoader in src/dataset_processor.py)
  src/dataset_processor.py    <prefix>_multimappers_<chr> files (TERMINATION_INT), <prefix>_info file

Conventions
* A byte stream is `List UInt8`.  A writer returns `Option Bytes`; `none` = the real writer raises
  (OverflowError of `int.to_bytes`, a failed `assert`).  A statement sequence of writers is `seqW [..]`.
* A reader is `Rd α = StateT Bytes Option α` (the state is the unread rest of the stream); `none` = the real
  reader raises (ValueError of an Enum constructor / of read_dict, UnicodeDecodeError, IndexError).
  `inf.read(k)` NEVER raises: at end of file it returns fewer bytes and `int.from_bytes(b"")` is 0, and the
  model does exactly that (`readBytes` = take/drop), so the readers are total on truncated streams the same
  way the real ones are.
* Python `int` = `Int`; Python `str` (without lone surrogates, the only ones `str.encode` accepts) = `String`;
  a penalty (Python float) is the exact rational it denotes (`Rat`); the harness passes floats as exact fractions.
* Constants come from IsoVerif/Gen/Constants.lean (`ser_*`, `tmp_*`), enum values from IsoVerif/Gen/Enums.lean –
  both regenerated from /repo on every run.
-/
import IsoVerif.Gen.Constants
import IsoVerif.Gen.Enums
import IsoVerif.Model.Interval

namespace IsoVerif.Model.Serial
open IsoVerif.Gen IsoVerif.Model

abbrev Bytes := List UInt8

/-! ### big-endian integers -/

/-- `n.to_bytes(k, "big")` for a value known to fit (low `k` base-256 digits, most significant first) -/
def toBE : Nat → Nat → Bytes
  | 0, _ => []
  | k + 1, n => toBE k (n / 256) ++ [UInt8.ofNat (n % 256)]

/-- `int.from_bytes(bs, "big")`; total (`b""` gives 0) -/
def fromBE (bs : Bytes) : Nat := bs.foldl (fun acc b => acc * 256 + b.toNat) 0

/-- `v.to_bytes(k, BYTE_ORDER)`; `none` = OverflowError (negative value or value ≥ 256^k) -/
def intToBytes (k : Nat) (v : Int) : Option Bytes :=
  if 0 ≤ v ∧ v.toNat < 256 ^ k then some (toBE k v.toNat) else none

/-- statement sequence of writers: the bytes are concatenated, the first exception aborts -/
def seqW : List (Option Bytes) → Option Bytes
  | [] => some []
  | a :: l => do
    let x ← a
    let y ← seqW l
    pure (x ++ y)

/-! ### readers -/

abbrev Rd := StateT Bytes Option

/-- the real reader raises -/
def raise {α} : Rd α := fun _ => none

/-- `inf.read(k)` -/
def readBytes (k : Nat) : Rd Bytes := fun bs => some (bs.take k, bs.drop k)

/-- `int.from_bytes(inf.read(k), BYTE_ORDER)` -/
def readNat (k : Nat) : Rd Nat := do
  let b ← readBytes k
  pure (fromBE b)

/-- `read_int(inf, bytes_len)` -/
def readInt (k : Nat := ser_LONG_INT_BYTES) : Rd Int := do
  let n ← readNat k
  pure (n : Int)

/-- `write_int(val, outf, bytes_len)` -/
def writeInt (v : Int) (k : Nat := ser_LONG_INT_BYTES) : Option Bytes := intToBytes k v

def writeShortInt (v : Int) : Option Bytes := writeInt v ser_SHORT_INT_BYTES
def readShortInt : Rd Int := readInt ser_SHORT_INT_BYTES

/-! ### strings -/

/-- `bytearray(s, encoding="utf-8")` -/
def utf8 (s : String) : Bytes := s.toUTF8.data.toList

/-- `bytes.decode("utf-8")`; `none` = UnicodeDecodeError -/
def decodeUtf8 (bs : Bytes) : Option String := String.fromUTF8? ⟨bs.toArray⟩

/-- `write_string` (after fix 62ec0ea: the prefix is the number of encoded *bytes*) -/
def writeString (s : String) : Option Bytes :=
  seqW [intToBytes ser_STR_LEN_BYTES ((utf8 s).length : Nat), some (utf8 s)]

/-- `write_string` before the fix: the prefix is `len(s)`, the number of *characters* -/
def writeStringBuggy (s : String) : Option Bytes :=
  seqW [intToBytes ser_STR_LEN_BYTES (s.length : Nat), some (utf8 s)]

/-- `read_string` -/
def readString : Rd String := do
  let n ← readNat ser_STR_LEN_BYTES
  let b ← readBytes n
  match decodeUtf8 b with
  | some s => pure s
  | none => raise

/-- `write_string_or_none` (after the fix) -/
def writeStringOrNone : Option String → Option Bytes
  | none => intToBytes ser_STR_LEN_BYTES (ser_NONE_STR_LEN : Nat)
  | some s => seqW [intToBytes ser_STR_LEN_BYTES ((utf8 s).length : Nat), some (utf8 s)]

/-- `read_string_or_none` -/
def readStringOrNone : Rd (Option String) := do
  let n ← readNat ser_STR_LEN_BYTES
  if n = ser_NONE_STR_LEN then pure none
  else do
    let b ← readBytes n
    match decodeUtf8 b with
    | some s => pure (some s)
    | none => raise

/-! ### lists -/

/-- `for i in range(n): result.append(func(inf))` -/
def readN {α} (rd : Rd α) : Nat → Rd (List α)
  | 0 => pure []
  | n + 1 => do
    let x ← rd
    let xs ← readN rd n
    pure (x :: xs)

/-- `write_list(l, outf, func)` -/
def writeList {α} (l : List α) (f : α → Option Bytes) : Option Bytes :=
  seqW (writeInt (l.length : Nat) :: l.map f)

/-- `read_list(inf, func)` -/
def readList {α} (f : Rd α) : Rd (List α) := do
  let n ← readNat ser_LONG_INT_BYTES
  readN f n

/-- `write_list_of_pairs(l, outf, func)` -/
def writeListOfPairs (l : List (Int × Int)) (f : Int → Option Bytes) : Option Bytes :=
  seqW (writeInt (l.length : Nat) :: l.map (fun v => seqW [f v.1, f v.2]))

/-- `read_list_of_pairs(inf, func)` -/
def readListOfPairs (f : Rd Int) : Rd (List (Int × Int)) := do
  let n ← readNat ser_LONG_INT_BYTES
  readN (do let a ← f; let b ← f; pure (a, b)) n

/-! ### bool arrays -/

/-- the loop `for i, val in enumerate(bool_arr): if val: byte_val |= 1 << i` (index `i`, accumulator `acc`) -/
def boolBits : List Bool → Nat → Nat → Nat
  | [], _, acc => acc
  | b :: t, i, acc => boolBits t (i + 1) (if b then acc ||| (1 <<< i) else acc)

/-- `write_bool_array`; `none` = `assert len(bool_arr) <= 8` fails -/
def writeBoolArray (l : List Bool) : Option Bytes :=
  if l.length ≤ 8 then intToBytes 1 (boolBits l 0 0 : Nat) else none

/-- `read_bool_array(inf, arr_size)` -/
def readBoolArray (n : Nat) : Rd (List Bool) := do
  let v ← readNat 1
  pure ((List.range n).map (fun i => v &&& (1 <<< i) != 0))

/-! ### sign-bit ints -/

/-- `write_int_neg`; `none` = a failed `assert val & 1 << 31 == 0` or OverflowError -/
def writeIntNeg (v : Int) : Option Bytes :=
  if v < 0 then
    let a := v.natAbs
    if a &&& (1 <<< 31) ≠ 0 then none
    else intToBytes ser_LONG_INT_BYTES ((a ||| (1 <<< 31) : Nat) : Int)
  else
    if v.toNat &&& (1 <<< 31) ≠ 0 then none
    else intToBytes ser_LONG_INT_BYTES v

/-- `read_int_neg` -/
def readIntNeg : Rd Int := do
  let v ← readNat ser_LONG_INT_BYTES
  if v &&& (1 <<< 31) ≠ 0 then pure (-((v &&& ((1 <<< 31) - 1) : Nat) : Int))
  else pure (v : Int)

/-! ### dicts (keys: str; values: int | str | pair of ints) -/

inductive DictVal where
  | int (v : Int)
  | str (s : String)
  | pair (a b : Int)
  deriving DecidableEq, Repr

/-- a Python dict as its insertion-ordered item list (keys pairwise distinct for a real dict) -/
abbrev Dict := List (String × DictVal)

/-- `d[k] = v`: replaces the value in place when the key exists, appends otherwise -/
def dictSet : Dict → String → DictVal → Dict
  | [], k, v => [(k, v)]
  | (k', v') :: t, k, v => if k' = k then (k', v) :: t else (k', v') :: dictSet t k v

def writeDictEntry (kv : String × DictVal) : Option Bytes :=
  match kv.2 with
  | .int v => seqW [writeString kv.1, intToBytes ser_DICT_TYPE_LEN (ser_DICT_INT_TYPE : Nat), writeIntNeg v]
  | .str s => seqW [writeString kv.1, intToBytes ser_DICT_TYPE_LEN (ser_DICT_STR_TYPE : Nat), writeString s]
  | .pair a b => seqW [writeString kv.1, intToBytes ser_DICT_TYPE_LEN (ser_DICT_INT_PAIR_TYPE : Nat),
                       writeIntNeg a, writeIntNeg b]

/-- `write_dict` -/
def writeDict (d : Dict) : Option Bytes :=
  seqW (writeInt (d.length : Nat) :: d.map writeDictEntry)

/-- one iteration of the loop of `read_dict` (after fix 93f9737: int values are read with `read_int_neg`) -/
def readDictEntry : Rd (String × DictVal) := do
  let k ← readString
  let t ← readNat ser_DICT_TYPE_LEN
  if t = ser_DICT_INT_TYPE then do
    let v ← readIntNeg
    pure (k, .int v)
  else if t = ser_DICT_STR_TYPE then do
    let s ← readString
    pure (k, .str s)
  else if t = ser_DICT_INT_PAIR_TYPE then do
    let a ← readIntNeg
    let b ← readIntNeg
    pure (k, .pair a b)
  else raise

/-- the same iteration before the fix: int values are read with `read_int` -/
def readDictEntryBuggy : Rd (String × DictVal) := do
  let k ← readString
  let t ← readNat ser_DICT_TYPE_LEN
  if t = ser_DICT_INT_TYPE then do
    let v ← readInt
    pure (k, .int v)
  else if t = ser_DICT_STR_TYPE then do
    let s ← readString
    pure (k, .str s)
  else if t = ser_DICT_INT_PAIR_TYPE then do
    let a ← readInt
    let b ← readInt
    pure (k, .pair a b)
  else raise

def readDictLoop (entry : Rd (String × DictVal)) : Nat → Dict → Rd Dict
  | 0, d => pure d
  | n + 1, d => do
    let kv ← entry
    readDictLoop entry n (dictSet d kv.1 kv.2)

/-- `read_dict` -/
def readDict : Rd Dict := do
  let n ← readNat ser_LONG_INT_BYTES
  readDictLoop readDictEntry n []

def readDictBuggy : Rd Dict := do
  let n ← readNat ser_LONG_INT_BYTES
  readDictLoop readDictEntryBuggy n []

/-! ### enums -/

/-- `EnumClass(read_int(infile, k))`; `none` = ValueError (no member with that value) -/
def readEnum {ε} (ofValue? : Nat → Option ε) (k : Nat) : Rd ε := do
  let v ← readNat k
  match ofValue? v with
  | some e => pure e
  | none => raise

/-! ### penalties -/

/-- `int(penalty_score * SHORT_FLOAT_MULTIPLIER)`: exact product, truncation towards zero -/
def penaltyToInt (q : Rat) : Int :=
  let x := q * (ser_SHORT_FLOAT_MULTIPLIER : Nat)
  Int.tdiv x.num x.den

def writePenalty (q : Rat) : Option Bytes := writeInt (penaltyToInt q)

/-- `float(read_int(infile)) / float(SHORT_FLOAT_MULTIPLIER)` -/
def readPenalty : Rd Rat := do
  let n ← readNat ser_LONG_INT_BYTES
  pure (((n : Int) : Rat) / ((ser_SHORT_FLOAT_MULTIPLIER : Nat) : Rat))

/-! ### MatchEvent -/

structure MatchEvent where
  eventType : MatchEventSubtype
  isoformRegion : Int × Int
  readRegion : Int × Int
  eventInfo : Int
  deriving DecidableEq, Repr

/-- `MatchEvent.serialize` -/
def writeMatchEvent (e : MatchEvent) : Option Bytes := seqW [
  writeInt (e.eventType.value : Nat) ser_SHORT_INT_BYTES,
  writeInt e.isoformRegion.1,
  writeInt e.isoformRegion.2,
  writeInt e.readRegion.1,
  writeInt e.readRegion.2,
  writeIntNeg e.eventInfo]

/-- `MatchEvent.deserialize` -/
def readMatchEvent : Rd MatchEvent := do
  let t ← readEnum MatchEventSubtype.ofValue? ser_SHORT_INT_BYTES
  let i0 ← readInt
  let i1 ← readInt
  let r0 ← readInt
  let r1 ← readInt
  let info ← readIntNeg
  pure { eventType := t, isoformRegion := (i0, i1), readRegion := (r0, r1), eventInfo := info }

/-! ### IsoformMatch -/

structure IsoformMatch where
  assignedGene : Option String
  assignedTranscript : Option String
  transcriptStrand : String
  matchClassification : MatchClassification
  penaltyScore : Rat
  events : List MatchEvent
  deriving DecidableEq, Repr

/-- `IsoformMatch.serialize` -/
def writeIsoformMatch (m : IsoformMatch) : Option Bytes := seqW [
  writeStringOrNone m.assignedGene,
  writeStringOrNone m.assignedTranscript,
  writeString m.transcriptStrand,
  writeShortInt (m.matchClassification.value : Nat),
  writePenalty m.penaltyScore,
  writeList m.events writeMatchEvent]

/-- `IsoformMatch.deserialize` -/
def readIsoformMatch : Rd IsoformMatch := do
  let g ← readStringOrNone
  let t ← readStringOrNone
  let s ← readString
  let c ← readEnum MatchClassification.ofValue? ser_SHORT_INT_BYTES
  let p ← readPenalty
  let ev ← readList readMatchEvent
  pure { assignedGene := g, assignedTranscript := t, transcriptStrand := s, matchClassification := c,
         penaltyScore := p, events := ev }

/-! ### ReadAssignment -/

/-- `PolyAInfo` -/
structure PolyAInfo where
  externalPolyaPos : Int
  externalPolytPos : Int
  internalPolyaPos : Int
  internalPolytPos : Int
  deriving DecidableEq, Repr

/-- the serialised state of a `ReadAssignment` plus `corrected_introns`, which `deserialize` re-derives
    (`gene_info` is the loader's current gene info, an external; see the stream section) -/
structure ReadAssignment where
  assignmentId : Int
  readId : String
  genomicRegion : Int × Int
  exons : List (Int × Int)
  correctedExons : List (Int × Int)
  correctedIntrons : List (Int × Int)
  multimapper : Bool
  polyAFound : Bool
  cageFound : Bool
  polyaInfo : PolyAInfo
  readGroup : String
  mappedStrand : String
  strand : String
  chrId : String
  mappingQuality : Int
  assignmentType : ReadAssignmentType
  geneAssignmentType : ReadAssignmentType
  isoformMatches : List IsoformMatch
  additionalInfo : Dict
  additionalAttributes : Dict
  intronsMatch : Bool
  exonGeneProfile : List Int
  intronGeneProfile : List Int
  deriving DecidableEq, Repr

/-- `ReadAssignment.serialize` -/
def writeReadAssignment (r : ReadAssignment) : Option Bytes := seqW [
  writeInt r.assignmentId,
  writeString r.readId,
  writeInt r.genomicRegion.1,
  writeInt r.genomicRegion.2,
  writeListOfPairs r.exons (writeInt ·),
  writeListOfPairs r.correctedExons (writeInt ·),
  writeBoolArray [r.multimapper, r.polyAFound, r.cageFound],
  writeIntNeg r.polyaInfo.externalPolyaPos,
  writeIntNeg r.polyaInfo.externalPolytPos,
  writeIntNeg r.polyaInfo.internalPolyaPos,
  writeIntNeg r.polyaInfo.internalPolytPos,
  writeString r.readGroup,
  writeString r.mappedStrand,
  writeString r.strand,
  writeString r.chrId,
  writeShortInt r.mappingQuality,
  writeShortInt (r.assignmentType.value : Nat),
  writeShortInt (r.geneAssignmentType.value : Nat),
  writeList r.isoformMatches writeIsoformMatch,
  writeDict r.additionalInfo,
  writeDict r.additionalAttributes,
  writeShortInt (if r.intronsMatch then 1 else 0),
  writeList r.exonGeneProfile writeIntNeg,
  writeList r.intronGeneProfile writeIntNeg]

/-- `bool_arr[i]`; `none` = IndexError (cannot happen for `i < arr_size`) -/
def boolAt (l : List Bool) (i : Nat) : Rd Bool :=
  match l[i]? with
  | some b => pure b
  | none => raise

/-- `ReadAssignment.deserialize` -/
def readReadAssignment : Rd ReadAssignment := do
  let aid ← readInt
  let rid ← readString
  let g0 ← readInt
  let g1 ← readInt
  let exons ← readListOfPairs readInt
  let cexons ← readListOfPairs readInt
  let flags ← readBoolArray 3
  let mm ← boolAt flags 0
  let pa ← boolAt flags 1
  let cage ← boolAt flags 2
  let p0 ← readIntNeg
  let p1 ← readIntNeg
  let p2 ← readIntNeg
  let p3 ← readIntNeg
  let grp ← readString
  let ms ← readString
  let st ← readString
  let chr ← readString
  let mq ← readShortInt
  let aty ← readEnum ReadAssignmentType.ofValue? ser_SHORT_INT_BYTES
  let gty ← readEnum ReadAssignmentType.ofValue? ser_SHORT_INT_BYTES
  let ms' ← readList readIsoformMatch
  let info ← readDict
  let attrs ← readDict
  let im ← readShortInt
  let ep ← readList readIntNeg
  let ip ← readList readIntNeg
  pure { assignmentId := aid, readId := rid, genomicRegion := (g0, g1), exons := exons,
         correctedExons := cexons, correctedIntrons := junctionsFromBlocks cexons,
         multimapper := mm, polyAFound := pa, cageFound := cage,
         polyaInfo := ⟨p0, p1, p2, p3⟩, readGroup := grp, mappedStrand := ms, strand := st, chrId := chr,
         mappingQuality := mq, assignmentType := aty, geneAssignmentType := gty, isoformMatches := ms',
         additionalInfo := info, additionalAttributes := attrs, intronsMatch := (im != 0),
         exonGeneProfile := ep, intronGeneProfile := ip }

/-! ### BasicReadAssignment -/

structure BasicReadAssignment where
  assignmentId : Int
  readId : String
  chrId : String
  start : Int
  «end» : Int
  genomicRegion : Int × Int
  multimapper : Bool
  polyAFound : Bool
  assignmentType : ReadAssignmentType
  geneAssignmentType : ReadAssignmentType
  penaltyScore : Rat
  genes : List String
  isoforms : List String
  deriving DecidableEq, Repr

/-- insertion into a strictly increasing list (no duplicates) -/
def insertSorted (s : String) : List String → List String
  | [] => [s]
  | h :: t => if s < h then s :: h :: t else if s = h then h :: t else h :: insertSorted s t

/-- `if m.assigned_gene: gene_set.add(m.assigned_gene)` over the matches, then `sorted(gene_set)`:
    the distinct truthy (not None, not "") ids in increasing order (Python compares `str` by code points,
    as Lean compares `String`) -/
def collectIds (ids : List (Option String)) : List String :=
  (ids.filterMap (fun o => match o with
    | some s => if s = "" then none else some s
    | none => none)).foldr insertSorted []

/-- the loop `penalty_score = min(penalty_score, isoform_matches[0].penalty_score)` starting from 0.0
    (`min(a, b)` returns `b` only when `b < a`) -/
def basicPenalty : List IsoformMatch → Rat
  | [] => 0
  | m :: _ => if m.penaltyScore < 0 then m.penaltyScore else 0

/-- `BasicReadAssignment.__init__(read_assignment)` -/
def basicOf (r : ReadAssignment) : BasicReadAssignment :=
  { assignmentId := r.assignmentId, readId := r.readId, chrId := r.chrId,
    start := match r.exons.head? with | some e => e.1 | none => 0,
    «end» := match r.exons.getLast? with | some e => e.2 | none => 0,
    genomicRegion := r.genomicRegion, multimapper := r.multimapper, polyAFound := r.polyAFound,
    assignmentType := r.assignmentType, geneAssignmentType := r.geneAssignmentType,
    penaltyScore := basicPenalty r.isoformMatches,
    genes := collectIds (r.isoformMatches.map (·.assignedGene)),
    isoforms := collectIds (r.isoformMatches.map (·.assignedTranscript)) }

/-- `BasicReadAssignment.serialize` -/
def writeBasic (b : BasicReadAssignment) : Option Bytes := seqW [
  writeInt b.assignmentId,
  writeString b.readId,
  writeString b.chrId,
  writeInt b.start,
  writeInt b.end,
  writeInt b.genomicRegion.1,
  writeInt b.genomicRegion.2,
  writeBoolArray [b.multimapper, b.polyAFound],
  writeShortInt (b.assignmentType.value : Nat),
  writeShortInt (b.geneAssignmentType.value : Nat),
  writePenalty b.penaltyScore,
  writeList b.genes writeString,
  writeList b.isoforms writeString]

/-- `BasicReadAssignment.deserialize` -/
def readBasic : Rd BasicReadAssignment := do
  let aid ← readInt
  let rid ← readString
  let chr ← readString
  let s ← readInt
  let e ← readInt
  let g0 ← readInt
  let g1 ← readInt
  let flags ← readBoolArray 2
  let mm ← boolAt flags 0
  let pa ← boolAt flags 1
  let aty ← readEnum ReadAssignmentType.ofValue? ser_SHORT_INT_BYTES
  let gty ← readEnum ReadAssignmentType.ofValue? ser_SHORT_INT_BYTES
  let p ← readPenalty
  let genes ← readList readString
  let isoforms ← readList readString
  pure { assignmentId := aid, readId := rid, chrId := chr, start := s, «end» := e, genomicRegion := (g0, g1),
         multimapper := mm, polyAFound := pa, assignmentType := aty, geneAssignmentType := gty,
         penaltyScore := p, genes := genes, isoforms := isoforms }

/-- `BasicReadAssignment.deserialize_from_read_assignment`: the abridged reader of a full record
    (`exons[0][0]` raises IndexError on an empty exon list) -/
def readBasicFromReadAssignment : Rd BasicReadAssignment := do
  let aid ← readInt
  let rid ← readString
  let g0 ← readInt
  let g1 ← readInt
  let exons ← readListOfPairs readInt
  let s ← (match exons.head? with | some e => pure e.1 | none => raise : Rd Int)
  let e ← (match exons.getLast? with | some e => pure e.2 | none => raise : Rd Int)
  let _ ← readListOfPairs readInt
  let flags ← readBoolArray 3
  let mm ← boolAt flags 0
  let pa ← boolAt flags 1
  let _ ← readIntNeg
  let _ ← readIntNeg
  let _ ← readIntNeg
  let _ ← readIntNeg
  let _ ← readString
  let _ ← readString
  let _ ← readString
  let chr ← readString
  let _ ← readShortInt
  let aty ← readEnum ReadAssignmentType.ofValue? ser_SHORT_INT_BYTES
  let gty ← readEnum ReadAssignmentType.ofValue? ser_SHORT_INT_BYTES
  let ms ← readList readIsoformMatch
  let _ ← readDict
  let _ ← readDict
  let _ ← readShortInt
  let _ ← readList readIntNeg
  let _ ← readList readIntNeg
  pure { assignmentId := aid, readId := rid, chrId := chr, start := s, «end» := e, genomicRegion := (g0, g1),
         multimapper := mm, polyAFound := pa, assignmentType := aty, geneAssignmentType := gty,
         penaltyScore := basicPenalty ms,
         genes := collectIds (ms.map (·.assignedGene)),
         isoforms := collectIds (ms.map (·.assignedTranscript)) }

/-! ### gene-info header (the part of GeneInfo that is written; the rest is re-derived from the gene database) -/

structure GeneHeader where
  delta : Int
  geneIds : List String
  chrId : String
  start : Int
  «end» : Int
  deriving DecidableEq, Repr

/-- `GeneInfo.serialize` -/
def writeGeneHeader (h : GeneHeader) : Option Bytes := seqW [
  writeInt h.delta,
  writeList h.geneIds writeString,
  writeString h.chrId,
  writeInt h.start,
  writeInt h.end]

/-- the stream-reading part of `GeneInfo.deserialize` -/
def readGeneHeader : Rd GeneHeader := do
  let d ← readInt
  let ids ← readList readString
  let chr ← readString
  let s ← readInt
  let e ← readInt
  pure { delta := d, geneIds := ids, chrId := chr, start := s, «end» := e }

/-! ### stream framing of the `<prefix>.save_<chr>` files -/

inductive Item where
  | gene (h : GeneHeader)
  | read (r : ReadAssignment)
  deriving DecidableEq, Repr

/-- `TmpFileAssignmentPrinter.add_gene_info` / `add_read_info` -/
def writeItem : Item → Option Bytes
  | .gene h => seqW [writeShortInt (tmp_GENE_INFO : Nat), writeGeneHeader h]
  | .read r => seqW [writeShortInt (tmp_READ_ASSIGNMENT : Nat), writeReadAssignment r]

/-- the whole file: the items, then `__del__` writes SHORT_TERMINATION_INT -/
def writeStream (items : List Item) : Option Bytes :=
  seqW (items.map writeItem ++ [writeShortInt (ser_SHORT_TERMINATION_INT : Nat)])

abbrev Group (α : Type) := GeneHeader × List α

def ungroup (gs : List (Group ReadAssignment)) : List Item :=
  gs.flatMap (fun g => Item.gene g.1 :: g.2.map Item.read)

/-- `while self.unpickler.is_read_assignment(): … get_object()` (get_object reads the record, then the next
    marker).  State: the marker already read (`cur`).  Returns the records, the marker that ended the loop. -/
def loadReads {α} (rd : Rd α) : Nat → Nat → Rd (List α × Nat)
  | 0, _ => raise
  | fuel + 1, cur =>
    if cur = tmp_READ_ASSIGNMENT then do
      let a ← rd
      let nxt ← readNat ser_SHORT_INT_BYTES
      let (l, c) ← loadReads rd fuel nxt
      pure (a :: l, c)
    else pure ([], cur)

/-- `while loader.has_next(): loader.get_next()` of ReadAssignmentLoader / BasicReadAssignmentLoader
    (`assert self.unpickler.is_gene_info()` → `none`) -/
def loadGroups {α} (rd : Rd α) : Nat → Nat → Rd (List (Group α))
  | 0, _ => raise
  | fuel + 1, cur =>
    if cur = ser_SHORT_TERMINATION_INT then pure []
    else if cur = tmp_GENE_INFO then do
      let h ← readGeneHeader
      let nxt ← readNat ser_SHORT_INT_BYTES
      let (rs, c) ← loadReads rd fuel nxt
      let rest ← loadGroups rd fuel c
      pure ((h, rs) :: rest)
    else raise

/-- a loader over a whole file: the constructor reads the first marker.  Every iteration of either loop
    consumes at least the two marker bytes unless the stream is exhausted (then the marker is 0 and both
    loops stop), so `length + 1` iterations always suffice. -/
def loadStream {α} (rd : Rd α) : Rd (List (Group α)) := do
  let bs ← get
  let cur ← readNat ser_SHORT_INT_BYTES
  loadGroups rd (bs.length + 1) cur

/-- NormalTmpFileAssignmentLoader driven by ReadAssignmentLoader -/
def loadStreamFull : Rd (List (Group ReadAssignment)) := loadStream readReadAssignment
/-- QuickTmpFileAssignmentLoader driven by BasicReadAssignmentLoader -/
def loadStreamQuick : Rd (List (Group BasicReadAssignment)) := loadStream readBasicFromReadAssignment

/-! ### multimapper files: `write_list(resolved, BasicReadAssignment.serialize)`*, then TERMINATION_INT -/

def writeMultimap (ls : List (List BasicReadAssignment)) : Option Bytes :=
  seqW (ls.map (fun l => writeList l writeBasic) ++ [writeInt (ser_TERMINATION_INT : Nat)])

/-- `list_size = read_int(f); while list_size != TERMINATION_INT: (read list_size records); list_size = read_int(f)`.
    On a truncated file the real loop never ends (`read_int` keeps returning 0); the model runs out of fuel. -/
def loadMultimapLoop : Nat → Nat → Rd (List (List BasicReadAssignment))
  | 0, _ => raise
  | fuel + 1, size =>
    if size = ser_TERMINATION_INT then pure []
    else do
      let l ← readN readBasic size
      let nxt ← readNat ser_LONG_INT_BYTES
      let rest ← loadMultimapLoop fuel nxt
      pure (l :: rest)

def loadMultimap : Rd (List (List BasicReadAssignment)) := do
  let bs ← get
  let size ← readNat ser_LONG_INT_BYTES
  loadMultimapLoop (bs.length + 1) size

/-! ### `<prefix>_info` file -/

structure SaveInfo where
  totalAssignments : Int
  polyaAssignments : Int
  readGroups : List String
  deriving DecidableEq, Repr

def writeSaveInfo (i : SaveInfo) : Option Bytes := seqW [
  writeInt i.totalAssignments, writeInt i.polyaAssignments, writeList i.readGroups writeString]

def readSaveInfo : Rd SaveInfo := do
  let t ← readInt
  let p ← readInt
  let g ← readList readString
  pure { totalAssignments := t, polyaAssignments := p, readGroups := g }

/-- the `_info` file as `collect_reads` writes it since fix cc73ffc: the three fields `load_read_info` reads, then
    `alignment_stat_counter.stats_dict[AlignmentType.unaligned]` (readers of the older format stop before it) -/
def writeInfoFile (i : SaveInfo) (unaligned : Int) : Option Bytes := seqW [writeSaveInfo i, writeInt unaligned]

/-- `load_unaligned_reads`: skips the three fields, then `read_int` (0 at the end of an older file: `inf.read`
    returns `b""` and `int.from_bytes(b"")` is 0) -/
def readUnaligned : Rd Int := do
  let _ ← readSaveInfo
  readInt

/-! ### the run set-up at the end of `_info` (repair of audit 2-C GAP 1-4) -/

/-- what `collect_reads` appends to `_info` for a restart: `len(sample.file_list)` and `args.read_group` (the EFFECTIVE
    grouping mode of the experiment: `set_data_dependent_options` has already turned `None` into `file_name` when an
    experiment of the invocation has several files) -/
structure SavedSetup where
  fileCount : Int
  readGroup : Option String
  deriving DecidableEq, Repr

/-- `write_int(len(sample.file_list), info_dumper); write_string_or_none(self.args.read_group, info_dumper)` -/
def writeSetup (s : SavedSetup) : Option Bytes := seqW [writeInt s.fileCount, writeStringOrNone s.readGroup]

/-- the `_info` file as `collect_reads` writes it now, line by line -/
def writeInfoFileSetup (i : SaveInfo) (unaligned : Int) (s : SavedSetup) : Option Bytes := seqW [
  writeInt i.totalAssignments, writeInt i.polyaAssignments, writeList i.readGroups writeString,
  writeInt unaligned, writeInt s.fileCount, writeStringOrNone s.readGroup]

/-- `load_run_setup` up to its `return`: skips the four older fields, then `read_int`, `read_string_or_none`
    (at the end of an older file: 0 and the empty string - `inf.read` returns `b""`) -/
def readSetup : Rd SavedSetup := do
  let _ ← readUnaligned
  let n ← readInt
  let g ← readStringOrNone
  pure { fileCount := n, readGroup := g }

end IsoVerif.Model.Serial
