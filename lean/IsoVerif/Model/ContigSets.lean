/-
C05 — which contigs a run visits (hidden parameter of the per-chromosome collection model of `Model/Collect*.lean`):

  src/dataset_processor.py      get_chr_list (tasks = KEYS OF THE REFERENCE FASTA; the BAM headers are never consulted),
                                collect_reads (one `collect_reads_in_parallel` per task, statistics merged over the tasks)
  src/alignment_processor.py    AlignmentCollector.__init__ (`bam_pairs[0][0].get_reference_length(chr_id)`: KeyError when the
                                header of the BAM file lacks the contig), BAMOnlineMerger._set (`fetch(chr_id, …)`: ValueError)

`collectRunOrig` is the pinned code, `collectRun` the repaired one (a contig absent from a file's header has no alignment in
that file).  An alignment is reduced to (name, contig, category); everything that happens INSIDE a contig is the subject of
the other C05 models.  Core Lean only.
-/
namespace IsoVerif.Model.C05C

abbrev Id := Nat

/-- 0 primary, 1 secondary, 2 supplementary (the categories of the log statistics) -/
structure Aln where
  name : Nat
  contig : Id
  cat : Nat
deriving DecidableEq, Repr

structure Run where
  /-- `reference_record_dict.keys()` -/
  fastaKeys : List Id
  /-- `@SQ` lines of the BAM file -/
  header : List Id
  /-- the mapped records of the BAM file (every record lies on a contig of the header) -/
  alns : List Aln
deriving Repr

/-- the records one task (contig `c`) sees: `fetch(c, 0, length)` -/
def fetchContig (r : Run) (c : Id) : List Aln := r.alns.filter (fun a => a.contig == c)

/-- pinned code, one task: KeyError / ValueError when the header lacks the contig -/
def taskOrig (r : Run) (c : Id) : Option (List Aln) := if c ∈ r.header then some (fetchContig r c) else none

/-- repaired code, one task: a contig absent from the header has no alignment in the file -/
def task (r : Run) (c : Id) : List Aln := if c ∈ r.header then fetchContig r c else []

/-- `collect_reads`: the tasks in task-list order; an exception in any task ends the run -/
def collectRunOrigAux (r : Run) : List Id → Option (List Aln)
  | [] => some []
  | c :: cs =>
    match taskOrig r c with
    | none => none
    | some l =>
      match collectRunOrigAux r cs with
      | none => none
      | some rest => some (l ++ rest)

def collectRunOrig (r : Run) : Option (List Aln) := collectRunOrigAux r r.fastaKeys

def collectRun (r : Run) : List Aln := r.fastaKeys.flatMap (task r)

/-- what the repaired run announces in its warning: the mapped records on contigs that are not keys of the FASTA -/
def skipped (r : Run) : List Aln := r.alns.filter (fun a => !(r.fastaKeys.contains a.contig))

/-- `alignment_stat_counter[category]` of the log -/
def statOf (l : List Aln) (cat : Nat) : Nat := l.countP (fun a => a.cat == cat)

end IsoVerif.Model.C05C
