/-
C11 — the two coordinate transformations on the polyA records of Model/PolyA.lean (C16): `PolyAInfo`, `AInfo`.
Core Lean only.

A polyA / polyT position uses the sentinel −1 ("not found").  `add_polya_info` replaces a position by a COMPUTED one
(`shift_polya` / `shift_polyt`); whether a computed position is "real" is decided by the ORIGINAL position (the code
returns the sentinel unchanged), so the image of an output record is taken relative to the original `PolyAInfo`
(`shiftPosBy orig`, `mirrorPosBy orig`).  For positions that were not replaced `shiftPosBy p k p = shiftPos k p`.
Reflection swaps the roles polyA ↔ polyT and reverses the block lists.
-/
import IsoVerif.Model.PolyA
import IsoVerif.Model.C11Symmetry

namespace IsoVerif.Model.C11
open IsoVerif.Gen IsoVerif.Model

/-- image of a (possibly recomputed) position whose original value was `orig` -/
def shiftPosBy (orig k p : Int) : Int := if orig = -1 then p else p + k
def mirrorPosBy (orig L p : Int) : Int := if orig = -1 then p else L + 1 - p

def shiftInfo (k : Int) (i : C16.PolyAInfo) : C16.PolyAInfo :=
  ⟨shiftPos k i.externalPolyA, shiftPos k i.externalPolyT, shiftPos k i.internalPolyA, shiftPos k i.internalPolyT⟩

/-- polyA ↔ polyT -/
def mirrorInfo (L : Int) (i : C16.PolyAInfo) : C16.PolyAInfo :=
  ⟨mirrorPos L i.externalPolyT, mirrorPos L i.externalPolyA, mirrorPos L i.internalPolyT, mirrorPos L i.internalPolyA⟩

def shiftInfoBy (o : C16.PolyAInfo) (k : Int) (i : C16.PolyAInfo) : C16.PolyAInfo :=
  ⟨shiftPosBy o.externalPolyA k i.externalPolyA, shiftPosBy o.externalPolyT k i.externalPolyT,
   shiftPosBy o.internalPolyA k i.internalPolyA, shiftPosBy o.internalPolyT k i.internalPolyT⟩

def mirrorInfoBy (o : C16.PolyAInfo) (L : Int) (i : C16.PolyAInfo) : C16.PolyAInfo :=
  ⟨mirrorPosBy o.externalPolyT L i.externalPolyT, mirrorPosBy o.externalPolyA L i.externalPolyA,
   mirrorPosBy o.internalPolyT L i.internalPolyT, mirrorPosBy o.internalPolyA L i.internalPolyA⟩

/-- image of the `AlignmentInfo` state under translation (read / CIGAR blocks are not reference coordinates) -/
def shiftAInfoBy (o : C16.PolyAInfo) (k : Int) (st : C16.AInfo) : C16.AInfo :=
  { st with exons := shiftL k st.exons, info := shiftInfoBy o k st.info,
            readStart := st.readStart + k, readEnd := st.readEnd + k }

/-- image under reflection: exons mirrored, block lists reversed, polyA ↔ polyT, start ↔ end -/
def mirrorAInfoBy (o : C16.PolyAInfo) (L : Int) (st : C16.AInfo) : C16.AInfo :=
  { st with exons := mirrorL L st.exons, readBlocks := st.readBlocks.reverse, cigarBlocks := st.cigarBlocks.reverse,
            info := mirrorInfoBy o L st.info, readStart := L + 1 - st.readEnd, readEnd := L + 1 - st.readStart }

/-- `(polya_exon_count, polyt_exon_count)` ↦ `(polyt_exon_count, polya_exon_count)` -/
def swapCounts (p : Int × Int) : Int × Int := (p.2, p.1)

end IsoVerif.Model.C11
