/-
C11 — translation of the alignment-collection model (Model/Regions.lean, C05): alignments and the coverage dictionary.
Core Lean only.  The coverage dictionary is keyed by 256-bp bins (`COVERAGE_BIN`), so it is translated by whole bins:
`shiftCov j` belongs to the coordinate shift `k = COVERAGE_BIN * j`.
-/
import IsoVerif.Model.Regions
import IsoVerif.Model.C11Symmetry

namespace IsoVerif.Model.C11
open IsoVerif.Gen IsoVerif.Model

/-- the alignment record moved by k bases (pysam's `reference_start`, `reference_end`) -/
def shiftAln (k : Int) (a : Regions.Aln) : Regions.Aln := { a with start := a.start + k, stop := a.stop + k }

/-- the coverage dictionary with every bin key moved by j bins -/
def shiftCov (j : Int) (d : Regions.CovDict) : Regions.CovDict := d.map (fun p => (p.1 + j, p.2))

end IsoVerif.Model.C11
