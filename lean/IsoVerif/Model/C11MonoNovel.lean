/-
C11 — `GraphBasedModelConstructor.construct_monoexon_novel` from the clustered reads on
(src/graph_based_model_construction.py; `--report_novel_unspliced true`): which clusters of tailed unspliced reads
become novel mono-exonic models.  Core Lean only (the driver links it).

A cluster is `(three, reads)`: the clustered polyA (forward) / polyT (reverse) position and the single exons of its
reads.  `generate_monoexon_from_clustered` turns a cluster with at least `min_novel_count` reads into the candidate
`(five, three)` / `(three, five)` (`five` = smallest read start / largest read end; `monoExonFromCluster` of
Model/Gtf.lean) and DROPS it when an exon of an already reported model covers more than half of it
(`intersection_len(exon, coordinates) > interval_len(coordinates) / 2`, a float comparison = `2·inter > len`).
So the order in which candidates are tried matters.

  * `constructMonoNovel` — the code after the repair of audit2-C G2: candidates of both strands are taken by
    decreasing read support; candidates with EQUAL support are all tested against the models reported before their
    support level (they do not compete with each other).  The Python loop runs over the distinct support values in
    descending order; the model runs over every level `maxSupport, …, 1, 0` (a level without candidates adds nothing).
  * `constructMonoNovelBuggy` — the pre-fix code: all polyA clusters first, then all polyT clusters, each tested against
    everything reported so far (a 3-read '+' model removes the 9-read '−' candidate that overlaps it; the mirror image
    keeps the 9-read model).
-/
import IsoVerif.Gen.Prims
import IsoVerif.Model.Gtf
import IsoVerif.Model.C11Symmetry

namespace IsoVerif.Model.C11
open IsoVerif.Gen IsoVerif.Model IsoVerif.Model.C03

/-- a reported transcript model as far as this code looks at it: strand is '+' (`true`) / '−' (`false`) and exons -/
structure MModel where
  forward : Bool
  exons : List Iv
  deriving DecidableEq, Repr

/-- one cluster of `cluster_monoexons`: strand of its tail, clustered 3' position, the exons of its reads -/
structure Cluster where
  forward : Bool
  three : Int
  reads : List Iv
  deriving DecidableEq, Repr

def Cluster.support (c : Cluster) : Nat := c.reads.length

/-- `is_valid` of `generate_monoexon_from_clustered`: no exon of a reported model covers more than half of `c` -/
def coveredBy (reported : List MModel) (c : Iv) : Bool :=
  reported.any (fun m => m.exons.any (fun e => decide (2 * intersection_len e c > interval_len c)))

/-- the model one cluster yields against the models `reported`: `some none` = nothing (below the cutoff / covered),
    `none` = ValueError (`min([])`: only for `cutoff = 0` and an empty cluster) -/
def candidateOf (cutoff : Nat) (reported : List MModel) (c : Cluster) : Option (Option MModel) :=
  match monoExonFromCluster cutoff c.forward c.reads c.three with
  | none => none
  | some [] => some none
  | some (x :: _) => if coveredBy reported x then some none else some (some { forward := c.forward, exons := [x] })

/-- append the answer for one cluster (`none` = the call raised) -/
def consOpt (r : Option (Option MModel)) (acc : Option (List MModel)) : Option (List MModel) :=
  match r, acc with
  | some r, some l => some (r.toList ++ l)
  | _, _ => none

/-- the candidates of one support level, all tested against `reported`; appended to the storage in candidate order -/
def levelModels (cutoff : Nat) (reported : List MModel) : List Cluster → Nat → Option (List MModel)
  | [], _ => some []
  | c :: cs, s =>
    if c.support = s then consOpt (candidateOf cutoff reported c) (levelModels cutoff reported cs s)
    else levelModels cutoff reported cs s

def maxSupport (cs : List Cluster) : Nat := (cs.map Cluster.support).foldr max 0

/-- levels `n, n−1, …, 0` -/
def runLevels (cutoff : Nat) (cs : List Cluster) : Nat → List MModel → Option (List MModel)
  | 0, st => (levelModels cutoff st cs 0).map (st ++ ·)
  | n + 1, st => match levelModels cutoff st cs (n + 1) with
    | none => none
    | some l => runLevels cutoff cs n (st ++ l)

/-- `construct_monoexon_novel` (repaired): storage after the call; `polyA ++ polyT` is the code's candidate order -/
def constructMonoNovel (cutoff : Nat) (storage : List MModel) (polyA polyT : List Cluster) : Option (List MModel) :=
  runLevels cutoff (polyA ++ polyT) (maxSupport (polyA ++ polyT)) storage

/-- pre-fix: clusters in the given order, each against everything reported so far -/
def runSequential (cutoff : Nat) : List Cluster → List MModel → Option (List MModel)
  | [], st => some st
  | c :: cs, st => match candidateOf cutoff st c with
    | none => none
    | some r => runSequential cutoff cs (st ++ r.toList)

def constructMonoNovelBuggy (cutoff : Nat) (storage : List MModel) (polyA polyT : List Cluster) : Option (List MModel) :=
  runSequential cutoff (polyA ++ polyT) storage

/-! ### reflection -/

def mirrorModel (L : Int) (m : MModel) : MModel := { forward := !m.forward, exons := mirrorL L m.exons }
def mirrorCluster (L : Int) (c : Cluster) : Cluster :=
  { forward := !c.forward, three := mirrorP L c.three, reads := mirrorL L c.reads }

/-! ### which reads enter the clusters (the first loop of `construct_monoexon_novel`)

A tailed unspliced read is `(id, exon, external polyA position, external polyT position)`, −1 = no such tail.
  * `strandVote` — the code after the follow-up of 7594462: a read with a polyA tail AND a polyT head has no strand
    (`get_assignment_strand` reports '.'), it supports neither a '+' nor a '−' model;
  * `strandVotesShared` — 7594462 and before: such a read is put into a polyA cluster AND a polyT cluster; since 7594462
    the two clusters (equal support) do not compete, so two models are built from the same reads and every such read is
    assigned to two models (`__ambiguous`, counted for neither).
`is_internal_monoexonic_read` (terminal exons of the intron graph) is not modelled: empty intron graph. -/

structure MRead where
  id : Nat
  iv : Iv
  polyA : Int
  polyT : Int
  deriving DecidableEq, Repr

/-- the strand a read gives evidence for: `some true` = '+', `some false` = '−', `none` = no strand -/
def strandVote (r : MRead) : Option Bool :=
  if r.polyA ≠ -1 ∧ r.polyT = -1 then some true
  else if r.polyT ≠ -1 ∧ r.polyA = -1 then some false
  else none

def strandVotesShared (r : MRead) : List Bool :=
  (if r.polyA ≠ -1 then [true] else []) ++ (if r.polyT ≠ -1 then [false] else [])

/-- the reads of the polyA (`fw = true`) / polyT clusters, in read order -/
def votersOf (fw : Bool) (rs : List MRead) : List MRead := rs.filter (fun r => strandVote r == some fw)
def votersOfShared (fw : Bool) (rs : List MRead) : List MRead := rs.filter (fun r => (strandVotesShared r).contains fw)

/-- the cluster of the reads voting for `fw` whose tail position is `three` (one cluster per tail position: apa_delta = 0) -/
def clusterAt (fw : Bool) (three : Int) (voters : List MRead) : Cluster :=
  { forward := fw, three := three,
    reads := (voters.filter (fun r => (if fw then r.polyA else r.polyT) == three)).map (·.iv) }

def mirrorMRead (L : Int) (r : MRead) : MRead :=
  { id := r.id, iv := mirrorIv L r.iv, polyA := mirrorPos L r.polyT, polyT := mirrorPos L r.polyA }

end IsoVerif.Model.C11
