/-
C17 — `GFFPrinter.dump` (src/transcript_printer.py) as far as identifiers are concerned: which gene /
transcript / feature lines are written, in which order, and with which `exon_id` (the calls of
`FeatureIdStorage.get_id` in printing order).  Attribute text other than the ids, the source column and the
read-to-transcript file are not modelled.  `max_range` is the generated primitive.  Core Lean only.
-/
import IsoVerif.Gen.Prims
import IsoVerif.Model.Ids

namespace IsoVerif.Model.C17
open IsoVerif.Gen

/-- a `TranscriptModel` as `dump` reads it -/
structure TModel where
  chr : Str
  strand : Str
  tid : Str
  gid : Str
  exons : List (Int × Int)
  other : List (Int × Int × Str)      -- `other_features`: (start, end, feature type)
deriving Repr, DecidableEq

/-- `sorted(l, key)` of Python: a stable sort (insertion sort; every stable sort gives the same list).
    Structural recursion, so that closed examples are decided by evaluation. -/
def orderedInsert {α} (le : α → α → Bool) (a : α) : List α → List α
  | [] => [a]
  | b :: l => if le a b then a :: b :: l else b :: orderedInsert le a l

def pySorted {α} (le : α → α → Bool) : List α → List α
  | [] => []
  | a :: l => orderedInsert le a (pySorted le l)

/-- tuple order of Python on `(int, int)` -/
def ivLexLe (a b : Int × Int) : Bool := decide (a.1 < b.1) || (decide (a.1 = b.1) && decide (a.2 ≤ b.2))

/-- `str <= str` of Python (code points) -/
def strLe : Str → Str → Bool
  | [], _ => true
  | _ :: _, [] => false
  | a :: as, b :: bs => decide (a.toNat < b.toNat) || (decide (a = b) && strLe as bs)

/-- tuple order on `(int, int, str)` -/
def featLe (a b : Int × Int × Str) : Bool :=
  decide (a.1 < b.1) || (decide (a.1 = b.1) &&
    (decide (a.2.1 < b.2.1) || (decide (a.2.1 = b.2.1) && strLe a.2.2 b.2.2)))

/-- `validate_exons`: `exons == sorted(exons) and all(0 < x[0] <= x[1] for x in exons)` -/
def validateExons (ex : List (Int × Int)) : Bool :=
  decide (ex = pySorted ivLexLe ex) && ex.all (fun x => decide (0 < x.1) && decide (x.1 ≤ x.2))

/-- insertion-ordered `dict`: assignment to an existing key keeps its position -/
def assocGet {α} (k : Str) : List (Str × α) → Option α
  | [] => none
  | (k', v) :: r => if k = k' then some v else assocGet k r

def assocSet {α} (k : Str) (v : α) : List (Str × α) → List (Str × α)
  | [] => [(k, v)]
  | (k', v') :: r => if k = k' then (k', v) :: r else (k', v') :: assocSet k v r

/-- `GFFGeneInfo(chr_id, strand, gene_region)` -/
structure GeneRec where
  chr : Str
  strand : Str
  region : Int × Int
deriving Repr, DecidableEq

/-- a valid model together with its `transcript_region` -/
abbrev Placed := TModel × (Int × Int)

structure Collected where
  geneModels : List (Str × List Placed)      -- `gene_to_model_dict` (the models themselves instead of indices)
  geneInfo : List (Str × GeneRec)            -- `gene_info_dict`
deriving Repr

/-- first loop of `dump`.  `giChr` = `gene_info.chr_id`, `regions` = `gene_info.get_gene_regions()` (empty when
    `gene_info.empty()`).  `none` = an `assert` fails or an empty exon list raises `IndexError`. -/
def dumpCollect (giChr : Str) (regions : List (Str × (Int × Int))) : List TModel → Collected → Option Collected
  | [], acc => some acc
  | m :: ms, acc =>
    if validateExons m.exons then
      match m.exons.head?, m.exons.getLast? with
      | some f, some l =>
        let tr : Int × Int := (f.1, l.2)
        let gm := match assocGet m.gid acc.geneModels with
          | none => assocSet m.gid [(m, tr)] acc.geneModels
          | some l => assocSet m.gid (l ++ [(m, tr)]) acc.geneModels
        match assocGet m.gid acc.geneInfo with
        | none =>
          if m.chr = giChr then
            let range := match assocGet m.gid regions with
              | some r => max_range r tr
              | none => tr
            dumpCollect giChr regions ms ⟨gm, assocSet m.gid ⟨m.chr, m.strand, range⟩ acc.geneInfo⟩
          else none
        | some rec =>
          if m.chr = rec.chr then
            dumpCollect giChr regions ms ⟨gm, assocSet m.gid ⟨m.chr, m.strand, max_range rec.region tr⟩ acc.geneInfo⟩
          else none
      | _, _ => none
    else dumpCollect giChr regions ms acc

/-- a line of the GTF before the `exon_id`s are known -/
inductive PLine
  | gene (chr : Str) (s e : Int) (strand gid : Str)
  | transcript (chr : Str) (s e : Int) (strand gid tid : Str)
  | feature (ftype : Str) (chr : Str) (s e : Int) (strand gid tid : Str) (num : Nat)
deriving Repr, DecidableEq

def exonType : Str := ['e', 'x', 'o', 'n']

def numberFrom {α} : Nat → List α → List (Nat × α)
  | _, [] => []
  | i, x :: xs => (i, x) :: numberFrom (i + 1) xs

/-- transcript line and the feature lines of one model (exons and other features, sorted; descending on '-') -/
def modelLines (p : Placed) : List PLine :=
  let m := p.1
  let feats := m.other ++ m.exons.map (fun e => (e.1, e.2, exonType))
  let sorted := if m.strand = ['-'] then pySorted (fun a b => featLe b a) feats else pySorted featLe feats
  PLine.transcript m.chr p.2.1 p.2.2 m.strand m.gid m.tid ::
    (numberFrom 1 sorted).map (fun (i, e) => PLine.feature e.2.2 m.chr e.1 e.2.1 m.strand m.gid m.tid i)

/-- second loop of `dump` over `gene_order`; `printed` = `self.printed_gene_ids` -/
def dumpGenes (geneModels : List (Str × List Placed)) : List (Str × GeneRec) → List Str → List PLine × List Str
  | [], printed => ([], printed)
  | (gid, rec) :: gs, printed =>
    let ms := (assocGet gid geneModels).getD []
    let own := ms.flatMap modelLines
    if gid ∈ printed then
      let r := dumpGenes geneModels gs printed
      (own ++ r.1, r.2)
    else
      let r := dumpGenes geneModels gs (printed ++ [gid])
      (PLine.gene rec.chr rec.region.1 rec.region.2 rec.strand gid :: own ++ r.1, r.2)

/-- the lines of one `dump` call without ids, and the new `printed_gene_ids` -/
def dumpPlan (printed : List Str) (giChr : Str) (regions : List (Str × (Int × Int))) (models : List TModel) :
    Option (List PLine × List Str) :=
  match dumpCollect giChr regions models ⟨[], []⟩ with
  | none => none
  | some c =>
    let order := pySorted (fun a b => ivLexLe a.2.region b.2.region) c.geneInfo
    some (dumpGenes c.geneModels order printed)

def PLine.key? : PLine → Option ExonKey
  | .feature _ chr s e strand _ _ _ => some (chr, s, e, strand)
  | _ => none

def planKeys (plan : List PLine) : List ExonKey := plan.filterMap PLine.key?

/-- a written line: the plan line and, for feature lines, the `exon_id` -/
abbrev OutLine := PLine × Option Str

def fill : List PLine → List Str → List OutLine
  | [], _ => []
  | l :: r, ids =>
    match l.key?, ids with
    | some _, id :: ids' => (l, some id) :: fill r ids'
    | some _, [] => (l, none) :: fill r []       -- cannot happen: one id per feature line
    | none, _ => (l, none) :: fill r ids

/-- one `dump(gene_info, transcript_model_storage)` call of a printer that shares `st` -/
def dump (st : FeatureIdStorage) (printed : List Str) (giChr : Str) (regions : List (Str × (Int × Int)))
    (models : List TModel) : Option (List OutLine × List Str × FeatureIdStorage) :=
  if models.isEmpty then some ([], printed, st)
  else
    match dumpPlan printed giChr regions models with
    | none => none
    | some (plan, printed') =>
      match st.getIds (planKeys plan) with
      | none => none
      | some (ids, st') => some (fill plan ids, printed', st')

/-- a `dump` call on one of the two printers of a chromosome (`.transcript_models.gtf` = false,
    `.extended_annotation.gtf` = true) -/
structure DumpCall where
  extended : Bool
  giChr : Str
  regions : List (Str × (Int × Int))
  models : List TModel
deriving Repr

structure PrintersState where
  st : FeatureIdStorage
  printedModels : List Str
  printedExtended : List Str

/-- any sequence of dump calls on the two printers sharing one storage; the output of every call.
    An aborting call (`none` of `dump`) aborts the sequence. -/
def runDumps : PrintersState → List DumpCall → Option (List (List OutLine) × PrintersState)
  | s, [] => some ([], s)
  | s, c :: cs =>
    match dump s.st (if c.extended then s.printedExtended else s.printedModels) c.giChr c.regions c.models with
    | none => none
    | some (out, printed', st') =>
      let s' : PrintersState := if c.extended then ⟨st', s.printedModels, printed'⟩ else ⟨st', printed', s.printedExtended⟩
      match runDumps s' cs with
      | none => none
      | some (outs, s'') => some (out :: outs, s'')

end IsoVerif.Model.C17
