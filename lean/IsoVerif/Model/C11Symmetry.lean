/-
C11 — the two coordinate transformations of the property, as executable definitions (core Lean only; used by
the theorems of Props/C11*.lean and, through Driver/C11.lean, by the correspondence check so that the
relation evaluated on the real code and the relation proved about the model are literally the same).

  shift k     : x ↦ x + k          (k bases inserted at the start of the chromosome)
  mirror L    : x ↦ L + 1 − x      (reverse complement of a chromosome of length L, 1-based closed coordinates)
                intervals swap their ends, lists are reversed, "left"/"right" swap.

Positions that use the code's sentinel −1 ("no polyA / polyT found") are transformed by `shiftPos` /
`mirrorPos`, which keep the sentinel.
-/
import IsoVerif.Gen.Prims
import IsoVerif.Gen.Enums

namespace IsoVerif.Model.C11
open IsoVerif.Gen IsoVerif.Model

def shiftIv (k : Int) (r : Iv) : Iv := (r.1 + k, r.2 + k)
def shiftL (k : Int) (l : List Iv) : List Iv := l.map (shiftIv k)
/-- a position with the sentinel −1 = absent -/
def shiftPos (k : Int) (p : Int) : Int := if p = -1 then -1 else p + k

def mirrorP (L : Int) (p : Int) : Int := L + 1 - p
def mirrorIv (L : Int) (r : Iv) : Iv := (L + 1 - r.2, L + 1 - r.1)
def mirrorL (L : Int) (l : List Iv) : List Iv := (l.map (mirrorIv L)).reverse
def mirrorPos (L : Int) (p : Int) : Int := if p = -1 then -1 else L + 1 - p

/-- index `i` of a list of length `n` seen from the other end; the code's "not found" value −1 is kept -/
def dualIdx (n : Nat) (i : Int) : Int := if i = -1 then -1 else (n : Int) - 1 - i

/-- left/right swap of the event names of `MatchEventSubtype` (every `…_left…` member is paired with the
    member whose name has `right` in the same place; all other members are fixed).  The pairing is checked
    against the Python enum names on every run (driver op `C11.swap_lr`). -/
def swapLR : MatchEventSubtype → MatchEventSubtype
  | .ism_left => .ism_right
  | .ism_right => .ism_left
  | .fake_terminal_exon_left => .fake_terminal_exon_right
  | .fake_terminal_exon_right => .fake_terminal_exon_left
  | .terminal_exon_misalignment_left => .terminal_exon_misalignment_right
  | .terminal_exon_misalignment_right => .terminal_exon_misalignment_left
  | .exon_elongation_left => .exon_elongation_right
  | .exon_elongation_right => .exon_elongation_left
  | .incomplete_intron_retention_left => .incomplete_intron_retention_right
  | .incomplete_intron_retention_right => .incomplete_intron_retention_left
  | .alt_left_site_known => .alt_right_site_known
  | .alt_right_site_known => .alt_left_site_known
  | .alt_left_site_novel => .alt_right_site_novel
  | .alt_right_site_novel => .alt_left_site_novel
  | .extra_intron_flanking_left => .extra_intron_flanking_right
  | .extra_intron_flanking_right => .extra_intron_flanking_left
  | .major_exon_elongation_left => .major_exon_elongation_right
  | .major_exon_elongation_right => .major_exon_elongation_left
  | .alternative_polya_site_left => .alternative_polya_site_right
  | .alternative_polya_site_right => .alternative_polya_site_left
  | .internal_polya_left => .internal_polya_right
  | .internal_polya_right => .internal_polya_left
  | .alternative_tss_left => .alternative_tss_right
  | .alternative_tss_right => .alternative_tss_left
  | .correct_polya_site_left => .correct_polya_site_right
  | .correct_polya_site_right => .correct_polya_site_left
  | .terminal_site_match_left => .terminal_site_match_right
  | .terminal_site_match_right => .terminal_site_match_left
  | .terminal_site_match_left_precise => .terminal_site_match_right_precise
  | .terminal_site_match_right_precise => .terminal_site_match_left_precise
  | e => e

/-! ### pre-fix bodies of the two overlap tests (audit2-C G7)

`overlaps_at_least` / `overlaps_at_least_when_overlap` of src/common.py as they were before the fix "containment first":
the branch `range1[1] < range2[1]` is strict, so a range INSIDE the other one that shares only its RIGHT end fell into
the partial-overlap test while its mirror image (sharing the LEFT end) was accepted as contained.  Kept as variants so
that the asymmetry keeps its witness theorems (Props/C11.lean `…Buggy_mirror_witness`, `…Buggy_mirror_iff`) and the
fix is characterised exactly (`overlaps_at_least_fix_exact`).  The current bodies are the generated ones in
Gen/Prims.lean. -/

def overlapsAtLeastBuggy (range1 range2 : Iv) (delta : Int) : Bool :=
  let ovlp1 := range1.2 - range2.1
  let ovlp2 := range2.2 - range1.1
  if decide (ovlp1 < 0) || decide (ovlp2 < 0) then false
  else
    let d := delta - 1
    if decide (range1.2 < range2.2) then decide (ovlp1 ≥ d) || decide (range1.1 ≥ range2.1)
    else decide (ovlp2 ≥ d) || decide (range1.1 ≤ range2.1)

def overlapsAtLeastWhenOverlapBuggy (range1 range2 : Iv) (delta : Int) : Bool :=
  if decide (range1.2 < range2.2) then decide (range1.1 ≥ range2.1) || decide (range1.2 - range2.1 + 1 ≥ delta)
  else decide (range1.1 ≤ range2.1) || decide (range2.2 - range1.1 + 1 ≥ delta)

end IsoVerif.Model.C11
