/-
Executable model of src/junction_comparator.py (property C01):
  JunctionComparator.compare_junctions           compareJunctions  (main two-pointer sweep `sweep`, terminating loops
                                                 `trailRead` / `trailIso`)
  detect_contradiction_type /
  compare_overlapping_contradictional_regions    detectContradictions / classifyPair (`classifyRetention`, `classifyExtra`,
                                                 `classifyBoth`)
  classify_skipped_exons                         classifySkipped
  classify_single_intron_alternation             classifySingle
  are_suspicious_introns                         suspiciousIntrons
  get_mono_exon_subtype                          monoExonSubtype
  add_extra_out_exon_events                      addExtraOut
  profile_for_junctions_introns / are_known_introns   knownIntrons (on top of Model/Profiles.lean `constructOverlapping`,
                                                 comparator `equal_ranges δ`, absence condition `contains`, delta 0,
                                                 mapped region (0, 0) – exactly how LongReadAssigner builds the comparator)
Tables come from Gen/ComparatorTables.lean (`alternative_sites`, `suspicious_alternation_events`).

Representation choices (all exact reformulations of the Python, see docs/C01.md):
* the two presence lists `read_features_present` / `isoform_features_present` are only ever read and written at the
  current positions `read_pos` / `isoform_pos`; the sweep therefore carries the value of the two current heads (`rv`, `kv`)
  and emits a value when a head is passed.  The output lists are the final presence lists.
* a contradictory region pair is a `CPair`: `retention` = ((absent, read_pos), (iso_pos, iso_pos)), `extra` =
  ((read_pos, read_pos), (absent, iso_pos)), `both` = ((r0, r1), (i0, i1)).  The code tells them apart by comparing the
  first component with the sentinel `absent_position` = 2^31 − 1; this is the same thing as long as the intron lists are
  shorter than 2^31 − 1 (ASSUMPTION of the check).  The emitted events carry the sentinel exactly as the code does.
* float parameters (`max_intron_rel_diff`, `min_rel_exon_overlap`, `max_suspicious_intron_rel_len`) are exact fractions
  num/den with den > 0.
`none` = the real code raises (IndexError / AssertionError / KeyError).  Core Lean only.
-/
import IsoVerif.Model.Assign
import IsoVerif.Gen.ComparatorTables

namespace IsoVerif.Model.C01
open IsoVerif.Gen IsoVerif.Model

/-- the `params` fields read by JunctionComparator only -/
structure CParams where
  max_intron_shift : Int
  micro_intron_length : Int
  max_intron_abs_diff : Int
  max_intron_rel_diff_num : Int
  max_intron_rel_diff_den : Int
  min_rel_exon_overlap_num : Int
  min_rel_exon_overlap_den : Int
  max_suspicious_intron_abs_len : Int
  max_suspicious_intron_rel_len_num : Int
  max_suspicious_intron_rel_len_den : Int
  deriving Repr

/-- what a JunctionComparator object holds: params + the profile constructor over the gene's introns -/
structure CmpCtx where
  p : Params
  q : CParams
  known : List Iv              -- intron_profile_constructor.known_features
  geneRegion : Iv              -- intron_profile_constructor.gene_region

def extraLeftRegion : Int × Int := ((smc_extra_left_region.1 : Nat), (smc_extra_left_region.2 : Nat))
def extraRightRegion : Int × Int := ((smc_extra_right_region.1 : Nat), (smc_extra_right_region.2 : Nat))

/-- `[l[i] for i in range(a, b + 1)]`; `none` = IndexError -/
def sliceIncl {α} (l : List α) (a b : Nat) : Option (List α) :=
  if a > b then some [] else if b < l.length then some ((l.drop a).take (b + 1 - a)) else none

/-- `are_known_introns(junctions, (a, b))` -/
def knownIntrons (c : CmpCtx) (junctions : List Iv) (a b : Nat) : Option Bool :=
  (sliceIncl junctions a b).map (fun sel =>
    (constructOverlapping c.known c.geneRegion (fun x y => equal_ranges x y c.p.delta) (fun x y => contains x y) 0
      sel (0, 0) (-1) (-1)).read.all (fun v => v == 1))

/-- second loop of `are_suspicious_introns`: Σ interval_len(get_preceding_exon_from_junctions(…, cpos)) -/
def precedingSum (rr : Iv) (rj : List Iv) : Nat → Nat → Option Int
  | _, 0 => some 0
  | cpos, n + 1 =>
    match getPrecedingExon rr rj cpos, precedingSum rr rj (cpos + 1) n with
    | some e, some s => some (interval_len e + s)
    | _, _ => none

/-- `are_suspicious_introns(read_region, read_junctions, (a, b))` -/
def suspiciousIntrons (c : CmpCtx) (rr : Iv) (rj : List Iv) (a b : Nat) : Option Bool :=
  let sel := (rj.drop a).take (b + 1 - a)
  if sel.any (fun j => decide (interval_len j > c.q.max_suspicious_intron_abs_len)) then some false
  else if a ≤ b ∧ rj.length ≤ b then none
  else
    match precedingSum rr rj a (b + 1 - a), getFollowingExon rr rj b with
    | some s, some f =>
      some (decide (intervalsTotalLength sel * c.q.max_suspicious_intron_rel_len_den ≤
                    (s + interval_len f) * c.q.max_suspicious_intron_rel_len_num))
    | _, _ => none

/-! ### monoexonic reads: `get_mono_exon_subtype` -/

def monoExonEvents (c : CmpCtx) (rr : Iv) : List Iv → Nat → List Event
  | [], _ => []
  | intron :: rest, i =>
    let ev (t : MatchEventSubtype) : Event := { ty := t, isoRegion := ((i : Int), (i : Int)), readRegion := (absentPos, 0) }
    if contains rr intron then
      (if interval_len intron ≤ c.q.micro_intron_length ∧ contains_well_inside rr intron c.p.minimal_exon_overlap = true
       then ev .fake_micro_intron_retention else ev .unspliced_intron_retention) :: monoExonEvents c rr rest (i + 1)
    else if overlaps_at_least rr intron c.p.minor_exon_extension = true ∧ contains intron rr = false then
      (if intron.1 ≤ rr.1 then ev .incomplete_intron_retention_left else ev .incomplete_intron_retention_right)
        :: monoExonEvents c rr rest (i + 1)
    else monoExonEvents c rr rest (i + 1)

def monoExonSubtype (c : CmpCtx) (rr : Iv) (ij : List Iv) : List Event :=
  if ij.isEmpty then [{ ty := .mono_exon_match }]
  else
    let evs := monoExonEvents c rr ij 0
    if evs.isEmpty then [{ ty := .mono_exonic }] else evs

/-! ### the sweep of `compare_junctions` -/

inductive CPair where
  | retention (readPos isoPos : Nat)
  | extra (readPos isoPos : Nat)
  | both (r0 r1 i0 i1 : Nat)
  deriving DecidableEq, Repr

structure SweepOut where
  readProf : List Int
  isoProf : List Int
  pairs : List CPair
  deriving Repr

/-- `current_contradictory_region` (`none` = absent_region) -/
abbrev Cur := Option (Nat × Nat × Nat × Nat)

def closeCur : Cur → List CPair
  | none => []
  | some (r0, r1, i0, i1) => [.both r0 r1 i0 i1]

def extendCur (cur : Cur) (ri ki : Nat) : Cur :=
  match cur with
  | none => some (ri, ri, ki, ki)
  | some (r0, _, i0, _) => some (r0, ri, i0, ki)

/-- `while read_pos < len(read_junctions)` after the main loop; `rv` = read_features_present[read_pos] -/
def trailRead (ir : Iv) (ki : Nat) : List Iv → Nat → Int → List Int × List CPair
  | [], _, _ => ([], [])
  | r :: rs, ri, rv =>
    if overlaps ir r then
      let rest := trailRead ir ki rs (ri + 1) 0
      ((-1) :: rest.1, (if rv ≠ -1 then [CPair.extra ri ki] else []) ++ rest.2)
    else (rv :: rs.map (fun _ => 0), [])

/-- `while isoform_pos < len(isoform_junctions)` after the main loop -/
def trailIso (rr : Iv) (ri : Nat) : List Iv → Nat → Int → List Int × List CPair
  | [], _, _ => ([], [])
  | k :: ks, ki, kv =>
    if overlaps rr k then
      let rest := trailIso rr ri ks (ki + 1) 0
      ((-1) :: rest.1, (if kv ≠ -1 then [CPair.retention ri ki] else []) ++ rest.2)
    else (kv :: ks.map (fun _ => 0), [])

/-- main `while` of `compare_junctions` followed by the two terminating loops.
    `rs`/`ks` = remaining read / isoform junctions, `ri`/`ki` = read_pos / isoform_pos, `rv`/`kv` = presence value of the
    two current heads, `cur` = current_contradictory_region -/
def sweep (δ : Int) (rr ir : Iv) : List Iv → Nat → Int → List Iv → Nat → Int → Cur → SweepOut
  | [], ri, _, ks, ki, kv, cur =>
    let t := trailIso rr ri ks ki kv
    { readProf := [], isoProf := t.1, pairs := closeCur cur ++ t.2 }
  | r :: rs, ri, rv, [], ki, _, cur =>
    let t := trailRead ir ki (r :: rs) ri rv
    { readProf := t.1, isoProf := [], pairs := closeCur cur ++ t.2 }
  | r :: rs, ri, rv, k :: ks, ki, kv, cur =>
    if equal_ranges k r δ then
      let o := sweep δ rr ir rs (ri + 1) 0 ks (ki + 1) 0 none
      { readProf := 1 :: o.readProf, isoProf := 1 :: o.isoProf, pairs := closeCur cur ++ o.pairs }
    else if overlaps k r then
      if r.2 < k.2 then
        let o := sweep δ rr ir rs (ri + 1) 0 (k :: ks) ki (-1) (extendCur cur ri ki)
        { o with readProf := (-1) :: o.readProf }
      else
        let o := sweep δ rr ir (r :: rs) ri (-1) ks (ki + 1) 0 (extendCur cur ri ki)
        { o with isoProf := (-1) :: o.isoProf }
    else if left_of k r then
      let flag := decide (ri > 0) || overlaps rr k
      let o := sweep δ rr ir (r :: rs) ri rv ks (ki + 1) 0 none
      { o with isoProf := (if flag then -1 else kv) :: o.isoProf,
               pairs := closeCur cur ++ (if flag && kv != -1 then [CPair.retention ri ki] else []) ++ o.pairs }
    else
      let flag := decide (ki > 0) || overlaps ir r
      let o := sweep δ rr ir rs (ri + 1) 0 (k :: ks) ki kv none
      { o with readProf := (if flag then -1 else rv) :: o.readProf,
               pairs := closeCur cur ++ (if flag && rv != -1 then [CPair.extra ri ki] else []) ++ o.pairs }
termination_by rs _ _ ks _ _ _ => rs.length + ks.length

/-! ### `compare_overlapping_contradictional_regions` -/

def mkEvent (t : MatchEventSubtype) (isoReg readReg : Int × Int) : Event :=
  { ty := t, isoRegion := isoReg, readRegion := readReg }

/-- branch `read_cregion[0] == absent_position` (missed isoform intron); `some none` = returns None -/
def classifyRetention (c : CmpCtx) (rr : Iv) (rj ij : List Iv) (readPos isoPos : Nat) : Option (Option Event) :=
  let isoReg : Int × Int := ((isoPos : Int), (isoPos : Int))
  let readReg : Int × Int := (absentPos, (readPos : Int))
  match ij[isoPos]? with
  | none => none
  | some k =>
    if contains rr k then
      if interval_len k ≤ c.q.micro_intron_length then
        match getPrecedingExon rr rj readPos with
        | none => none
        | some e =>
          if contains_well_inside e k c.p.minimal_exon_overlap then
            some (some (mkEvent .fake_micro_intron_retention isoReg readReg))
          else some (some (mkEvent .intron_retention isoReg readReg))
      else some (some (mkEvent .intron_retention isoReg readReg))
    else if overlaps_at_least rr k c.p.minor_exon_extension then
      if k.1 ≤ rr.1 then some (some (mkEvent .incomplete_intron_retention_left isoReg readReg))
      else some (some (mkEvent .incomplete_intron_retention_right isoReg readReg))
    else some none

/-- `elif read_cregion[0] == 0 and interval_len(get_exon(read_region, read_junctions, 0)) <= max_fake_terminal_exon_len`;
    `some none` = the test is false -/
def fakeLeftOfExtra (c : CmpCtx) (rr : Iv) (rj : List Iv) (readPos : Nat) (readReg : Int × Int) :
    Option (Option Event) :=
  if readPos = 0 then
    match getExon rr rj 0 with
    | none => none
    | some e =>
      if interval_len e ≤ c.p.max_fake_terminal_exon_len then
        some (some (mkEvent .fake_terminal_exon_left extraLeftRegion readReg))
      else some none
  else some none

/-- `elif read_cregion[1] == len(read_junctions) - 1 and interval_len(get_exon(…, -1)) <= max_fake_terminal_exon_len` -/
def fakeRightOfExtra (c : CmpCtx) (rr : Iv) (rj : List Iv) (readPos : Nat) (readReg : Int × Int) :
    Option (Option Event) :=
  if (readPos : Int) = (rj.length : Int) - 1 then
    match getExon rr rj (-1) with
    | none => none
    | some e =>
      if interval_len e ≤ c.p.max_fake_terminal_exon_len then
        some (some (mkEvent .fake_terminal_exon_right extraRightRegion readReg))
      else some none
  else some none

/-- the two `elif … fake_terminal_exon_…` tests of the extra-intron branch: `some none` = neither applies -/
def fakeTerminalOfExtra (c : CmpCtx) (rr : Iv) (rj : List Iv) (readPos : Nat) (readReg : Int × Int) :
    Option (Option Event) :=
  match fakeLeftOfExtra c rr rj readPos readReg with
  | none => none
  | some (some e) => some (some e)
  | some none => fakeRightOfExtra c rr rj readPos readReg

/-- branch `isoform_cregion[0] == absent_position` (extra read intron) -/
def classifyExtra (c : CmpCtx) (rr : Iv) (rj : List Iv) (readPos isoPos : Nat) : Option Event :=
  let isoReg : Int × Int := (absentPos, (isoPos : Int))
  let readReg : Int × Int := ((readPos : Int), (readPos : Int))
  match knownIntrons c rj readPos readPos with
  | none => none
  | some true => some (mkEvent .extra_intron_known isoReg readReg)
  | some false =>
    match suspiciousIntrons c rr rj readPos readPos with
    | none => none
    | some true => some (mkEvent .none isoReg readReg)
    | some false =>
      match fakeTerminalOfExtra c rr rj readPos readReg with
      | none => none
      | some (some e) => some e
      | some none => some (mkEvent .extra_intron_novel isoReg readReg)

/-- `total_intron_len_diff <= min(max_intron_abs_diff, max_intron_rel_diff * max(read_total, isoform_total))` -/
def intronLengthSimilar (q : CParams) (rt it : Int) : Bool :=
  decide (iabs (rt - it) ≤ q.max_intron_abs_diff) &&
  decide (iabs (rt - it) * q.max_intron_rel_diff_den ≤ q.max_intron_rel_diff_num * max rt it)

/-- Python `round(n / d)` for d > 0 (round half to even) -/
def roundHalfEven (n d : Int) : Int :=
  let q := n / d
  let r := n % d
  if 2 * r < d then q else if 2 * r > d then q + 1 else if q % 2 = 0 then q else q + 1

/-- `max(1, min(min_abs_exon_overlap, round(min_rel_exon_overlap * interval_len(exon))))` -/
def minExonOverlap (c : CmpCtx) (exon : Iv) : Int :=
  max 1 (min c.p.min_abs_exon_overlap
    (roundHalfEven (c.q.min_rel_exon_overlap_num * interval_len exon) c.q.min_rel_exon_overlap_den))

/-- `sum([isoform_junctions[i + 1][0] - isoform_junctions[i][1] + 1 for i in range(i0, i0 + n)])` -/
def skippedExonLen (ij : List Iv) : Nat → Nat → Option Int
  | _, 0 => some 0
  | i, n + 1 =>
    match ij[i]?, ij[i + 1]?, skippedExonLen ij (i + 1) n with
    | some a, some b, some s => some (b.1 - a.2 + 1 + s)
    | _, _, _ => none

/-- `classify_skipped_exons`; `some none` = returns None -/
def classifySkipped (c : CmpCtx) (ij : List Iv) (i0 i1 : Nat) (similar known similarBounds : Bool) :
    Option (Option MatchEventSubtype) :=
  match skippedExonLen ij i0 (i1 - i0) with
  | none => none
  | some total =>
    if similar then
      if total ≤ c.p.max_missed_exon_len then some (some .exon_misalignment)
      else if known then some (some .exon_merge_known)
      else some (some .exon_merge_novel)
    else if similarBounds then
      (if known then some (some .exon_skipping_known) else some (some .exon_skipping_novel))
    else some none

/-- non-similar branch of `classify_single_intron_alternation`: alternative splice site or intron alternation -/
def altSiteEvent (c : CmpCtx) (rr : Iv) (rj : List Iv) (ir : Iv) (ij : List Iv) (rc ic : Nat) (r k : Iv)
    (known : Bool) : Option MatchEventSubtype :=
  let ev0 : MatchEventSubtype := if known then .intron_alternation_known else .intron_alternation_novel
  if iabs (k.1 - r.1) ≤ c.p.delta then
    match getFollowingExon rr rj rc, getFollowingExon ir ij ic with
    | some fr, some fi =>
      if overlaps_at_least fr fi (minExonOverlap c fi) then alternative_sites "right" known else some ev0
    | _, _ => none
  else if iabs (k.2 - r.2) ≤ c.p.delta then
    match getPrecedingExon rr rj rc, getPrecedingExon ir ij ic with
    | some pr, some pi =>
      if overlaps_at_least pr pi (minExonOverlap c pi) then alternative_sites "left" known else some ev0
    | _, _ => none
  else some ev0

/-- `if event in {...} and self.are_suspicious_introns(...): event = intron_retention` -/
def relabelSuspicious (c : CmpCtx) (rr : Iv) (rj : List Iv) (rc : Nat) (ev : MatchEventSubtype) :
    Option MatchEventSubtype :=
  if suspicious_alternation_events.contains ev then
    match suspiciousIntrons c rr rj rc rc with
    | none => none
    | some true => some .intron_retention
    | some false => some ev
  else some ev

/-- `classify_single_intron_alternation` -/
def classifySingle (c : CmpCtx) (rr : Iv) (rj : List Iv) (ir : Iv) (ij : List Iv) (rc ic : Nat)
    (similar known : Bool) : Option MatchEventSubtype :=
  match rj[rc]?, ij[ic]? with
  | some r, some k =>
    if similar then
      if iabs (k.1 - r.1) ≤ c.q.max_intron_shift then some .intron_shift
      else if known then some .intron_migration
      else some .intron_alternation_novel
    else
      match altSiteEvent c rr rj ir ij rc ic r k known with
      | none => none
      | some ev => relabelSuspicious c rr rj rc ev
  | _, _ => none

/-- everything `compare_overlapping_contradictional_regions` computes eagerly before the `if` cascade -/
structure BothData where
  rt : Int                  -- read_intron_total_len
  it : Int                  -- isoform_intron_total_len
  known : Bool              -- read_introns_known
  surrounded : Bool         -- surrounded_by_exons
  rl : Int                  -- read_left_site
  rrs : Int                 -- read_right_site
  il : Int                  -- isoform_left_site
  irs : Int                 -- isoform_right_site

def gatherBoth (c : CmpCtx) (rr : Iv) (rj : List Iv) (ir : Iv) (ij : List Iv) (r0 r1 i0 i1 : Nat) : Option BothData :=
  match sliceIncl rj r0 r1, sliceIncl ij i0 i1, knownIntrons c rj r0 r1 with
  | some rsel, some isel, some known =>
    match getExon rr rj r0, getExon ir ij i0, getExon rr rj ((r1 : Int) + 1), getExon ir ij ((i1 : Int) + 1) with
    | some re0, some ie0, some re1, some ie1 =>
      match rj[r0]?, rj[r1]?, ij[i0]?, ij[i1]? with
      | some ra, some rb, some ia, some ib =>
        some { rt := intervalsTotalLength rsel, it := intervalsTotalLength isel, known := known,
               surrounded := overlaps re0 ie0 && overlaps re1 ie1,
               rl := ra.1, rrs := rb.2, il := ia.1, irs := ib.2 }
      | _, _, _, _ => none
    | _, _, _, _ => none
  | _, _, _ => none

/-- the terminal-exon-alternation branch -/
def classifyTerminal (c : CmpCtx) (rr : Iv) (rj : List Iv) (ir : Iv) (ij : List Iv) (r0 i0 : Nat) (known : Bool) :
    Option MatchEventSubtype :=
  let exons : Option (Iv × Iv) :=
    if r0 = 0 ∧ i0 = 0 then
      match getPrecedingExon rr rj 0, getPrecedingExon ir ij 0 with
      | some a, some b => some (a, b)
      | _, _ => none
    else
      match getFollowingExon rr rj (-1), getFollowingExon ir ij (-1) with
      | some a, some b => some (a, b)
      | _, _ => none
  match exons with
  | none => none
  | some (re, ie) =>
    if iabs (interval_len re - interval_len ie) < 2 * c.p.delta then
      (if r0 = 0 then some .terminal_exon_misalignment_left else some .terminal_exon_misalignment_right)
    else if known then some .terminal_exon_shift_known
    else some .terminal_exon_shift_novel

/-- the `if … elif …` cascade: `some none` = `event` is still None after it -/
def cascadeBoth (c : CmpCtx) (rr : Iv) (rj : List Iv) (ir : Iv) (ij : List Iv) (r0 r1 i0 i1 : Nat) (d : BothData) :
    Option (Option MatchEventSubtype) :=
  let diff := iabs (d.rt - d.it)
  let similar := intronLengthSimilar c.q d.rt d.it
  let similarLeft := decide (iabs (d.rl - d.il) ≤ 2 * c.p.delta)
  let similarRight := decide (iabs (d.rrs - d.irs) ≤ 2 * c.p.delta)
  let similarBounds := similarLeft && similarRight
  let readInside := contains_approx (d.il, d.irs) (d.rl, d.rrs) c.p.delta
  let isoInside := contains_approx (d.rl, d.rrs) (d.il, d.irs) c.p.delta
  if d.surrounded = true ∧ r1 = r0 ∧ i1 = i0 then
    (classifySingle c rr rj ir ij r0 i0 similar d.known).map some
  else if rj.length > 1 ∧ r1 = r0 ∧ i1 = i0 ∧
      ((r0 = 0 ∧ i0 = 0 ∧ similarRight = true) ∨
       ((r0 : Int) = (rj.length : Int) - 1 ∧ (i0 : Int) = (ij.length : Int) - 1 ∧ similarLeft = true)) then
    (classifyTerminal c rr rj ir ij r0 i0 d.known).map some
  else if d.surrounded = true ∧ similarBounds = true ∧ (r1 : Int) - r0 = (i1 : Int) - i0 ∧ (i1 : Int) - i0 ≥ 1 ∧
      diff ≤ 2 * c.p.delta then
    (if d.known then some (some .mutually_exclusive_exons_known) else some (some .mutually_exclusive_exons_novel))
  else if d.surrounded = true ∧ readInside = true ∧ r1 = r0 ∧ i1 > i0 then
    classifySkipped c ij i0 i1 similar d.known similarBounds
  else if d.surrounded = true ∧ similarBounds = true ∧ r1 > r0 ∧ i1 = i0 then
    if d.known then some (some .exon_gain_known)
    else
      match suspiciousIntrons c rr rj r0 r1 with
      | none => none
      | some true => some (some .intron_retention)
      | some false => some (some .exon_gain_novel)
  else if d.surrounded = true ∧ similar = true ∧ isoInside = true ∧ r1 > r0 ∧ i1 = i0 then
    (if d.known then some (some .exon_detach_known) else some (some .exon_detach_novel))
  else some none

/-- the general branch (both regions present): the event type -/
def classifyBothTy (c : CmpCtx) (rr : Iv) (rj : List Iv) (ir : Iv) (ij : List Iv) (r0 r1 i0 i1 : Nat) :
    Option MatchEventSubtype :=
  match gatherBoth c rr rj ir ij r0 r1 i0 i1 with
  | none => none
  | some d =>
    match cascadeBoth c rr rj ir ij r0 r1 i0 i1 d with
    | none => none
    | some (some t) => some t
    | some none =>
      if d.known then some .alternative_structure_known
      else if d.surrounded then
        match suspiciousIntrons c rr rj r0 r1 with
        | none => none
        | some true => some .intron_retention
        | some false => some .alternative_structure_novel
      else some .alternative_structure_novel

/-- `compare_overlapping_contradictional_regions`; `some none` = returns None -/
def classifyPair (c : CmpCtx) (rr : Iv) (rj : List Iv) (ir : Iv) (ij : List Iv) : CPair → Option (Option Event)
  | .retention readPos isoPos => classifyRetention c rr rj ij readPos isoPos
  | .extra readPos isoPos => (classifyExtra c rr rj readPos isoPos).map some
  | .both r0 r1 i0 i1 =>
    (classifyBothTy c rr rj ir ij r0 r1 i0 i1).map (fun t =>
      some (mkEvent t ((i0 : Int), (i1 : Int)) ((r0 : Int), (r1 : Int))))

/-- `detect_contradiction_type` -/
def detectContradictions (c : CmpCtx) (rr : Iv) (rj : List Iv) (ir : Iv) (ij : List Iv) : List CPair → Option (List Event)
  | [] => some []
  | pr :: rest =>
    match classifyPair c rr rj ir ij pr with
    | none => none
    | some e =>
      match detectContradictions c rr rj ir ij rest with
      | none => none
      | some es => some (match e with | none => es | some e => e :: es)

/-! ### `add_extra_out_exon_events` -/

/-- indices `i, i+1, …` while the profile value is 0 -/
def zeroRun : List Int → Nat → List Nat
  | [], _ => []
  | v :: vs, i => if v = 0 then i :: zeroRun vs (i + 1) else []

/-- indices `i1-1, i1-2, …` (the list is the reversed profile) while the profile value is 0 -/
def zeroRunDown : List Int → Nat → List Nat
  | [], _ => []
  | v :: vs, i1 => if v = 0 then (i1 - 1) :: zeroRunDown vs (i1 - 1) else []

def flankEvent (t : MatchEventSubtype) (reg : Int × Int) (i : Nat) : Event :=
  mkEvent t reg ((i : Int), (i : Int))

/-- `(extra_left, extra_right)` of `add_extra_out_exon_events`; `none` = IndexError (empty profile / `read_introns[0]`) -/
def extraSides (prof : List Int) (rj : List Iv) (isoStart : Int) : Option (Bool × Bool) :=
  match prof.head?, prof.getLast? with
  | some f, some l =>
    if prof.all (fun v => v == 0) then
      -- `read_introns[0][0] < isoform_start` is evaluated only when all values are 0
      rj.head?.map (fun j => if j.1 < isoStart then (true, false) else (false, true))
    else some (decide (f = 0), decide (l = 0))
  | _, _ => none

/-- the `if extra_left:` block -/
def leftFlank (c : CmpCtx) (prof : List Int) (rr : Iv) (rj : List Iv) : Option (List Event) :=
  match getExon rr rj 0 with
  | none => none
  | some e =>
    if interval_len e ≤ c.p.max_fake_terminal_exon_len then
      some (flankEvent .fake_terminal_exon_left extraLeftRegion 0 ::
        (zeroRun (prof.drop 1) 1).map (flankEvent .extra_intron_flanking_left extraLeftRegion))
    else some ((zeroRun prof 0).map (flankEvent .extra_intron_flanking_left extraLeftRegion))

/-- the `if extra_right:` block -/
def rightFlank (c : CmpCtx) (prof : List Int) (rr : Iv) (rj : List Iv) : Option (List Event) :=
  match getExon rr rj (prof.length : Int) with
  | none => none
  | some e =>
    if interval_len e ≤ c.p.max_fake_terminal_exon_len then
      some (flankEvent .fake_terminal_exon_right extraRightRegion (prof.length - 1) ::
        (zeroRunDown (prof.reverse.drop 1) (prof.length - 1)).map
          (flankEvent .extra_intron_flanking_right extraRightRegion))
    else some ((zeroRunDown prof.reverse prof.length).map (flankEvent .extra_intron_flanking_right extraRightRegion))

/-- the events `add_extra_out_exon_events` appends; `none` = IndexError / AssertionError -/
def addExtraOut (c : CmpCtx) (prof : List Int) (rr : Iv) (rj : List Iv) (isoStart : Int) : Option (List Event) :=
  match extraSides prof rj isoStart with
  | none => none
  | some (el, er) =>
    match (if el then leftFlank c prof rr rj else some []), (if er then rightFlank c prof rr rj else some []) with
    | some a, some b => some (a ++ b)
    | _, _ => none

/-! ### `compare_junctions` -/

def hasNeg (l : List Int) : Bool := l.any (fun v => v == -1)

/-- the two presence lists and the contradictory region pairs of a spliced read -/
def sweepOf (c : CmpCtx) (rj : List Iv) (rr : Iv) (ij : List Iv) (ir : Iv) : SweepOut :=
  sweep c.p.delta rr ir rj 0 0 ij 0 0 none

def compareJunctions (c : CmpCtx) (rj : List Iv) (rr : Iv) (ij : List Iv) (ir : Iv) : Option (List Event) :=
  if rj.isEmpty then some (monoExonSubtype c rr ij)
  else
    let o := sweepOf c rj rr ij ir
    let ev1 : Option (List Event) :=
      if hasNeg o.readProf || hasNeg o.isoProf then detectContradictions c rr rj ir ij o.pairs else some []
    match ev1 with
    | none => none
    | some ev1 =>
      let ev2 : Option (List Event) :=
        if o.readProf.head? = some 0 ∨ o.readProf.getLast? = some 0 then
          (addExtraOut c o.readProf rr rj ir.1).map (fun x => ev1 ++ x)
        else some ev1
      ev2.map (fun e => if e.isEmpty then [{ ty := MatchEventSubtype.none }] else e)

/-! ### the assigner with the modelled comparator -/

/-- the comparator object `LongReadAssigner.__init__` builds -/
def cmpCtxOf (g : Gene) (p : Params) (q : CParams) : CmpCtx :=
  { p := p, q := q, known := g.introns, geneRegion := (g.start, g.stop) }

/-- `intron_comparator.compare_junctions(read_intron_profile.read_features, read_region, all_isoforms_introns[id],
    transcript_region(id))` for the isoform with id `id` -/
def cjModel (g : Gene) (p : Params) (q : CParams) (rp : ReadProf) : Nat → Option (List Event) := fun id =>
  match g.isos.find? (fun I => I.id == id) with
  | none => none
  | some I => compareJunctions (cmpCtxOf g p q) rp.introns rp.region I.introns I.region

/-- `assign_to_isoform` with the comparator modelled (no `cj` input) -/
def assignToIsoformM (g : Gene) (p : Params) (q : CParams) (rp : ReadProf) : Option (Assignment × Path) :=
  assignToIsoform g p rp (cjModel g p q rp)

def assignReadM (ms : List Isoform) (p : Params) (q : CParams) (blocks : List Iv) (pa : PolyA) :
    Option (Assignment × Path) :=
  match Gene.fromModels ms with
  | none => none
  | some g =>
    match constructProfiles g p blocks pa with
    | none => none
    | some rp => assignToIsoformM g p q rp

end IsoVerif.Model.C01
