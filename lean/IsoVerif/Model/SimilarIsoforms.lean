/-
C04 (growth: `detect_similar_isoforms` inside the model) — executable model of
  src/graph_based_model_construction.py  GraphBasedModelConstructor.detect_similar_isoforms,
                                         filter_transcripts with the COMPUTED `to_substitute` and the end correction
                                         (`correct_novel_transcript_ends`, C03 model `correctEnds`) between the two passes
  src/isoform_assignment.py              is_matching_assignment (allowed event set GENERATED: `matching_allowed_events`)
The verdict on a pair (model, m) is the C01 model composed, not re-modelled: `GeneInfo.from_models([model], delta)` =
`C01.Gene.fromModels`, `CombinedProfileConstructor.construct_profiles` = `C01.constructProfiles`,
`LongReadAssigner.assign_to_isoform` = `C01.assignToIsoformM` (comparator included).
Component coverage (`get_max_component_coverage` / `get_overlapping_component_max_coverage`) stays a parameter
(`covTerm`, exact thousandths), as do per-read mapping qualities and the reads' outer coordinates (`readSpan`).
Core Lean only.
-/
import IsoVerif.Gen.ModelConstruction
import IsoVerif.Gen.EventClasses
import IsoVerif.Model.ModelConstruction
import IsoVerif.Model.Assign
import IsoVerif.Model.JunctionCompare
import IsoVerif.Model.Gtf

namespace IsoVerif.Model.C04
open IsoVerif.Gen IsoVerif.Model

/-! ## is_matching_assignment -/

/-- `is_matching_assignment(assignment)`; `none` = IndexError on `isoform_matches[0]` -/
def isMatchingAssignment (a : C01.Assignment) : Option Bool :=
  if a.ty = ReadAssignmentType.unique then some true
  else if a.ty.is_unique then
    match a.isoMatches with
    | [] => none
    | m0 :: _ => some (m0.events.all (fun e => matching_allowed_events.contains e.ty))
  else some false

/-! ## detect_similar_isoforms -/

/-- `isoform_strands[t]` of `GeneInfo.from_models`: the model's strand string -/
def strandC01 : Strand → C01.Strand
  | .plus => .plus
  | .minus => .minus
  | .dot => .other

/-- the `PolyAInfo` handed to `construct_profiles`.  `intron_path` is `path[1:-1]` (introns only), so the two tests compare
    an intron START COORDINATE with the vertex codes −20 / −10: for genomic coordinates ≥ 0 the result is always
    `PolyAInfo(-1, -1, -1, -1)` (theorem `simPolyA_absent`).  `none` = IndexError (empty path; guarded by the caller). -/
def simPolyA (path : List Iv) : Option C01.PolyA :=
  match path.head?, path.getLast? with
  | some first, some last =>
    if first.1 = VERTEX_polyt then some ⟨-1, first.2, -1, -1⟩
    else if last.1 = VERTEX_polya then some ⟨last.2, -1, -1, -1⟩
    else some ⟨-1, -1, -1, -1⟩
  | _, _ => none

structure SimParams where
  p : C01.Params
  q : C01.CParams

/-- `GeneInfo.from_models([model], delta)` (+ the two constructors built on it) -/
def simGene (model : TModel) : Option C01.Gene := C01.Gene.fromModels [⟨model.exons, strandC01 model.strand⟩]

/-- `is_matching_assignment(assigner.assign_to_isoform(m.transcript_id, construct_profiles(m.exon_blocks, polya_info, [])))`
    against the gene built from `model` -/
def simVerdict (sp : SimParams) (g : C01.Gene) (m : TModel) : Option Bool :=
  match simPolyA m.intronPath with
  | none => none
  | some pa =>
    match C01.constructProfiles g sp.p m.exons pa with
    | none => none
    | some rp =>
      match C01.assignToIsoformM g sp.p sp.q rp with
      | none => none
      | some (a, _) => isMatchingAssignment a

/-- the guard of the inner loop: `m` is NOT compared with `model` -/
def simSkip (sub : List (String × String)) (model m : TModel) : Bool :=
  decide (m.ttype = .known) || decide (m.tid = model.tid) || amHas sub m.tid || decide (m.exons.length = 1) ||
  m.intronPath.isEmpty || decide (m.exons.length > model.exons.length)

/-- inner loop over `m`; `sub` = `to_substitute` (dict: m.transcript_id -> model.transcript_id) -/
def simInner {γ} (verdict : γ → TModel → Option Bool) (g : γ) (model : TModel) :
    List TModel → List (String × String) → Option (List (String × String))
  | [], sub => some sub
  | m :: t, sub =>
    if simSkip sub model m then simInner verdict g model t sub
    else
      match verdict g m with
      | none => none
      | some true => simInner verdict g model t (amSet sub m.tid model.tid)
      | some false => simInner verdict g model t sub

/-- outer loop over `model`; `prep` = construction of the artificial gene (may raise) -/
def simOuter {γ} (prep : TModel → Option γ) (verdict : γ → TModel → Option Bool) (storage : List TModel) :
    List TModel → List (String × String) → Option (List (String × String))
  | [], sub => some sub
  | model :: t, sub =>
    if model.exons.length ≤ 2 ∨ amHas sub model.tid then simOuter prep verdict storage t sub
    else
      match prep model with
      | none => none
      | some g =>
        match simInner verdict g model storage sub with
        | none => none
        | some sub' => simOuter prep verdict storage t sub'

/-- `detect_similar_isoforms(model_storage)` for any gene construction / verdict -/
def detectSimilarG {γ} (prep : TModel → Option γ) (verdict : γ → TModel → Option Bool) (storage : List TModel) :
    Option (List (String × String)) :=
  simOuter prep verdict storage storage []

/-- `detect_similar_isoforms(model_storage)` as the code computes it -/
def detectSimilar (sp : SimParams) (storage : List TModel) : Option (List (String × String)) :=
  detectSimilarG simGene (simVerdict sp) storage

/-- the verdict on an ordered pair: would `m` be substituted by `model`? -/
def simMatch (sp : SimParams) (model m : TModel) : Option Bool :=
  match simGene model with
  | none => none
  | some g => simVerdict sp g m

/-! ## filter_transcripts with the computed `to_substitute` and the end correction -/

/-- `filterLoopG` whose kept models pass through `post` (the first loop of `filter_transcripts` corrects the ends of
    every novel model it keeps, in place, before the next iteration) -/
def filterLoopC (dec : Store → TModel → Option (Bool × Store)) (post : Store → TModel → Option TModel) :
    List TModel → Store → List TModel → Option (Store × List TModel)
  | [], s, kept => some (s, kept)
  | m :: t, s, kept =>
    match dec s m with
    | none => none
    | some (true, s1) =>
      match post s1 m with
      | none => none
      | some m' => filterLoopC dec post t s1 (kept ++ [m'])
    | some (false, s1) =>
      match s1.deleteFromStorage m.tid with
      | none => none
      | some s' => filterLoopC dec post t s' kept

/-- `correct_novel_transcript_ends(model, transcript_read_ids[model.transcript_id])` for the models the first loop keeps
    (known models `continue` before it); `readSpan r` = `(corrected_exons[0][0], corrected_exons[-1][1])` of read `r` -/
def correctModel (apa : Int) (readSpan : String → Iv) (s : Store) (m : TModel) : Option TModel :=
  if m.ttype = .known then some m
  else (C03.correctEnds m.exons ((readsOf s m.tid).map readSpan) apa).map (fun ex => { m with exons := ex })

/-- `filter_transcripts` for any `detect_similar_isoforms` that may raise (`similar`) and any end correction (`post`) -/
def Store.filterTranscriptsG (s : Store) (p : FilterParams) (mapq : String → Int)
    (similar : List TModel → Option (List String)) (post : Store → TModel → Option TModel) (covTerm : TModel → Int) :
    Option Store :=
  match similar s.models with
  | none => none
  | some sub1 =>
    match filterLoopC (filterDec1 p mapq sub1 covTerm) post s.models s [] with
    | none => none
    | some (s1, pre) =>
      match similar pre with
      | none => none
      | some sub2 =>
        match filterLoopG (filterDec2 sub2) pre s1 [] with
        | none => none
        | some (s2, kept) => some { s2 with models := kept }

/-- `filter_transcripts` as the code computes it -/
def Store.filterTranscriptsC (s : Store) (p : FilterParams) (sp : SimParams) (mapq : String → Int) (readSpan : String → Iv)
    (covTerm : TModel → Int) : Option Store :=
  s.filterTranscriptsG p mapq (fun ms => (detectSimilar sp ms).map amKeys) (correctModel sp.p.apa_delta readSpan) covTerm

end IsoVerif.Model.C04
