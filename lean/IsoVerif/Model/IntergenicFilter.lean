/-
C05 (growth, seed C05_b4) — the per-alignment filters of `AlignmentCollector.process_intergenic` in the ORDER of the code
(`src/alignment_processor.py`):

    skip: reference_id == -1 / supplementary / --no_secondary secondary / MAPQ < --min_mapq          (`Regions.passes`)
    alignment_info = AlignmentInfo(alignment)            read_exons = the aligned blocks of the CIGAR (split at N)
    skip: not read_exons
    skip: len(read_exons) <= 2 and (secondary or MAPQ < simple_alignments_mapq_cutoff)   <- the exon count OF THE ALIGNMENT
    alignment_info.add_polya_info(...)                   PolyAFixer trims fake terminal polyA / polyT exons from read_exons
    ... one ReadAssignment(intergenic) appended

An alignment enters as what this code reads of it: the record fields of `Regions.Aln`, the number of exons of the alignment
and the number of exons left after the polyA trimming (what `AlignmentInfo` / `PolyAFixer` compute is the subject of C16).
Core Lean only.
-/
import IsoVerif.Model.Regions

namespace IsoVerif.Model.Regions

structure IgAln where
  aln : Aln
  /-- `len(AlignmentInfo(alignment).read_exons)` -/
  exons : Nat
  /-- `len(alignment_info.read_exons)` after `add_polya_info` -/
  trimmed : Nat
deriving DecidableEq, Repr

/-- the two `continue`s between `AlignmentInfo(alignment)` and `add_polya_info` -/
def keepIntergenic (cutoff : Int) (a : IgAln) : Bool :=
  a.exons != 0 && !(decide (a.exons ≤ 2) && (a.aln.secondary || decide (a.aln.mapq < cutoff)))

/-- does the alignment get a read assignment in a region without genes -/
def intergenicRecord (p : Params) (cutoff : Int) (a : IgAln) : Bool := passes p a.aln && keepIntergenic cutoff a

/-- `process_intergenic(alignment_storage, region)`: the alignments that get a record, in storage order -/
def intergenicRecords (p : Params) (cutoff : Int) (l : List IgAln) : List IgAln := l.filter (intergenicRecord p cutoff)

/-- the variant in which `add_polya_info` runs in front of the simple-alignment filter (the filter then sees the trimmed
    exon list) — NOT the code; kept for the witness -/
def keepIntergenicAfterTrim (cutoff : Int) (a : IgAln) : Bool :=
  a.exons != 0 && !(decide (a.trimmed ≤ 2) && (a.aln.secondary || decide (a.aln.mapq < cutoff)))

end IsoVerif.Model.Regions
