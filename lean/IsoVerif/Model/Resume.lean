/-
C07 — the file-system protocol of one IsoQuant run (one sample), as an executable model. Core Lean only.

What is modelled (src/dataset_processor.py, src/file_utils.py, src/assignment_io.py, src/read_groups.py, isoquant.py):

* the file system of the output directory as a finite map  path-class → content token (`bad` = truncated /
  being written / computed from bad input; `good` = the complete content a correct computation gives);
* a run as a list of *stages*; every stage looks at the current file system (skip-if-locked branches, existence
  checks) and yields a list of actions: FS events (`create` = open 'w', `append` = open 'a', `commit` = the content
  written so far is complete and has reached the file (flush/close), `remove` = os.remove) and the ways the real
  code raises (`exist p` = opening a missing file for reading / `assert os.path.exists`, `load p` = reading a
  missing or truncated pickle / terminated binary stream, `rm p` = os.remove of a missing file);
* crash = truncation of the event list of the first run at any index; resume = a second run (`resume = true`) from
  the resulting file system.

Run configurations (`Cfg`): chromosome orders, annotation, read-group mode, `--keep_tmp`, unaligned reads,
`--read_assignments`, `--sqanti_output`, `carried`, and — docs/C07.md "More run configurations" — `--count_exons` (streams
`exon`/`intron`/`exonG`/`intronG`, `dumpProfile`, `MStep.profile`), `--no_model_construction` (`gffStreams`, `modelUngrouped`,
`modelGrouped`, `trStatPaths` empty), gzipped final outputs (`gzFinals`, `finalOf`, path class `finalGz`), `--high_memory`
(`collectPost` does not read the save files back) and the options of the resume command line (`resumeCfg`); a reference that
is gzip- but not bgzip-compressed (`Cfg.gzRef`, `refStage`, path class `refFa`: the copy unpacked into the output folder).

`Variant` switches between the pinned behaviour and the repaired one (see docs/C07.md):
  flushBeforeLock  the `_collected` / `_processed` lock is written after the data it guards is on disk
  dropProcessed    the `_processed` locks are removed before the per-chromosome files are merged (and deleted)
  locksFirst       the final clean-up removes the lock files before the data files
  countUnaligned   a resumed run that skips read collection still counts the unaligned reads of the BAM files
  flushSqanti      (`--sqanti_output`) the per-chromosome SQANTI-like table is flushed before the `_processed` lock
  resetCounter     the process-wide alignment counter is reset at the start of *every* experiment, on every path
                   (off: only where reads are collected — a later experiment whose collection is skipped on resume
                   reports the unaligned reads of the earlier experiments as well)
  refRewrite       a plain-gzip reference is unpacked by every run (off: `--resume` trusts the file a killed run left)
-/
namespace IsoVerif.Model.Resume

abbrev Chr := Nat

/-- per-sample output streams that are produced per chromosome and merged -/
inductive Stream where
  | bed | assign | gtf | r2t | ext          -- printers (kept open until the printer object dies)
  | sq                                       -- `--sqanti_output`: the SQANTI-like table (a printer, opened twice per task)
  | gene | tr | model                        -- ungrouped counters (+ `.stats` side file)
  | geneG | trG | modelG                     -- grouped counters (matrix + linear file)
  | exon | intron | exonG | intronG          -- `--count_exons`: exon / intron inclusion counts and their grouped variants
                                             -- (ProfileFeatureCounter: one file, rewritten by `dump`, no side file, no TPM)
  deriving DecidableEq, Repr

inductive Path where
  | params
  | rgSplit (c : Chr) | rgLock
  | save (c : Chr) | groups (c : Chr) | bamstat (c : Chr) | collected (c : Chr)
  | multimap (c : Chr) | info | lock
  | part (s : Stream) (c : Chr) | partLin (s : Stream) (c : Chr) | partStats (s : Stream) (c : Chr)
  | readStat (c : Chr) | trStat (c : Chr) | processed (c : Chr)
  | final (s : Stream) | finalLin (s : Stream) | tpm (s : Stream)
  | finalGz (s : Stream)   -- the final file of a stream written through `gzip.open` (`<name>.gz`; default, off with `--no_gzip`)
  | refFa                  -- `<output>/<reference name without .gz>`: the unpacked copy of a plain-gzip (not bgzip) reference
  | refFai                 -- the FASTA index `<reference the run reads>.fai` inside the output folder: the file *exists*
  | refFaiData             -- … and its content (no file of its own: `refFai` is to `refFaiData` what a lock is to the data it
                           -- vouches for — an index that exists is read without any check of its completeness)
  | refFaiTmp              -- `<index>.<uuid4 hex>.tmp`: the name under which load_indexed_reference lets pyfaidx build the index
  | paramsTmp              -- `.params.tmp`: the name under which save_params pickles the parameters before it renames the file
  deriving DecidableEq, Repr

inductive Tok where
  | bad      -- truncated / being written / computed from wrong input
  | good     -- the complete content a correct computation of *this* run gives
  | stale    -- a complete file with other content (left by an earlier run with other options or inputs)
  deriving DecidableEq, Repr

abbrev FS := Path → Option Tok

def FS.empty : FS := fun _ => none
def FS.set (fs : FS) (p : Path) (v : Option Tok) : FS := fun q => if q = p then v else fs q
/-- the file exists -/
def FS.has (fs : FS) (p : Path) : Bool := (fs p).isSome
/-- the file exists and is complete and correct -/
def FS.good (fs : FS) (p : Path) : Bool := fs p == some Tok.good
/-- a pickle / terminated binary stream that can be read to its end (complete, whatever its content) -/
def FS.loadable (fs : FS) (p : Path) : Bool := fs p == some Tok.good || fs p == some Tok.stale

inductive Ev where
  | create (p : Path)
  | append (p : Path)
  | commit (p : Path) (t : Tok)
  | remove (p : Path)
  deriving DecidableEq, Repr

def Ev.path : Ev → Path
  | .create p => p
  | .append p => p
  | .commit p _ => p
  | .remove p => p

/-- the value the event leaves at its path -/
def Ev.val : Ev → Option Tok
  | .create _ => some .bad
  | .append _ => some .bad
  | .commit _ t => some t
  | .remove _ => none

def apply (fs : FS) (e : Ev) : FS := fs.set e.path e.val

def applyAll (fs : FS) : List Ev → FS
  | [] => fs
  | e :: es => applyAll (apply fs e) es

inductive Act where
  | ev (e : Ev)
  | exist (p : Path)    -- text file opened for reading / `assert os.path.exists`: raises when the file is missing
  | load (p : Path)     -- pickle or terminated binary stream: raises when the file is missing or truncated
  | rm (p : Path)       -- os.remove: raises when the file is missing
  deriving Repr

structure Res where
  evs : List Ev
  fs : FS
  ok : Bool

/-- executes actions until one raises -/
def runActs : List Act → FS → Res
  | [], fs => ⟨[], fs, true⟩
  | .ev e :: as, fs =>
      let r := runActs as (apply fs e)
      ⟨e :: r.evs, r.fs, r.ok⟩
  | .exist p :: as, fs =>
      if fs.has p then runActs as fs else ⟨[], fs, false⟩
  | .load p :: as, fs =>
      if fs.loadable p then runActs as fs else ⟨[], fs, false⟩
  | .rm p :: as, fs =>
      if fs.has p then
        let r := runActs as (apply fs (.remove p))
        ⟨.remove p :: r.evs, r.fs, r.ok⟩
      else ⟨[], fs, false⟩

abbrev Stage := FS → List Act

def runStages : List Stage → FS → Res
  | [], fs => ⟨[], fs, true⟩
  | s :: ss, fs =>
      let r := runActs (s fs) fs
      if r.ok then
        let r2 := runStages ss r.fs
        ⟨r.evs ++ r2.evs, r2.fs, r2.ok⟩
      else r

/-! ### configuration -/

structure Variant where
  flushBeforeLock : Bool
  dropProcessed : Bool
  locksFirst : Bool
  countUnaligned : Bool
  cleanBeforeParams : Bool   -- a fresh run removes the lock files of an earlier run before it saves `.params`
  dropAtDumpPrefix : Bool    -- the `_processed` locks are dropped where they were written (next to the save files)
  flushSqanti : Bool         -- the SQANTI-like table of a chromosome is flushed before its `_processed` lock
  resetCounter : Bool        -- the alignment counter is reset at the start of every experiment, on every path
  refRewrite : Bool          -- a plain-gzip reference is unpacked by *every* run, also by a resumed one (off: a resumed run
                             -- trusts whatever file carries the name of the unpacked copy)
  faiAtomic : Bool           -- the FASTA index is built under a temporary name and renamed (off: pyfaidx writes it in place)
  paramsAtomic : Bool        -- `.params` is written as `.params.tmp` and renamed (off: rewritten in place, also by a resumed run)
  deriving DecidableEq, Repr

/-- the repaired code (the current /repo) -/
def fixed : Variant := ⟨true, true, true, true, true, true, true, true, true, true, true⟩
/-- the code as pinned -/
def pinned : Variant := ⟨false, false, false, false, false, true, true, true, false, false, false⟩

inductive RG where
  | none      -- no --read_group
  | inline    -- tag / read_id / file_name grouping: no auxiliary table
  | file      -- `file:` grouping: the table is split per chromosome
  deriving DecidableEq, Repr

structure Cfg where
  chrs : List Chr       -- processing order (get_chr_list: by length, descending)
  mchrs : List Chr      -- the same chromosomes in the natural-sort order of merge_files
  bchrs : List Chr      -- the same chromosomes in BAM header order (split_read_group_table)
  genedb : Bool
  rg : RG
  keepTmp : Bool
  unmapped : Bool       -- the BAM files contain unaligned reads
  fromSaves : Bool      -- `--read_assignments <prefix>`: no read collection; the `save`/`multimap`/`info`/`processed`/
                        -- `readStat`/`trStat` paths are then the files next to the user's save files (dump_filename)
  sqanti : Bool := false   -- `--sqanti_output`
  carried : Bool := false  -- this is a second or later experiment of the invocation and an earlier one has unaligned
                           -- reads: the process-wide alignment counter is not zero when this experiment starts
  countExons : Bool := false  -- `--count_exons` (no effect without an annotation)
  noModel : Bool := false     -- `--no_model_construction`: no transcript models, no model counts, no `_transcript_stat`
  gzip : Bool := false        -- large final outputs go through `gzip.open` (the default; false = `--no_gzip`)
  highMemory : Bool := false  -- `--high_memory`: collect_reads keeps the assignments of every chromosome in memory and
                              -- does not read the save files back (no prepare_multimapper_dict)
  idx : Bool := false         -- the index of the reference the run reads lies in the output folder and is written by the run:
                              -- the private index of the unpacked copy of a plain-gzip reference (since eab0ef3), or the
                              -- index of a reference that was put into the folder without one
  gzRef : Bool := false       -- the reference is gzip- but not bgzip-compressed: DatasetProcessor.__init__ unpacks it into
                              -- the output folder (`Path.refFa`) and works with the copy
  deriving Repr

def aggPrinters (cfg : Cfg) : List Stream := .bed :: (if cfg.genedb then [.assign] else [])
def ungroupedGlobal (cfg : Cfg) : List Stream := if cfg.genedb then [.gene, .tr] else []
def groupedGlobal (cfg : Cfg) : List Stream := if cfg.genedb && cfg.rg != .none then [.geneG, .trG] else []
/-- the transcript-model counter exists unless `--no_model_construction` -/
def modelUngrouped (cfg : Cfg) : List Stream := if cfg.noModel then [] else [.model]
def modelGrouped (cfg : Cfg) : List Stream := if cfg.rg != .none && !cfg.noModel then [.modelG] else []
/-- the GFF printers are `VoidTranscriptPrinter`s under `--no_model_construction` -/
def gffStreams (cfg : Cfg) : List Stream :=
  if cfg.noModel then [] else .gtf :: .r2t :: (if cfg.genedb then [.ext] else [])
/-- isoquant.py check_input_params switches `--sqanti_output` off without an annotation or without model construction -/
def sqOn (cfg : Cfg) : Bool := cfg.sqanti && cfg.genedb && !cfg.noModel
def sqStreams (cfg : Cfg) : List Stream := if sqOn cfg then [.sq] else []
/-- `--count_exons` (with an annotation): the exon and intron counters of the global counter … -/
def profileGlobal (cfg : Cfg) : List Stream := if cfg.genedb && cfg.countExons then [.exon, .intron] else []
/-- … and their grouped variants (with `--read_group`) -/
def profileGrouped (cfg : Cfg) : List Stream :=
  if cfg.genedb && cfg.rg != .none && cfg.countExons then [.exonG, .intronG] else []
/-- streams whose per-chromosome file stays open until the printer dies (in the order in which they are flushed) -/
def printerStreams (cfg : Cfg) : List Stream := aggPrinters cfg ++ sqStreams cfg ++ gffStreams cfg
def ungrouped (cfg : Cfg) : List Stream := ungroupedGlobal cfg ++ modelUngrouped cfg
def grouped (cfg : Cfg) : List Stream := groupedGlobal cfg ++ modelGrouped cfg
def profile (cfg : Cfg) : List Stream := profileGlobal cfg ++ profileGrouped cfg
/-- `_transcript_stat` is written (and read back by a resumed run) only when models are constructed -/
def trStatPaths (cfg : Cfg) (c : Chr) : List Path := if cfg.noModel then [] else [.trStat c]

/-- the final outputs that are gzip streams (`gzipped=self.args.gzipped`: BEDPrinter, BasicTSVAssignmentPrinter, the
    read-to-model table of the GFFPrinter of the final files; the per-chromosome files are never gzipped) -/
def gzFinals (cfg : Cfg) : List Stream :=
  if cfg.gzip then (aggPrinters cfg ++ gffStreams cfg).filter (fun s => s == .bed || s == .assign || s == .r2t) else []
/-- the final file of a printer stream: `<name>.gz` for a gzip stream -/
def finalOf (cfg : Cfg) (s : Stream) : Path := if s ∈ gzFinals cfg then .finalGz s else .final s

/-- every per-chromosome file of chromosome `c` that the `_processed` lock of `c` stands for -/
def chrOutputs (cfg : Cfg) (c : Chr) : List Path :=
  (printerStreams cfg).map (fun s => Path.part s c)
  ++ (ungrouped cfg).flatMap (fun s => [Path.part s c, Path.partStats s c])
  ++ (grouped cfg).flatMap (fun s => [Path.part s c, Path.partLin s c])
  ++ (profile cfg).map (fun s => Path.part s c)
  ++ Path.readStat c :: trStatPaths cfg c

/-- the final files under `<out>/<prefix>/` -/
def finalPaths (cfg : Cfg) : List Path :=
  (printerStreams cfg).map (finalOf cfg)
  ++ (ungrouped cfg).flatMap (fun s => [Path.final s, Path.tpm s])
  ++ (grouped cfg).flatMap (fun s => [Path.final s, Path.finalLin s, Path.tpm s])
  ++ (profile cfg).map Path.final

/-- the content token of a file that has been written completely: correct iff everything it was computed from was
    (a complete file with wrong content is `stale`, never `bad`: its readers do not raise) -/
def tokOf (b : Bool) : Tok := if b then .good else .stale
def allGood (fs : FS) (ps : List Path) : Bool := ps.all fs.good

def evs (l : List Ev) : List Act := l.map Act.ev
/-- `os.remove` of each path in turn -/
def rmAll (ps : List Path) : List Act := ps.map Act.rm

/-! ### stages -/

/-- the lock files a fresh (not resumed) run finds and removes before saving its parameters
    (isoquant.py remove_previous_run_locks: the sample's `_lock`, `read_group_lock`, `_*_collected`, `_*_processed`;
    with `--read_assignments` the `_*_processed` files next to the save files) -/
def lockList (cfg : Cfg) (fs : FS) : List Path :=
  (if cfg.fromSaves then [Path.rgLock] else [Path.lock, Path.rgLock]).filter fs.has
  ++ (cfg.chrs.filter (fun c => !cfg.fromSaves && fs.has (.collected c))).map Path.collected
  ++ (cfg.chrs.filter (fun c => fs.has (.processed c))).map Path.processed

def forceClean (v : Variant) (cfg : Cfg) (resume : Bool) : Stage := fun fs =>
  if resume || !v.cleanBeforeParams then [] else rmAll (lockList cfg fs)

/-- isoquant.py check_and_load_args: `--resume` unpickles `.params`; save_params rewrites it -/
def paramsEvs (v : Variant) : List Ev :=
  if v.paramsAtomic then
    -- save_params since ffd90d3: `with open(".params.tmp", "wb")` (create, complete at the close), then
    -- `os.replace(".params.tmp", ".params")` = `remove paramsTmp`, `commit params good` (one atomic step: the state between
    -- the two events — neither name — does not exist; superset).  A `.params.tmp` left by a killed run is never read:
    -- the next run opens it with "wb" again.
    [.create .paramsTmp, .commit .paramsTmp .good, .remove .paramsTmp, .commit .params .good]
  else [.create .params, .commit .params .good]      -- rewritten in place (the close is left to the garbage collector)

def paramsStage (v : Variant) (resume : Bool) : Stage := fun _ =>
  (if resume then [Act.load .params] else []) ++ evs (paramsEvs v)

/-- DatasetProcessor.__init__ (after `.params` was saved, before the first experiment): pyfaidx refuses a reference that is
    gzip- but not bgzip-compressed (`UnsupportedCompressionFormat`); it is unpacked into `<output>/<name>`
    (`with open(…, "w") as outf: shutil.copyfileobj(gzip.open(reference, "rt"), outf)`: the file is empty after the open,
    then holds the first 64-KiB pieces of the copy — `commit refFa stale`: a FASTA cut after its first sequence line is a
    readable FASTA with fewer / shorter sequences —, and is complete at the close) and `Fasta(unpacked copy)` indexes
    it: an empty file raises `FastaIndexingError` (`load`), anything else is read.
    The code before the repair (`refRewrite` off) unpacks `if not os.path.exists(copy) or not args.resume`: a resumed run
    works with whatever it finds under that name. -/
def refCopyActs (v : Variant) (cfg : Cfg) (resume : Bool) (fs : FS) : List Act :=
  if !cfg.gzRef then []
  else
    (if !v.refRewrite && resume && fs.has .refFa then []
     else evs [.create .refFa, .commit .refFa .stale, .commit .refFa .good])
    ++ [Act.load .refFa]

/-- the index is trusted as found (not a plain-gzip reference: the copy of one is rewritten by every run, its index is
    older than the copy — `os.path.getmtime(fai) < os.path.getmtime(reference)` — and therefore rebuilt) -/
def idxTrusted (cfg : Cfg) : Bool := cfg.idx && !cfg.gzRef

/-- load_indexed_reference (src/dataset_processor.py, since eab0ef3), for an index inside the output folder (`cfg.idx`):
    an index that exists and is not older than the FASTA is read as it is (`exist`: a text file; an empty or cut index is
    read without complaint, the reference then has fewer sequences).  Otherwise pyfaidx reads the FASTA, opens
    `<index>.<hex>.tmp`, writes and closes it; `os.replace(tmp, index)` is the three events `remove refFaiTmp`, `commit
    refFaiData good`, `commit refFai good` (one atomic step in reality: the two states between them do not exist, the
    crash states of the model are a superset).  Before the repair (`faiAtomic` off) pyfaidx opened the index itself
    (`create refFai`: the file exists and is empty) and completed it at the close (`commit refFaiData good`). -/
def refIndexActs (v : Variant) (cfg : Cfg) (fs : FS) : List Act :=
  if !cfg.idx then []
  else if idxTrusted cfg && fs.has .refFai then [Act.exist .refFai]
  else
    (if v.faiAtomic then
       evs [.create .refFaiTmp, .commit .refFaiTmp .good, .remove .refFaiTmp, .commit .refFaiData .good, .commit .refFai .good]
     else evs [.create .refFai, .commit .refFaiData .good])
    ++ [Act.exist .refFai]

def refStage (v : Variant) (cfg : Cfg) (resume : Bool) : Stage := fun fs =>
  refCopyActs v cfg resume fs ++ refIndexActs v cfg fs      -- (the copy events do not touch the index)

/-- the reference the per-chromosome work reads (chromosome list, sequences) is the right one: the user's file, or — with a
    plain-gzip reference — a complete and correct unpacked copy (a copy that is not: the first pieces of a copy in
    progress, or the copy of another reference; pyfaidx reads both without complaint, `Tok.stale`); and, when the index
    lies in the output folder, a complete and correct index -/
def refOK (cfg : Cfg) (fs : FS) : Bool := (!cfg.gzRef || fs.good .refFa) && (!cfg.idx || fs.good .refFaiData)

/-- DatasetProcessor.process_sample: read-group table split (read_groups.split_read_group_table) + its lock -/
def rgStage (cfg : Cfg) (resume : Bool) : Stage := fun fs =>
  if resume && fs.has .rgLock then []
  else
    rmAll (if fs.has .rgLock then [.rgLock] else [])
    ++ (if cfg.rg = .file then
          evs (cfg.bchrs.map (fun c => Ev.create (.rgSplit c)) ++ cfg.bchrs.map (fun c => Ev.commit (.rgSplit c) .good))
        else [])
    ++ evs [.create .rgLock]

/-- collect_reads, before the per-chromosome work: stale locks of a run that is not resumed.
    `sk` = the stage lock exists and the run is resumed: the whole collection is skipped -/
def collectPre (cfg : Cfg) (resume sk : Bool) : Stage := fun fs =>
  if sk || resume then []
  else
    rmAll ((if fs.has .lock then [.lock] else [])
      ++ (cfg.chrs.filter (fun c => fs.has (.collected c))).map Path.collected
      ++ (cfg.chrs.filter (fun c => fs.has (.processed c))).map Path.processed)

/-- collect_reads_in_parallel for chromosome `c` -/
def collectChr (v : Variant) (cfg : Cfg) (resume sk : Bool) (c : Chr) : Stage := fun fs =>
  if sk then []
  else
    -- create_read_grouper: ReadTableGrouper loads the per-chromosome table (text: a truncated table is read silently)
    let grouper : List Act := if cfg.rg = .file then [Act.exist (.rgSplit c)] else []
    -- the chromosome's sequence comes from the reference as the run finds it
    let t := tokOf ((cfg.rg != .file || fs.good (.rgSplit c)) && refOK cfg fs)
    if resume && fs.has (.collected c) && fs.has (.groups c) && fs.has (.save c) then
      -- "Detected processed reads": groups (text), bamstat (pickle), save (terminated binary stream) are loaded
      grouper ++ [Act.load (.bamstat c), Act.load (.save c)]
    else
      grouper ++ evs ([.create (.save c), .create (.save c), .create (.groups c), .commit (.groups c) t,
                       .create (.bamstat c), .commit (.bamstat c) t]
        ++ (if v.flushBeforeLock then [Ev.commit (.save c) t] else [])
        ++ [.create (.collected c)]
        ++ (if v.flushBeforeLock then [] else [Ev.commit (.save c) t]))

/-- collect_reads after the per-chromosome work: prepare_multimapper_dict re-reads every save file,
    resolve_multimappers writes one file per chromosome, then the info file and the stage lock -/
def collectPost (cfg : Cfg) (sk : Bool) : Stage := fun fs =>
  if sk then []
  else
    let m := tokOf (cfg.chrs.all (fun c => fs.good (.groups c) && fs.good (.save c)))
    -- prepare_multimapper_dict reads every save file back; `--high_memory` keeps the assignments in memory instead
    (if cfg.highMemory then [] else cfg.chrs.map (fun c => Act.load (.save c)))
    ++ evs (cfg.chrs.map (fun c => Ev.create (.multimap c)) ++ cfg.chrs.map (fun c => Ev.commit (.multimap c) m)
            ++ [.create .info, .commit .info m, .create .lock])

/-- ReadAssignmentAggregator.__init__ + the two GFFPrinters, for the final files (`main = finalOf cfg`) or for the
    per-chromosome files (`main = part · c`) -/
def aggInit (cfg : Cfg) (main lin : Stream → Path) : List Ev :=
  (aggPrinters cfg).map (fun s => Ev.create (main s))
  ++ (sqStreams cfg).map (fun s => Ev.create (main s))
  ++ (ungroupedGlobal cfg).map (fun s => Ev.create (main s))
  ++ (modelUngrouped cfg).map (fun s => Ev.create (main s))
  ++ (profileGlobal cfg).map (fun s => Ev.create (main s))
  ++ (groupedGlobal cfg).flatMap (fun s => [Ev.create (main s), Ev.create (lin s)])
  ++ (profileGrouped cfg).map (fun s => Ev.create (main s))
  ++ (modelGrouped cfg).flatMap (fun s => [Ev.create (main s), Ev.create (lin s)])
  ++ (gffStreams cfg).map (fun s => Ev.create (main s))

/-- process_sample → load_read_info, then process_assigned_reads up to the per-chromosome work -/
def constructPre (cfg : Cfg) : Stage := fun _ =>
  Act.exist .info :: evs (aggInit cfg (finalOf cfg) Path.finalLin)

def dumpUngrouped (c : Chr) (t : Tok) (s : Stream) : List Ev :=
  [.append (.part s c), .create (.partStats s c), .commit (.partStats s c) t, .commit (.part s c) t]
def dumpGrouped (c : Chr) (t : Tok) (s : Stream) : List Ev :=
  [.append (.part s c), .append (.partLin s c), .commit (.part s c) t, .commit (.partLin s c) t]
/-- ProfileFeatureCounter.dump: the file is opened with "w" again and closed -/
def dumpProfile (c : Chr) (t : Tok) (s : Stream) : List Ev :=
  [.create (.part s c), .commit (.part s c) t]

/-- construct_models_in_parallel for chromosome `c` -/
def constructChr (v : Variant) (cfg : Cfg) (resume : Bool) (c : Chr) : Stage := fun fs =>
  if resume && fs.has (.processed c) then
    -- `transcript_stat = EnumStats(transcript_stat_file) if construct_models else EnumStats()`
    [Act.load (.multimap c), Act.load (.readStat c)] ++ (trStatPaths cfg c).map Act.load
  else
    -- the info file (binary, no terminator) is read silently when truncated: everything computed here depends on it
    let t := tokOf (fs.good .info && refOK cfg fs)
    -- the streams flushed before the lock is written, and those that reach the disk only when their printer dies
    let early (s : Stream) : Bool := v.flushBeforeLock && (v.flushSqanti || s != .sq)
    let commits (b : Bool) : List Ev :=
      ((printerStreams cfg).filter (fun s => early s == b)).map (fun s => Ev.commit (.part s c) t)
    Act.load (.multimap c)
    :: evs (aggInit cfg (fun s => .part s c) (fun s => .partLin s c)
            -- the task opens the SQANTI-like table a second time (its own SqantiTSVPrinter on the aggregator's file)
            ++ (sqStreams cfg).map (fun s => Ev.create (.part s c)))
    ++ [Act.load (.save c)]
    -- global_counter.dump() in the order of its counters: gene, transcript, [exon, intron], [grouped …, [exon, intron grouped]]
    ++ evs ((ungroupedGlobal cfg).flatMap (dumpUngrouped c t) ++ (profileGlobal cfg).flatMap (dumpProfile c t)
            ++ (groupedGlobal cfg).flatMap (dumpGrouped c t) ++ (profileGrouped cfg).flatMap (dumpProfile c t)
            ++ [.create (.readStat c), .commit (.readStat c) t]
            ++ (modelUngrouped cfg).flatMap (dumpUngrouped c t) ++ (modelGrouped cfg).flatMap (dumpGrouped c t)
            ++ (trStatPaths cfg c).flatMap (fun p => [Ev.create p, Ev.commit p t])
            ++ commits true
            ++ [.create (.processed c)]
            ++ commits false)

/-- (repaired code) the `_processed` locks are removed before merging -/
def dropStage (v : Variant) (cfg : Cfg) : Stage := fun fs =>
  if v.dropProcessed && (v.dropAtDumpPrefix || !cfg.fromSaves) then
    rmAll ((cfg.chrs.filter (fun c => fs.has (.processed c))).map Path.processed)
  else []

/-- file_utils.merge_files: existing parts are copied, then *all* parts are removed (a missing one raises) -/
def rmParts (cfg : Cfg) (f : Chr → Path) : List Act := rmAll (cfg.mchrs.map f)

/-- file_utils.merge_counts + convert_counts_to_tpm for an ungrouped counter; `unal` = the number of unaligned reads is known -/
def mergeUngrouped (cfg : Cfg) (unal : Bool) (fs : FS) (s : Stream) : List Act :=
  let t := tokOf (allGood fs (cfg.mchrs.map (Path.part s)) && allGood fs (cfg.chrs.map (Path.partStats s))
                  && (unal || !cfg.unmapped))
  Act.ev (.append (.final s)) :: rmParts cfg (Path.part s)
  ++ cfg.chrs.flatMap (fun c => [Act.exist (.partStats s c), Act.rm (.partStats s c)])
  ++ evs [.commit (.final s) t, .create (.tpm s), .commit (.tpm s) t]

def mergeGrouped (cfg : Cfg) (fs : FS) (s : Stream) : List Act :=
  let t := tokOf (allGood fs (cfg.mchrs.map (Path.part s)))
  let tl := tokOf (allGood fs (cfg.mchrs.map (Path.partLin s)))
  Act.ev (.append (.final s)) :: rmParts cfg (Path.part s)
  ++ Act.ev (.append (.finalLin s)) :: rmParts cfg (Path.partLin s)
  ++ evs [.commit (.final s) t, .commit (.finalLin s) tl, .create (.tpm s), .commit (.tpm s) t]

/-- merge_counts of an exon / intron counter: no linear handler, `output_stats_file_name` is None (no side files, the
    `__not_aligned` tail is not written), convert_counts_to_tpm returns at once; the handler is closed when merge_counts returns -/
def mergeProfile (cfg : Cfg) (fs : FS) (s : Stream) : List Act :=
  Act.ev (.append (.final s)) :: rmParts cfg (Path.part s)
  ++ evs [.commit (.final s) (tokOf (allGood fs (cfg.mchrs.map (Path.part s))))]

/-- one merge step of process_assigned_reads -/
inductive MStep where
  | parts (s : Stream)       -- merge_files of a printer stream
  | ungrouped (s : Stream)   -- merge_counts + convert_counts_to_tpm of an ungrouped counter
  | grouped (s : Stream)     -- the same for a grouped counter (matrix + linear file)
  | profile (s : Stream)     -- merge_counts of an exon / intron counter
  deriving DecidableEq, Repr

/-- merge_transcript_models and the extended annotation (both only when models are constructed), merge_assignments -/
def mergeSteps (cfg : Cfg) : List MStep :=
  (if cfg.noModel then []
   else [.parts .gtf, .parts .r2t, .ungrouped .model] ++ (modelGrouped cfg).map MStep.grouped
        ++ (if cfg.genedb then [.parts .ext] else []))
  ++ (if cfg.genedb then [.parts .assign] else [])
  ++ [.parts .bed] ++ (ungroupedGlobal cfg).map MStep.ungrouped ++ (profileGlobal cfg).map MStep.profile
  ++ (groupedGlobal cfg).map MStep.grouped ++ (profileGrouped cfg).map MStep.profile

/-- `fs` = the file system when merging starts (every part is read before it is removed) -/
def stepActs (cfg : Cfg) (unal : Bool) (fs : FS) : MStep → List Act
  | .parts s => rmParts cfg (Path.part s)
  | .ungrouped s => mergeUngrouped cfg unal fs s
  | .grouped s => mergeGrouped cfg fs s
  | .profile s => mergeProfile cfg fs s

/-- `--sqanti_output`: `merge_files(out_t2t_tsv, …, open(out_t2t_tsv, "w"))` after merge_assignments — the final table is
    opened once more, then the per-chromosome tables are copied and removed -/
def sqMerge (cfg : Cfg) : List Act :=
  (sqStreams cfg).flatMap (fun s => Act.ev (.create (.final s)) :: rmParts cfg (Path.part s))

/-- the merges; the final printers are closed at the end (when process_assigned_reads returns) -/
def mergeStage (cfg : Cfg) (unal : Bool) : Stage := fun fs =>
  (mergeSteps cfg).flatMap (stepActs cfg unal fs)
  ++ sqMerge cfg
  ++ evs ((printerStreams cfg).map (fun s => Ev.commit (finalOf cfg s) (tokOf (allGood fs (cfg.mchrs.map (Path.part s))))))

def isSaveAux : Path → Bool
  | .save _ | .groups _ | .bamstat _ | .collected _ | .multimap _ | .info | .lock
  | .readStat _ | .trStat _ | .processed _ => true
  | _ => false
def isRgAux : Path → Bool
  | .rgSplit _ | .rgLock => true
  | _ => false

/-- (repaired code) clean-up removes the locks first -/
def cleanupLocks (v : Variant) (cfg : Cfg) : Stage := fun fs =>
  if v.locksFirst then
    rmAll ([Path.lock, Path.rgLock].filter fs.has
      ++ (cfg.chrs.filter (fun c => fs.has (.collected c))).map Path.collected
      ++ (cfg.chrs.filter (fun c => fs.has (.processed c))).map Path.processed)
  else []

/-- `for f in glob.glob(pattern): os.remove(f)`; `ord` = the order in which the directory lists its files -/
def globStage (sel : Path → Bool) (ord : List Path) : Stage := fun fs =>
  rmAll (ord.filter (fun p => sel p && fs.has p))

/-- the `__not_aligned` line of the count tables is right: the unaligned reads of this experiment were counted (in a run
    that collects reads; in a resumed run that skips collection only when it recounts them; with `--read_assignments`
    nothing is ever counted) and the counter holds nothing of earlier experiments (it is reset at the start of every
    experiment — `resetCounter` off: only where reads are collected) -/
def unalOK (v : Variant) (cfg : Cfg) (sk : Bool) : Bool :=
  (!sk || v.countUnaligned || cfg.fromSaves) && (v.resetCounter || !cfg.carried || !(sk || cfg.fromSaves))

/-- `sk` = the stage lock exists and the run is resumed; with `--read_assignments` there is no collection at all,
    the number of unaligned reads is never counted (0 in every run) and nothing is cleaned up -/
def stages (v : Variant) (cfg : Cfg) (ord : List Path) (resume sk : Bool) : List Stage :=
  [paramsStage v resume, refStage v cfg resume, rgStage cfg resume, collectPre cfg resume (sk || cfg.fromSaves)]
  ++ cfg.chrs.map (collectChr v cfg resume (sk || cfg.fromSaves))
  ++ [collectPost cfg (sk || cfg.fromSaves), constructPre cfg]
  ++ cfg.chrs.map (constructChr v cfg resume)
  ++ [dropStage v cfg, mergeStage cfg (unalOK v cfg sk)]
  ++ (if cfg.keepTmp || cfg.fromSaves then []
      else [cleanupLocks v cfg, globStage isSaveAux ord, globStage isRgAux ord])

/-- one run of the pipeline on the file system `fs`; `ord` = directory order seen by the clean-up globs -/
def run (v : Variant) (cfg : Cfg) (ord : List Path) (resume : Bool) (fs : FS) : Res :=
  runStages (forceClean v cfg resume :: stages v cfg ord resume (resume && fs.has .lock)) fs

/-- the events of an uninterrupted run started on the file system `fs0` (whatever an earlier run left there) -/
def cleanEventsFrom (v : Variant) (cfg : Cfg) (ord : List Path) (fs0 : FS) : List Ev := (run v cfg ord false fs0).evs

/-- the file system left by a run that is started on `fs0` and killed after `k` of its events -/
def crashFSFrom (v : Variant) (cfg : Cfg) (ord : List Path) (fs0 : FS) (k : Nat) : FS :=
  applyAll fs0 ((cleanEventsFrom v cfg ord fs0).take k)

inductive Verdict where
  | equal     -- the resumed run completes and every final file equals that of the uninterrupted run
  | fail      -- the resumed run raises (non-zero exit)
  | diff      -- the resumed run exits successfully with different / truncated / missing results
  deriving DecidableEq, Repr

def sameFinals (cfg : Cfg) (a b : FS) : Bool := (finalPaths cfg).all (fun p => a p == b p)

/-- start on `fs0`, kill after `k` events, resume (directory order `ord'`), compare with the uninterrupted run on `fs0` -/
def verdictFrom (v : Variant) (cfg : Cfg) (ord ord' : List Path) (fs0 : FS) (k : Nat) : Verdict :=
  let r := run v cfg ord' true (crashFSFrom v cfg ord fs0 k)
  if !r.ok then .fail
  else if sameFinals cfg r.fs (run v cfg ord false fs0).fs then .equal
  else .diff

/-- the same in a fresh output directory -/
def cleanEvents (v : Variant) (cfg : Cfg) (ord : List Path) : List Ev := cleanEventsFrom v cfg ord FS.empty
def crashFS (v : Variant) (cfg : Cfg) (ord : List Path) (k : Nat) : FS := crashFSFrom v cfg ord FS.empty k
def verdict (v : Variant) (cfg : Cfg) (ord ord' : List Path) (k : Nat) : Verdict := verdictFrom v cfg ord ord' FS.empty k

/-- what `--resume` may change: `.params` gives back every option of the killed run, then the options found on the resume
    command line override them (isoquant.py load_previous_run).  The resume parser declares `--threads`, `--debug`,
    `--keep_tmp` and (repaired code) `--high_memory` with `default=argparse.SUPPRESS`: an option that is not repeated keeps
    the value of the killed run; `--high_memory` / `--keep_tmp` can be switched on by the resume command line, never off;
    `--threads` is the subject of Model/ResumePool.lean -/
def resumeCfg (cfg : Cfg) (hm kt : Bool) : Cfg :=
  { cfg with highMemory := cfg.highMemory || hm, keepTmp := cfg.keepTmp || kt }

/-- the code before the repair: `--high_memory` had `default=False` in the resume parser and was therefore *always*
    overridden — a resumed run was a `--high_memory` run iff the flag was repeated, whatever the killed run had -/
def resumeCfgOrig (cfg : Cfg) (hm kt : Bool) : Cfg := { cfg with highMemory := hm, keepTmp := cfg.keepTmp || kt }

/-- `verdictFrom` with the resumed run under the options of its own command line (`hm` = `--resume --high_memory`,
    `kt` = `--resume --keep_tmp`); the reference is still the uninterrupted run with the options of the killed run -/
def verdictFromOpts (v : Variant) (cfg : Cfg) (ord ord' : List Path) (hm kt : Bool) (fs0 : FS) (k : Nat) : Verdict :=
  let r := run v (resumeCfg cfg hm kt) ord' true (crashFSFrom v cfg ord fs0 k)
  if !r.ok then .fail
  else if sameFinals cfg r.fs (run v cfg ord false fs0).fs then .equal
  else .diff

/-- two interruptions: the run on `fs0` is killed after `k1` events, the resumed run (directory order `ord2`) after `k2` of
    *its* events — a resumed run that is killed is again a run killed after its parameters were saved —, then `--resume`
    (directory order `ord3`) runs to its end; compared with the uninterrupted run on `fs0` -/
def crashFSTwice (v : Variant) (cfg : Cfg) (ord ord2 : List Path) (fs0 : FS) (k1 k2 : Nat) : FS :=
  let fs1 := crashFSFrom v cfg ord fs0 k1
  applyAll fs1 ((run v cfg ord2 true fs1).evs.take k2)

def verdictTwice (v : Variant) (cfg : Cfg) (ord ord2 ord3 : List Path) (fs0 : FS) (k1 k2 : Nat) : Verdict :=
  let r := run v cfg ord3 true (crashFSTwice v cfg ord ord2 fs0 k1 k2)
  if !r.ok then .fail
  else if sameFinals cfg r.fs (run v cfg ord false fs0).fs then .equal
  else .diff

/-- the paths a run of configuration `cfg` can touch (used to print file systems) -/
def allPaths (cfg : Cfg) : List Path :=
  [.params, .paramsTmp, .refFa, .refFai, .refFaiTmp, .rgLock, .info, .lock]
  ++ cfg.chrs.flatMap (fun c =>
      [.rgSplit c, .save c, .groups c, .bamstat c, .collected c, .multimap c, .processed c] ++ chrOutputs cfg c)
  ++ finalPaths cfg

end IsoVerif.Model.Resume
