/-
Declarative vocabulary of the C02 theorems (definitions only, core Lean): the documented weight table, the
documented contribution of one call to one feature, what confirms a feature, the classes behind the statistics
lines.  Nothing here refers to the counter state: these are the right-hand sides of the theorems in
IsoVerif/Props/C02*.lean.
-/
import IsoVerif.Model.Counter

namespace IsoVerif.Model.C02
open IsoVerif.Gen

/-- The documented weight (docs/cmd.md "Quantification" + the property statement) that ONE reported record of
    type `t` (at the table's level) gives to EACH of its `k` distinct features, strategies written out by name.
    Row `ambiguous, k = 1` is what the code does for a record that the multimapper resolver re-flagged
    (class `multilocus_tie_weight`): weight 1 under every strategy. -/
def docWeight (s : CountingStrategy) (t : ReadAssignmentType) (k : Nat) : Rat :=
  if k = 0 then 0 else
  match t with
  | .unique => 1
  | .unique_minor_difference => 1
  | .ambiguous =>
    if k = 1 then 1
    else if s = .with_ambiguous ∨ s = .all then 1 / (k : Rat) else 0
  | .inconsistent =>
    if k = 1 then (if s = .unique_inconsistent ∨ s = .all then 1 else 0)
    else if s = .all then 1 / (k : Rat) else 0
  | .inconsistent_non_intronic =>
    if k = 1 then (if s = .unique_splicing_consistent ∨ s = .unique_inconsistent ∨ s = .all then 1 else 0)
    else if s = .all then 1 / (k : Rat) else 0
  | .inconsistent_ambiguous => if s = .all then 1 / (k : Rat) else 0
  | _ => 0

/-- what `add_read_info` adds to each feature of a counted record (type at level `t`, `k` distinct features);
    `none` = the call raises -/
def codeWeight (s : CountingStrategy) (t : ReadAssignmentType) (k : Nat) : Option Rat :=
  if t = .ambiguous then some (processAmbiguous s k)
  else if t.is_inconsistent then processInconsistent s t k
  else if t.is_unique then (if k = 0 then none else some 1)
  else some 0

/-- the rows that raise (all have no feature): `1.0 / 0` for an `inconsistent_ambiguous` record under `all`;
    `list(feature_ids)[0]` (IndexError) for a unique record -/
def raisesRow (s : CountingStrategy) (t : ReadAssignmentType) : Bool :=
  (s == .all && t == .inconsistent_ambiguous) || t == .unique || t == .unique_minor_difference

variable {F : Type} [DecidableEq F]

/-- number of occurrences of `f` in `fs`, as a rational -/
def cnt (fs : List F) (f : F) : Rat := ((fs.count f : Nat) : Rat)

/-- Documented contribution of ONE call on the counter to feature `f`.
    * a read record that is not skipped (`skipped` = unassigned type, no isoform match, or first match without a
      transcript) and is typed unique at the table's level gives 1 to its feature;
    * any other counted record gives `docWeight strategy type k` to each of its `k` distinct features;
    * a raw call (transcript-model tables) with read id and feature list `fs` gives each listed feature
      `docWeight strategy ambiguous |fs|` per occurrence (1 when `|fs| = 1`, `1/|fs|` when ambiguous reads are
      enabled, else 0);
    * nothing else contributes. -/
def contribution (s : CountingStrategy) (lvl : Level) (e : Event F) (f : F) : Rat :=
  match e with
  | .read (some a) =>
    if skipped a then 0
    else if (typeOf lvl a).is_unique then (if (features lvl a).head? = some f then 1 else 0)
    else if f ∈ features lvl a then docWeight s (typeOf lvl a) (features lvl a).length else 0
  | .raw false fs => cnt fs f * docWeight s .ambiguous fs.length
  | _ => 0

/-- the call puts `f` into `confirmed_features`: a counted record typed unique at the table's level whose
    extractor-specific rule holds (`confirms`: gene level – always; transcript level – the isoform is mono-exonic
    or the corrected alignment has more than one exon), or an explicit `add_confirmed_features` -/
def confirmsFeature (lvl : Level) (e : Event F) (f : F) : Prop :=
  match e with
  | .read (some a) =>
    skipped a = false ∧ typeOf lvl a ≠ .ambiguous ∧ (typeOf lvl a).is_unique = true ∧
      (features lvl a).head? = some f ∧ confirms lvl a = some true
  | .confirm fs => f ∈ fs
  | _ => False

/-! ### the classes behind the statistics lines -/

/-- records counted under `__ambiguous`: counted read records whose type at the table's level is `ambiguous`
    (not `inconsistent_ambiguous`), raw calls with a read id and more than one feature -/
def ambiguousClass (lvl : Level) : Event F → Nat
  | .read (some a) => if skipped a = false ∧ typeOf lvl a = .ambiguous then 1 else 0
  | .raw false fs => if fs.length > 1 then 1 else 0
  | _ => 0

/-- `__no_feature`: skipped read records, raw calls with a read id and no feature, `add_unassigned(n)` -/
def noFeatureClass : Event F → Nat
  | .read (some a) => if skipped a then 1 else 0
  | .raw false [] => 1
  | .unassigned n => n
  | _ => 0

/-- `__not_aligned`: `add_read_info(None)`, raw calls without a read id, `add_unaligned(n)` -/
def notAlignedClass : Event F → Nat
  | .read none => 1
  | .raw true _ => 1
  | .unaligned n => n
  | _ => 0

/-- `__usable` (`reads_for_tpm`): counted read records, raw calls with read id and features, `add_unassigned(n)` -/
def usableClass : Event F → Nat
  | .read (some a) => if skipped a then 0 else 1
  | .raw false (_ :: _) => 1
  | .unassigned n => n
  | _ => 0

/-! ### TPM -/

/-- the scale factor the conversion applies to every printed count -/
def tpmScale (norm : NormalizationMethod) (isStatLike : F → Bool) (rows : List (F × Int)) (usable : Nat) : Rat :=
  scaleFactor norm usable (totalCounts (tpmInputRows isStatLike rows))

/-! ### forward_counts -/

variable {R : Type} [DecidableEq R]

/-- the (transcript, read) incidences of `transcript_read_ids`, in iteration order -/
def incidences (tr : List (F × List R)) : List (F × R) := tr.flatMap (fun p => p.2.map (fun r => (p.1, r)))
/-- the models read `r` is listed under, with multiplicity, in order -/
def modelsOf (L : List (F × R)) (r : R) : List F := (L.filter (fun p => p.2 = r)).map (·.1)

/-- `read_assignment_counts[r]` (0 when absent) -/
def countOf : List (R × Nat) → R → Nat
  | [], _ => 0
  | (k, v) :: rest, r => if k = r then v else countOf rest r

/-- weight of ONE (model `f`, read `r`) listing of `transcript_read_ids`: 1 when the read is assigned once
    (`read_assignment_counts[r] = 1`); otherwise the read is shared by the DISTINCT models it is listed under - each of
    them gets the ambiguous weight for that number of models - and a model under which the read is listed several times
    (several alignment records of one read id) gets it once: an even share per listing (`read_weight_per_model`) -/
def readModelWeight (s : CountingStrategy) (tr : List (F × List R)) (rc : List (R × Nat)) (r : R) (f : F) : Rat :=
  if countOf rc r = 1 then 1
  else docWeight s .ambiguous (dedup (modelsOf (incidences tr) r)).length / cnt (modelsOf (incidences tr) r) f

/-- `read_assignment_counts` agrees with `transcript_read_ids`: every listed read is counted once per model it is
    listed under (what `assign_reads_to_models` / `save_assigned_read` / `delete` maintain) -/
def CountsConsistent (tr : List (F × List R)) (rc : List (R × Nat)) : Prop :=
  ∀ p ∈ incidences tr, countOf rc p.2 = (modelsOf (incidences tr) p.2).length

/-- the calls of `forward_counts` never raise -/
def noRead : Event F → Bool
  | .read _ => false
  | _ => true

/-- one gene as the model constructor hands it to `forward_counts` -/
structure GeneModels (F R : Type) where
  transcriptReads : List (F × List R)
  readCounts : List (R × Nat)
  models : List F

def geneEvents (g : GeneModels F R) : List (Event F) := forwardCounts g.transcriptReads g.readCounts g.models

end IsoVerif.Model.C02
