/-
C16 — executable *specifications* of the polyA window scan and of the two tail finders of /repo/src/polya_finder.py
(`PolyAFinder.find_polya`, `find_polya_tail`, `find_polyt_head`).  None of them has the loop's locals (no running
count, no sliding): every window start is tested on its own, the first "AA" is searched by brute force, the
reference projection is the base-by-base one of Model/TailSpec.lean.  The code models are in Model/PolyAFinder.lean;
Props/C16FinderChar.lean proves model = specification for every input, and the driver evaluates the specifications
against the real code as well (ops `find_polya_spec`, `find_polya_tail_spec`, `find_polyt_head_spec`).
Core Lean only.
-/
import IsoVerif.Model.TailSpec

namespace IsoVerif.Model.C16
open IsoVerif.Gen IsoVerif.Model

/-- number of 'A' among `seq[j], …, seq[j+w-1]` (positions past the end do not count) -/
def aCount (seq : List Bool) (j w : Nat) : Nat := countTrue ((seq.drop j).take w)

/-- the window of `w` bases that starts at `i` *ends strictly before the end of the sequence* and holds at least `c`
    'A' (the window that ends exactly at the end of the sequence is never looked at by the code) -/
def denseAt (w c : Nat) (seq : List Bool) (i : Nat) : Bool := decide (i + w < seq.length) && decide (c ≤ aCount seq i w)

/-- "AA" at position `k`: both `seq[k]` and `seq[k+1]` are 'A' -/
def aaAt (seq : List Bool) (k : Nat) : Bool := seq[k]? == some true && seq[k + 1]? == some true

/-- least `i` with `denseAt`, by testing every start on its own -/
def firstDense (w c : Nat) (seq : List Bool) : Option Nat := (List.range seq.length).find? (denseAt w c seq)

/-- least `k ≥ i` with "AA" at `k`, by testing every position on its own -/
def firstAAFrom (seq : List Bool) (i : Nat) : Option Nat :=
  ((List.range seq.length).find? (fun k => decide (i ≤ k) && aaAt seq k))

/-- **specification of `find_polya`**: the start of the first dense window, advanced to the first "AA" at or after it
    (not advanced when there is none); `none` = −1 when no window qualifies -/
def findPolyaSpec (w c : Nat) (seq : List Bool) : Option Nat :=
  match firstDense w c seq with
  | none => none
  | some i => some ((firstAAFrom seq i).getD i)

/-- **specification of the query-level scan** shared by both finders: `find_polya` plus, for the internal finder,
    "the whole rest of the checked sequence from the reported base on holds the fraction `num/den` of 'A'" -/
def tailScanSpec (w num den : Nat) (checkEntire : Bool) (region : List Bool) : Option Nat :=
  match findPolyaSpec w (w * num / den) region with
  | none => none
  | some p =>
    if checkEntire && decide (aCount region p region.length * den < (region.length - p) * num) then none else some p

/-- `to_check_end` of `find_polya_tail` -/
def stopA (cigar : List CigarOp) (seq : List Char) (toPos : Int) : Int :=
  min (seq.length : Int) ((seq.length : Int) - softClipTail cigar + toPos + 1)

/-- `to_check_start` of `find_polyt_head` -/
def startT (cigar : List CigarOp) (toPos : Int) : Int := max 0 (softClipHead cigar - toPos)

/-- **specification of `find_polya_tail`** (`none` = the code raises): the scan of the read bases
    `[to_check_start, to_check_end)`; a tail that starts in the soft clip is extrapolated from `reference_end`, one that
    starts inside the aligned part is projected base by base from the alignment end -/
def findPolyaTailSpec (w num den : Nat) (refStart : Int) (cigar : List CigarOp) (seq : List Char)
    (fromPos toPos : Int) (checkEntire : Bool) : Option Int :=
  if cigar = [] then none
  else if seq = [] then some (-1)
  else if (seq.length : Int) ≤ softClipTail cigar then none
  else
    match tailScanSpec w num den checkEntire (regionA cigar seq fromPos toPos) with
    | none => some (-1)
    | some p =>
      let q : Int := startA cigar seq fromPos + p            -- read index of the first base of the tail
      let mappedEnd : Int := (seq.length : Int) - softClipTail cigar
      if mappedEnd ≤ q then some (referenceEnd refStart cigar + (q - mappedEnd))
      else (moveRefCoordSpec cigar (q - mappedEnd)).map (referenceEnd refStart cigar - ·)

/-- **specification of `find_polyt_head`** -/
def findPolytHeadSpec (w num den : Nat) (refStart : Int) (cigar : List CigarOp) (seq : List Char)
    (fromPos toPos : Int) (checkEntire : Bool) : Option Int :=
  if cigar = [] then none
  else if seq = [] then some (-1)
  else if (seq.length : Int) ≤ softClipHead cigar then none
  else
    match tailScanSpec w num den checkEntire (regionT cigar seq fromPos toPos) with
    | none => some (-1)
    | some p =>
      let q : Int := stopT cigar seq fromPos - p - 1          -- read index of the last base of the head
      if q ≤ softClipHead cigar then some (max 1 (refStart - (softClipHead cigar - q)))
      else (moveRefCoordSpec cigar (q - softClipHead cigar)).map (fun k => max 1 (refStart + k))

end IsoVerif.Model.C16
