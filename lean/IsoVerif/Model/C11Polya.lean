/-
C11 — executable model of the two mirrored code pairs of /repo/src/polya_verification.py that are pure list
functions (core Lean only):
   PolyAFixer.count_polya_exons / count_polyt_exons      shift_polya / shift_polyt
Each Python index loop is a structural recursion on the exon list in the order the loop visits it
(`read_exons[-i-1]` = the reversed list).  `none` = IndexError of the real code.
(Other builders model the same functions for other properties; these definitions live in the C11 namespace so
that nothing clashes, and are tied to the real code by the C11 correspondence.)
-/
import IsoVerif.Gen.Prims

namespace IsoVerif.Model.C11
open IsoVerif.Gen

/-- loop of `count_polya_exons` over the exons from the LAST one backwards -/
def countPolyaLoop (maxFake pos : Int) : List Iv → Nat
  | [] => 0
  | e :: es =>
    if e.2 ≤ pos then 0
    else (if pos - e.1 ≤ 0 ∨ (pos - e.1 ≤ maxFake ∧ e.2 - pos > 2 * (pos - e.1)) then 1 else 0)
      + countPolyaLoop maxFake pos es

def countPolyaExons (maxFake : Int) (exons : List Iv) (pos : Int) : Nat :=
  if pos = -1 then 0 else countPolyaLoop maxFake pos exons.reverse

/-- loop of `count_polyt_exons` over the exons from the FIRST one onwards -/
def countPolytLoop (maxFake pos : Int) : List Iv → Nat
  | [] => 0
  | e :: es =>
    if e.1 ≥ pos then 0
    else (if e.2 - pos ≤ 0 ∨ (e.2 - pos ≤ maxFake ∧ 2 * (e.2 - pos) < pos - e.1) then 1 else 0)
      + countPolytLoop maxFake pos es

def countPolytExons (maxFake : Int) (exons : List Iv) (pos : Int) : Nat :=
  if pos = -1 then 0 else countPolytLoop maxFake pos exons

/-- `dist_to_polya` loop of `shift_polya` over the last `exon_count` exons, last one first -/
def shiftPolyaLoop (pos : Int) : List Iv → Int → Int
  | [], d => d
  | e :: es, d =>
    if e.1 > pos then shiftPolyaLoop pos es d
    else if d = 0 then shiftPolyaLoop pos es (d + (pos - e.1))
    else shiftPolyaLoop pos es (d + interval_len e)

/-- `shift_polya(read_exons, exon_count, polya_pos)`; `none` = IndexError (exon_count > len) -/
def shiftPolya (exons : List Iv) (cnt : Nat) (pos : Int) : Option Int :=
  if cnt = 0 ∨ cnt = exons.length ∨ pos = -1 then some pos
  else (exons.reverse[cnt]?).map (fun e => e.2 + shiftPolyaLoop pos (exons.reverse.take cnt) 0)

def shiftPolytLoop (pos : Int) : List Iv → Int → Int
  | [], d => d
  | e :: es, d =>
    if e.2 < pos then shiftPolytLoop pos es d
    else if d = 0 then shiftPolytLoop pos es (d + (e.2 - pos))
    else shiftPolytLoop pos es (d + interval_len e)

def shiftPolyt (exons : List Iv) (cnt : Nat) (pos : Int) : Option Int :=
  if cnt = 0 ∨ cnt = exons.length ∨ pos = -1 then some pos
  else (exons[cnt]?).map (fun e => e.1 - shiftPolytLoop pos (exons.take cnt) 0)

end IsoVerif.Model.C11
