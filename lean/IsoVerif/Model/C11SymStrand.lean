/-
C11 — reflection of the read-strand decision (Model/Canonical.lean, C18's model of `AlignmentCollector.get_assignment_strand`
and `StrandDetector`): strands flip, polyA ↔ polyT, introns mirrored, the detector's memo mirrored.  Core Lean only.
-/
import IsoVerif.Model.Canonical
import IsoVerif.Model.C11Symmetry

namespace IsoVerif.Model.C11
open IsoVerif.Gen IsoVerif.Model

def flipStrandC : C18.Strand → C18.Strand
  | .plus => .minus
  | .minus => .plus
  | .dot => .dot

/-- the read seen on the reverse-complemented chromosome of length L: matched transcripts on the other strand, the polyA
    tail is a polyT head (positions mirrored, sentinel kept), introns mirrored; assignment type and exon count unchanged -/
def mirrorStrandInfo (L : Int) (ra : C18.ReadStrandInfo) : C18.ReadStrandInfo :=
  { ra with matchStrands := ra.matchStrands.map flipStrandC,
            extPolyA := mirrorPos L ra.extPolyT, intPolyA := mirrorPos L ra.intPolyT,
            extPolyT := mirrorPos L ra.extPolyA, intPolyT := mirrorPos L ra.intPolyA,
            correctedIntrons := mirrorL L ra.correctedIntrons }

/-- `StrandDetector.strand_dict` of the mirrored run -/
def mirrorStrandDict (L : Int) (σ : C18.StrandDict) : C18.StrandDict := σ.map (fun p => (mirrorIv L p.1, flipStrandC p.2))

end IsoVerif.Model.C11
