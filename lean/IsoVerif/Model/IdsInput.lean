/-
C17 — the input check of the reference annotation.  Executable model of

* `check_gtf_duplicates` of `src/gtf2db.py` on the data lines of a GTF, at the level of the parsed fields
  (sequence name, feature type, `gene_id`, `transcript_id`): the four dictionaries `gene_ids` / `transcript_ids`
  (record counters) and `gene_seqids` / `transcript_seqids` (sequences an id occurs on, in order of appearance), the
  verdict `gtf_correct` and the lines of `<name>.corrected.gtf` (renamed ids).  `check true` is the code after the
  repair of audit finding G-C17-1 (transcript ids are tracked per sequence as gene ids are); `check false` is the code
  of 5e64455 (gene ids only), kept as regression witness;
* the gffutils database as far as IsoQuant reads it when it builds the reference part of an output annotation: gene and
  transcript features with their sequence, level-1 relations gene → transcript and transcript → sub-feature;
  `dbOf` = what `gffutils.create_db` (options of `gtf2db`) makes of a record list, the sequence of an INFERRED gene /
  transcript feature being a parameter (sqlite's bare column of a MIN/MAX aggregate: one of the children's sequences);
* `check_db_sequences` (the check of a database given directly as `--genedb`, repair of G-C17-2): the relations whose
  parent lies on another sequence than the child.

Not modelled: the text level of the GTF line (splitting at blanks, quotes), the malformed-line branches (fewer than 9
columns, no `gene_id` / `transcript_id`), the GFF3 branch, the `complete_genedb` hint; a gene record is taken to carry no
`transcript_id` attribute.  Core Lean only.
-/
import IsoVerif.Model.Ids

namespace IsoVerif.Model.C17
open IsoVerif.Gen

/-- `feature_type == "gene"`, `feature_type in ["transcript", "mRNA"]`, anything else (exon, CDS, codons, UTR) -/
inductive FKind where
  | gene | transcript | other
  deriving DecidableEq, Repr

/-- what `check_gtf_duplicates` reads of a data line -/
structure GtfRec where
  seq : Str
  kind : FKind
  gene : Str
  tr : Str          -- (ignored for gene records)
  deriving DecidableEq, Repr

abbrev Dict (β : Type) := List (Str × β)

/-- the record counter (`gene_ids` / `transcript_ids`): a repeated RECORD is counted, reported and renamed `<id>.<n>`;
    the other lines of a renamed record follow it.  Returns (dict, ok, id after renaming) -/
def countDup (d : Dict Nat) (isRec : Bool) (id : Str) : Dict Nat × Bool × Str :=
  match d.lookup id, isRec with
  | some n, true => ((id, n + 1) :: d, false, id ++ '.' :: pyStrNat (n + 1))
  | none, true => ((id, 0) :: d, true, id)
  | some n, false => (d, true, if n > 0 then id ++ '.' :: pyStrNat n else id)
  | none, false => (d, true, id)

/-- `seqids = d.setdefault(id, [])`; a new sequence is appended (reported when it is not the first one); on every
    sequence but the first the id is renamed `<id>.<seq>`.  Returns (dict, ok, id after renaming) -/
def trackSeq (d : Dict (List Str)) (id seq : Str) : Dict (List Str) × Bool × Str :=
  let l := (d.lookup id).getD []
  if seq ∈ l then (d, true, if l.idxOf seq > 0 then id ++ '.' :: seq else id)
  else ((id, l ++ [seq]) :: d, l.isEmpty, if l.isEmpty then id else id ++ '.' :: seq)

structure ChkState where
  ok : Bool                       -- gtf_correct
  geneCnt : Dict Nat              -- gene_ids
  trCnt : Dict Nat                -- transcript_ids
  geneSeqs : Dict (List Str)      -- gene_seqids
  trSeqs : Dict (List Str)        -- transcript_seqids
  out : List GtfRec               -- corrected_gtf
  deriving Repr

def ChkState.init : ChkState := ⟨true, [], [], [], [], []⟩

def rnaSuffix : Str := ".RNA.IsoQuant_corrected".toList

/-- one data line.  `track` = the repaired code (transcript ids are tracked per sequence) -/
def chkStep (track : Bool) (st : ChkState) (r : GtfRec) : ChkState :=
  let c1 := countDup st.geneCnt (r.kind == .gene) r.gene
  let s1 := trackSeq st.geneSeqs c1.2.2 r.seq
  if r.kind == .gene then
    { st with ok := st.ok && c1.2.1 && s1.2.1, geneCnt := c1.1, geneSeqs := s1.1,
              out := st.out ++ [{ r with gene := s1.2.2 }] }
  else
    let c2 := countDup st.trCnt (r.kind == .transcript) r.tr
    let s2 := if track then trackSeq st.trSeqs c2.2.2 r.seq else (st.trSeqs, true, c2.2.2)
    let same := s1.2.2 == s2.2.2
    { ok := st.ok && c1.2.1 && s1.2.1 && c2.2.1 && s2.2.1 && !same,
      geneCnt := c1.1, geneSeqs := s1.1, trCnt := c2.1, trSeqs := s2.1,
      out := st.out ++ [{ r with gene := s1.2.2, tr := if same then s2.2.2 ++ rnaSuffix else s2.2.2 }] }

/-- `check_gtf_duplicates`: (gtf_correct, lines of the corrected GTF) -/
def check (track : Bool) (recs : List GtfRec) : Bool × List GtfRec :=
  let st := recs.foldl (chkStep track) ChkState.init
  (st.ok, st.out)

/-! ### the database IsoQuant reads -/

/-- gene / transcript features (id, sequence) and the level-1 relations: gene → transcript, and transcript → sub-feature
    (of the child only the sequence matters here) -/
structure Db where
  genes : List (Str × Str)
  trs : List (Str × Str)
  gt : List (Str × Str)           -- (gene id, transcript id)
  te : List (Str × Str)           -- (transcript id, sequence of the exon / CDS / ... line)
  deriving Repr

/-- what `gffutils.create_db` makes of the records: a gene / transcript feature per id – the record when there is
    one, else inferred from the children, `gseq` / `tseq` naming the sequence of an inferred feature –, the relations
    `(gene_id, transcript_id, 1)` and `(transcript_id, line, 1)` of every line that is not a gene record -/
def dbOf (recs : List GtfRec) (gseq tseq : Str → Str) : Db :=
  let sub := recs.filter (fun r => r.kind != .gene)
  { genes := ((recs.map (·.gene)).eraseDups).map (fun g =>
      (g, match recs.find? (fun r => r.kind == .gene && r.gene == g) with | some r => r.seq | none => gseq g)),
    trs := ((sub.map (·.tr)).eraseDups).map (fun t =>
      (t, match recs.find? (fun r => r.kind == .transcript && r.tr == t) with | some r => r.seq | none => tseq t)),
    gt := (sub.map (fun r => (r.gene, r.tr))).eraseDups,
    te := (recs.filter (fun r => r.kind == .other)).map (fun r => (r.tr, r.seq)) }

/-- the rows of the query of `check_db_sequences`: level-1 relations whose parent and child lie on different
    sequences, as (parent id, parent sequence, child id or sequence) -/
def dbBadRelations (db : Db) : List (Str × Str × Str) :=
  (db.gt.flatMap (fun p => (db.genes.filter (·.1 == p.1)).flatMap (fun g =>
      ((db.trs.filter (fun t => t.1 == p.2 && t.2 != g.2)).map (fun t => (g.1, g.2, t.1)))))) ++
  (db.te.flatMap (fun p => (db.trs.filter (fun t => t.1 == p.1 && t.2 != p.2)).map (fun t => (t.1, t.2, p.2))))

/-- `check_db_sequences` accepts the database -/
def checkDb (db : Db) : Bool := (dbBadRelations db).isEmpty

/-- the reference transcripts IsoQuant prints on sequence `c`: the transcript children of the genes located on `c`
    (`genedb.region(seqid=c, featuretype="gene")`, then `genedb.children(gene)` wherever the children lie) -/
def printedOn (db : Db) (c : Str) : List Str :=
  (db.genes.filter (·.2 == c)).flatMap (fun g => (db.gt.filter (·.1 == g.1)).map (·.2))

/-- the reference transcripts the id distributor of sequence `c` sees: `genedb.region(seqid=c, featuretype=transcript)` -/
def locatedOn (db : Db) (c : Str) : List Str := (db.trs.filter (·.2 == c)).map (·.1)

/-- the sequences of the exon (CDS, ...) lines printed under transcript `t` -/
def exonSeqsOf (db : Db) (t : Str) : List Str := (db.te.filter (·.1 == t)).map (·.2)

end IsoVerif.Model.C17
