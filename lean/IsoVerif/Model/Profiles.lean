/-
Executable model of the feature-profile code:
  src/gene_info.py        GeneInfo.split_exons, FeatureProfiles.set_profiles
  src/long_read_profiles.py  OverlappingFeaturesProfileConstructor.construct_profile_for_features,
                             NonOverlappingFeaturesProfileConstructor.construct_profile
Core Lean only.
-/
import IsoVerif.Gen.Prims
import IsoVerif.Model.Interval

namespace IsoVerif.Model
open IsoVerif.Gen

/-! ### GeneInfo.split_exons (with the 2ee949c fix: no empty block) -/

/-- insertion sort on Int (stable; only the multiset matters) -/
def insertSorted (x : Int) : List Int → List Int
  | [] => [x]
  | y :: ys => if x ≤ y then x :: y :: ys else y :: insertSorted x ys

def sortInts : List Int → List Int
  | [] => []
  | x :: xs => insertSorted x (sortInts xs)

/-- second `while` of split_exons: the remaining ends; `prev` = exon_ends[ends_pos-1] (none when ends_pos = 0) -/
def splitTail : List Int → Option Int → Int → List Iv
  | [], _, _ => []
  | e :: es, prev, lastBorder =>
    if (match prev with | none => true | some p => e > p) then
      (lastBorder, e) :: splitTail es (some e) (e + 1)
    else splitTail es (some e) lastBorder

/-- main `while` of split_exons. `starts`/`ends` are the remaining sorted starts / ends, `ps`/`pe` the
    previously consumed start / end, `state` = current_state, `lb` = last_border (−1 = unset).
    `none` = IndexError (exon_ends exhausted while starts remain). -/
def splitMain : List Int → List Int → Option Int → Option Int → Int → Int → Option (List Iv)
  | [], ends, _, pe, _, lb => some (splitTail ends pe lb)
  | _ :: _, [], _, _, _, _ => none
  | s :: ss, e :: es, ps, pe, state, lb =>
    if s ≤ e then
      if (match ps with | none => true | some p => s > p) then
        let blk : List Iv := if lb != -1 ∧ state > 0 ∧ lb < s then [(lb, s - 1)] else []
        (splitMain ss (e :: es) (some s) pe (state + 1) s).map (fun r => blk ++ r)
      else splitMain ss (e :: es) (some s) pe (state + 1) lb
    else
      if (match pe with | none => true | some p => e > p) then
        (splitMain (s :: ss) es ps (some e) (state - 1) (e + 1)).map (fun r => (lb, e) :: r)
      else splitMain (s :: ss) es ps (some e) (state - 1) lb
termination_by ss es _ _ _ _ => ss.length + es.length

def splitExons (exons : List Iv) : Option (List Iv) :=
  splitMain (sortInts (exons.map (·.1))) (sortInts (exons.map (·.2))) none none 0 (-1)

/-! ### FeatureProfiles.set_profiles -/

/-- the two nested `while` loops of `set_profiles`: for each transcript feature skip the known features
    that do not match, then mark the run of matching ones.  Returns one mark per known feature. -/
def markLoop (cmp : Iv → Iv → Bool) : List Iv → List Iv → Bool → List Bool
  | [], feats, _ => feats.map (fun _ => false)
  | _ :: _, [], _ => []
  | f :: tf, k :: ks, inMatch =>
    if cmp f k then true :: markLoop cmp (f :: tf) ks true
    else if inMatch then markLoop cmp tf (k :: ks) false
    else false :: markLoop cmp (f :: tf) ks false
termination_by tf ks _ => tf.length + ks.length

def leadingLt1 : List Int → Nat
  | [] => 0
  | x :: xs => if x < 1 then 1 + leadingLt1 xs else 0

/-- `set_profiles`: (profile, (start_pos, end_pos + 1)) -/
def setProfiles (features tf : List Iv) (region : Iv) (cmp : Iv → Iv → Bool) : List Int × (Int × Int) :=
  let init : List Int := features.map (fun f => if overlaps f region then -1 else -2)
  let marks := markLoop cmp tf features false
  let prof := List.zipWith (fun (i : Int) (m : Bool) => if m then 1 else i) init marks
  let startPos : Int := leadingLt1 prof
  let endPos : Int := (prof.length : Int) - 1 - leadingLt1 prof.reverse
  (prof, (startPos, endPos + 1))

/-! ### OverlappingFeaturesProfileConstructor.construct_profile_for_features -/

structure OvState where
  gene : List Int
  read : List Int
  matched : List (Nat × Nat)      -- (read_pos, gene_pos) in insertion order
  deriving Repr

def matchDelta (a b : Iv) : Int := iabs (a.1 - b.1) + iabs (a.2 - b.2)

/-- the main sweep; `gi`/`ri` are gene_pos/read_pos, `ks`/`rs` the remaining suffixes -/
def ovSweep (cmp absent : Iv → Iv → Bool) (mapped : Iv) :
    List Iv → Nat → List Iv → Nat → OvState → OvState
  | [], _, _, _, st => st
  | _ :: _, _, [], _, st => st
  | k :: ks, gi, r :: rs, ri, st =>
    if r.2 < k.1 then
      let st' := if st.read.getD ri 0 == 0 && gi > 0 then { st with read := st.read.set ri (-1) } else st
      ovSweep cmp absent mapped (k :: ks) gi rs (ri + 1) st'
    else if k.2 < r.1 then
      let st' := if ri > 0 then { st with gene := st.gene.set gi (-1) } else st
      ovSweep cmp absent mapped ks (gi + 1) (r :: rs) ri st'
    else if cmp r k then
      ovSweep cmp absent mapped ks (gi + 1) (r :: rs) ri
        { gene := st.gene.set gi 1, read := st.read.set ri 1, matched := st.matched ++ [(ri, gi)] }
    else if overlaps r k then
      let st' := if absent mapped k then { st with gene := st.gene.set gi (-1) } else st
      ovSweep cmp absent mapped ks (gi + 1) (r :: rs) ri st'
    else st   -- unreachable for well-formed intervals: Python would loop forever
termination_by ks _ rs _ _ => ks.length + rs.length

def minList : List Int → Option Int
  | [] => none
  | x :: xs => match minList xs with
    | none => some x
    | some m => some (min x m)

/-- tie elimination: for every read feature with > 1 matches, known features that are not at minimal
    distance are marked absent -/
def ovEliminate (known read : List Iv) (matched : List (Nat × Nat)) (gene : List Int) : List Int :=
  let readIdx := (List.range read.length)
  readIdx.foldl (fun g ri =>
    let ms := (matched.filter (fun p => p.1 == ri)).map (·.2)
    if ms.length > 1 then
      let ds := ms.map (fun gi => matchDelta (read.getD ri (0, 0)) (known.getD gi (0, 0)))
      match minList ds with
      | none => g
      | some best => (ms.zip ds).foldl (fun g' p => if p.2 > best then g'.set p.1 (-1) else g') g
    else g) gene

def leadingZeros : List Int → Nat
  | [] => 0
  | x :: xs => if x == 0 then 1 + leadingZeros xs else 0

def profileRange (p : List Int) : Int × Int :=
  let s : Int := leadingZeros p
  let e : Int := (p.length : Int) - 1 - leadingZeros p.reverse
  (s, e + 1)

structure ProfileResult where
  gene : List Int
  read : List Int
  range : Int × Int
  deriving Repr

def constructOverlapping (known : List Iv) (geneRegion : Iv) (cmp absent : Iv → Iv → Bool) (delta : Int)
    (read : List Iv) (mapped : Iv) (polya polyt : Int) : ProfileResult :=
  let gene0 : List Int := known.map (fun k => if absent mapped k then -1 else 0)
  let read0 : List Int := read.map (fun r => if absent geneRegion r then -1 else 0)
  let st := ovSweep cmp absent mapped known 0 read 0 { gene := gene0, read := read0, matched := [] }
  let g1 := ovEliminate known read st.matched st.gene
  let g2 := if polya != -1 then
      List.zipWith (fun (k : Iv) (v : Int) => if k.1 > polya + delta then -2 else v) known g1 else g1
  let g3 := if polyt != -1 then
      List.zipWith (fun (k : Iv) (v : Int) => if k.2 < polyt - delta then -2 else v) known g2 else g2
  { gene := g3, read := st.read, range := profileRange g3 }

/-! ### NonOverlappingFeaturesProfileConstructor.construct_profile -/

structure NoState where
  gene : List Int
  read : List Int

def noSweep (cmp : Iv → Iv → Bool) : List Iv → Nat → List Iv → Nat → NoState → NoState
  | [], _, _, _, st => st
  | _ :: _, _, [], _, st => st
  | k :: ks, gi, r :: rs, ri, st =>
    if r.2 < k.1 then
      let st' := if gi > 0 && st.read.getD ri 0 == 0 then { st with read := st.read.set ri (-1) } else st
      noSweep cmp (k :: ks) gi rs (ri + 1) st'
    else if k.2 < r.1 then
      let st' := if ri > 0 && st.gene.getD gi 0 == 0 then { st with gene := st.gene.set gi (-1) } else st
      noSweep cmp ks (gi + 1) (r :: rs) ri st'
    else
      let st' := if cmp r k then { gene := st.gene.set gi 1, read := st.read.set ri 1 } else st
      if r.2 < k.2 then noSweep cmp (k :: ks) gi rs (ri + 1) st'
      else noSweep cmp ks (gi + 1) (r :: rs) ri st'
termination_by ks _ rs _ _ => ks.length + rs.length

/-- `none` = the bin search raised / did not terminate -/
def constructNonOverlapping (known : List Iv) (cmp : Iv → Iv → Bool) (delta : Int)
    (read : List Iv) (polya polyt : Int) : Option ProfileResult :=
  let st := noSweep cmp known 0 read 0 { gene := known.map (fun _ => 0), read := read.map (fun _ => 0) }
  let g1 : Option (List Int) :=
    if polya != -1 then
      match intervalBinSearch known (polya + delta) with
      | none => none
      | some idx => if idx != -1 then
          some (st.gene.zipIdx.map (fun (v, i) => if (i : Int) ≥ idx + 1 then -2 else v)) else some st.gene
    else some st.gene
  match g1 with
  | none => none
  | some g1 =>
    let g2 : Option (List Int) :=
      if polyt != -1 then
        match intervalBinSearchRev known (polyt - delta) with
        | none => none
        | some idx => if idx != -1 then
            some (g1.zipIdx.map (fun (v, i) => if (i : Int) < idx then -2 else v)) else some g1
      else some g1
    g2.map (fun g => { gene := g, read := st.read, range := profileRange g })

end IsoVerif.Model
