/-
C04 (growth `c04split`) — the sequence of `GraphBasedModelConstructor`s of ONE chromosome task
(`construct_models_in_parallel`, /repo/src/dataset_processor.py): one constructor per (gene_info, assignment_storage) record of
the save file, i.e. one per read cluster or — when `AlignmentCollector.split_coverage_regions` cut the cluster — one per
SUB-REGION, in genomic order.  What crosses the boundaries between constructors:

* `GraphBasedModelConstructor.detected_known_isoforms` (class-level set, cleared at the start of the chromosome task),
* the transcript id distributor (one `ExcludingIdDistributor` per chromosome task: the `next` function + the current value),
* since fix `reported_novel_chains`: the class-level set of (strand, intron chain) of the novel spliced models already
  reported on this chromosome (`drop_novel_chains_reported_elsewhere`, called by `process()` after `filter_transcripts`).

`processRegion .joinEarlier` is `GraphBasedModelConstructor.process` of the current code (round `c04rep2`: `reported_novel_chains` maps a
chain to the MODEL reported first; a constructor deletes its local copy of a repeated chain, and a copy of every earlier model that
overlaps the reads it processes joins the storage for the second `assign_reads_to_models` — so the reads are compared with the model that
is in the output, whether or not they were enough to build the chain here — and leaves it after `forward_counts`),
`processRegion .renameCopy` the code of fix 0c8e711 (the local copy took the first model's id: reads of a later sub-region that built NO
copy stayed `*`, reads of a copy with another 3' end were counted for the first model), `processRegion .dropOnly` the code of fix b2b4dd9
(the copy was deleted, its reads became `*`), `processRegion .none` the code before all three (kept for the witnesses).
The per-constructor steps are the existing models composed: `constructFL`,
`monoLoop`, `Store.preFilter`, `Store.assignReads`, `Store.filterTranscriptsG`.  Parameters (universally quantified in the
theorems): everything the per-constructor models already take as parameters, the models `construct_assignment_based_isoforms`
adds (`AOp`), and the gene ids `TranscriptToGeneJoiner` writes (`newGene`; the joiner only rewrites gene ids:
`C04Join.joined_gene_strand`).  Core Lean only.
-/
import IsoVerif.Model.ModelConstruction
import IsoVerif.Model.SimilarIsoforms

namespace IsoVerif.Model.C04
open IsoVerif.Gen IsoVerif.Model

/-- an element of `reported_novel_chains`: `(model.strand, tuple(junctions_from_blocks(model.exon_blocks)))` -/
abbrev ChainKey := Strand × List Iv

/-- cached: instance search gives up on products that contain `List ChainKey` several times -/
instance instDecidableEqChainKeys : DecidableEq (List ChainKey) := inferInstance

def chainKey (m : TModel) : ChainKey := (m.strand, m.introns)

/-- `model.transcript_type != TranscriptModelType.known and len(model.exon_blocks) > 1` -/
def isSplicedNovel (m : TModel) : Bool := decide (m.ttype ≠ .known) && decide (m.exons.length > 1)

/-- `set.add` / `set.update` on a set kept as a duplicate-free list in insertion order -/
def keyInsert (l : List ChainKey) (k : ChainKey) : List ChainKey := if k ∈ l then l else l ++ [k]
def keyUnion (l ks : List ChainKey) : List ChainKey := ks.foldl keyInsert l

/-- body of the loop of `drop_novel_chains_reported_elsewhere` in the shape of `filterLoopG`:
    `true` = `kept.append(model)`, `false` = `delete_from_storage(model.transcript_id); continue` -/
def dropDec (reported : List ChainKey) (s : Store) (m : TModel) : Option (Bool × Store) :=
  some (!(isSplicedNovel m && decide (chainKey m ∈ reported)), s)

/-- the chains the constructor adds to the class-level set: those of the spliced novel models it keeps -/
def reportKeys (ms : List TModel) : List ChainKey := (ms.filter isSplicedNovel).map chainKey

/-- `drop_novel_chains_reported_elsewhere`: the storage and the new value of `reported_novel_chains`;
    `none` = KeyError of `delete_from_storage` -/
def Store.dropReported (s : Store) (reported : List ChainKey) : Option (Store × List ChainKey) :=
  match filterLoopG (dropDec reported) s.models s [] with
  | none => none
  | some (s', kept) => some ({ s' with models := kept }, keyUnion reported (reportKeys kept))

/-! ### round `c04rep`: `reported_novel_chains` is a dict chain → id of the model reported first -/

/-- `GraphBasedModelConstructor.reported_novel_chains` (dict in insertion order) -/
abbrev ChainMap := List (ChainKey × String)

/-- cached, as `instDecidableEqChainKeys` -/
instance instDecidableEqChainMap : DecidableEq ChainMap := inferInstance

def chainKeys (m : ChainMap) : List ChainKey := m.map (·.1)

/-- `transcript_read_ids[new] = transcript_read_ids.pop(old)`; `internal_counter[new] = internal_counter.pop(old)`;
    `none` = KeyError of `pop` -/
def Store.renameTid (s : Store) (old new : String) : Option Store :=
  if amHas s.readIds old && amHas s.counter old then
    some { s with readIds := amSet (amErase s.readIds old) new (readsOf s old),
                  counter := amSet (amErase s.counter old) new (cnt s.counter old) }
  else none

/-- the loop of the current `drop_novel_chains_reported_elsewhere`.  `seen` = `repeated_chains`; `kept` = the new storage in order,
    `true` marks a member of `repeated_chain_models` (the local copy, renamed to the id of the model reported first) -/
def dropLoopR (reported : ChainMap) :
    List TModel → Store → List ChainKey → List (Bool × TModel) → Option (Store × List (Bool × TModel))
  | [], s, _, kept => some (s, kept)
  | m :: t, s, seen, kept =>
    if isSplicedNovel m then
      match amGet? reported (chainKey m) with
      | none => dropLoopR reported t s seen (kept ++ [(false, m)])
      | some first =>
        if chainKey m ∈ seen then
          match s.deleteFromStorage m.tid with
          | none => none
          | some s' => dropLoopR reported t s' seen kept
        else
          match s.renameTid m.tid first with
          | none => none
          | some s' => dropLoopR reported t s' (seen ++ [chainKey m]) (kept ++ [(true, { m with tid := first })])
    else dropLoopR reported t s seen (kept ++ [(false, m)])

/-- `own_chains.setdefault(chain, id)` -/
def mapInsertNew (l : ChainMap) (p : ChainKey × String) : ChainMap := if amHas l p.1 then l else l ++ [p]

/-- (chain, id) of the spliced novel models of a list -/
def reportPairs (ms : List TModel) : ChainMap := (ms.filter isSplicedNovel).map (fun m => (chainKey m, m.tid))

/-- `reported_novel_chains.update(own_chains)` with `own_chains` built by `setdefault` over the models that stay -/
def mapUpdate (reported : ChainMap) (ms : List TModel) : ChainMap :=
  ((reportPairs ms).foldl mapInsertNew []).foldl (fun l p => amSet l p.1 p.2) reported

/-- the models that are dumped: the storage without the members of `repeated_chain_models` -/
def finalModels (kept : List (Bool × TModel)) : List TModel := (kept.filter (fun p => !p.1)).map (·.2)

/-- the current `drop_novel_chains_reported_elsewhere`: the storage the second `assign_reads_to_models` works on (local copies
    included, under the first model's id), the models that will be dumped, the new `reported_novel_chains`;
    `none` = KeyError -/
def Store.dropKeep (s : Store) (reported : ChainMap) : Option (Store × List TModel × ChainMap) :=
  match dropLoopR reported s.models s [] [] with
  | none => none
  | some (s', kept) =>
    some ({ s' with models := kept.map (·.2) }, finalModels kept, mapUpdate reported (finalModels kept))

/-! ### round `c04rep2`: the dict holds the MODEL reported first; earlier models join the second assignment -/

/-- `GraphBasedModelConstructor.reported_novel_chains` of the current code: (strand, chain) -> the model reported first -/
abbrev ModelMap := List (ChainKey × TModel)

instance instDecidableEqModelMap : DecidableEq ModelMap := inferInstance

/-- the view fix 0c8e711 had of the dict: (strand, chain) -> id of the model reported first -/
def idMapOf (mm : ModelMap) : ChainMap := mm.map (fun p => (p.1, p.2.tid))

def modelInsertNew (l : ModelMap) (p : ChainKey × TModel) : ModelMap := if amHas l p.1 then l else l ++ [p]

def modelPairs (ms : List TModel) : ModelMap := (ms.filter isSplicedNovel).map (fun m => (chainKey m, m))

/-- `reported_novel_chains.update(own_chains)`, `own_chains.setdefault(chain, model)` over the models that stay -/
def mapUpdateM (reported : ModelMap) (ms : List TModel) : ModelMap :=
  ((modelPairs ms).foldl modelInsertNew []).foldl (fun l p => amSet l p.1 p.2) reported

/-- `model.get_start()` / `model.get_end()`; `none` = IndexError on an empty exon list -/
def TModel.startPos (m : TModel) : Option Int := m.exons.head?.map (·.1)
def TModel.endPos (m : TModel) : Option Int := m.exons.getLast?.map (·.2)

/-- `[copy.copy(model) for model in reported_novel_chains.values()
      if model.get_start() <= reads_end and reads_start <= model.get_end()]` -/
def overlapping (span : Int × Int) : ModelMap → Option (List TModel)
  | [] => some []
  | (_, m) :: t =>
    match m.startPos, m.endPos, overlapping span t with
    | some a, some b, some r => some (if a ≤ span.2 ∧ span.1 ≤ b then m :: r else r)
    | _, _, _ => none

/-- `self.earlier_models`; `span` = (min start, max end) of the corrected exons of the constructor's reads, `none` = no read has
    exons (the list stays empty) -/
def earlierModels (reported : ModelMap) : Option (Int × Int) → Option (List TModel)
  | none => some []
  | some span => overlapping span reported

/-- the current `drop_novel_chains_reported_elsewhere`: the storage the second `assign_reads_to_models` works on (the kept models
    followed by the copies of the earlier models), the models that will be dumped, the new dict; `none` = the code raises.
    The deletion loop is the loop of fix b2b4dd9 (`Store.dropReported`). -/
def Store.dropJoin (s : Store) (reported : ModelMap) (span : Option (Int × Int)) : Option (Store × List TModel × ModelMap) :=
  match s.dropReported (chainKeys (idMapOf reported)) with
  | none => none
  | some (s6, _) =>
    match earlierModels reported span with
    | none => none
    | some em => some ({ s6 with models := s6.models ++ em }, s6.models, mapUpdateM reported s6.models)

/-- which `process()` is modelled -/
inductive Repair where
  | none        -- before fix b2b4dd9: every constructor reports its chains
  | dropOnly    -- fix b2b4dd9: a repeated chain is deleted, its reads are not kept
  | renameCopy  -- fix 0c8e711: the local copy of a repeated chain takes the id of the model reported first
  | joinEarlier -- current code: local copies are deleted, the earlier models themselves join the second assignment
  deriving Repr, DecidableEq

/-- what the constructors of one chromosome task share -/
structure ChrState where
  detected : List String        -- GraphBasedModelConstructor.detected_known_isoforms
  idv : Nat                     -- transcript_id_distributor.value
  reported : ModelMap           -- GraphBasedModelConstructor.reported_novel_chains
  deriving Repr, DecidableEq

/-- the state `construct_models_in_parallel` starts a chromosome with: both class-level containers cleared, a fresh distributor -/
def ChrState.init : ChrState := ⟨[], 0, []⟩

/-- `construct_assignment_based_isoforms` as far as it touches the storage and the shared state: reference isoforms that pass
    the count / support gates (`construct_monoexon_isoforms`, `construct_nonfl_isoforms`: added unless already detected) and
    `generate_monoexon_from_clustered` (novel mono-exonic models, numbered by the shared distributor) -/
inductive AOp where
  | known (ref : String) (m : TModel) (reads : List String)
  | mono (forward : Bool) (clusters : List MonoCluster)

def applyAOp (env : FLEnv) (next : Nat → Nat) (st : FLState) : AOp → Option FLState
  | .known ref m reads =>
    if ref ∈ st.detected then some st
    else some { st with detected := st.detected ++ [ref], store := st.store.addModel m reads }
  | .mono fwd cl =>
    match monoLoop env.chr env.minNovelCount next fwd cl ⟨st.idv, st.store⟩ [] with
    | none => none
    | some (ms, _) => some { st with idv := ms.idv, store := ms.store }

def applyAOps (env : FLEnv) (next : Nat → Nat) : List AOp → FLState → Option FLState
  | [], st => some st
  | a :: t, st =>
    match applyAOp env next st a with
    | none => none
    | some st' => applyAOps env next t st'

/-- the (gene_info, assignment_storage) record of one (sub-)region, as the per-constructor models see it -/
structure RegionIn where
  env : FLEnv
  sd : Iv → Strand
  paths : List PathIn
  aops : List AOp
  fp : FilterParams
  mapq : String → Int
  similar : List TModel → Option (List String)     -- detect_similar_isoforms (computed: `detectSimilar`)
  post : Store → TModel → Option TModel             -- correct_novel_transcript_ends (computed: `correctModel`)
  covTerm : TModel → Int
  ins1 : List AssignIn                              -- first assign_reads_to_models
  ins2 : List AssignIn                              -- second assign_reads_to_models
  newGene : TModel → String                         -- TranscriptToGeneJoiner.join_transcripts
  span : Option (Int × Int) := none                 -- (min start, max end) of the corrected exons of the record's reads

/-- the tail of `process()` after `filter_transcripts`: [the drop,] the second `assign_reads_to_models`, [`forward_counts` reads
    `transcript_read_ids` — what `dumpR2T` prints —, the local copies leave the storage,] the joiner -/
def regionTail (v : Repair) (reported : ModelMap) (r : RegionIn) (s5 : Store) : Option (Store × ModelMap) :=
  let join (s7 : Store) (ms : List TModel) : Store := { s7 with models := ms.map (fun m => { m with gene := r.newGene m }) }
  match v with
  | .none =>
    let s7 := s5.assignReads r.ins2
    some (join s7 s7.models, reported)
  | .dropOnly =>
    match s5.dropReported (chainKeys (idMapOf reported)) with
    | none => none
    | some (s6, _) =>
      let s7 := s6.assignReads r.ins2
      some (join s7 s7.models, mapUpdateM reported s6.models)
  | .renameCopy =>
    match s5.dropKeep (idMapOf reported) with
    | none => none
    | some (s6, final, _) => some (join (s6.assignReads r.ins2) final, mapUpdateM reported final)
  | .joinEarlier =>
    match s5.dropJoin reported r.span with
    | none => none
    | some (s6, final, rep) => some (join (s6.assignReads r.ins2) final, rep)

/-- the storage after `filter_transcripts` and the shared state after the construction steps -/
def regionHead (next : Nat → Nat) (cs : ChrState) (r : RegionIn) : Option (FLState × Store) :=
  match constructFL r.env r.sd next ⟨cs.detected, cs.idv, Store.empty⟩ r.paths with
  | none => none
  | some (st1, _) =>
    match applyAOps r.env next r.aops st1 with
    | none => none
    | some st2 =>
      match st2.store.preFilter r.fp r.mapq with
      | none => none
      | some s3 =>
        match (s3.assignReads r.ins1).filterTranscriptsG r.fp r.mapq r.similar r.post r.covTerm with
        | none => none
        | some s5 => some (st2, s5)

/-- `GraphBasedModelConstructor.process` for one record (see `Repair`).
    Result: the shared state handed to the next constructor and the storage that is dumped
    (`transcript_models.gtf`, `transcript_model_reads`); `none` = the code raises. -/
def processRegion (repaired : Repair) (next : Nat → Nat) (cs : ChrState) (r : RegionIn) : Option (ChrState × Store) :=
  match regionHead next cs r with
  | none => none
  | some (st2, s5) =>
    match regionTail repaired cs.reported r s5 with
    | none => none
    | some (s, rep) => some (⟨st2.detected, st2.idv, rep⟩, s)

/-- the loop of `construct_models_in_parallel` over the records of the chromosome -/
def runChromosome (repaired : Repair) (next : Nat → Nat) :
    List RegionIn → ChrState → List Store → Option (ChrState × List Store)
  | [], cs, acc => some (cs, acc)
  | r :: t, cs, acc =>
    match processRegion repaired next cs r with
    | none => none
    | some (cs', s) => runChromosome repaired next t cs' (acc ++ [s])

/-- the current code -/
def runChromosomeFixed := runChromosome .joinEarlier
/-- the code of fix 0c8e711 (kept for the witness: reads of a later sub-region that builds no copy are lost) -/
def runChromosome0c8e := runChromosome .renameCopy
/-- the code of fix b2b4dd9 (kept for the witness: the reads of a repeated chain are lost) -/
def runChromosomeB2b4 := runChromosome .dropOnly
/-- the code before both fixes (kept for the witness: duplicates) -/
def runChromosomeOrig := runChromosome .none

/-- (strand, intron chain) of every novel spliced model reported on the chromosome, constructor by constructor -/
def chrKeys (reps : List Store) : List ChainKey := reps.flatMap (fun s => reportKeys s.models)

end IsoVerif.Model.C04
