/-
C16 — declarative specifications for the tail finder's reference projection and for `concat_gapless_blocks`
(the code models live in Model/PolyAFinder.lean and Model/Cigar.lean; the theorems that tie them to these
specifications are in Props/C16MoveRef.lean, Props/C16FinderSpec.lean, Props/C16Concat.lean).
Core Lean only (the driver evaluates the specifications against the real code as well).

Base-by-base view of a CIGAR: every operation of length `n` stands for `n` *columns* of the pairwise alignment;
a column carries two flags taken from the SAM tables of Model/Cigar.lean: "consumes a query base" and
"consumes a reference base" (`M = X` both, `I` query only, `D N` reference only; `H P` would be neither and
`S` query only — the walk never sees clips).
-/
import IsoVerif.Model.PolyAFinder

namespace IsoVerif.Model.C16
open IsoVerif.Gen IsoVerif.Model

def isClipOp (k : CigarEvent) : Bool := k == .soft_clipping || k == .hard_clipping

/-- one column per base of every operation: `(consumes query, consumes reference)` -/
def expand (ops : List CigarOp) : List (Bool × Bool) :=
  ops.flatMap (fun o => List.replicate o.2.toNat (consumesQuery o.1, consumesRef o.1))

/-- query bases / reference bases among some columns -/
def qCount (cols : List (Bool × Bool)) : Nat := cols.countP (fun c => c.1)
def rCount (cols : List (Bool × Bool)) : Nat := cols.countP (fun c => c.2)

/-- **the projection, declaratively**: `r` is what a base-by-base SAM projection assigns to the query base number
    `q` (0-based) of `cols`: the number of reference bases *at or before* that base, minus one — i.e. the
    0-based offset of the reference base the query base is aligned to, or of the nearest reference base before it
    when the query base is an insertion; when `cols` holds no more than `q` query bases, every reference base
    counts (the walk ran off the alignment). -/
def ProjectsTo (cols : List (Bool × Bool)) (q : Nat) (r : Int) : Prop :=
  (∃ pre c post, cols = pre ++ c :: post ∧ c.1 = true ∧ qCount pre = q ∧ r = (rCount (pre ++ [c]) : Int) - 1) ∨
  (qCount cols ≤ q ∧ r = (rCount cols : Int) - 1)

/-- executable form of the same thing (one step per base, not per operation): reference columns at or before the
    query column number `q`; all of them when there is no such column -/
def refColsUpTo : List (Bool × Bool) → Nat → Nat
  | [], _ => 0
  | (true, r) :: _, 0 => r.toNat
  | (true, r) :: cols, q + 1 => r.toNat + refColsUpTo cols q
  | (false, r) :: cols, q => r.toNat + refColsUpTo cols q

/-- the operations `move_ref_coord_alogn_alignment` walks over: the CIGAR read from the chosen end, the leading
    clip operations skipped the way the code skips them, up to the first clip on the other side -/
def walkCore (cigar : List CigarOp) (forward : Bool) : List CigarOp :=
  let walk := if forward then cigar else cigar.reverse
  (walk.drop (leadingClips walk)).takeWhile (fun o => !isClipOp o.1)

/-- a `P` operation is met before `n + 1` query bases are consumed (the code raises `TypeError` there) -/
def padReached (core : List CigarOp) (n : Int) : Bool :=
  (List.range core.length).any (fun i =>
    match core[i]? with
    | some o => o.1 == CigarEvent.padding && decide (queryLen (core.take i) ≤ n)
    | none => false)

/-- the specification of `move_ref_coord_alogn_alignment` as one function (used by the driver):
    base-by-base projection of the query base `|shift|` bases inside the alignment from the chosen end -/
def moveRefCoordSpec (cigar : List CigarOp) (shift : Int) : Option Int :=
  if shift = 0 then some 0
  else if cigar = [] then none
  else
    let core := walkCore cigar (decide (shift > 0))
    if padReached core shift.natAbs then none
    else some ((refColsUpTo (expand core) shift.natAbs : Int) - 1)

/-- SAM-valid clipping at the start of a walk: nothing, `S`, `H` or `H S` before the first non-clip operation -/
def ClipsValid (walk : List CigarOp) : Prop :=
  (walk.takeWhile (fun o => isClipOp o.1)).map (fun o => o.1) ∈
    [[], [CigarEvent.soft_clipping], [CigarEvent.hard_clipping], [CigarEvent.hard_clipping, CigarEvent.soft_clipping]]

instance (walk : List CigarOp) : Decidable (ClipsValid walk) := by unfold ClipsValid; infer_instance

/-! ### the sequences the two finders scan -/

/-- `sequence_to_check` of `find_polya_tail` as flags "base is A": the read from `from_pos` bases before the end of
    the aligned part to `to_pos` bases into the soft-clipped tail -/
def regionA (cigar : List CigarOp) (seq : List Char) (fromPos toPos : Int) : List Bool :=
  (slice seq (max 0 ((seq.length : Int) - softClipTail cigar - fromPos))
    (min (seq.length : Int) ((seq.length : Int) - softClipTail cigar + toPos + 1))).map (fun c => upperChar c == 'A')

/-- `to_check_start` of `find_polya_tail` -/
def startA (cigar : List CigarOp) (seq : List Char) (fromPos : Int) : Int :=
  max 0 ((seq.length : Int) - softClipTail cigar - fromPos)

/-- `sequence_to_check` of `find_polyt_head` (reverse-complemented, flags "base is A" = reversed, flags "base is T") -/
def regionT (cigar : List CigarOp) (seq : List Char) (fromPos toPos : Int) : List Bool :=
  ((slice seq (max 0 (softClipHead cigar - toPos))
    (min (seq.length : Int) (softClipHead cigar + fromPos + 1))).reverse).map (fun c => upperChar c == 'T')

/-- `to_check_end` of `find_polyt_head` -/
def stopT (cigar : List CigarOp) (seq : List Char) (fromPos : Int) : Int :=
  min (seq.length : Int) (softClipHead cigar + fromPos + 1)

/-! ### `concat_gapless_blocks(alignment.get_blocks(), alignment.cigartuples)` — specification

Used only by the stand-alone script `src/10x_profiles.py`.  With pysam's blocks (one per `M = X` operation) the
function returns one 0-based half-open interval per `N`-free run that holds an aligned operation — *not* the exons
of `get_read_blocks` in general: soft clips do not end a run, only the **last** `D` seen since the previous block was
closed is put in front of a block (and a `D` of an indel-only run leaks into the next block), and everything after
the last aligned operation of the CIGAR (a trailing `D` in particular) is ignored. -/

/-- the CIGAR up to and including its last aligned operation (`[]` if there is none) -/
def truncAligned : List CigarOp → List CigarOp
  | [] => []
  | op :: rest => if hasAligned (op :: rest) then op :: truncAligned rest else []

/-- `(pre, run)` for every maximal `N`-free run (cut at `N` only; same shape as `cuts`) -/
def cutsNAux (pre seg : List CigarOp) : List CigarOp → List (List CigarOp × List CigarOp)
  | [] => [(pre, seg)]
  | op :: rest =>
    if op.1 = CigarEvent.skipped then (pre, seg) :: cutsNAux (pre ++ seg ++ [op]) [] rest
    else cutsNAux pre (seg ++ [op]) rest

def cutsN (ops : List CigarOp) : List (List CigarOp × List CigarOp) := cutsNAux [] [] ops

/-- the operations of a run before its first aligned operation -/
def leadOf (seg : List CigarOp) : List CigarOp := seg.takeWhile (fun o => !isAligned o.1)

/-- the operations after the last aligned operation -/
def afterLastAligned (l : List CigarOp) : List CigarOp := (l.reverse.takeWhile (fun o => !isAligned o.1)).reverse

/-- the operations seen since the last block was closed: after the first `N` that follows the last aligned
    operation; everything when there was no aligned operation yet -/
def sinceBlock (l : List CigarOp) : List CigarOp :=
  if hasAligned l then (afterLastAligned l).dropWhile (fun o => !(o.1 == CigarEvent.skipped)) else afterLastAligned l

/-- length of the last `D` operation of a list, 0 if there is none -/
def lastDel (l : List CigarOp) : Int :=
  match (l.filter (fun o => o.1 == CigarEvent.deletion)).getLast? with
  | some d => d.2
  | none => 0

/-- `deletions_before_block` when a block is opened after the operations `before` -/
def pendingDel (before : List CigarOp) : Int := lastDel (sinceBlock before)

/-- block of a run: from the first aligned base minus the pending deletion to the last reference base of the run -/
def gaplessOf (s : Int) (c : List CigarOp × List CigarOp) : Option Iv :=
  if hasAligned c.2 then
    some (s + refLen c.1 + refLen (leadOf c.2) - pendingDel (c.1 ++ leadOf c.2), s + refLen c.1 + refLen c.2)
  else none

def concatGaplessSpec (s : Int) (ops : List CigarOp) : List Iv :=
  (cutsN (truncAligned ops)).filterMap (gaplessOf s)

end IsoVerif.Model.C16
