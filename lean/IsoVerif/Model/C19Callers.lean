/-
C19, audit-2 G4 / G7: the guards of the call sites that hand derived lists to the C19 list functions.

  src/exon_corrector.py  ExonCorrector.correct_assigned_read   (tail, after `correct_misalignments` returned `(region, new_introns)`)
      is_valid_intron_chain (added by fix_corrector_closed_intron), is_valid_exon_chain, junctions_from_blocks(new_introns)
  src/long_read_profiles.py  NonOverlappingFeaturesProfileConstructor.construct_profile on an EMPTY known-exon list
      (guard `and self.known_exons` added by fix_nonoverlapping_empty_known)
Core Lean only.
-/
import IsoVerif.Model.Corrector
import IsoVerif.Model.Profiles

namespace IsoVerif.Model.C19Callers
open IsoVerif.Gen IsoVerif.Model IsoVerif.Model.C14

-- `intronsSpaced` / `validIntronChain` (`ExonCorrector.is_valid_intron_chain`) live in `Model/Corrector.lean` (namespace C14)

/-- tail of `correct_assigned_read` (repaired): the new intron list is tested BEFORE it is handed to
    `junctions_from_blocks`; then the exon chain is tested as before -/
def guardedExons (reg : Iv) (ni exons : List Iv) : List Iv :=
  if validIntronChain ni then
    if validChain (buildExons reg ni) then buildExons reg ni else exons
  else exons

/-- the tail before the repair: only the exon chain is tested (`exon.end < next exon.start`) -/
def guardedExonsOrig (reg : Iv) (ni exons : List Iv) : List Iv :=
  if validChain (buildExons reg ni) then buildExons reg ni else exons

/-- `NonOverlappingFeaturesProfileConstructor.construct_profile` with the guard `and self.known_exons` on both tail branches:
    on an empty known list the binary searches are not called -/
def constructNonOverlappingG (known : List Iv) (cmp : Iv → Iv → Bool) (delta : Int)
    (read : List Iv) (polya polyt : Int) : Option ProfileResult :=
  if known.isEmpty then constructNonOverlapping known cmp delta read (-1) (-1)
  else constructNonOverlapping known cmp delta read polya polyt

end IsoVerif.Model.C19Callers
