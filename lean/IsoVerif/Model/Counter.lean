/-
Hand-written executable model of the expression-table code of /repo (property C02):

  src/long_read_counter.py   ReadWeightCounter.process_ambiguous / process_inconsistent,
                             GeneAssignmentExtractor / TranscriptAssignmentExtractor (get_features,
                             get_assignment_type, confirms_feature), IncrementalDict,
                             AssignedFeatureCounter.add_read_info / add_read_info_raw / add_unassigned /
                             add_unaligned / add_confirmed_features / dump (ungrouped) / convert_counts_to_tpm
  src/file_utils.py          merge_counts / merge_files (per-chromosome parts of one counter)
  src/graph_based_model_construction.py   GraphBasedModelConstructor.forward_counts

Core Lean only.  Counts are exact rationals (`Rat`); the code sums Python floats `1.0/k` (the harness compares
within 1e-9).  Feature ids `F` and read ids `R` are abstract (`DecidableEq`); the driver instantiates both with
`String`.  Errors the real code raises (IndexError of `list(feature_ids)[0]`, KeyError of
`all_isoforms_introns[...]`, ZeroDivisionError of `1.0 / feature_count`) are `none`.
Only the ungrouped counter (`read_groups` falsy ⇒ `ignore_read_groups`) is modelled: grouped tables are C09.
-/
import IsoVerif.Gen.Enums
import IsoVerif.Gen.EventClasses
import IsoVerif.Gen.Strategies

namespace IsoVerif.Model.C02
open IsoVerif.Gen

/-! ### ReadWeightCounter (flags come from the generated `CountingStrategy.*` lists) -/

/-- `ReadWeightCounter.process_ambiguous(feature_count)` -/
def processAmbiguous (s : CountingStrategy) (k : Nat) : Rat :=
  if k = 0 then 0
  else if k = 1 then 1
  else if s.ambiguous then 1 / (k : Rat)
  else 0

/-- `ReadWeightCounter.process_inconsistent(assignment_type, feature_count)`;
    `none` = ZeroDivisionError (`1.0 / 0`) -/
def processInconsistent (s : CountingStrategy) (t : ReadAssignmentType) (k : Nat) : Option Rat :=
  if t = ReadAssignmentType.inconsistent_ambiguous ∨ k > 1 then
    if s.ambiguous && s.inconsistent then
      (if k = 0 then none else some (1 / (k : Rat)))
    else some 0
  else if s.inconsistent then some 1
  else if s.inconsistent_minor && (t == ReadAssignmentType.inconsistent_non_intronic) then some 1
  else some 0

/-! ### the part of a ReadAssignment the counter reads -/

/-- `IsoformMatch`: only `assigned_gene` / `assigned_transcript` are read; `none` = `None` -/
structure Match (F : Type) where
  gene : Option F
  transcript : Option F
  deriving Repr

/-- which extractor the counter was built with -/
inductive Level where
  | gene
  | transcript
  deriving DecidableEq, Repr, Inhabited

structure Assignment (F : Type) where
  /-- `assignment_type` -/
  atype : ReadAssignmentType
  /-- `gene_assignment_type` -/
  gtype : ReadAssignmentType
  /-- `isoform_matches` -/
  isoMatches : List (Match F)
  /-- `len(corrected_exons)` -/
  nCorrectedExons : Nat
  /-- `gene_info.all_isoforms_introns` as isoform id ↦ number of introns (a missing key is a KeyError) -/
  isoformIntrons : List (F × Nat)
  deriving Repr

variable {F : Type} [DecidableEq F]

/-- list → set, first occurrences kept (Python builds a `set`; only membership, size and – for a unique
    record – "the" element are observed) -/
def dedup : List F → List F
  | [] => []
  | x :: xs => x :: (dedup xs).filter (fun y => !(y = x))

def Match.sel (lvl : Level) (m : Match F) : Option F :=
  match lvl with
  | .gene => m.gene
  | .transcript => m.transcript

/-- `*AssignmentExtractor.get_features` -/
def features (lvl : Level) (a : Assignment F) : List F :=
  dedup (a.isoMatches.filterMap (Match.sel lvl))

/-- `*AssignmentExtractor.get_assignment_type` -/
def typeOf (lvl : Level) (a : Assignment F) : ReadAssignmentType :=
  match lvl with
  | .gene => a.gtype
  | .transcript => a.atype

def lookupNat (m : List (F × Nat)) (k : F) : Option Nat :=
  match m with
  | [] => none
  | (k', v) :: rest => if k' = k then some v else lookupNat rest k

/-- `*AssignmentExtractor.confirms_feature`; `none` = IndexError / KeyError -/
def confirms (lvl : Level) (a : Assignment F) : Option Bool :=
  match lvl with
  | .gene => some a.gtype.is_unique
  | .transcript =>
    match a.isoMatches with
    | [] => none
    | m :: _ =>
      if a.atype.is_unique then
        match m.transcript with
        | none => none
        | some tid =>
          match lookupNat a.isoformIntrons tid with
          | none => none
          | some nIntrons => some (nIntrons == 0 || decide (a.nCorrectedExons > 1))
      else some false

/-! ### IncrementalDict (one group) and the counter state -/

/-- `IncrementalDict.inc` on the feature → count association (insertion order kept) -/
def inc (m : List (F × Rat)) (k : F) (v : Rat) : List (F × Rat) :=
  match m with
  | [] => [(k, v)]
  | (k', v') :: rest => if k' = k then (k', v' + v) :: rest else (k', v') :: inc rest k v

/-- `feature_counter[f].get(group)`: 0 when absent -/
def cget (m : List (F × Rat)) (k : F) : Rat :=
  match m with
  | [] => 0
  | (k', v') :: rest => if k' = k then v' else cget rest k

/-- the zeroing of `dump`: an existing entry is overwritten with 0.0 -/
def setZero (m : List (F × Rat)) (k : F) : List (F × Rat) :=
  match m with
  | [] => []
  | (k', v') :: rest => if k' = k then (k', 0) :: rest else (k', v') :: setZero rest k

/-- `set.add` -/
def setAdd (l : List F) (x : F) : List F := if x ∈ l then l else x :: l

structure CState (F : Type) where
  /-- `feature_counter` (default group only) -/
  counts : List (F × Rat)
  /-- `all_features` -/
  allFeatures : List F
  /-- `confirmed_features` -/
  confirmed : List F
  ambiguousReads : Nat
  /-- `reads_for_tpm` -/
  usable : Nat
  notAssigned : Nat
  notAligned : Nat
  deriving Repr

/-- a fresh counter built with `all_features = complete_feature_list` -/
def CState.init (complete : List F) : CState F :=
  { counts := [], allFeatures := complete, confirmed := [], ambiguousReads := 0, usable := 0,
    notAssigned := 0, notAligned := 0 }

def incAll (m : List (F × Rat)) (fs : List F) (w : Rat) : List (F × Rat) :=
  fs.foldl (fun acc f => inc acc f w) m

def addAll (l : List F) (fs : List F) : List F := fs.foldl setAdd l

/-- third guard of `add_read_info`: `isoform_matches[0].assigned_transcript is None` -/
def firstTranscriptNone (a : Assignment F) : Bool :=
  match a.isoMatches with
  | [] => false
  | m :: _ => m.transcript.isNone

/-- the record is skipped into `not_assigned_reads` -/
def skipped (a : Assignment F) : Bool :=
  a.atype.is_unassigned || a.isoMatches.isEmpty || firstTranscriptNone a

/-- `AssignedFeatureCounter.add_read_info` (ungrouped); `none` = the real code raises -/
def addReadInfo (s : CountingStrategy) (lvl : Level) (st : CState F) (ra : Option (Assignment F)) :
    Option (CState F) :=
  match ra with
  | none => some { st with notAligned := st.notAligned + 1 }
  | some a =>
    if skipped a then some { st with notAssigned := st.notAssigned + 1 }
    else
      let fs := features lvl a
      let t := typeOf lvl a
      let st := { st with usable := st.usable + 1 }
      if t = ReadAssignmentType.ambiguous then
        let w := processAmbiguous s fs.length
        some { st with counts := incAll st.counts fs w,
                       allFeatures := if w > 0 then addAll st.allFeatures fs else st.allFeatures,
                       ambiguousReads := st.ambiguousReads + 1 }
      else if t.is_inconsistent then
        match processInconsistent s t fs.length with
        | none => none
        | some w =>
          if w > 0 then
            some { st with counts := incAll st.counts fs w, allFeatures := addAll st.allFeatures fs }
          else some st
      else if t.is_unique then
        match fs with
        | [] => none
        | f :: _ =>
          match confirms lvl a with
          | none => none
          | some c =>
            some { st with counts := inc st.counts f 1, allFeatures := setAdd st.allFeatures f,
                           confirmed := if c then setAdd st.confirmed f else st.confirmed }
      else some st

/-- `AssignedFeatureCounter.add_read_info_raw(read_id, feature_ids)` (ungrouped);
    `noId` = `not read_id`; `feature_ids` is a Python list (duplicates count in `len`) -/
def addReadInfoRaw (s : CountingStrategy) (st : CState F) (noId : Bool) (fs : List F) : CState F :=
  if noId then { st with notAligned := st.notAligned + 1 }
  else match fs with
    | [] => { st with notAssigned := st.notAssigned + 1 }
    | [f] => { st with counts := inc st.counts f 1, allFeatures := setAdd st.allFeatures f,
                       usable := st.usable + 1 }
    | _ => { st with ambiguousReads := st.ambiguousReads + 1, usable := st.usable + 1,
                     counts := incAll st.counts fs (processAmbiguous s fs.length),
                     allFeatures := addAll st.allFeatures fs }

/-- one call on the counter -/
inductive Event (F : Type) where
  /-- `add_read_info(read_assignment)`; `none` = `None` -/
  | read (a : Option (Assignment F))
  /-- `add_read_info_raw(read_id, feature_ids)` -/
  | raw (noId : Bool) (fs : List F)
  /-- `add_unassigned(n)` -/
  | unassigned (n : Nat)
  /-- `add_unaligned(n)` -/
  | unaligned (n : Nat)
  /-- `add_confirmed_features(features)` -/
  | confirm (fs : List F)
  deriving Repr

def step (s : CountingStrategy) (lvl : Level) (st : CState F) : Event F → Option (CState F)
  | .read a => addReadInfo s lvl st a
  | .raw noId fs => some (addReadInfoRaw s st noId fs)
  | .unassigned n => some { st with notAssigned := st.notAssigned + n, usable := st.usable + n }
  | .unaligned n => some { st with notAligned := st.notAligned + n }
  | .confirm fs => some { st with confirmed := addAll st.confirmed fs }

/-- a history of calls; `none` as soon as one call raises -/
def run (s : CountingStrategy) (lvl : Level) (st : CState F) : List (Event F) → Option (CState F)
  | [] => some st
  | e :: es =>
    match step s lvl st e with
    | none => none
    | some st' => run s lvl st' es

/-! ### dump (ungrouped) -/

/-- `%.2f` / `%.6f` of an exact value: nearest integer number of quanta, ties to even
    (the code formats a double; the harness allows one quantum at exact ties) -/
def roundHalfEven (q : Rat) : Int :=
  let fl := q.floor
  let r := q - (fl : Rat)
  if r < 1 / 2 then fl
  else if r > 1 / 2 then fl + 1
  else if fl % 2 = 0 then fl else fl + 1

/-- printed count in hundredths -/
def hundredths (q : Rat) : Int := roundHalfEven (q * 100)
/-- printed TPM in millionths -/
def millionths (q : Rat) : Int := roundHalfEven (q * 1000000)

/-- the counts after the zeroing loop of `dump` over the sorted feature list -/
def zeroUnconfirmed (confirmed : List F) (feats : List F) (m : List (F × Rat)) : List (F × Rat) :=
  feats.foldl (fun acc f => if f ∈ confirmed then acc else setZero acc f) m

/-- insertion into a sorted list (structural, so that closed examples evaluate by `decide`) -/
def insertSorted (le : F → F → Bool) (x : F) : List F → List F
  | [] => [x]
  | y :: ys => if le x y then x :: y :: ys else y :: insertSorted le x ys

/-- insertion sort; on a duplicate-free list every sorting algorithm gives Python's `sorted` -/
def isort (le : F → F → Bool) : List F → List F
  | [] => []
  | x :: xs => insertSorted le x (isort le xs)

/-- `sorted(all_features)`; `le` is the order of the ids (Python string order) -/
def sortedFeatures (le : F → F → Bool) (st : CState F) : List F :=
  isort le (dedup st.allFeatures)

/-- rows written by `dump_ungrouped` as exact values (before `%.2f`) -/
def dumpRowsExact (le : F → F → Bool) (outputZeroes : Bool) (st : CState F) : List (F × Rat) :=
  let feats := sortedFeatures le st
  let z := zeroUnconfirmed st.confirmed feats st.counts
  feats.filterMap (fun f =>
    let c := cget z f
    if !outputZeroes && c == 0 then none else some (f, c))

/-- one per-chromosome counts file + its `.stats` file -/
structure Part (F : Type) where
  /-- feature rows: id, printed count in hundredths -/
  rows : List (F × Int)
  ambiguous : Nat
  noFeature : Nat
  notAligned : Nat
  usable : Nat
  deriving Repr

/-- `AssignedFeatureCounter.dump` (ungrouped) -/
def dump (le : F → F → Bool) (outputZeroes : Bool) (st : CState F) : Part F :=
  { rows := (dumpRowsExact le outputZeroes st).map (fun p => (p.1, hundredths p.2)),
    ambiguous := st.ambiguousReads, noFeature := st.notAssigned, notAligned := st.notAligned,
    usable := st.usable }

/-! ### merge_counts over the per-chromosome parts (given in the order `merge_files` sorts the file names) -/

def natSum : List Nat → Nat
  | [] => 0
  | x :: xs => x + natSum xs

/-- merged counts file + `counter.reads_for_tpm` after `merge_counts(counter, label, chr_ids, unaligned_reads)` -/
def mergeCounts (parts : List (Part F)) (unalignedReads : Nat) : Part F :=
  { rows := parts.flatMap (·.rows),
    ambiguous := natSum (parts.map (·.ambiguous)),
    noFeature := natSum (parts.map (·.noFeature)),
    notAligned := if unalignedReads > 0 then unalignedReads else natSum (parts.map (·.notAligned)),
    usable := natSum (parts.map (·.usable)) }

/-- `merge_counts` of the tree BEFORE the repair `fix_merge_header`: `merge_files` counted every leading line of a part
    file that starts with `#` as a header line, so the leading feature rows whose id starts with `#` (`isHashLike`) were
    skipped together with the header in every part but the first one of the visiting order -/
def mergeCountsOrig (isHashLike : F → Bool) (parts : List (Part F)) (unalignedReads : Nat) : Part F :=
  { mergeCounts parts unalignedReads with
    rows := match parts with
      | [] => []
      | p :: ps => p.rows ++ ps.flatMap (fun q => q.rows.dropWhile (fun r => isHashLike r.1)) }

/-! ### convert_counts_to_tpm (ungrouped) on the merged file -/

def ratSum : List Rat → Rat
  | [] => 0
  | x :: xs => x + ratSum xs

/-- feature rows seen by both loops: they stop at the first line starting with `_` -/
def tpmInputRows (isStatLike : F → Bool) (rows : List (F × Int)) : List (F × Int) :=
  rows.takeWhile (fun r => !isStatLike r.1)

/-- the rows both loops of the tree BEFORE the repair `fix_tpm_header` looked at: `if line.startswith('#'): continue`
    skipped every feature row whose id starts with `#` (the second loop copied it into the TPM file as a header line) -/
def tpmInputRowsOrig (isStatLike isHashLike : F → Bool) (rows : List (F × Int)) : List (F × Int) :=
  (rows.takeWhile (fun r => !isStatLike r.1)).filter (fun r => !isHashLike r.1)

/-- `float(fs[1])` of a printed count -/
def printedValue (h : Int) : Rat := (h : Rat) / 100

/-- `total_counts[default_group]` -/
def totalCounts (rows : List (F × Int)) : Rat := ratSum (rows.map (fun r => printedValue r.2))

/-- `scale_factors[default_group]`: `none` when the file has no feature row (the dict stays empty) -/
def scaleFactor (norm : NormalizationMethod) (usable : Nat) (total : Rat) : Rat :=
  if norm = NormalizationMethod.usable_reads ∧ usable ≠ 0 then 1000000 / (usable : Rat)
  else if total > 0 then 1000000 / total
  else 1000000 / 1

/-- the `__unassigned` value -/
def unassignedTpm (norm : NormalizationMethod) (usable : Nat) (rows : List (F × Int)) : Rat :=
  if norm = NormalizationMethod.usable_reads ∧ usable ≠ 0 ∧ rows ≠ [] then
    1000000 * (1 - totalCounts rows / (usable : Rat))
  else 0

structure TpmTable (F : Type) where
  /-- exact TPM values (before `%.6f`) -/
  rows : List (F × Rat)
  unassigned : Rat
  deriving Repr

/-- `convert_counts_to_tpm(normalization)` reading the merged counts file `rows` (+ `reads_for_tpm`) -/
def countsToTpm (norm : NormalizationMethod) (outputZeroes : Bool) (isStatLike : F → Bool)
    (rows : List (F × Int)) (usable : Nat) : TpmTable F :=
  let inp := tpmInputRows isStatLike rows
  let sf := scaleFactor norm usable (totalCounts inp)
  { rows := inp.filterMap (fun r =>
      let tpm := sf * printedValue r.2
      if !outputZeroes && tpm == 0 then none else some (r.1, tpm)),
    unassigned := unassignedTpm norm usable inp }

/-- `convert_counts_to_tpm` of the tree BEFORE the repair `fix_tpm_header` -/
def countsToTpmOrig (norm : NormalizationMethod) (outputZeroes : Bool) (isStatLike isHashLike : F → Bool)
    (rows : List (F × Int)) (usable : Nat) : TpmTable F :=
  let inp := tpmInputRowsOrig isStatLike isHashLike rows
  let sf := scaleFactor norm usable (totalCounts inp)
  { rows := inp.filterMap (fun r =>
      let tpm := sf * printedValue r.2
      if !outputZeroes && tpm == 0 then none else some (r.1, tpm)),
    unassigned := unassignedTpm norm usable inp }

/-! ### GraphBasedModelConstructor.forward_counts -/

variable {R : Type} [DecidableEq R]

/-- `read_assignment_counts[read_id]` on a `defaultdict(int)`: a missing key is inserted with 0 -/
def ddGet (m : List (R × Nat)) (k : R) : Nat × List (R × Nat) :=
  match m with
  | [] => (0, [(k, 0)])
  | (k', v) :: rest =>
    if k' = k then (v, (k', v) :: rest)
    else let (r, rest') := ddGet rest k; (r, (k', v) :: rest')

/-- `ambiguous_assignments[read_id].append(transcript_id)` (insertion-ordered dict) -/
def ambAppend (m : List (R × List F)) (r : R) (t : F) : List (R × List F) :=
  match m with
  | [] => [(r, [t])]
  | (r', ts) :: rest => if r' = r then (r', ts ++ [t]) :: rest else (r', ts) :: ambAppend rest r t

/-- inner loop over the reads of one transcript -/
def fcReads (t : F) : List R → List (R × Nat) → List (R × List F) → List (Event F) →
    List (R × Nat) × List (R × List F) × List (Event F)
  | [], cnt, amb, out => (cnt, amb, out)
  | r :: rs, cnt, amb, out =>
    let (c, cnt') := ddGet cnt r
    if c = 1 then fcReads t rs cnt' amb (out ++ [Event.raw false [t]])
    else fcReads t rs cnt' (ambAppend amb r t) out

/-- outer loop over `transcript_read_ids` -/
def fcTranscripts : List (F × List R) → List (R × Nat) → List (R × List F) → List (Event F) →
    List (R × Nat) × List (R × List F) × List (Event F)
  | [], cnt, amb, out => (cnt, amb, out)
  | (t, rs) :: rest, cnt, amb, out =>
    let (cnt', amb', out') := fcReads t rs cnt amb out
    fcTranscripts rest cnt' amb' out'

/-- `forward_counts`: the calls made on `transcript_counter`, in order.
    `transcriptReads` = `transcript_read_ids` (read ids only), `cnt` = `read_assignment_counts`,
    `models` = ids of `transcript_model_storage`; read ids are assumed non-empty. -/
def forwardCounts (transcriptReads : List (F × List R)) (cnt : List (R × Nat)) (models : List F) :
    List (Event F) :=
  let (cnt', amb, out) := fcTranscripts transcriptReads cnt [] []
  -- `list(dict.fromkeys(ambiguous_assignments[read_id][1:]))`: the DISTINCT models, first listing kept (repair
  -- `fix_forward_dup`: a read listed twice under one model - two alignment records of one read id - is shared by
  -- the distinct models only)
  out ++ amb.map (fun p => Event.raw false (dedup p.2))
      ++ [Event.unassigned (cnt'.filter (fun p => p.2 == 0)).length, Event.confirm models]

/-- `forward_counts` of the tree BEFORE the repair `fix_forward_dup`: the list of a read's models was passed on with
    repetitions (`[T, T]` for a read with two alignment records under the one model `T`: an "ambiguous" call) -/
def forwardCountsOrig (transcriptReads : List (F × List R)) (cnt : List (R × Nat)) (models : List F) :
    List (Event F) :=
  let (cnt', amb, out) := fcTranscripts transcriptReads cnt [] []
  out ++ amb.map (fun p => Event.raw false p.2)
      ++ [Event.unassigned (cnt'.filter (fun p => p.2 == 0)).length, Event.confirm models]

end IsoVerif.Model.C02
