/-
C17 — identifiers.  Executable model of

* `src/id_policy.py`: `SimpleIDDistributor`, `ExcludingIdDistributor` (forbidden numbers parsed from the
  reference ids with the code's exact `startswith` / `split` / slice / `int` steps), `FeatureIdStorage`
  (`__init__` loading the reference `exon_id`s – of the records of ALL feature types into `used_ids`, of the
  `exon` records into `id_dict` (`initRecords`; `initOrig` = the code before that repair) –, `get_id`);
* the id formatting of novel transcripts and genes in `src/graph_based_model_construction.py`
  (`construct_fl_isoforms`, `generate_monoexon_from_clustered`) as a function of the numbers drawn from the
  per-chromosome distributor; the heuristics only choose the *event sequence* (`IdEvent`).

Strings are `List Char` (`Str`) so that the proofs can talk about them; the driver converts at the boundary.
The `TranscriptNaming` constants come from `IsoVerif/Gen/Constants.lean` (regenerated from /repo each run).
Core Lean only.
-/
import IsoVerif.Gen.Constants

namespace IsoVerif.Model.C17
open IsoVerif.Gen

abbrev Str := List Char

/-! ### Python string primitives used by `id_policy.py` -/

/-- `s.split(sep)` for a one-character separator; `cur` is the segment read so far -/
def pySplitGo (sep : Char) : Str → Str → List Str
  | cur, [] => [cur]
  | cur, c :: cs => if c = sep then cur :: pySplitGo sep [] cs else pySplitGo sep (cur ++ [c]) cs

def pySplit (sep : Char) (s : Str) : List Str := pySplitGo sep [] s

/-- ASCII white space accepted (and stripped) by `int()` -/
def isPySpace (c : Char) : Bool :=
  c = ' ' || c = '\t' || c = '\n' || c = '\x0b' || c = '\x0c' || c = '\r'

def pyStrip (s : Str) : Str := ((s.dropWhile isPySpace).reverse.dropWhile isPySpace).reverse

/-- digits with single underscores allowed between digits (PEP 515); `prev` = previous char was a digit.
    `none` = `ValueError`. -/
def pyDigits : Str → Nat → Bool → Option Nat
  | [], acc, prev => if prev then some acc else none
  | c :: cs, acc, prev =>
    if c.isDigit then pyDigits cs (10 * acc + (c.toNat - '0'.toNat)) true
    else if c = '_' && prev then pyDigits cs acc false
    else none

/-- `int(s)` on ASCII strings; `none` = `ValueError` -/
def pyInt (s : Str) : Option Int :=
  match pyStrip s with
  | '+' :: r => (pyDigits r 0 false).map Int.ofNat
  | '-' :: r => (pyDigits r 0 false).map (fun n => - Int.ofNat n)
  | r => (pyDigits r 0 false).map Int.ofNat

/-- `str(n)` / `"%d" % n` for a non-negative integer -/
def pyStrNat (n : Nat) : Str := Nat.toDigits 10 n

/-! ### SimpleIDDistributor / ExcludingIdDistributor -/

/-- `SimpleIDDistributor` is the case `forbidden = []` -/
structure IdDistributor where
  value : Nat
  forbidden : List Int
deriving Repr, DecidableEq

/-- `while self.value in self.forbidden_ids: self.value += 1` (fuel; exhaustion is shown impossible) -/
def skipForbidden (forb : List Int) : Nat → Nat → Option Nat
  | 0, _ => none
  | fuel + 1, v => if Int.ofNat v ∈ forb then skipForbidden forb fuel (v + 1) else some v

/-- `increment()`: returns the new value and the new state -/
def IdDistributor.increment (d : IdDistributor) : Option (Nat × IdDistributor) :=
  match skipForbidden d.forbidden (d.forbidden.length + 1) (d.value + 1) with
  | none => none
  | some v => some (v, { d with value := v })

/-- the number added to `forbidden_ids` for a reference gene id (`none`: nothing added) -/
def geneNumber (id : Str) : Option Int :=
  if tn_novel_gene_prefix.toList.isPrefixOf id then
    match (pySplit '_' id).getLast? with
    | none => none            -- IndexError: pass
    | some s => pyInt s       -- ValueError: pass
  else none

/-- the number added to `forbidden_ids` for a reference transcript id -/
def transcriptNumber (id : Str) : Option Int :=
  if tn_transcript_prefix.toList.isPrefixOf id then
    match (pySplit '.' id).head? with
    | none => none
    | some s => pyInt (s.drop tn_transcript_prefix.toList.length)
  else none

/-- `ExcludingIdDistributor(genedb, chr_id)`: `genedb = none` is `if not genedb: return`; otherwise the ids of
    the gene features and of the transcript/mRNA features of the chromosome -/
def ExcludingIdDistributor.init (genedb : Option (List Str × List Str)) : IdDistributor :=
  match genedb with
  | none => ⟨0, []⟩
  | some (genes, transcripts) => ⟨0, genes.filterMap geneNumber ++ transcripts.filterMap transcriptNumber⟩

def SimpleIDDistributor.init : IdDistributor := ⟨0, []⟩

/-! ### id formatting (graph_based_model_construction.py) -/

/-- `TranscriptNaming.transcript_prefix + str(n)` -/
def novelTranscriptStem (n : Nat) : Str := tn_transcript_prefix.toList ++ pyStrNat n

def transcriptSuffix (nic : Bool) : Str :=
  if nic then tn_nic_transcript_suffix.toList else tn_nnic_transcript_suffix.toList

/-- `new_transcript_id + ".%s" % chr_id + id_suffix` -/
def novelTranscriptId (n : Nat) (chr : Str) (nic : Bool) : Str :=
  novelTranscriptStem n ++ ('.' :: chr) ++ transcriptSuffix nic

/-- `TranscriptNaming.novel_gene_prefix + chr_id + "_" + str(n)` -/
def novelGeneId (chr : Str) (n : Nat) : Str :=
  tn_novel_gene_prefix.toList ++ chr ++ ('_' :: pyStrNat n)

/-- `chr_id + ".%d" % n` -/
def exonIdStr (chr : Str) (n : Nat) : Str := chr ++ ('.' :: pyStrNat n)

inductive GeneRef
  | ref (g : Str)       -- `select_reference_gene` found a reference gene
  | novel (n : Nat)     -- new gene numbered from the same distributor
deriving Repr, DecidableEq

/-- a novel transcript model as far as its identifiers are concerned -/
structure NovelModel where
  tnum : Nat
  nic : Bool
  gene : GeneRef
deriving Repr, DecidableEq

def NovelModel.transcriptId (m : NovelModel) (chr : Str) : Str := novelTranscriptId m.tnum chr m.nic
def NovelModel.geneId (m : NovelModel) (chr : Str) : Str :=
  match m.gene with
  | .ref g => g
  | .novel n => novelGeneId chr n

/-- What the (unmodelled) construction heuristics decide about one candidate; everything they can do to
    the distributor.  `flDiscard`: an FL path for which `new_transcript_id` was computed and no novel
    model was added (known isoform, low count, filters, `continue`).  `flNovel g nic`: novel spliced model,
    `g = none` when `select_reference_gene` returned `None` (a second number is drawn for the gene).
    `monoexon valid`: `generate_monoexon_from_clustered` draws two numbers before the overlap test. -/
inductive IdEvent
  | flDiscard
  | flNovel (refGene : Option Str) (nic : Bool)
  | monoexon (valid : Bool)
deriving Repr, DecidableEq

def stepEvent (d : IdDistributor) : IdEvent → Option (List NovelModel × IdDistributor)
  | .flDiscard =>
    match d.increment with
    | none => none
    | some (_, d1) => some ([], d1)
  | .flNovel (some g) nic =>
    match d.increment with
    | none => none
    | some (n, d1) => some ([⟨n, nic, .ref g⟩], d1)
  | .flNovel none nic =>
    match d.increment with
    | none => none
    | some (n, d1) =>
      match d1.increment with
      | none => none
      | some (m, d2) => some ([⟨n, nic, .novel m⟩], d2)
  | .monoexon valid =>
    match d.increment with
    | none => none
    | some (n, d1) =>
      match d1.increment with
      | none => none
      | some (m, d2) => some (if valid then [⟨n, false, .novel m⟩] else [], d2)

/-- all candidates of a chromosome, in processing order, against the chromosome's distributor -/
def runEvents (d : IdDistributor) : List IdEvent → Option (List NovelModel × IdDistributor)
  | [] => some ([], d)
  | e :: es =>
    match stepEvent d e with
    | none => none
    | some (ms, d1) =>
      match runEvents d1 es with
      | none => none
      | some (ms', d2) => some (ms ++ ms', d2)

/-! ### FeatureIdStorage -/

/-- `(chr_id, start, end, strand)` -/
abbrev ExonKey := Str × Int × Int × Str

/-- a reference feature as `FeatureIdStorage.__init__` sees it: coordinates, strand and the value list of
    its `exon_id` attribute (`none`: attribute absent) -/
structure RefFeature where
  start : Int
  stop : Int
  strand : Str
  idAttr : Option (List Str)
deriving Repr, DecidableEq

/-- `id_dict[k]` on the association list (most recent assignment first); `none` = key absent -/
def dictGet (k : ExonKey) : List (ExonKey × Str) → Option Str
  | [] => none
  | (k', v) :: r => if k = k' then some v else dictGet k r

structure FeatureIdStorage where
  dist : IdDistributor
  dict : List (ExonKey × Str)     -- most recent assignment first (`dictGet` = Python dict semantics)
  used : List Str                 -- `used_ids`
deriving Repr, DecidableEq

def FeatureIdStorage.load (chr : Str) (st : FeatureIdStorage) (f : RefFeature) : FeatureIdStorage :=
  match f.idAttr with
  | none => st
  | some [] => st                 -- IndexError: pass
  | some (id :: _) =>
    { st with dict := ((chr, f.start, f.stop, f.strand), id) :: st.dict, used := id :: st.used }

/-- `FeatureIdStorage(id_distributor, genedb, chr_id)`; `genedb = none` or an empty `chr_id` return early -/
def FeatureIdStorage.init (dist : IdDistributor) (genedb : Option (List RefFeature)) (chr : Str) :
    FeatureIdStorage :=
  match genedb with
  | none => ⟨dist, [], []⟩
  | some feats => if chr.isEmpty then ⟨dist, [], []⟩ else feats.foldl (FeatureIdStorage.load chr) ⟨dist, [], []⟩

/-! #### the reference as the repaired `__init__` reads it: records of every type

`genedb.region(seqid=chr_id, start=1)` yields the records of ALL feature types of the chromosome.  GENCODE and every
`extended_annotation.gtf` written by IsoQuant carry `exon_id` on CDS / start_codon / stop_codon / UTR lines too.
Every value is entered into `used_ids`; `id_dict` is filled only from records with `f.featuretype == feature`. -/

/-- a reference record: `ofType` = `f.featuretype == feature` (an `exon` record), `feat` = coordinates, strand and
    the value list of its `exon_id` attribute -/
structure RefRecord where
  ofType : Bool
  feat : RefFeature
deriving Repr, DecidableEq

def FeatureIdStorage.loadRecord (chr : Str) (st : FeatureIdStorage) (r : RefRecord) : FeatureIdStorage :=
  match r.feat.idAttr with
  | none => st
  | some [] => st                 -- IndexError: pass (raised by the first statement, nothing was added)
  | some (id :: _) =>
    if r.ofType then
      { st with dict := ((chr, r.feat.start, r.feat.stop, r.feat.strand), id) :: st.dict, used := id :: st.used }
    else { st with used := id :: st.used }

/-- `FeatureIdStorage(id_distributor, genedb, chr_id, "exon")` of the repaired code over the records of all types.
    (`FeatureIdStorage.init` above is the special case of a reference whose records are all of the requested
    type: `initRecords_of_features` in Lemmas/Ids.lean.) -/
def FeatureIdStorage.initRecords (dist : IdDistributor) (genedb : Option (List RefRecord)) (chr : Str) :
    FeatureIdStorage :=
  match genedb with
  | none => ⟨dist, [], []⟩
  | some recs =>
    if chr.isEmpty then ⟨dist, [], []⟩ else recs.foldl (FeatureIdStorage.loadRecord chr) ⟨dist, [], []⟩

/-- the code before the repair: `genedb.region(seqid=chr_id, start=1, featuretype=feature)` – records of other types
    are never seen, their `exon_id` values are missing from `used_ids` (regression variant) -/
def FeatureIdStorage.initOrig (dist : IdDistributor) (genedb : Option (List RefRecord)) (chr : Str) :
    FeatureIdStorage :=
  FeatureIdStorage.init dist (genedb.map (fun recs => (recs.filter (·.ofType)).map (·.feat))) chr

/-- the loop of `get_id` that draws numbers until `chr.N` is not a reference id (fuel; exhaustion is
    shown impossible) -/
def freshLoop (chr : Str) (used : List Str) : Nat → IdDistributor → Option (Str × IdDistributor)
  | 0, _ => none
  | fuel + 1, d =>
    match d.increment with
    | none => none
    | some (v, d1) =>
      if exonIdStr chr v ∈ used then freshLoop chr used fuel d1 else some (exonIdStr chr v, d1)

/-- `get_id(chr_id, feature, strand)` of the current (fixed) code -/
def FeatureIdStorage.getId (st : FeatureIdStorage) (k : ExonKey) : Option (Str × FeatureIdStorage) :=
  match dictGet k st.dict with
  | some id => some (id, st)
  | none =>
    match freshLoop k.1 st.used (st.used.length + 1) st.dist with
    | none => none
    | some (id, d1) => some (id, { st with dist := d1, dict := (k, id) :: st.dict })

/-- a call history -/
def FeatureIdStorage.getIds (st : FeatureIdStorage) : List ExonKey → Option (List Str × FeatureIdStorage)
  | [] => some ([], st)
  | k :: ks =>
    match st.getId k with
    | none => none
    | some (id, st1) =>
      match st1.getIds ks with
      | none => none
      | some (ids, st2) => some (id :: ids, st2)

/-! #### the two defects of the pinned tree, kept as regression variants -/

/-- pinned `get_id`: the first sight of a new feature returned the bare number (`"%d"`), later calls the
    stored `chr.N`; no exclusion of reference ids -/
def FeatureIdStorage.getIdBuggy (st : FeatureIdStorage) (k : ExonKey) : Option (Str × FeatureIdStorage) :=
  match dictGet k st.dict with
  | some id => some (id, st)
  | none =>
    match st.dist.increment with
    | none => none
    | some (v, d1) => some (pyStrNat v, { st with dist := d1, dict := (k, exonIdStr k.1 v) :: st.dict })

/-- after the first fix only (returns the stored string) but still without `used_ids` -/
def FeatureIdStorage.getIdNoExclude (st : FeatureIdStorage) (k : ExonKey) : Option (Str × FeatureIdStorage) :=
  match dictGet k st.dict with
  | some id => some (id, st)
  | none =>
    match st.dist.increment with
    | none => none
    | some (v, d1) => some (exonIdStr k.1 v, { st with dist := d1, dict := (k, exonIdStr k.1 v) :: st.dict })

def getIdsWith (f : FeatureIdStorage → ExonKey → Option (Str × FeatureIdStorage)) (st : FeatureIdStorage) :
    List ExonKey → Option (List Str × FeatureIdStorage)
  | [] => some ([], st)
  | k :: ks =>
    match f st k with
    | none => none
    | some (id, st1) =>
      match getIdsWith f st1 ks with
      | none => none
      | some (ids, st2) => some (id :: ids, st2)

end IsoVerif.Model.C17
