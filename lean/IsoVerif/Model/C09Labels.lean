/-
C09 — how a file becomes a read group (`--read_group file_name`, also the implicit default with several files).

  src/input_data_storage.py  InputDataStorage.__init__ (`--bam` / `--fastq` with `--labels`), the tokenising of a
                             `--bam_list` line (`l.strip()`, `l.startswith("#")`, `.split(':')`, `.split()`), the label
                             derived from a file name (`os.path.splitext(os.path.basename(f))[0]`), the labels of a
                             YAML entry (`sample['labels'][f]`, any YAML scalar)
  src/read_groups.py         FileNameGrouper.__init__ (the sample's dictionary, or – when it is empty – the dictionary
                             rebuilt from *all* samples' libraries), composed with `get_group_id` of Model/C09.lean

The loops of `get_samples_from_file` / `get_samples_from_yaml` over the experiments (names, renaming, the per-name
dictionaries) are C10's model (`Model/Samples.lean`: `parseList`, `parseYaml`, `addFiles`, `labelled`, `lineLabel`);
this file supplies what C10 takes as an input: the tokens of a raw line and the `stem` of a path.
Core Lean only.
-/
import IsoVerif.Model.C09
import IsoVerif.Model.Samples

namespace IsoVerif.Model.C09
open IsoVerif.Model.C10 (InFile ListLine YamlEntry ParsedSample)

/-! ### `os.path.basename`, `os.path.splitext` (posixpath) -/

/-- `os.path.basename(p)`: what follows the last `/` -/
def pyBasename : List Char → List Char
  | [] => []
  | c :: t => if t.contains '/' then pyBasename t else if c = '/' then t else c :: t

/-- `os.path.splitext(b)[0]` for a name without `/` (`genericpath._splitext` with `sepIndex = -1`): the name is cut at
    its last dot when some character before that dot is not a dot; otherwise it is returned whole -/
def pySplitextRoot (b : List Char) : List Char :=
  let r := b.reverse
  match r.dropWhile (fun c => c != '.') with
  | [] => b                                   -- no dot at all
  | _ :: beforeRev =>                          -- the last dot and what precedes it (reversed)
    if beforeRev.all (fun c => c == '.') then b else beforeRev.reverse

/-- `os.path.splitext(os.path.basename(f))[0]` -/
def fileStem (f : String) : String := String.ofList (pySplitextRoot (pyBasename f.toList))

def mkInFile (path : String) : InFile := ⟨path, fileStem path⟩

/-! ### `--bam f1 f2 … [--labels l1 l2 …]` (and `--fastq`): `InputDataStorage.__init__` -/

inductive InErr where
  | exit (code : Int)          -- logger.critical + exit(code)
  | indexError
  | typeError                  -- a label that is not a `str` reaches `write_string`
  deriving DecidableEq, Repr

instance decEqExceptIn {α} [DecidableEq α] : DecidableEq (Except InErr α)
  | .ok a, .ok b => if h : a = b then isTrue (by rw [h]) else isFalse (by intro e; injection e; contradiction)
  | .error a, .error b => if h : a = b then isTrue (by rw [h]) else isFalse (by intro e; injection e; contradiction)
  | .ok _, .error _ => isFalse (by intro e; cases e)
  | .error _, .ok _ => isFalse (by intro e; cases e)

def InErr.name : InErr → String
  | .exit c => "exit(" ++ toString c ++ ")"
  | .indexError => "IndexError"
  | .typeError => "TypeError"

/-- the loop `for i, f in enumerate(files)`: a file already in the dictionary ends the run (`exit(-2)`), otherwise
    `dict[f] = labels[i] if labels else stem(f)` -/
def cmdLoop (labels : Option (List String)) : List String → Nat → List (String × String) →
    Except InErr (List (String × String))
  | [], _, d => .ok d
  | f :: fs, i, d =>
    if d.any (fun p => p.1 == f) then .error (.exit (-2))
    else
      match labels with
      | none => cmdLoop labels fs (i + 1) (d ++ [(f, fileStem f)])
      | some ls =>
        match ls[i]? with
        | none => .error .indexError
        | some l => cmdLoop labels fs (i + 1) (d ++ [(f, l)])

/-- Python truthiness of `args.labels`: `None` and `[]` are false -/
def truthyLabels : Option (List String) → Option (List String)
  | some (l :: ls) => some (l :: ls)
  | _ => none

/-- `readable_names_dict[prefix]` after `InputDataStorage.__init__` for `--bam files` / `--fastq files` -/
def readableNamesCmd (files : List String) (labels : Option (List String)) : Except InErr (List (String × String)) :=
  match truthyLabels labels with
  | some ls => if ls.length ≠ files.length then .error (.exit (-1)) else cmdLoop (some ls) files 0 []
  | none => cmdLoop none files 0 []

/-! ### one raw line of a `--bam_list` / `--fastq_list` file -/

/-- `str.split()` without argument: maximal runs of non-white-space characters -/
def splitWsGo : List Char → List Char → List (List Char)
  | [], cur => if cur = [] then [] else [cur.reverse]
  | c :: t, cur =>
    if isPySpace c then (if cur = [] then splitWsGo t [] else cur.reverse :: splitWsGo t [])
    else splitWsGo t (c :: cur)

def pySplitWs (s : List Char) : List (List Char) := splitWsGo s []

/-- one line `l` of the list file as the loop of `get_samples_from_file` reads it:
    `if len(l.strip()) == 0 or l.startswith("#")` → a header whose name is `l.strip()[1:]` (empty for a blank line);
    otherwise `vals = l.strip().split(':')`, `files = vals[0].split()`, label `vals[-1]` when there is a colon -/
def parseListLine (l : List Char) : ListLine :=
  let s := pyStrip l
  if s = [] ∨ l.head? = some '#' then .header (String.ofList s.tail)
  else
    match pySplit [':'] s with
    | .error _ => .header ""                  -- unreachable: the separator is not empty
    | .ok [] => .header ""                    -- unreachable: `split` returns at least one piece
    | .ok (v0 :: rest) =>
      let files := (pySplitWs v0).map (fun f => mkInFile (String.ofList f))
      .files files (rest.getLast?.map String.ofList)

/-! ### YAML labels: any scalar -/

/-- `str(sample['labels'][f])` (repaired `get_samples_from_yaml`, candidate patch fix_D2): whatever YAML scalar the user
    wrote (`labels: [1, 2]` gives integers) is stored by its printed value, so `FileNameGrouper.get_group_id` returns a
    string and `write_string` accepts it -/
def yamlLabelGroup : TagVal → Except InErr String
  | v => .ok v.render

/-- the pinned tree: the scalar is stored unchanged, `FileNameGrouper.get_group_id` returns it unchanged, and
    `write_string` accepts only `str` (`TypeError`, the run aborts) -/
def yamlLabelGroupOrig : TagVal → Except InErr String
  | .str s => .ok s
  | .int _ => .error .typeError

/-- the labels of an entry when all of them are strings -/
def yamlLabelsStr : List TagVal → Option (List String)
  | [] => some []
  | .str s :: t => (yamlLabelsStr t).map (s :: ·)
  | .int _ :: _ => none

/-! ### `FileNameGrouper.__init__` -/

/-- the loop over one library in the fall-back branch: `readable_name = stem(lib[0])`, `dict[f] = readable_name` for
    every file of the library -/
def initLib (d : List (String × String)) (lib : List String) : Except InErr (List (String × String)) :=
  match lib with
  | [] => .error .indexError
  | f0 :: _ => .ok (lib.foldl (fun acc f => dictSet acc f (fileStem f0)) d)

def initLibs : List (String × String) → List (List String) → Except InErr (List (String × String))
  | d, [] => .ok d
  | d, lib :: libs =>
    match initLib d lib with
    | .error e => .error e
    | .ok d' => initLibs d' libs

/-- `FileNameGrouper.__init__(args, sample)`: `sampleDict` = `sample.readable_names_dict`; `allLibs` = the libraries
    of all samples of `args.input_data` in order (only looked at when the sample's dictionary is empty) -/
def fileNameGrouperInit (sampleDict : List (String × String)) (allLibs : List (List String)) :
    Except InErr (List (String × String)) :=
  if sampleDict ≠ [] then .ok sampleDict else initLibs [] allLibs

/-- the group of a read of file `f` in file mode (`--read_group file_name`) -/
def fileModeGroup (sampleDict : List (String × String)) (allLibs : List (List String)) (a : Aln) :
    Except InErr (Except Err GRes) :=
  match fileNameGrouperInit sampleDict allLibs with
  | .error e => .error e
  | .ok d => .ok (getGroupId (.fileName d) a)

/-! ### `split_read_group_table` before the repair of seeded change C09_b2 (regression variant) -/

/-- the variant that de-duplicates reads with ONE set for all chromosomes: `seen` is shared, so the model walks
    the alignments once and keeps the lines of chromosome `chr` -/
def splitTableLinesGlobal (m : List (String × String)) (chr : String) :
    List (String × Option String) → List String → List (List Char)
  | [], _ => []
  | (rid, c) :: as, seen =>
    match c with
    | none => splitTableLinesGlobal m chr as seen
    | some c' =>
      match m.lookup rid with
      | some g =>
        if seen.contains rid then splitTableLinesGlobal m chr as seen
        else if c' = chr then (rid.toList ++ ['\t'] ++ g.toList) :: splitTableLinesGlobal m chr as (rid :: seen)
        else splitTableLinesGlobal m chr as (rid :: seen)
      | none => splitTableLinesGlobal m chr as seen

end IsoVerif.Model.C09
