/-
Executable model of `IlluminaExonCorrector` (/repo/src/illumina_exon_corrector.py): the short-read based
correction of the exon blocks of a long read (`--illumina_bam`, reads without an assigned isoform).
Core Lean only.

Generated from the source on every run (`Gen/Illumina.lean`, generator `gen_illumina`): the class constants
(`MAX_SCORE`, `ABSENT_INTRON`, `EXON_LENGTH`, `SIDE_DIFF`), the four static predicates (`skipped_score`,
`better_skipped`, `right_length`, `one_differs`), the site distance `x`, and the two acceptance tests of
`correct_exons` (the 4-bp rule with its "strictly inside the read" guard; the guard of the skipped-exon rule).
Hand-written here: the loops.

Input of the model that is universally quantified in the theorems: `short`, the short-read junctions *in the order
in which `for s in self.short_introns` enumerates them* (the container is a Python `set`; ties of the two
scores are broken by that order, so the order is part of the input).
`IndexError` of the real code (`exons[0][0]` on an empty block list) is `none`.
-/
import IsoVerif.Gen.Prims
import IsoVerif.Gen.Illumina
import IsoVerif.Model.Interval

namespace IsoVerif.Model.C14.Illumina
open IsoVerif.Gen IsoVerif.Model

/-! ### `get_introns`: from the per-file junction counts of pysam to `short_introns` / `counts` -/

/-- `merge_dictionaries(old, new)`: counts of a junction present in both are added, new junctions are appended
    (insertion order of the Python dict = order of the association list) -/
def mergeCounts (old : List (Iv × Int)) : List (Iv × Int) → List (Iv × Int)
  | [] => old
  | (k, v) :: rest =>
    match old.lookup k with
    | some w => mergeCounts (old.map (fun q => if q.1 = k then (q.1, v + w) else q)) rest
    | none => mergeCounts (old ++ [(k, v)]) rest

/-- the loop over the files of `get_introns` -/
def mergeFiles (files : List (List (Iv × Int))) : List (Iv × Int) :=
  files.foldl mergeCounts []

/-- "gtf files start with 1, bam with 0, we use gtf as standard": `(i[0]+1, i[1])` for every key
    (the Python result is a `set`; duplicates cannot arise because the keys of a dict are distinct) -/
def shortIntronsOf (counts : List (Iv × Int)) : List Iv :=
  counts.map (fun q => (q.1.1 + 1, q.1.2))

/-! ### `correct_exons` -/

/-- `overlapping` after the inner loop: the short-read junctions overlapping read intron `i`, in enumeration order -/
def overlappingOf (short : List Iv) (i : Iv) : List Iv :=
  short.filter (fun s => overlaps i s)

/-- `sh` after the inner loop (`if x < score: score = x; sh = s`, executed for overlapping junctions only):
    the first junction of minimal site distance, `ABSENT_INTRON` if none is closer than `MAX_SCORE` -/
def bestMatch (i : Iv) : List Iv → Int → Iv → Iv
  | [], _, sh => sh
  | s :: ss, score, sh =>
    if ill_site_distance i s < score then bestMatch i ss (ill_site_distance i s) s
    else bestMatch i ss score sh

/-- state of the skipped-exon search: `(left, right, score)` -/
abbrev PairState := Iv × Iv × Int

/-- body of the double loop for one pair `x = overlapping[k]`, `y = overlapping[l]` -/
def pairStep (i x y : Iv) (st : PairState) : PairState :=
  if x.2 < y.1 then
    if ill_right_length x y i && ill_one_differs x y i then
      if ill_better_skipped x y i st.2.2 then (x, y, ill_skipped_score x y i) else st
    else st
  else if x.1 > y.2 then
    if ill_right_length y x i && ill_one_differs y x i then
      if ill_better_skipped y x i st.2.2 then (y, x, ill_skipped_score y x i) else st
    else st
  else st

/-- `for l in range(k, len(overlapping))` -/
def pairInner (i x : Iv) : List Iv → PairState → PairState
  | [], st => st
  | y :: ys, st => pairInner i x ys (pairStep i x y st)

/-- `for k in range(0, len(overlapping) - 1)`: the last element is never `x`; `y` starts at `x` itself -/
def pairOuter (i : Iv) : List Iv → PairState → PairState
  | [], st => st
  | [_], st => st
  | x :: y :: rest, st => pairOuter i (y :: rest) (pairInner i x (x :: y :: rest) st)

/-- what one read intron contributes to `corrected_introns` -/
def correctIntron (short : List Iv) (readStart readEnd : Int) (i : Iv) : List Iv :=
  let ov := overlappingOf short i
  let sh := bestMatch i ov ill_MAX_SCORE ill_ABSENT_INTRON
  if ill_single_rule i sh readStart readEnd then [sh]
  else if ov.length > 1 then
    let st := pairOuter i ov (ill_ABSENT_INTRON, ill_ABSENT_INTRON, ill_MAX_SCORE)
    if ill_pair_guard st.1 st.2.1 readStart readEnd then [st.1, st.2.1] else [i]
  else [i]

/-- `corrected_introns` -/
def correctedIntronList (short : List Iv) (readStart readEnd : Int) (introns : List Iv) : List Iv :=
  introns.flatMap (correctIntron short readStart readEnd)

/-- `IlluminaExonCorrector.correct_exons(exons)`; `none` = IndexError on an empty block list -/
def correctExons (short exons : List Iv) : Option (List Iv) :=
  match exons.head?, exons.getLast? with
  | some f, some l =>
    some (getExons (f.1, l.2) (correctedIntronList short f.1 l.2 (junctionsFromBlocks exons)))
  | _, _ => none

/-! ### the code before fix a250903 (no "strictly inside the read" guards): kept for the regression witness -/

def singleRuleBuggy (i sh : Iv) : Bool :=
  (decide (i.1 = sh.1) && decide (i.2 = sh.2 - 4)) || (decide (i.2 = sh.2) && decide (sh.1 = i.1 - 4))

def correctIntronBuggy (short : List Iv) (i : Iv) : List Iv :=
  let ov := overlappingOf short i
  let sh := bestMatch i ov ill_MAX_SCORE ill_ABSENT_INTRON
  if singleRuleBuggy i sh then [sh]
  else if ov.length > 1 then
    let st := pairOuter i ov (ill_ABSENT_INTRON, ill_ABSENT_INTRON, ill_MAX_SCORE)
    if st.1 ≠ ill_ABSENT_INTRON then [st.1, st.2.1] else [i]
  else [i]

def correctExonsBuggy (short exons : List Iv) : Option (List Iv) :=
  match exons.head?, exons.getLast? with
  | some f, some l =>
    some (getExons (f.1, l.2) ((junctionsFromBlocks exons).flatMap (correctIntronBuggy short)))
  | _, _ => none

end IsoVerif.Model.C14.Illumina
