/-
C02 growth — grouped tables: the bridge between the C02 counter model (records = `Event`, extractors modelled:
`features`, `typeOf`, `confirms`) and the C09 counter model (`IsoVerif.Model.C09`: group bookkeeping, grouped dump;
there the extractor's answers are inputs of a `ReadInfo`).  Nothing of the counter is re-modelled here: `toCall` only
says which answers the C02 extractor model gives for a record, and which read group the record carries.

In the pipeline a record reaches the ungrouped counter and the grouped one through the same `CompositeCounter`
(`src/long_read_counter.py`), ungrouped first – so the grouped counter sees exactly the records the ungrouped run
accepted.  `add_unassigned` / `add_unaligned` touch no cell and are not calls of the C09 model.
Core Lean only.
-/
import IsoVerif.Model.Counter
import IsoVerif.Model.CounterSpec
import IsoVerif.Model.C09

namespace IsoVerif.Model.C02
open IsoVerif.Gen

/-- a call on the counters together with `read_assignment.read_group` / the `group_id` argument -/
abbrev Tagged := Event String × String

/-- the call as the C09 counter model sees it (`none`: `add_unassigned` / `add_unaligned`, which touch no cell) -/
def toCall (lvl : Level) (te : Tagged) : Option IsoVerif.Model.C09.Call :=
  match te.1 with
  | .read none =>
    some (.info { present := false, rawType := .noninformative, hasMatches := false, firstTranscriptNone := false,
                  features := [], atype := .noninformative, confirms := false, group := te.2 })
  | .read (some a) =>
    some (.info { present := true, rawType := a.atype, hasMatches := !a.isoMatches.isEmpty,
                  firstTranscriptNone := firstTranscriptNone a, features := features lvl a, atype := typeOf lvl a,
                  confirms := confirms lvl a == some true, group := te.2 })
  | .raw noId fs => some (.raw { hasId := !noId, features := fs, group := te.2 })
  | .confirm fs => some (.confirmFeatures fs)
  | .unassigned _ => none
  | .unaligned _ => none

def toCalls (lvl : Level) (tes : List Tagged) : List IsoVerif.Model.C09.Call := tes.filterMap (toCall lvl)

/-- the grouped counter of the pipeline fed with the tagged records: built by `create_gene_counter` /
    `create_transcript_counter` with `read_groups = π` (the set, in any iteration order) -/
def groupedRun (π : List String) (s : CountingStrategy) (lvl : Level) (complete : List String) (oz : Bool)
    (fmt : GroupedOutputFormat) (tes : List Tagged) : Except IsoVerif.Model.C09.Err IsoVerif.Model.C09.Counter :=
  IsoVerif.Model.C09.run (IsoVerif.Model.C09.initCounter false (some π) s complete oz fmt) (toCalls lvl tes)

/-- the documented content of the cell (feature `f`, group `g`): the documented contributions of the records that
    carry read group `g` -/
def groupSum (s : CountingStrategy) (lvl : Level) (tes : List Tagged) (g f : String) : Rat :=
  ratSum (tes.map (fun te => if te.2 = g then contribution s lvl te.1 f else 0))

end IsoVerif.Model.C02
