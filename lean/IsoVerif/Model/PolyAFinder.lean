/-
C16 — executable model of the tail detection and reference projection of /repo/src/polya_finder.py:
  `PolyAFinder.find_polya` (window scan), `move_ref_coord_alogn_alignment`, `find_polya_tail`,
  `find_polyt_head`, `detect_polya`.
Core Lean only.  `none` = the real code raises (AssertionError, TypeError of the "Unexpected event" branch).

The read sequence is a `List Char` (already upper-cased where the code calls `.upper()`); for the polyT head the
code reverse-complements the region and looks for 'A', i.e. it looks for 'T' in the reversed region — the model
does that directly (Biopython's complement maps T/t to A/a and nothing else to A/a).
-/
import IsoVerif.Gen.CigarClasses
import IsoVerif.Model.Cigar
import IsoVerif.Model.PolyA

namespace IsoVerif.Model.C16
open IsoVerif.Gen IsoVerif.Model

/-! ### `find_polya(seq)`: `seq` as the list of flags "base is 'A'" -/

def countTrue (l : List Bool) : Nat := l.countP (fun b => b)

/-- `str.find('AA')`: index of the first two adjacent `true`, `none` = -1 -/
def findAA : List Bool → Option Nat
  | a :: b :: rest => if a && b then some 0 else (findAA (b :: rest)).map (· + 1)
  | _ => none

/-- the `while i < len(seq) - window` loop.  `front = seq[i:]`, `back = seq[i+window:]` (the loop condition is
    `back ≠ []`), `aCount` the running count.  Returns the `i` at which the loop was left by `break`;
    `none` when it ran to `len(seq) - window` (the code then returns -1). -/
def findPolyaLoop (minCount : Nat) (aCount : Int) (i : Nat) : List Bool → List Bool → Option Nat
  | _, [] => none
  | [], _ :: _ => none            -- unreachable: `back` is a suffix of `front`
  | f :: front, b :: back =>
    if aCount ≥ minCount then some i
    else
      let aCount' := if f && !b then aCount - 1 else if !f && b then aCount + 1 else aCount
      findPolyaLoop minCount aCount' (i + 1) front back

/-- `PolyAFinder.find_polya`; result `none` = -1 -/
def findPolya (window minCount : Nat) (seq : List Bool) : Option Nat :=
  if seq.length < window then none
  else
    match findPolyaLoop minCount (countTrue (seq.take window)) 0 seq (seq.drop window) with
    | none => none
    | some i => some (i + ((findAA (seq.drop i)).getD 0))

/-! ### `move_ref_coord_alogn_alignment(alignment, shift)` -/

/-- the `while` loop over the operations in walking order (already reversed for a negative shift);
    `none` = the "Unexpected event" branch (`"..." + cigar_event` raises TypeError) -/
def moveRefLoop (shift : Int) (readConsumed refConsumed : Int) : List CigarOp → Option Int
  | [] => some refConsumed
  | op :: rest =>
    if ¬ (readConsumed < shift) then some refConsumed
    else if op.1 = CigarEvent.insertion then moveRefLoop shift (readConsumed + op.2) refConsumed rest
    else if op.1 = CigarEvent.deletion ∨ op.1 = CigarEvent.skipped then
      moveRefLoop shift readConsumed (refConsumed + op.2) rest
    else if op.1 = CigarEvent.«match» ∨ op.1 = CigarEvent.seq_match ∨ op.1 = CigarEvent.seq_mismatch then
      let remaining := shift - readConsumed
      if op.2 < remaining then moveRefLoop shift (readConsumed + op.2) (refConsumed + op.2) rest
      else moveRefLoop shift (readConsumed + remaining) (refConsumed + remaining) rest
    else if op.1 = CigarEvent.soft_clipping ∨ op.1 = CigarEvent.hard_clipping then some refConsumed
    else none

/-- number of leading clip operations skipped before walking: `H S …` → 2, `S …`/`H …` → 1, else 0 -/
def leadingClips : List CigarOp → Nat
  | a :: b :: _ =>
    if a.1 = CigarEvent.hard_clipping ∧ b.1 = CigarEvent.soft_clipping then 2
    else if a.1 = CigarEvent.soft_clipping ∨ a.1 = CigarEvent.hard_clipping then 1 else 0
  | [a] => if a.1 = CigarEvent.soft_clipping ∨ a.1 = CigarEvent.hard_clipping then 1 else 0
  | [] => 0

/-- `move_ref_coord_alogn_alignment`; `none` = AssertionError (empty CIGAR) / TypeError -/
def moveRefCoord (cigar : List CigarOp) (shift : Int) : Option Int :=
  if shift = 0 then some 0
  else if cigar = [] then none
  else
    let walk := if shift > 0 then cigar else cigar.reverse
    let absShift := if shift > 0 then shift else -shift
    (moveRefLoop (absShift + 1) 0 0 (walk.drop (leadingClips walk))).map (· - 1)

/-! ### `find_polya_tail` / `find_polyt_head` -/

def upperChar (c : Char) : Char := c.toUpper

/-- length of the soft clip at the 3' end as the code reads it (`… S H` or `… S`) -/
def softClipTail (cigar : List CigarOp) : Int :=
  match cigar.reverse with
  | a :: b :: _ =>
    if a.1 = CigarEvent.hard_clipping ∧ b.1 = CigarEvent.soft_clipping then b.2
    else if a.1 = CigarEvent.soft_clipping then a.2 else 0
  | [a] => if a.1 = CigarEvent.soft_clipping then a.2 else 0
  | [] => 0      -- (the code raises IndexError on an empty CIGAR; handled by the callers below)

def softClipHead (cigar : List CigarOp) : Int :=
  match cigar with
  | a :: b :: _ =>
    if a.1 = CigarEvent.hard_clipping ∧ b.1 = CigarEvent.soft_clipping then b.2
    else if a.1 = CigarEvent.soft_clipping then a.2 else 0
  | [a] => if a.1 = CigarEvent.soft_clipping then a.2 else 0
  | [] => 0

/-- Python slice `seq[a:b]` for `0 ≤ a`, any `b` -/
def slice {α} (l : List α) (a b : Int) : List α := (l.drop a.toNat).take (b.toNat - a.toNat)

/-- the part shared by `find_polya_tail` and `find_polyt_head` between the slicing of the sequence and the
    projection: `pos = self.find_polya(sequence_to_check)` followed by
    `if check_entire_tail and pos != -1: ... if entire_tail.count('A') < len(entire_tail) * min_polya_fraction: pos = -1`.
    `region` = the checked sequence as flags "base is 'A'"; `none` = -1 -/
def tailScan (window num den : Nat) (checkEntire : Bool) (region : List Bool) : Option Nat :=
  match findPolya window (window * num / den) region with
  | none => none
  | some p =>
    if checkEntire then
      let tail := region.drop p
      -- `entire_tail.count('A') < len(entire_tail) * min_polya_fraction`
      if countTrue tail * den < tail.length * num then none else some p
    else some p

/-- `find_polya_tail(alignment, from_pos, to_pos, check_entire_tail)`; inner `none` = -1 is rendered as `-1` -/
def findPolyaTail (window num den : Nat) (refStart : Int) (cigar : List CigarOp) (seq : List Char)
    (fromPos toPos : Int) (checkEntire : Bool) : Option Int :=
  if cigar = [] then none
  else if seq = [] then some (-1)
  else
    let clip := softClipTail cigar
    let n : Int := seq.length
    if ¬ (clip < n) then none          -- assert soft_clipped_tail_len < len(seq)
    else
      let mappedEnd := n - clip
      let start := max 0 (mappedEnd - fromPos)
      let stop := min n (mappedEnd + toPos + 1)
      let region := (slice seq start stop).map (fun c => upperChar c == 'A')
      match tailScan window num den checkEntire region with
      | none => some (-1)
      | some p =>
        let pos : Int := start + p
        let refEnd := referenceEnd refStart cigar
        if pos ≥ mappedEnd then some (refEnd + (pos - mappedEnd))
        else do
          let refShift ← moveRefCoord cigar (pos - mappedEnd)
          some (refEnd - refShift)

/-- `find_polyt_head(alignment, from_pos, to_pos, check_entire_head)` -/
def findPolytHead (window num den : Nat) (refStart : Int) (cigar : List CigarOp) (seq : List Char)
    (fromPos toPos : Int) (checkEntire : Bool) : Option Int :=
  if cigar = [] then none
  else if seq = [] then some (-1)
  else
    let clip := softClipHead cigar
    let n : Int := seq.length
    if ¬ (clip < n) then none
    else
      let mappedStart := clip
      let start := max 0 (mappedStart - toPos)
      let stop := min n (mappedStart + fromPos + 1)
      -- reverse complement, then look for 'A'  =  reverse, then look for 'T'
      let region := ((slice seq start stop).reverse).map (fun c => upperChar c == 'T')
      match tailScan window num den checkEntire region with
      | none => some (-1)
      | some p =>
        let pos : Int := stop - p - 1
        if pos ≤ mappedStart then some (max 1 (refStart - (mappedStart - pos)))
        else do
          let refShift ← moveRefCoord cigar (pos - mappedStart)
          some (max 1 (refStart + refShift))

/-- `PolyAFinder.detect_polya`: `(external_polya, external_polyt, internal_polya, internal_polyt)` -/
def detectPolya (window num den : Nat) (refStart : Int) (cigar : List CigarOp) (seq : List Char) : Option PolyAInfo := do
  let w : Int := window
  let ea ← findPolyaTail window num den refStart cigar seq 2 (2 * w) false
  let et ← findPolytHead window num den refStart cigar seq 2 (2 * w) false
  let ia ← findPolyaTail window num den refStart cigar seq (4 * w) 2 true
  let it ← findPolytHead window num den refStart cigar seq (4 * w) 2 true
  some ⟨ea, et, ia, it⟩

end IsoVerif.Model.C16
