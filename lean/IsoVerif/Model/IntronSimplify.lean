/-
C04 — executable model of `IntronGraph.simplify()` (/repo/src/intron_graph.py) as the code COMPUTES it:
`collapse_vertex_set`, `clean_tips_and_bulges` (outgoing, then incoming), `signleton_dead_end` / `signleton_dead_start`,
`remove_singleton_dead_ends` (outgoing, then incoming), `remove_isolates`, `simplify_correction_map`.
The result is the graph after `simplify()`, the sequence of abstract operations (`Op`) performed on the way
(so every theorem stated for operation histories applies to it) and a flag "some `count < count' * ratio`
comparison was exactly on the boundary" (there a float product may round either way).  Core Lean only.

`simplify()` is ONE pass over six phases; the loops whose termination is in question are the two dead-end walks
(`while clustered_introns[v] == 1`) and the `while subs in map` of `simplify_correction_map` (modelled in
Model/IntronGraph.lean).  The walk detects a revisited vertex (the real loop then never ends) and has fuel
`|edge pairs| + 1`, which never runs out (Props/C04Simplify.lean).

The edge dictionaries of `Graph` are pair lists, so keys with an empty set are not represented; the code iterates over
`sorted(self.outgoing_edges.keys())` and tests `i in self.outgoing_edges`, hence the model carries the two key sets
(`ok`, `ik`) next to the graph: after `construct()` they are the keys of the pairs, every defaultdict read inserts.
`graph_clustering_ratio` is in exact thousandths (as the presets are generated).
-/
import IsoVerif.Model.IntronGraph

namespace IsoVerif.Model.C04
open IsoVerif.Gen IsoVerif.Model

structure SimpParams where
  dist : Int        -- params.graph_clustering_distance
  ratioM : Int      -- params.graph_clustering_ratio, thousandths
  sac : Int         -- params.singleton_adjacent_cov
  isoAbs : Int      -- params.min_novel_isolated_intron_abs
  deriving Repr, DecidableEq

/-- a Python `set` given as a list: duplicates of the representation are dropped -/
def dedupIv : List Iv → List Iv
  | [] => []
  | a :: t => if a ∈ dedupIv t then dedupIv t else a :: dedupIv t

/-- graph + the key sets of `outgoing_edges` / `incoming_edges` + the operations performed so far -/
structure SG where
  g : Graph
  ok : List Iv
  ik : List Iv
  log : List Op
  fragile : Bool
  deriving Repr, DecidableEq

/-- the state `simplify()` starts from: after `construct()` no key has an empty set -/
def SG.init (g : Graph) : SG := ⟨g, dedupIv (amKeys g.out), dedupIv (amKeys g.inc), [], false⟩

/-- perform one abstract operation and record it -/
def SG.emit (s : SG) (op : Op) : Option SG :=
  match applyOp s.g op with
  | none => none
  | some g' => some { s with g := g', log := s.log ++ [op] }

def SG.emitAll (s : SG) : List Op → Option SG
  | [] => some s
  | op :: t =>
    match s.emit op with
    | none => none
    | some s' => s'.emitAll t

/-- the defaultdict insertions caused by reading `clustered_introns[v]` for `v` in `vs` -/
def touchOps (g : Graph) (vs : List Iv) : List Op :=
  ((dedupIv vs).filter (fun v => !amHas g.col.clustered v)).map Op.touch

def addKeys (ks : List Iv) (l : List Iv) : List Iv := l.foldl setAdd ks

/-! ## collapse_vertex_set -/

/-- `start_dist < graph_clustering_distance and end_dist < graph_clustering_distance` -/
def nearD (d : Int) (a b : Iv) : Bool := decide (iabs (a.1 - b.1) < d) && decide (iabs (a.2 - b.2) < d)

/-- the approved vertices `vertex` (with count `count`) may be merged into, as `(start_dist + end_dist, i)` -/
def cvsCands (P : SimpParams) (cl : List (Iv × Int)) (approved : List Iv) (count : Int) (v : Iv) : List (Int × Iv) :=
  (approved.filter (fun i => nearD P.dist i v && decide (count * 1000 < cnt cl i * P.ratioM))).map
    (fun i => (iabs (i.1 - v.1) + iabs (i.2 - v.2), i))

/-- `sorted(similar_vertices)[0]`: the minimum in tuple order -/
def minCi? : List (Int × Iv) → Option (Int × Iv)
  | [] => none
  | a :: t =>
    match minCi? t with
    | none => some a
    | some b => if ciLe a b then some a else some b

/-- the loop of `collapse_vertex_set` over `(count, vertex)` in decreasing order; state: approved set, substitute dict,
    "a ratio comparison of a close pair was exactly on the boundary" -/
def cvsLoop (P : SimpParams) (cl : List (Iv × Int)) :
    List (Int × Iv) → List Iv → List (Iv × Iv) → Bool → List (Iv × Iv) × Bool
  | [], _, sub, fr => (sub, fr)
  | (count, v) :: t, approved, sub, fr =>
    let fr' := fr || approved.any (fun i => nearD P.dist i v && decide (count * 1000 = cnt cl i * P.ratioM))
    match minCi? (cvsCands P cl approved count v) with
    | none => cvsLoop P cl t (approved ++ [v]) sub fr'
    | some m => cvsLoop P cl t approved (amSet sub v m.2) fr'

/-- `IntronGraph.collapse_vertex_set(vertex_set)` given `clustered_introns` (all of `vs` already read) -/
def collapseVertexSet (P : SimpParams) (cl : List (Iv × Int)) (vs : List Iv) : List (Iv × Iv) × Bool :=
  if (dedupIv vs).length ≤ 1 then ([], false)
  else cvsLoop P cl (sortedByCount ((dedupIv vs).map (fun i => (i, cnt cl i)))) [] [] false

/-- `sorted(substitute_dict.keys())` with the values -/
def sortSubst (sub : List (Iv × Iv)) : List (Iv × Iv) := insSort (fun a b => ivLe a.1 b.1) sub

/-! ## the graph operations with their key insertions -/

/-- `collapse_vertex(c, t)` -/
def SG.collapse (s : SG) (c t : Iv) : Option SG :=
  let outC := outOf s.g c
  let incC := match replaceMembers s.g.inc c t outC with
    | some inc1 => (inc1.filter (fun p => p.1 = c)).map (·.2)
    | none => []
  match s.emit (.collapse c t) with
  | none => none
  | some s' => some { s' with ok := addKeys (addKeys s'.ok [t, c]) incC, ik := addKeys (addKeys s'.ik outC) [t, c] }

/-- `del self.outgoing_edges[v]; del self.incoming_edges[v]` -/
def SG.delVertex (s : SG) (v : Iv) : Option SG :=
  match s.emitAll [.delOut v, .delInc v] with
  | none => none
  | some s' => some { s' with ok := s'.ok.filter (· ≠ v), ik := s'.ik.filter (· ≠ v) }

/-- `for i in to_remove: del ...` -/
def SG.delVertices (s : SG) : List Iv → Option SG
  | [] => some s
  | v :: t =>
    match s.delVertex v with
    | none => none
    | some s' => s'.delVertices t

/-! ## clean_tips_and_bulges -/

/-- `for i in sorted(substitute_dict.keys()): if i in to_remove: continue; to_remove.add(i); collapse_vertex(i, ...)` -/
def collapseAll : List (Iv × Iv) → SG × List Iv → Option (SG × List Iv)
  | [], st => some st
  | (i, x) :: t, (s, rem) =>
    if i ∈ rem then collapseAll t (s, rem)
    else
      match s.collapse i x with
      | none => none
      | some s' => collapseAll t (s', rem ++ [i])

/-- `collapse_vertex_set(vs)` and the collapses it asks for -/
def collapseSet (P : SimpParams) (vs : List Iv) (st : SG × List Iv) : Option (SG × List Iv) :=
  if (dedupIv vs).length ≤ 1 then some st
  else
    match st.1.emitAll (touchOps st.1.g vs) with
    | none => none
    | some s1 =>
      let r := collapseVertexSet P s1.g.col.clustered vs
      collapseAll (sortSubst r.1) ({ s1 with fragile := s1.fragile || r.2 }, st.2)

/-- one iteration of `for current_intron in sorted(self.outgoing_edges.keys())` (resp. incoming) -/
def tipsStep (P : SimpParams) (outgoing : Bool) (st : SG × List Iv) (cur : Iv) : Option (SG × List Iv) :=
  collapseSet P (if outgoing then outOf st.1.g cur else incOf st.1.g cur) st

def tipsLoop (P : SimpParams) (outgoing : Bool) : List Iv → SG × List Iv → Option (SG × List Iv)
  | [], st => some st
  | cur :: t, st =>
    match tipsStep P outgoing st cur with
    | none => none
    | some st' => tipsLoop P outgoing t st'

/-- one half of `clean_tips_and_bulges` -/
def tipsPhase (P : SimpParams) (outgoing : Bool) (s : SG) : Option SG :=
  match tipsLoop P outgoing (sortIv (if outgoing then s.ok else s.ik)) (s, []) with
  | none => none
  | some (s', rem) => s'.delVertices rem

/-! ## remove_singleton_dead_ends -/

inductive WalkRes where
  | fuel                                   -- never happens with `walkFuel` (theorem)
  | cycle                                  -- the real `while` never ends
  | done (visited path : List Iv)          -- vertices read on the way, the returned set
  deriving Repr, DecidableEq

/-- `signleton_dead_end(v)` (outgoing) / `signleton_dead_start(v)`; `path` = the count-1 vertices walked so far -/
def deadWalk (g : Graph) (outgoing : Bool) : Nat → List Iv → Iv → WalkRes
  | 0, _, _ => .fuel
  | fuel + 1, path, v =>
    if cnt g.col.clustered v = 1 then
      if v ∈ path then .cycle
      else
        match (if outgoing then outOf g v else incOf g v) with
        | [] => .done (path ++ [v]) (path ++ [v])
        | [w] => deadWalk g outgoing fuel (path ++ [v]) w
        | _ :: _ :: _ => .done (path ++ [v]) []
    else .done (path ++ [v]) (if (if outgoing then outOf g v else incOf g v).isEmpty then path else [])

def walkFuel (g : Graph) (outgoing : Bool) : Nat := (if outgoing then g.out.length else g.inc.length) + 1

/-- `[self.signleton_dead_end(i) for i in self.outgoing_edges[current_intron]]`: all vertices read, the paths -/
def walkAll (g : Graph) (outgoing : Bool) : List Iv → Option (List Iv × List (List Iv))
  | [] => some ([], [])
  | i :: t =>
    match deadWalk g outgoing (walkFuel g outgoing) [] i, walkAll g outgoing t with
    | .done vis p, some (vs, ps) => some (vis ++ vs, p :: ps)
    | _, _ => none

/-- one iteration of the collecting loop; `to_clean` is the second component -/
def deadStep (P : SimpParams) (outgoing : Bool) (st : SG × List (Iv × List Iv)) (cur : Iv) :
    Option (SG × List (Iv × List Iv)) :=
  match st.1.emitAll (touchOps st.1.g [cur]) with
  | none => none
  | some s1 =>
    if cnt s1.g.col.clustered cur < P.sac then some (s1, st.2)
    else
      match walkAll s1.g outgoing (if outgoing then outOf s1.g cur else incOf s1.g cur) with
      | none => none
      | some (vis, paths) =>
        match s1.emitAll (touchOps s1.g vis) with
        | none => none
        | some s2 =>
          let s3 : SG := if outgoing then { s2 with ok := addKeys s2.ok vis } else { s2 with ik := addKeys s2.ik vis }
          if paths.any (·.isEmpty) then some (s3, st.2)
          else some (s3, st.2 ++ [(cur, dedupIv paths.flatten)])

def deadLoop (P : SimpParams) (outgoing : Bool) :
    List Iv → SG × List (Iv × List Iv) → Option (SG × List (Iv × List Iv))
  | [], st => some st
  | cur :: t, st =>
    match deadStep P outgoing st cur with
    | none => none
    | some st' => deadLoop P outgoing t st'

/-- `if i in self.outgoing_edges: del ...; if i in self.incoming_edges: del ...` -/
def SG.delIfKey (s : SG) (i : Iv) : Option SG :=
  match (if i ∈ s.ok then s.emit (.delOut i) else some s) with
  | none => none
  | some s1 =>
    match (if i ∈ s1.ik then s1.emit (.delInc i) else some s1) with
    | none => none
    | some s2 => some { s2 with ok := s2.ok.filter (· ≠ i), ik := s2.ik.filter (· ≠ i) }

def SG.delIfKeys (s : SG) : List Iv → Option SG
  | [] => some s
  | i :: t =>
    match s.delIfKey i with
    | none => none
    | some s' => s'.delIfKeys t

/-- `self.outgoing_edges[intron] = set()` (resp. incoming) and the deletion of the path vertices -/
def deadClean (outgoing : Bool) (s : SG) (e : Iv × List Iv) : Option SG :=
  let op := if outgoing then Op.delOut e.1 else Op.delInc e.1
  match (if e.1 ∈ (if outgoing then s.ok else s.ik) then s.emit op else some s) with
  | none => none
  | some s1 =>
    let s2 : SG := if outgoing then { s1 with ok := setAdd s1.ok e.1 } else { s1 with ik := setAdd s1.ik e.1 }
    s2.delIfKeys e.2

def deadCleanAll (outgoing : Bool) : List (Iv × List Iv) → SG → Option SG
  | [], s => some s
  | e :: t, s =>
    match deadClean outgoing s e with
    | none => none
    | some s' => deadCleanAll outgoing t s'

/-- one half of `remove_singleton_dead_ends` -/
def deadPhase (P : SimpParams) (outgoing : Bool) (s : SG) : Option SG :=
  match deadLoop P outgoing (sortIv (if outgoing then s.ok else s.ik)) (s, []) with
  | none => none
  | some (s', toClean) => deadCleanAll outgoing toClean s'

/-! ## remove_isolates -/

def isIsolated (g : Graph) (v : Iv) : Bool := (outOf g v).isEmpty && (incOf g v).isEmpty

/-- the second loop: isolated, still a key of `clustered_introns`, not annotated, below the cut-off -/
def lowIsolated (P : SimpParams) (g : Graph) (isolated : List Iv) : List Iv :=
  isolated.filter (fun v => amHas g.col.clustered v && !decide (v ∈ g.col.known) && decide (cnt g.col.clustered v < P.isoAbs))

/-- `is_isolated(v)` for every key of `clustered_introns`: it reads `outgoing_edges[v]`, and `incoming_edges[v]` when the
    former is empty (defaultdict insertions) -/
def SG.readIsolated (s : SG) (keys : List Iv) : SG :=
  { s with ok := addKeys s.ok keys, ik := addKeys s.ik (keys.filter (fun v => (outOf s.g v).isEmpty)) }

def isolatesPhase (P : SimpParams) (s : SG) : Option SG :=
  let keys := dedupIv (amKeys s.g.col.clustered)
  let isolated := keys.filter (isIsolated s.g)
  let s0 : SG := s.readIsolated keys
  match collapseSet P isolated (s0, []) with
  | none => none
  | some (s1, rem) =>
    match s1.delVertices rem with
    | none => none
    | some s2 =>
      let low := lowIsolated P s2.g isolated
      match s2.emitAll (low.map Op.discard) with
      | none => none
      | some s3 => s3.delVertices low

/-! ## simplify -/

def simplifySG (P : SimpParams) (s : SG) : Option SG :=
  match tipsPhase P true s with
  | none => none
  | some s1 =>
    match tipsPhase P false s1 with
    | none => none
    | some s2 =>
      match deadPhase P true s2 with
      | none => none
      | some s3 =>
        match deadPhase P false s3 with
        | none => none
        | some s4 =>
          match isolatesPhase P s4 with
          | none => none
          | some s5 => s5.emit .simplifyMap

/-- `IntronGraph.simplify()`: the operations it performs and the boundary flag; `none` = the code raises (`KeyError` in
    `collapse_vertex`) or never ends (a dead-end walk in a cycle, a cyclic correction map) -/
def simplifyOps (P : SimpParams) (g : Graph) : Option (List Op × Bool) :=
  (simplifySG P (SG.init g)).map (fun s => (s.log, s.fragile))

/-- `IntronGraph.simplify()`: the resulting graph -/
def Graph.simplify (P : SimpParams) (g : Graph) : Option Graph :=
  (simplifySG P (SG.init g)).map (·.g)

end IsoVerif.Model.C04
