/-
C11 — transformations of the records of Model/Resolver.lean (C08) and of the collector / graph state of
Model/IntronGraph.lean (C04) under the coordinate translation `x ↦ x + k` (definitions only; core Lean).

Resolver: a `BasicReadAssignment` carries `start`, `end`, `genomic_region` (shifted); ids, chromosome, types, flags,
penalty, isoforms, genes are kept.  A full `ReadAssignment` (`Full`) carries its corrected introns (shifted).

Intron graph: the vertices are pairs.  An *intron* vertex `(start, end)` has `0 ≤ start` (`isIntronVertex`) and is
shifted in both components; a *terminal* vertex is `(negative code, position)` (`VERTEX_polya = -10`, ...) and only
its position is shifted: `shiftV`.  The state (`Collector`, `Graph`), the operations (`Op`) and the reads are mapped
component-wise by a vertex map `f` (`mapCollector`, `mapGraph`, `mapOp`, `mapRead`, `mapStore`); the theorems are
proved for every injective order-preserving `f` and instantiated with `shiftIv k` (collector, construction: introns
only) and `shiftV k` (operations with terminal vertices, path threading).
-/
import IsoVerif.Model.C11Symmetry
import IsoVerif.Model.Resolver
import IsoVerif.Model.IntronGraph

namespace IsoVerif.Model.C11
open IsoVerif.Gen IsoVerif.Model

/-! ## Model/Resolver.lean -/

/-- a compact record of the alignment shifted by `k` -/
def shiftRec (k : Int) (r : Resolver.Rec) : Resolver.Rec :=
  { r with start := r.start + k, stop := r.stop + k, region := shiftIv k r.region }

/-- a record with its index in the read's list -/
def shiftIRec (k : Int) (x : Resolver.IRec) : Resolver.IRec := (shiftRec k x.1, x.2)

def shiftRecs (k : Int) (l : List Resolver.Rec) : List Resolver.Rec := l.map (shiftRec k)

/-- a full read assignment (the loader's view): corrected introns shifted -/
def shiftFull (k : Int) (f : Resolver.Full) : Resolver.Full := { f with introns := shiftL k f.introns }

/-- the verdict dictionary of one chromosome -/
def shiftDict (k : Int) (d : List (Nat × List Resolver.Rec)) : List (Nat × List Resolver.Rec) :=
  d.map (fun kv => (kv.1, shiftRecs k kv.2))

/-! ## Model/IntronGraph.lean -/

/-- shift of a graph vertex: intron vertices move as intervals, terminal vertices `(code, position)` keep the code -/
def shiftV (k : Int) (v : Iv) : Iv := if 0 ≤ v.1 then shiftIv k v else (v.1, v.2 + k)

/-- the shifted vertex is of the same kind: an intron vertex is not pushed below 0 (where the code would take it
    for a terminal vertex).  Always true for `0 ≤ k`; in the pipeline intron coordinates are ≥ 1 before and after. -/
def GoodV (k : Int) (v : Iv) : Prop := 0 ≤ v.1 → 0 ≤ v.1 + k

instance (k : Int) (v : Iv) : Decidable (GoodV k v) := by unfold GoodV; exact inferInstance

def mapPair (f : Iv → Iv) (p : Iv × Iv) : Iv × Iv := (f p.1, f p.2)
def mapKey {β : Type} (f : Iv → Iv) (p : Iv × β) : Iv × β := (f p.1, p.2)

def mapCollector (f : Iv → Iv) (c : C04.Collector) : C04.Collector :=
  { known := c.known.map f, clustered := c.clustered.map (mapKey f), corr := c.corr.map (mapPair f),
    discarded := c.discarded.map f }

def mapGraph (f : Iv → Iv) (g : C04.Graph) : C04.Graph :=
  { col := mapCollector f g.col, out := g.out.map (mapPair f), inc := g.inc.map (mapPair f) }

def mapOp (f : Iv → Iv) : C04.Op → C04.Op
  | .addEdge v1 v2 => .addEdge (f v1) (f v2)
  | .collapse c s => .collapse (f c) (f s)
  | .delVertex v => .delVertex (f v)
  | .delOut v => .delOut (f v)
  | .delInc v => .delInc (f v)
  | .discard v => .discard (f v)
  | .touch v => .touch (f v)
  | .simplifyMap => .simplifyMap
  | .attachOut v t => .attachOut (f v) (f t)
  | .attachInc v t => .attachInc (f v) (f t)

/-- a read: corrected introns mapped by the vertex map `f`, corrected exons shifted by `k` -/
def mapRead (f : Iv → Iv) (k : Int) (r : C04.Read) : C04.Read :=
  { r with introns := r.introns.map f, exons := shiftL k r.exons }

def shiftRead (k : Int) (r : C04.Read) : C04.Read := mapRead (shiftIv k) k r
def shiftReads (k : Int) (l : List C04.Read) : List C04.Read := l.map (shiftRead k)

def mapStore (f : Iv → Iv) (k : Int) (ps : C04.PathStore) : C04.PathStore :=
  { paths := ps.paths.map (fun p => (p.1.map f, p.2)),
    fl := ps.fl.map (List.map f),
    toReads := ps.toReads.map (fun p => (p.1.map f, p.2.map (mapRead f k))) }

/-- every vertex an operation mentions -/
def opVerts : C04.Op → List Iv
  | .addEdge v1 v2 => [v1, v2]
  | .collapse c s => [c, s]
  | .delVertex v => [v]
  | .delOut v => [v]
  | .delInc v => [v]
  | .discard v => [v]
  | .touch v => [v]
  | .simplifyMap => []
  | .attachOut v t => [v, t]
  | .attachInc v t => [v, t]

/-- every vertex the collector / graph state mentions (incl. the annotation's introns and terminal vertices) -/
def collectorAllVerts (c : C04.Collector) : List Iv :=
  c.known ++ C04.amKeys c.clustered ++ C04.amKeys c.corr ++ C04.amVals c.corr ++ c.discarded

def graphAllVerts (g : C04.Graph) : List Iv :=
  collectorAllVerts g.col ++ C04.amKeys g.out ++ C04.amVals g.out ++ C04.amKeys g.inc ++ C04.amVals g.inc

/-- every vertex of the state / of the operation keeps its kind under the shift -/
def GoodG (k : Int) (g : C04.Graph) : Prop := ∀ v ∈ graphAllVerts g, GoodV k v
def GoodOp (k : Int) (op : C04.Op) : Prop := ∀ v ∈ opVerts op, GoodV k v

instance (k : Int) (g : C04.Graph) : Decidable (GoodG k g) := by unfold GoodG; exact inferInstance
instance (k : Int) (op : C04.Op) : Decidable (GoodOp k op) := by unfold GoodOp; exact inferInstance

/-- `thread_ends` / `thread_starts` of the transformed graph (`p'`) choose, for the transformed intron and the
    transformed read end, the transformed vertex (`f` on vertices, `+ k` on the read end) -/
def ParamsRel (f : Iv → Iv) (k : Int) (p p' : C04.ThreadParams) : Prop :=
  (∀ i e t, p'.ends (f i) (e + k) t = (p.ends i e t).map f) ∧
  (∀ i s t, p'.starts (f i) (s + k) t = (p.starts i s t).map f) ∧
  p'.requiresPolya = p.requiresPolya

/-- the vertices `thread_ends` / `thread_starts` return keep their kind (they are terminal vertices in the code) -/
def GoodParams (k : Int) (p : C04.ThreadParams) : Prop :=
  (∀ i e t v, p.ends i e t = some v → GoodV k v) ∧ (∀ i s t v, p.starts i s t = some v → GoodV k v)

/-! ## reflection -/

/-- the mirror image of the `add_edge` call for the intron pair `(a, b)` of a read is the call for `(mirror b, mirror a)`
    of the mirrored read -/
def mirrorOp (L : Int) : C04.Op → C04.Op
  | .addEdge v1 v2 => .addEdge (mirrorIv L v2) (mirrorIv L v1)
  | op => mapOp (mirrorIv L) op

/-- mirrored graph state: vertices mirrored, outgoing and incoming edge sets swapped -/
def mirrorGraph (L : Int) (g : C04.Graph) : C04.Graph :=
  { col := mapCollector (mirrorIv L) g.col, out := g.inc.map (mapPair (mirrorIv L)),
    inc := g.out.map (mapPair (mirrorIv L)) }

def flipStrandStr (s : String) : String := if s = "+" then "-" else if s = "-" then "+" else s

/-- a read on the reverse-complemented chromosome: blocks mirrored and reversed, strand flipped, polyA ↔ polyT -/
def mirrorRead (L : Int) (r : C04.Read) : C04.Read :=
  { r with introns := mirrorL L r.introns, exons := mirrorL L r.exons, strand := flipStrandStr r.strand,
           polya := r.polyt, polyt := r.polya }

end IsoVerif.Model.C11
