/-
File-name arithmetic of the per-chromosome fan-out (C05 / C06 / C10: the glue between what a chromosome task WRITES and
what the merge READS):

  src/common.py               rreplace(s, old, new) = new.join(s.rsplit(old, 1))
  src/file_utils.py           merge_file_list(fname, label, chr_ids)      (names of the per-chromosome part files of `fname`)
  src/input_data_storage.py   SampleData._init_paths: every output file is os.path.join(out_dir, prefix + suffix); the task of
                              chromosome c works on SampleData(prefix = f"{prefix}_{c}") with the same out_dir
  src/dataset_processor.py    the auxiliary files of chromosome c: <out_raw>_<c> + {"", "_groups", "_bamstat", "_collected",
                              "_processed", "_read_stat", "_transcript_stat"} and <out_raw>_multimappers_<c>; per experiment
                              <out_raw>_info, <out_raw>_lock

`partNameOrig` is the tree before the repair `fix_prefix_in_suffix` (the LAST occurrence of the label in the whole path is
replaced: it may lie inside the suffix), `partNameFix` the repaired one (the label the base name STARTS with).
Strings are `List Char` (what the theorems need); the driver converts.  posixpath only.  Core Lean only.
-/
namespace IsoVerif.Model.PartNames

abbrev Str := List Char

/-- replace the LAST occurrence (largest start index = what `str.rsplit(old, 1)` cuts at) of a non-empty `old`;
    `none` = `old` does not occur -/
def rreplace? (old new : Str) : Str → Option Str
  | [] => none
  | c :: cs =>
    match rreplace? old new cs with
    | some r => some (c :: r)                 -- an occurrence further right wins
    | none => if old.isPrefixOf (c :: cs) then some (new ++ (c :: cs).drop old.length) else none

/-- `rreplace(s, old, new)` of src/common.py.  `none` = `ValueError: empty separator`; when `old` does not occur `rsplit`
    returns `[s]` and the join is `s` itself -/
def rreplace (s old new : Str) : Option Str :=
  if old = [] then none
  else
    match rreplace? old new s with
    | some r => some r
    | none => some s

/-- cut behind the last `/`: (everything up to and including it, the rest); no `/`: `([], s)` -/
def splitLast : Str → Str × Str
  | [] => ([], [])
  | c :: cs =>
    let r := splitLast cs
    if r.1 = [] then (if c = '/' then (['/'], cs) else ([], c :: cs))
    else (c :: r.1, r.2)

/-- `head.rstrip('/')`; `[]` exactly when `head` consists of slashes only -/
def rstripSlash : Str → Str
  | [] => []
  | c :: cs =>
    let r := rstripSlash cs
    if r = [] ∧ c = '/' then [] else c :: r

/-- `posixpath.split`: trailing slashes of the head are stripped unless the head is all slashes (or empty) -/
def pathSplit (p : Str) : Str × Str :=
  let r := splitLast p
  let h := rstripSlash r.1
  if h = [] then r else (h, r.2)

/-- `posixpath.join(a, b)` -/
def pathJoin (a b : Str) : Str :=
  if b.head? = some '/' then b
  else if a = [] ∨ a.getLast? = some '/' then a ++ b
  else a ++ '/' :: b

/-- the new label of a part file: `f"{label}_{chr_id}"` -/
def partLabel (label chr : Str) : Str := label ++ '_' :: chr

/-- `merge_file_list`, one element, tree BEFORE the repair: `rreplace(fname, label, f"{label}_{chr_id}")` -/
def partNameOrig (fname label chr : Str) : Option Str := rreplace fname label (partLabel label chr)

/-- `merge_file_list`, one element, repaired tree: the label at the START of the base name is extended; any other file
    name falls back to `rreplace` -/
def partNameFix (fname label chr : Str) : Option Str :=
  let sp := pathSplit fname
  if label.isPrefixOf sp.2 then some (pathJoin sp.1 (partLabel label chr ++ sp.2.drop label.length))
  else rreplace fname label (partLabel label chr)

def mergeFileListOrig (fname label : Str) (chrs : List Str) : Option (List Str) := chrs.mapM (partNameOrig fname label)
def mergeFileList (fname label : Str) (chrs : List Str) : Option (List Str) := chrs.mapM (partNameFix fname label)

/-- the file a chromosome task really writes: `os.path.join(out_dir, f"{prefix}_{chr_id}" + suffix)` for an `out_dir` that
    is not empty and does not end with `/` (`os.path.join(args.output, prefix)`) -/
def writtenName (dir label suf chr : Str) : Str := dir ++ '/' :: (partLabel label chr ++ suf)

/-- the merged (final) file: `os.path.join(out_dir, prefix + suffix)` -/
def finalName (dir label suf : Str) : Str := dir ++ '/' :: (label ++ suf)

/-! ## auxiliary (temporary) files of one experiment, named after the reference sequences -/

/-- the tails `dataset_processor.py` appends to `<out_raw>_<chr_id>` -/
def chrTails : List Str :=
  ["".toList, "_groups".toList, "_bamstat".toList, "_collected".toList, "_processed".toList, "_read_stat".toList,
   "_transcript_stat".toList]

/-- every auxiliary file of chromosome `c`, as the text that follows `<out_raw>_` (the sequence name is used verbatim) -/
def auxNamesOrig (c : Str) : List Str := chrTails.map (fun t => c ++ t) ++ ["multimappers_".toList ++ c]

/-- the per-experiment files, same convention -/
def expNames : List Str := ["info".toList, "lock".toList]

/-- all auxiliary file names of a run over the reference sequences `chrs` (text after `<out_raw>_`) -/
def allAuxNames (chrs : List Str) : List Str := expNames ++ chrs.flatMap auxNamesOrig

/-- repaired tree (`fix_aux_file_name_collision`, `fix_contig_name_slash`): `check_chromosome_file_names` - the run is
    refused at start-up when a sequence name holds a path separator or two auxiliary files would share a name -/
def auxCheck (chrs : List Str) : Bool :=
  chrs.all (fun c => !c.contains '/') && decide (allAuxNames chrs).Nodup

end IsoVerif.Model.PartNames
