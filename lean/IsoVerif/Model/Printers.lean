/-
Executable model of the read-level output printers (`read_assignments.tsv`, `corrected_reads.bed`).  Core Lean only.

  src/assignment_io.py
    PrintAllFunctor / PrintOnlyFunctor              `Checker`, `Checker.check`
    BasicTSVAssignmentPrinter.unmatched_line        `unmatchedLine`
    BasicTSVAssignmentPrinter.add_read_info         `matchLine` (one isoform match), `matchLines` (the `for m in
                                                    read_assignment.isoform_matches` loop), `tsvOf` (guards + loop)
    BEDPrinter.add_read_info                        `bedOf` (the glue: checker, which exon list, chromosome, name, strand;
                                                    the BED12 record itself is C14's `Model/Bed.lean` `bedRecord`)
    ReadAssignmentCompositePrinter.add_read_info    `printRecord` (BED printer first, then the TSV printer)
    IOSupport.check_sites_are_canonical             C18's `Model/Canonical.lean` (`readCanonicalField`, with the memo
                                                    `gene_info.canonical_sites` threaded through the calls)
  src/isoform_assignment.py
    match_subtype_to_str                            `subtypeToStr` over the GENERATED table `printable_names` / `printable_pick`
    match_subtype_to_str_with_additional_info       `eventSuffix`, `eventStr` over the GENERATED sets
    regions_to_str, common.range_list_to_str        `rangeListToStr`

A record is the model's `Serial.ReadAssignment`: exactly the attributes a LOADED `ReadAssignment` has
(`ReadAssignment.deserialize`), after `ReadAssignmentLoader.get_next` has re-applied the resolver's verdict.
`gene_info` is reduced to what the printers read of it (`GeneView`): `chr_id`, `all_isoforms_introns`,
`reference_region` + `all_read_region_start` (C18's `GeneRef`).
Exceptions of the real code are `none`: KeyError of `all_isoforms_introns[m.assigned_transcript]`, TypeError of
`... + m.assigned_gene` when the gene id is None, IndexError of `exon_blocks[0]` on an empty block list.
Not modelled: gzipped output, `SqantiTSVPrinter`, the warnings for `assignment_type is None` / `exons is None`
(a loaded record always has both).
-/
import IsoVerif.Gen.PrinterTables
import IsoVerif.Gen.EventClasses
import IsoVerif.Model.Serial
import IsoVerif.Model.Bed
import IsoVerif.Model.Canonical

namespace IsoVerif.Model.Printers
open IsoVerif.Gen IsoVerif.Model IsoVerif.Model.Serial

/-! ### assignment checkers -/

/-- `PrintAllFunctor()` / `PrintOnlyFunctor(allowed_types)` -/
inductive Checker where
  | all
  | only (allowed : List ReadAssignmentType)
  deriving Repr

def Checker.check : Checker → ReadAssignment → Bool
  | .all, _ => true
  | .only allowed, r => allowed.contains r.assignmentType

/-! ### strings -/

/-- Python `str(int)` -/
def intStr (v : Int) : String := toString v

/-- `range_list_to_str(l)` = `regions_to_str(l)`: `",".join(str(x[0]) + "-" + str(x[1]))` -/
def rangeListToStr (l : List Iv) : String :=
  ",".intercalate (l.map (fun x => intStr x.1 ++ "-" ++ intStr x.2))

/-- `SupplementaryMatchConstants.undefined_region` (generated) -/
def undefinedRegion : Int × Int := ((smc_undefined_region.1 : Int), (smc_undefined_region.2 : Int))

/-- `match_subtype_to_str(event, strand)` -/
def subtypeToStr (t : MatchEventSubtype) (strand : String) : String :=
  match printable_names.lookup t with
  | some n => printable_pick strand n
  | none => t.name

/-- the `additional_info` suffix of `match_subtype_to_str_with_additional_info`; the slices are Python slices
    (`pySlice`: negative bounds wrap, everything is clamped) -/
def eventSuffix (e : MatchEvent) (readIntrons isoformIntrons : List Iv) : String :=
  if printer_isoform_intron_events.contains e.eventType then
    if e.isoformRegion != undefinedRegion then
      ":" ++ rangeListToStr (pySlice isoformIntrons e.isoformRegion.1 (e.isoformRegion.2 + 1))
    else ""
  else if printer_event_info_events.contains e.eventType then ":" ++ intStr e.eventInfo
  else if e.readRegion != undefinedRegion && decide (0 ≤ e.readRegion.1) && decide (0 ≤ e.readRegion.2) then
    ":" ++ rangeListToStr (pySlice readIntrons e.readRegion.1 (e.readRegion.2 + 1))
  else ""

/-- `match_subtype_to_str_with_additional_info(event, strand, read_introns, isoform_introns)` -/
def eventStr (e : MatchEvent) (strand : String) (readIntrons isoformIntrons : List Iv) : String :=
  subtypeToStr e.eventType strand ++ eventSuffix e readIntrons isoformIntrons

/-- `"%s" % val` for the value types a loaded dict holds (int, str, tuple of two ints) -/
def dictValStr : DictVal → String
  | .int v => intStr v
  | .str s => s
  | .pair a b => "(" ++ intStr a ++ ", " ++ intStr b ++ ")"

/-- `for attr in additional_attributes.keys(): additional_info.append("%s=%s;" % (attr, val))` -/
def attrTokens (d : Dict) : List String := d.map (fun kv => kv.1 ++ "=" ++ dictValStr kv.2 ++ ";")

/-- `" ".join(additional_info)` if the list is not empty, `"*"` otherwise -/
def infoColumn (tokens : List String) : String := if tokens.isEmpty then "*" else " ".intercalate tokens

/-! ### one line of read_assignments.tsv -/

/-- the nine tab-separated columns (`#read_id chr strand isoform_id gene_id assignment_type assignment_events exons
    additional_info`) -/
structure TsvLine where
  readId : String
  chr : String
  strand : String
  isoformId : String
  geneId : String
  assignmentType : String
  events : String
  exons : String
  info : String
  deriving DecidableEq, Repr

def TsvLine.fields (l : TsvLine) : List String :=
  [l.readId, l.chr, l.strand, l.isoformId, l.geneId, l.assignmentType, l.events, l.exons, l.info]

/-- the text written, concatenated as `add_read_info` / `unmatched_line` do: the columns separated by tabs, then a
    newline (`render_eq_intercalate`: it is `"\t".join(fields) + "\n"`) -/
def TsvLine.render (l : TsvLine) : String :=
  l.readId ++ "\t" ++ l.chr ++ "\t" ++ l.strand ++ "\t" ++ l.isoformId ++ "\t" ++ l.geneId ++ "\t" ++
    l.assignmentType ++ "\t" ++ l.events ++ "\t" ++ l.exons ++ "\t" ++ l.info ++ "\n"

/-- what the printers read of `read_assignment.gene_info` -/
structure GeneView where
  /-- `gene_info.chr_id` -/
  chrId : String
  /-- `gene_info.all_isoforms_introns` (a dict: transcript id ↦ intron list) -/
  isoformIntrons : List (String × List Iv)
  /-- `gene_info.reference_region` (`[]` = None / '') and `gene_info.all_read_region_start` -/
  ref : C18.GeneRef

/-- the command-line parameters the TSV printer reads -/
structure Params where
  /-- `params.cage is not None` -/
  cage : Bool
  /-- `params.check_canonical` -/
  checkCanonical : Bool
  deriving Repr

/-- the strand argument of `check_sites_are_canonical` is `read_assignment.strand`, a `str`: `'+'` selects the forward
    table, everything else the reverse table; as memo keys `'-'` / `'.'` / anything else give the same value -/
def strandOf (s : String) : C18.Strand := if s = "+" then .plus else if s = "-" then .minus else .dot

/-- `BasicTSVAssignmentPrinter.unmatched_line(read_assignment, additional_info)` -/
def unmatchedLine (r : ReadAssignment) (info : List String) : TsvLine :=
  { readId := r.readId, chr := r.chrId, strand := r.strand, isoformId := ".", geneId := ".",
    assignmentType := r.assignmentType.name, events := ".", exons := rangeListToStr r.exons,
    info := infoColumn (info ++ attrTokens r.additionalAttributes) }

/-- the body of `for m in read_assignment.isoform_matches` for one match; `σ` = `gene_info.canonical_sites`;
    `none` = the real code raises -/
def matchLine (P : Params) (gv : GeneView) (r : ReadAssignment) (m : IsoformMatch) (σ : C18.CanonMemo) :
    Option (TsvLine × C18.CanonMemo) :=
  match m.assignedTranscript with
  | none => some (unmatchedLine r ["Classification=" ++ m.matchClassification.name ++ ";"], σ)
  | some t =>
    match gv.isoformIntrons.lookup t, m.assignedGene with
    | some isoformIntrons, some g =>
      let readIntrons := junctionsFromBlocks r.exons
      let canon := C18.readCanonicalField P.checkCanonical gv.ref r.exons (strandOf r.strand) σ
      some ({ readId := r.readId, chr := r.chrId, strand := r.strand, isoformId := t, geneId := g,
              assignmentType := r.assignmentType.name,
              events := ",".intercalate (m.events.map (fun e => eventStr e r.strand readIntrons isoformIntrons)),
              exons := rangeListToStr r.exons,
              info := infoColumn (
                ["gene_assignment=" ++ r.geneAssignmentType.name ++ ";", "PolyA=" ++ C18.boolStr r.polyAFound ++ ";"]
                ++ (if P.cage then ["CAGE=" ++ C18.boolStr r.cageFound ++ ";"] else [])
                ++ (match canon.1 with
                    | some c => ["Canonical=" ++ c ++ ";"]
                    | none => [])
                ++ ["Classification=" ++ m.matchClassification.name ++ ";"]
                ++ attrTokens r.additionalAttributes) }, canon.2)
    | _, _ => none

/-- `for m in read_assignment.isoform_matches: ...` -/
def matchLines (P : Params) (gv : GeneView) (r : ReadAssignment) :
    List IsoformMatch → C18.CanonMemo → Option (List TsvLine × C18.CanonMemo)
  | [], σ => some ([], σ)
  | m :: ms, σ =>
    match matchLine P gv r m σ with
    | none => none
    | some (l, σ') =>
      match matchLines P gv r ms σ' with
      | none => none
      | some (ls, σ'') => some (l :: ls, σ'')

/-- `BasicTSVAssignmentPrinter.add_read_info(read_assignment)`: the lines written and the memo afterwards -/
def tsvOf (ck : Checker) (P : Params) (gv : GeneView) (r : ReadAssignment) (σ : C18.CanonMemo) :
    Option (List TsvLine × C18.CanonMemo) :=
  if !ck.check r then some ([], σ)
  else if r.isoformMatches.isEmpty then some ([unmatchedLine r []], σ)
  else matchLines P gv r r.isoformMatches σ

/-! ### one line of corrected_reads.bed -/

/-- what `BEDPrinter.add_read_info` is given for a loaded record (all presence guards hold for it) -/
def bedInput (ck : Checker) (printCorrected : Bool) (gv : GeneView) (r : ReadAssignment) : C14.PrinterInput :=
  { assignmentPresent := true, typePresent := true, geneInfoPresent := true, checkerPresent := true,
    checkerAccepts := ck.check r, printCorrected := printCorrected, chrom := gv.chrId, name := r.readId,
    strand := r.mappedStrand, exons := r.exons, correctedExons := r.correctedExons }

/-- `BEDPrinter.add_read_info` at the level of the BED12 record: `some none` = nothing written, `none` = IndexError -/
def bedOf (ck : Checker) (printCorrected : Bool) (gv : GeneView) (r : ReadAssignment) : Option (Option C14.BedRecord) :=
  if !ck.check r then some none
  else (C14.bedRecord gv.chrId r.readId r.mappedStrand (if printCorrected then r.correctedExons else r.exons)).map some

/-! ### the composite printer over the records of one gene region -/

structure Lines where
  bed : List C14.BedRecord
  tsv : List TsvLine
  deriving Repr

def Lines.append (a b : Lines) : Lines := { bed := a.bed ++ b.bed, tsv := a.tsv ++ b.tsv }

/-- the two printers of `ReadAssignmentAggregator.global_printer` with their checkers -/
structure PrinterCfg where
  bedChecker : Checker
  tsvChecker : Checker
  params : Params

/-- `aggregator.global_printer.add_read_info(read_assignment)` for the loaded records of one gene region, in order;
    `σ` = the memo of that region's `gene_info`; `none` = one of the calls raises -/
def printRecords (C : PrinterCfg) (gv : GeneView) : List ReadAssignment → C18.CanonMemo → Option Lines
  | [], _ => some { bed := [], tsv := [] }
  | r :: rs, σ =>
    match bedOf C.bedChecker printer_bed_print_corrected gv r, tsvOf C.tsvChecker C.params gv r σ with
    | some b, some (ls, σ') =>
      match printRecords C gv rs σ' with
      | some rest => some { bed := b.toList ++ rest.bed, tsv := ls ++ rest.tsv }
      | none => none
    | _, _ => none

end IsoVerif.Model.Printers
