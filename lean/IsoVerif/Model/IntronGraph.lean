/-
C04 — executable model of /repo/src/intron_graph.py (IntronCollector, IntronGraph as abstract operations)
and of IntronPathProcessor.thread_introns (/repo/src/graph_based_model_construction.py).
Core Lean only.  Python dicts / defaultdicts are association lists (keys unique), sets are lists whose
order is irrelevant (the harness compares them sorted).  Exceptions (`KeyError`, a `while` that never
ends) are `none`.
-/
import IsoVerif.Gen.Prims
import IsoVerif.Gen.ModelConstruction

namespace IsoVerif.Model.C04
open IsoVerif.Gen IsoVerif.Model

/-! ## association lists -/

def amGet? {α β} [DecidableEq α] : List (α × β) → α → Option β
  | [], _ => none
  | (k', v) :: t, k => if k' = k then some v else amGet? t k

def amHas {α β} [DecidableEq α] (m : List (α × β)) (k : α) : Bool := (amGet? m k).isSome

/-- `d[k] = v` -/
def amSet {α β} [DecidableEq α] : List (α × β) → α → β → List (α × β)
  | [], k, v => [(k, v)]
  | (k', v') :: t, k, v => if k' = k then (k, v) :: t else (k', v') :: amSet t k v

/-- `del d[k]` (the caller checks presence when the code would raise) -/
def amErase {α β} [DecidableEq α] (m : List (α × β)) (k : α) : List (α × β) := m.filter (fun p => p.1 ≠ k)

def amKeys {α β} (m : List (α × β)) : List α := m.map (·.1)
def amVals {α β} (m : List (α × β)) : List β := m.map (·.2)

/-- `defaultdict(int)[k]` without the insertion side effect -/
def cnt {α} [DecidableEq α] (m : List (α × Int)) (k : α) : Int := (amGet? m k).getD 0

/-- `s.add(x)` -/
def setAdd {α} [DecidableEq α] (s : List α) (x : α) : List α := if x ∈ s then s else s ++ [x]

/-- insertion sort (structural recursion, so that concrete instances reduce in the kernel); stable, and for the total
    orders on pairwise distinct keys used here it returns what Python's `sorted` returns -/
def insSorted {α} (le : α → α → Bool) (a : α) : List α → List α
  | [] => [a]
  | b :: t => if le a b then a :: b :: t else b :: insSorted le a t

def insSort {α} (le : α → α → Bool) : List α → List α
  | [] => []
  | a :: t => insSorted le a (insSort le t)

/-- lexicographic order on pairs of ints (Python tuple comparison) -/
def ivLe (a b : Iv) : Bool := a.1 < b.1 || (a.1 == b.1 && a.2 ≤ b.2)
def sortIv (l : List Iv) : List Iv := insSort ivLe l

/-- maximum of a list of pairs in tuple order (`sorted(..., reverse=True)[0]`) -/
def maxIv? : List Iv → Option Iv
  | [] => none
  | a :: t => match maxIv? t with
    | none => some a
    | some b => if ivLe a b then some b else some a

/-! ## reads (the fields of a ReadAssignment the intron graph looks at) -/

structure Read where
  id : String
  introns : List Iv          -- corrected_introns
  exons : List Iv            -- corrected_exons
  multimapper : Bool
  strand : String
  polya : Bool               -- external_polya_pos != -1 or internal_polya_pos != -1
  polyt : Bool
  group : String
  deriving Repr, DecidableEq

/-- every intron of the corrected alignment of a non-multimapper read -/
def obsIntrons (reads : List Read) : List Iv :=
  (reads.filter (fun r => !r.multimapper)).flatMap (·.introns)

/-! ## IntronCollector -/

/-- `all_introns[intron] += 1` -/
def countAdd (m : List (Iv × Int)) (k : Iv) : List (Iv × Int) := amSet m k (cnt m k + 1)

/-- `IntronCollector.collect_introns` -/
def collectIntrons (reads : List Read) : List (Iv × Int) :=
  reads.foldl (fun m r => if r.introns.isEmpty || r.multimapper then m else r.introns.foldl countAdd m) []

/-- inner `while` of `construct_similar_intron_map` for one intron `x` and the introns after it in sorted order -/
def simAfter (δ : Int) (x : Iv) (rest : List Iv) : List Iv :=
  (rest.takeWhile (fun o => decide (iabs (o.1 - x.1) ≤ δ))).filter (fun o => decide (iabs (o.2 - x.2) ≤ δ))

/-- all unordered similar pairs, as the loop finds them -/
def simPairs (δ : Int) : List Iv → List (Iv × Iv)
  | [] => []
  | x :: rest => (simAfter δ x rest).map (fun o => (x, o)) ++ simPairs δ rest

/-- `similar_intron_map[x]` (as a set) -/
def similarOf (pairs : List (Iv × Iv)) (x : Iv) : List Iv :=
  pairs.filterMap (fun p => if p.1 = x then some p.2 else if p.2 = x then some p.1 else none)

structure Collector where
  known : List Iv                 -- known_introns
  clustered : List (Iv × Int)     -- clustered_introns
  corr : List (Iv × Iv)           -- intron_correction_map
  discarded : List Iv             -- discarded_introns
  deriving Repr, DecidableEq

def Collector.empty (known : List Iv) : Collector := ⟨known, [], [], []⟩

/-- one iteration of the loop of `cluster_introns` -/
def clusterStep (pairs : List (Iv × Iv)) (minCount : Int) (c : Collector) (ci : Int × Iv) : Collector :=
  let count := ci.1
  let intron := ci.2
  if intron ∈ c.known then
    { c with clustered := amSet c.clustered intron count }
  else if similarOf pairs intron ≠ [] then
    match maxIv? ((similarOf pairs intron).filter (fun s => amHas c.clustered s)) with
    | some s => { c with clustered := amSet c.clustered s (cnt c.clustered s + count),
                         corr := amSet c.corr intron s }
    | none => { c with clustered := amSet c.clustered intron count }
  else if count < minCount then
    { c with discarded := setAdd c.discarded intron }
  else
    { c with clustered := amSet c.clustered intron count }

/-- `(count, intron)` tuple order -/
def ciLe (a b : Int × Iv) : Bool := a.1 < b.1 || (a.1 == b.1 && ivLe a.2 b.2)

/-- `sorted([(v, k) for k, v in all_introns.items()], reverse=True)` -/
def sortedByCount (allIntrons : List (Iv × Int)) : List (Int × Iv) :=
  (insSort ciLe (allIntrons.map (fun p => (p.2, p.1)))).reverse

/-- `IntronCollector.cluster_introns` -/
def clusterIntrons (c : Collector) (δ : Int) (allIntrons : List (Iv × Int)) (minCount : Int) : Collector :=
  (sortedByCount allIntrons).foldl (clusterStep (simPairs δ (sortIv (amKeys allIntrons))) minCount) c

/-- `IntronCollector.process` on a fresh collector -/
def collectorProcess (known : List Iv) (δ : Int) (reads : List Read) (minCount : Int) : Collector :=
  clusterIntrons (Collector.empty known) δ (collectIntrons reads) minCount

/-- `IntronCollector.add_substitute`: `clustered[subst] += clustered[orig]` (defaultdict: both reads insert 0, so the
    `del clustered[orig]` that follows never raises) -/
def Collector.addSubstitute (c : Collector) (orig subst : Iv) : Collector :=
  { c with clustered := amErase (amSet c.clustered subst (cnt c.clustered subst + cnt c.clustered orig)) orig,
           corr := amSet c.corr orig subst }

/-- `IntronCollector.discard` -/
def Collector.discard (c : Collector) (i : Iv) : Collector :=
  { c with discarded := setAdd c.discarded i, clustered := amErase c.clustered i }

/-- a read of `clustered_introns[v]` (a defaultdict: inserts 0 when absent) -/
def Collector.touch (c : Collector) (v : Iv) : Collector :=
  if amHas c.clustered v then c else { c with clustered := amSet c.clustered v 0 }

/-- `IntronCollector.substitute` -/
def Collector.substitute (c : Collector) (v : Iv) : Iv :=
  match amGet? c.corr v with
  | some s => s
  | none => v

/-- `while subs in map: subs = map[subs]`; `none` = the loop never ends (a cycle) -/
def chase (m : List (Iv × Iv)) : Nat → Iv → Option Iv
  | 0, _ => none
  | fuel + 1, s =>
    match amGet? m s with
    | none => some s
    | some s' => chase m fuel s'

/-- one iteration of the first loop of `simplify_correction_map`; state = (map, to_remove) -/
def simplifyStep (disc : List Iv) (st : List (Iv × Iv) × List Iv) (intron : Iv) : Option (List (Iv × Iv) × List Iv) :=
  match amGet? st.1 intron with
  | none => none
  | some subs =>
    if subs ∈ disc then some (st.1, setAdd st.2 intron)
    else if !(amHas st.1 subs) then some st
    else
      match chase st.1 (st.1.length + 1) subs with
      | none => none
      | some e =>
        if e ∈ disc then some (st.1, setAdd st.2 intron)
        else some (amSet st.1 intron e, st.2)

def simplifyLoop (disc : List Iv) : List Iv → List (Iv × Iv) × List Iv → Option (List (Iv × Iv) × List Iv)
  | [], st => some st
  | i :: t, st =>
    match simplifyStep disc st i with
    | none => none
    | some st' => simplifyLoop disc t st'

/-- `IntronCollector.simplify_correction_map` -/
def Collector.simplifyCorrectionMap (c : Collector) : Option Collector :=
  match simplifyLoop c.discarded (sortIv (amKeys c.corr)) (c.corr, []) with
  | none => none
  | some (m, toRemove) =>
    some (toRemove.foldl (fun c i => { c.discard i with corr := amErase (c.discard i).corr i }) { c with corr := m })

/-! ## IntronGraph: state and the operations the code performs on it

`out`: pairs `(v, w)` with `w ∈ outgoing_edges[v]`; `inc`: pairs `(w, v)` with `v ∈ incoming_edges[w]`.
The two are kept separately because the code lets them diverge (a collapsed vertex keeps its own sets until
its keys are deleted).  -/

structure Graph where
  col : Collector
  out : List (Iv × Iv)
  inc : List (Iv × Iv)
  deriving Repr, DecidableEq

def outOf (g : Graph) (v : Iv) : List Iv := (g.out.filter (fun p => p.1 = v)).map (·.2)
def incOf (g : Graph) (v : Iv) : List Iv := (g.inc.filter (fun p => p.1 = v)).map (·.2)

/-- `IntronGraph.add_edge` (edge weights are only printed) -/
def Graph.addEdge (g : Graph) (v1 v2 : Iv) : Graph :=
  let a := g.col.substitute v1
  let b := g.col.substitute v2
  { g with out := setAdd g.out (a, b), inc := setAdd g.inc (b, a) }

/-- replace member `c` by `s` in the set stored under key `k`; `none` when `c` is not a member (`set.remove` raises) -/
def replaceMember (m : List (Iv × Iv)) (k c s : Iv) : Option (List (Iv × Iv)) :=
  if (k, c) ∈ m then some (setAdd (m.filter (fun p => p ≠ (k, c))) (k, s)) else none

def replaceMembers (m : List (Iv × Iv)) (c s : Iv) : List Iv → Option (List (Iv × Iv))
  | [] => some m
  | k :: t =>
    match replaceMember m k c s with
    | none => none
    | some m' => replaceMembers m' c s t

/-- `IntronGraph.collapse_vertex` -/
def Graph.collapseVertex (g : Graph) (c s : Iv) : Option Graph :=
  let outC := outOf g c
  -- outgoing_edges[s].update(outgoing_edges[c])
  let out1 := outC.foldl (fun m i => setAdd m (s, i)) g.out
  -- for i in outgoing_edges[c]: incoming_edges[i].remove(c); incoming_edges[i].add(s)
  match replaceMembers g.inc c s outC with
  | none => none
  | some inc1 =>
    let incC := (inc1.filter (fun p => p.1 = c)).map (·.2)
    -- incoming_edges[s].update(incoming_edges[c])
    let inc2 := incC.foldl (fun m i => setAdd m (s, i)) inc1
    -- for i in incoming_edges[c]: outgoing_edges[i].remove(c); outgoing_edges[i].add(s)
    match replaceMembers out1 c s incC with
    | none => none
    | some out2 =>
      some { col := g.col.addSubstitute c s, out := out2, inc := inc2 }

/-- `del outgoing_edges[v]; del incoming_edges[v]` -/
def Graph.delVertex (g : Graph) (v : Iv) : Graph :=
  { g with out := g.out.filter (fun p => p.1 ≠ v), inc := g.inc.filter (fun p => p.1 ≠ v) }

/-- the operations `IntronGraph.simplify` / `attach_terminal_positions` are built from -/
inductive Op where
  | addEdge (v1 v2 : Iv)
  | collapse (c s : Iv)
  | delVertex (v : Iv)
  | delOut (v : Iv)             -- `del outgoing_edges[v]` / `outgoing_edges[v] = set()`
  | delInc (v : Iv)
  | discard (v : Iv)            -- intron_collector.discard
  | touch (v : Iv)              -- a read of `clustered_introns[v]` (defaultdict inserts 0)
  | simplifyMap
  | attachOut (v : Iv) (t : Iv) -- outgoing_edges[v].add((VERTEX_polya | VERTEX_read_end, pos))
  | attachInc (v : Iv) (t : Iv)
  deriving Repr, DecidableEq

def isIntronVertex (v : Iv) : Bool := decide (0 ≤ v.1)

/-- every intron the collector mentions -/
def Collector.verts (c : Collector) : List Iv :=
  amKeys c.clustered ++ amKeys c.corr ++ amVals c.corr ++ c.discarded

/-- every intron vertex the graph mentions (keys and members of the edge sets; terminal vertices have a negative code) -/
def Graph.verts (g : Graph) : List Iv :=
  g.col.verts ++ ((amKeys g.out ++ amVals g.out ++ amKeys g.inc ++ amVals g.inc).filter isIntronVertex)

/-- scoping of an operation: its arguments are observed read introns (`add_edge` is only called by `construct` on
    consecutive introns of a non-multimapper read) or vertices the graph already has; attached vertices are terminal -/
def opScoped (obs : List Iv) (g : Graph) : Op → Bool
  | .addEdge v1 v2 => decide (v1 ∈ obs) && decide (v2 ∈ obs)
  | .collapse c s => decide (c ∈ g.verts) && decide (s ∈ g.verts)
  | .delVertex _ => true
  | .delOut _ => true
  | .delInc _ => true
  | .discard v => decide (v ∈ g.verts)
  | .touch v => decide (v ∈ g.verts)
  | .simplifyMap => true
  | .attachOut v t => decide (v ∈ g.verts) && !isIntronVertex t
  | .attachInc v t => decide (v ∈ g.verts) && !isIntronVertex t

/-- effect of one operation; `none` = the code raises -/
def applyOp (g : Graph) : Op → Option Graph
  | .addEdge v1 v2 => some (g.addEdge v1 v2)
  | .collapse c s => g.collapseVertex c s
  | .delVertex v => some (g.delVertex v)
  | .delOut v => some { g with out := g.out.filter (fun p => p.1 ≠ v) }
  | .delInc v => some { g with inc := g.inc.filter (fun p => p.1 ≠ v) }
  | .discard v => some { g with col := g.col.discard v }
  | .touch v => some { g with col := g.col.touch v }
  | .simplifyMap => (g.col.simplifyCorrectionMap).map (fun c => { g with col := c })
  | .attachOut v t => some { g with out := setAdd g.out (v, t) }
  | .attachInc v t => some { g with inc := setAdd g.inc (v, t) }

/-- run a history of operations, checking the scoping of each against the state it is applied to -/
def runOps (obs : List Iv) : Graph → List Op → Option Graph
  | g, [] => some g
  | g, op :: t =>
    if opScoped obs g op then
      match applyOp g op with
      | none => none
      | some g' => runOps obs g' t
    else none

/-- edges contributed by one read in `IntronGraph.construct` -/
def readEdgeOps : List Iv → List Op
  | [] => []
  | [_] => []
  | a :: b :: t => Op.addEdge a b :: readEdgeOps (b :: t)

/-- `IntronGraph.construct`: the `add_edge` calls, in order -/
def constructOps (col : Collector) (reads : List Read) : List Op :=
  reads.flatMap (fun r =>
    if r.multimapper || r.introns.any (fun i => decide (i ∈ col.discarded)) then [] else readEdgeOps r.introns)

/-- the graph right after `intron_collector.process` -/
def Graph.init (known : List Iv) (δ : Int) (reads : List Read) (minCount : Int) : Graph :=
  { col := collectorProcess known δ reads minCount, out := [], inc := [] }

/-- `IntronGraph.__init__` up to and including `construct()` -/
def Graph.constructed (known : List Iv) (δ : Int) (reads : List Read) (minCount : Int) : Option Graph :=
  let g0 := Graph.init known δ reads minCount
  runOps (obsIntrons reads) g0 (constructOps g0.col reads)

/-! ## IntronPathProcessor.thread_introns -/

/-- `thread_introns`: `none` when an intron was discarded, else the substituted path -/
def threadIntrons (c : Collector) : List Iv → Option (List Iv)
  | [] => some []
  | i :: t =>
    if i ∈ c.discarded then none
    else match threadIntrons c t with
      | none => none
      | some p => some (c.substitute i :: p)

/-! ## IntronPathStorage.fill

`thread_ends` / `thread_starts` pick a terminal / starting vertex for a read among the vertices attached to its last / first
intron (or none).  They are heuristics: the model takes them as parameters (`ends intron read_end trusted`,
`starts intron read_start trusted`) and the theorems hold for every such function. -/

structure ThreadParams where
  ends : Iv → Int → Bool → Option Iv       -- path_processor.thread_ends
  starts : Iv → Int → Bool → Option Iv     -- path_processor.thread_starts
  requiresPolya : Bool                     -- params.requires_polya_for_construction

/-- `IntronPathStorage`: `paths`, `fl_paths`, `paths_to_reads` -/
structure PathStore where
  paths : List (List Iv × Int)
  fl : List (List Iv)
  toReads : List (List Iv × List Read)
  deriving Repr, DecidableEq

def PathStore.empty : PathStore := ⟨[], [], []⟩

/-- the path `fill` builds for one read, with the flag "both ends attached"; `none` = the read is skipped -/
def readPath (g : Graph) (p : ThreadParams) (a : Read) : Option (List Iv × Bool) :=
  if a.multimapper then none
  else match threadIntrons g.col a.introns with
    | none => none
    | some [] => none
    | some (i :: t) =>
      match a.exons.head?, a.exons.getLast?, (i :: t).getLast? with
      | some firstExon, some lastExon, some lastIntron =>
        let terminal := p.ends lastIntron lastExon.2 (decide (a.strand = "+") && a.polya)
        let starting := p.starts i firstExon.1 (decide (a.strand = "-") && a.polyt)
        let path1 := match terminal with | some v => (i :: t) ++ [v] | none => i :: t
        let path2 := match starting with | some v => v :: path1 | none => path1
        let fl := match terminal, starting with
          | some tv, some sv => !p.requiresPolya || decide (tv.1 = VERTEX_polya) || decide (sv.1 = VERTEX_polyt)
          | _, _ => false
        some (path2, fl)
      | _, _, _ => none       -- a spliced read without exons: IndexError in the code

/-- one iteration of `IntronPathStorage.fill` -/
def fillStep (g : Graph) (p : ThreadParams) (ps : PathStore) (a : Read) : PathStore :=
  match readPath g p a with
  | none => ps
  | some (path, fl) =>
    { paths := amSet ps.paths path (cnt ps.paths path + 1),
      fl := if fl then setAdd ps.fl path else ps.fl,
      toReads := amSet ps.toReads path ((amGet? ps.toReads path).getD [] ++ [a]) }

/-- `IntronPathStorage.fill` -/
def fillPaths (g : Graph) (p : ThreadParams) (reads : List Read) : PathStore :=
  reads.foldl (fillStep g p) PathStore.empty

/-! ## IntronGraph.get_outgoing / get_incoming and IntronPathProcessor.thread_ends / thread_starts

The vertices a read path may start / end with are the terminal vertices attached to its first / last intron:
pairs `(VERTEX_polya | VERTEX_read_end, position)` in `outgoing_edges`, `(VERTEX_polyt | VERTEX_read_start, position)`
in `incoming_edges`. -/

/-- the `v_type` filter of `get_outgoing` / `get_incoming`: `none` = intron vertices (`v[0] >= 0`) -/
def vertexOfType (vtype : Option Int) (v : Iv) : Bool :=
  match vtype with
  | none => decide (0 ≤ v.1)
  | some t => decide (v.1 = t)

/-- `IntronGraph.get_outgoing(intron, v_type)` (sorted in tuple order) -/
def getOutgoing (g : Graph) (intron : Iv) (vtype : Option Int) : List Iv :=
  sortIv ((outOf g intron).filter (vertexOfType vtype))

/-- `IntronGraph.get_incoming(intron, v_type)` -/
def getIncoming (g : Graph) (intron : Iv) (vtype : Option Int) : List Iv :=
  sortIv ((incOf g intron).filter (vertexOfType vtype))

/-- `sorted(..., key=lambda x: x[1])` (stable) -/
def sortByPos (l : List Iv) : List Iv := insSort (fun a b => decide (a.2 ≤ b.2)) l

/-- `max([intron[0] for intron in l])` / `min([intron[1] for intron in l])` of a non-empty list -/
def maxStart (a : Iv) (t : List Iv) : Int := t.foldl (fun m v => max m v.1) a.1
def minEnd (a : Iv) (t : List Iv) : Int := t.foldl (fun m v => min m v.2) a.2

/-- the last two branches of `thread_ends` on the position-sorted candidates, given last-first -/
def pickEnd (apa : Int) (endPos : Int) (trusted : Bool) : List Iv → Option Iv
  | [] => none
  | last :: rest =>
    if trusted && decide (endPos ≥ last.2) && decide (last.1 = VERTEX_read_end) then some last
    else if !trusted && decide (endPos ≤ last.2 + apa) &&
        (match rest with | [] => true | prev :: _ => decide (endPos > prev.2)) then some last
    else none

/-- `IntronPathProcessor.thread_ends(intron, end, trusted)` -/
def threadEnds (g : Graph) (delta apa : Int) (intron : Iv) (endPos : Int) (trusted : Bool) : Option Iv :=
  let polyas := getOutgoing g intron (some VERTEX_polya)
  match (if trusted then polyas.find? (fun v => decide (iabs (v.2 - endPos) ≤ apa)) else none) with
  | some v => some v
  | none =>
    let inside : Bool := match getOutgoing g intron none with
      | [] => false
      | a :: t => !trusted && decide (endPos ≤ maxStart a t - 1 + delta)
    if inside then none
    else pickEnd apa endPos trusted (sortByPos (getOutgoing g intron (some VERTEX_read_end) ++ polyas)).reverse

/-- the last two branches of `thread_starts` on the position-sorted candidates -/
def pickStart (startPos : Int) (trusted : Bool) : List Iv → Option Iv
  | [] => none
  | first :: rest =>
    if trusted && decide (startPos ≤ first.2) && decide (first.1 = VERTEX_read_start) then some first
    else if !trusted && decide (startPos ≥ first.2) &&
        (match rest with | [] => true | second :: _ => decide (startPos < second.2)) then some first
    else none

/-- `IntronPathProcessor.thread_starts(intron, start, trusted)` -/
def threadStarts (g : Graph) (delta apa : Int) (intron : Iv) (startPos : Int) (trusted : Bool) : Option Iv :=
  let polyts := getIncoming g intron (some VERTEX_polyt)
  match (if trusted then polyts.find? (fun v => decide (iabs (v.2 - startPos) ≤ apa)) else none) with
  | some v => some v
  | none =>
    let inside : Bool := match getIncoming g intron none with
      | [] => false
      | a :: t => !trusted && decide (startPos ≥ minEnd a t + 1 - delta)
    if inside then none
    else pickStart startPos trusted (sortByPos (getIncoming g intron (some VERTEX_read_start) ++ polyts))

/-- the path processor of a graph: `thread_ends` / `thread_starts` as the code computes them -/
def graphThreadParams (g : Graph) (delta apa : Int) (requiresPolya : Bool) : ThreadParams :=
  { ends := threadEnds g delta apa, starts := threadStarts g delta apa, requiresPolya := requiresPolya }

/-- `IntronPathStorage.fill` with the real `thread_ends` / `thread_starts`: the enumeration of the read paths and of the
    full-length paths (starting vertex, introns, terminal vertex) handed to `construct_fl_isoforms` -/
def fillGraphPaths (g : Graph) (delta apa : Int) (requiresPolya : Bool) (reads : List Read) : PathStore :=
  fillPaths g (graphThreadParams g delta apa requiresPolya) reads

end IsoVerif.Model.C04
