/-
C11 — translation of the exon-id storage (Model/Ids.lean, C17): the keys `(chr, start, end, strand)` of
`FeatureIdStorage` and the reference features it is loaded from.  Core Lean only.  (The transcript / gene id allocators
do not look at coordinates at all.)
-/
import IsoVerif.Model.Ids

namespace IsoVerif.Model.C11
open IsoVerif.Model

def shiftEK (k : Int) (e : C17.ExonKey) : C17.ExonKey := (e.1, e.2.1 + k, e.2.2.1 + k, e.2.2.2)
def shiftRefFeature (k : Int) (f : C17.RefFeature) : C17.RefFeature := { f with start := f.start + k, stop := f.stop + k }
/-- a reference record of any feature type (the repaired `FeatureIdStorage.__init__` reads all of them) -/
def shiftRefRecord (k : Int) (r : C17.RefRecord) : C17.RefRecord := { r with feat := shiftRefFeature k r.feat }
def shiftIdStorage (k : Int) (st : C17.FeatureIdStorage) : C17.FeatureIdStorage :=
  { st with dict := st.dict.map (fun p => (shiftEK k p.1, p.2)) }

end IsoVerif.Model.C11
