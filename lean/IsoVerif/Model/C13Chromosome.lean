/-
C13 at the level of ONE CHROMOSOME (growth `c13x`, audit2-C GAP 1): which genes a (sub-)region loads, which records an
alignment gets in the sub-regions it overlaps, which of them survive the resolver, and what the exon / intron counters are
fed with.

  src/alignment_processor.py  AlignmentCollector.forward_alignments (the gene region of a sub-region = the extent of the
                              alignments processed in it - the repaired loading; the old loading asked for the sub-region
                              itself), process_alignments_in_region, get_gene_info_for_region (genes overlapping the region)
  src/multimap_resolver.py    MultimapResolver.resolve on the records of one read (Model/Resolver.lean, C08)
  src/dataset_processor.py    ReadAssignmentLoader.get_next (suspended records are skipped), the counter feed

`out : List (Iv × List Aln)` is what `AlignmentCollector.process` hands to `process_alignments_in_region`, in order
(Model/Regions.lean `collect`, property C05).  What happens to ONE alignment once the genes are loaded (profiles, isoform
assignment: `process_genic`) is the parameter `Proc` - the C13 profile theorems and C01 speak about it.
Core Lean only.
-/
import IsoVerif.Model.Regions
import IsoVerif.Model.Resolver
import IsoVerif.Model.FeatureCounts

namespace IsoVerif.Model.C13Chr
open IsoVerif.Gen IsoVerif.Model IsoVerif.Model.Resolver IsoVerif.Model.C13
open IsoVerif.Model.Regions (Aln)

/-- a gene record of the annotation: `gffutils` start / end -/
structure GeneRec where
  gid : Nat
  span : Iv
  deriving DecidableEq, Repr

/-- the loop added to `forward_alignments` by the repair: the sub-region stretched over every alignment processed in it
    (`min(gene_region[0], reference_start)`, `max(gene_region[1], reference_end - 1)`) -/
def geneRegion (r : Iv) (as : List Aln) : Iv :=
  as.foldl (fun g a => (min g.1 a.start, max g.2 (a.stop - 1))) r

/-- the region `get_gene_info_for_region` is asked for: repaired = the extent, old = the sub-region itself -/
def loadRegion (repaired : Bool) (ra : Iv × List Aln) : Iv :=
  if repaired then geneRegion ra.1 ra.2 else ra.1

/-- the 1-based closed interval of an alignment (`reference_start + 1 .. reference_end`), the coordinates of gene records -/
def iv1 (a : Aln) : Iv := (a.start + 1, a.stop)

/-- `get_gene_info_for_region` after fix `fix_gene_query_last_base`: the region is a closed interval of 0-based positions, the
    gene records are 1-based: `genedb.region(start = region[0] + 1, end = region[1] + 1, featuretype="gene")` -/
def loadGenes (genes : List GeneRec) (gr : Iv) : List GeneRec :=
  genes.filter (fun g => overlaps (gr.1 + 1, gr.2 + 1) g.span)

/-- the query before that fix: the 0-based region compared with the 1-based gene records as it is (a gene whose first base
    is the last base of the region is missed, a gene whose last base is the base before the region is loaded) -/
def loadGenesOrig (genes : List GeneRec) (gr : Iv) : List GeneRec :=
  genes.filter (fun g => overlaps gr g.span)

/-- the records `process_genic` / `process_intergenic` never assign (reference_id -1, supplementary, `--no_secondary`
    secondaries, MAPQ < `--min_mapq`: `Regions.passes`) get no record and - after fix 48f2521-stretch-only-over-processed -
    do not stretch the gene region: what a sub-region works on is its forwarded list filtered -/
def procOut (p : Regions.Params) (out : List (Iv × List Aln)) : List (Iv × List Aln) :=
  out.map (fun ra => (ra.1, ra.2.filter (Regions.passes p)))

/-- the gene region of a sub-region BEFORE that fix: stretched over every forwarded record, assigned or not -/
def loadRegionAll (ra : Iv × List Aln) : Iv := geneRegion ra.1 ra.2

/-- what `process_genic` / `process_intergenic` derive for ONE alignment from the loaded genes (heuristics not modelled here) -/
structure Proc where
  atype : List GeneRec → Aln → RType
  gtype : List GeneRec → Aln → RType
  penalty : List GeneRec → Aln → Int
  isoforms : List GeneRec → Aln → List Nat
  genesOf : List GeneRec → Aln → List Nat
  ev : List GeneRec → Aln → Option ReadEv        -- exon (or intron) profile + property map + group; `none`: no profile

/-- one (sub-region, alignment) record: the compact record the resolver sees and the counter event -/
structure Item where
  brec : Rec
  ev : Option ReadEv
  deriving Repr

def mkRec (P : Proc) (r : Iv) (G : List GeneRec) (a : Aln) : Rec where
  aid := 0
  readId := a.rid
  chr := 0
  start := a.start
  stop := a.stop
  region := r
  multimapper := a.secondary
  polyA := false
  atype := P.atype G a
  gtype := P.gtype G a
  penalty := P.penalty G a
  isoforms := P.isoforms G a
  genes := P.genesOf G a

def mkItem (P : Proc) (r : Iv) (G : List GeneRec) (a : Aln) : Item :=
  { brec := mkRec P r G a, ev := P.ev G a }

def regionItems (repaired : Bool) (genes : List GeneRec) (P : Proc) (ra : Iv × List Aln) : List Item :=
  ra.2.map (mkItem P ra.1 (loadGenes genes (loadRegion repaired ra)))

/-- every record of the chromosome, in the order of the save file -/
def chrItems (repaired : Bool) (genes : List GeneRec) (P : Proc) (out : List (Iv × List Aln)) : List Item :=
  out.flatMap (regionItems repaired genes P)

/-- the records of one read -/
def readItems (its : List Item) (rid : Nat) : List Item := its.filter (fun it => it.brec.readId == rid)

/-- the events of the records of read `rid` that the resolver does not suspend (`none`: the resolver raised) -/
def keptEvents (its : List Item) (rid : Nat) : Option (List ReadEv) :=
  (resolve .take_best ((readItems its rid).map (·.brec))).map (fun verdicts =>
    ((readItems its rid).zip verdicts).filterMap (fun p => if p.2.atype == .suspended then none else p.1.ev))

def collectEvents (its : List Item) : List Nat → Option (List ReadEv)
  | [] => some []
  | rid :: rest =>
    match keptEvents its rid, collectEvents its rest with
    | some a, some b => some (a ++ b)
    | _, _ => none

/-- the feed of the exon (intron) counter for one chromosome, read by read; `rids` = the read ids, each once -/
def chromosomeEvents (repaired : Bool) (genes : List GeneRec) (P : Proc) (out : List (Iv × List Aln)) (rids : List Nat) :
    Option (List ReadEv) :=
  collectEvents (chrItems repaired genes P out) rids

/-! ### a concrete `Proc` for the driver and the witnesses: the per-alignment answers are TABLES over the whole annotation -/

/-- per alignment (by read id): the isoforms it matches as (isoform id, gene id), and per gene id the features it includes (+1) /
    excludes (-1) as (gene id, coordinates, value); the loaded genes select the visible part -/
structure Answers where
  hits : Nat → List (Nat × Nat)
  marks : Nat → List (Nat × Iv × Int)

def tableProc (chr : String) (ans : Answers) : Proc :=
  let vis (G : List GeneRec) (g : Nat) : Bool := G.any (fun x => x.gid == g)
  { atype := fun G a => match (ans.hits a.rid).filter (fun m => vis G m.2) with
      | [] => if G.isEmpty then .intergenic else .noninformative
      | [_] => .unique
      | _ => .ambiguous
    gtype := fun G a => match (ans.hits a.rid).filter (fun m => vis G m.2) with
      | [] => if G.isEmpty then .intergenic else .noninformative
      | _ => .unique
    penalty := fun _ _ => 0
    isoforms := fun G a => ((ans.hits a.rid).filter (fun m => vis G m.2)).map (·.1)
    genesOf := fun G a => ((ans.hits a.rid).filter (fun m => vis G m.2)).map (·.2)
    ev := fun G a =>
      if G.isEmpty then none
      else
        let ms := (ans.marks a.rid).filter (fun m => vis G m.1)
        some { profile := ms.map (·.2.2),
               pmap := ms.map (fun m => { id := 0, chr := chr, start := m.2.1.1, stop := m.2.1.2, strand := "+", ftype := "I",
                                          genes := [] }),
               group := "NA" } }

/-! ### the REAL per-alignment profile work as a `Proc` (closure `p13local`): `GeneInfo(gene_list, …)` of the loaded genes,
    `construct_exon_profile` / `construct_intron_profile` of the alignment's blocks against it, `set_feature_properties` -/

/-- the annotation and the reads of one chromosome as `process_genic` sees them: per gene id the isoforms (feats = exon blocks),
    per read id the blocks / polyA positions / read group -/
structure Ann where
  chr : String
  delta : Int
  absDelta : Int                         -- minimal_intron_absence_overlap
  isoforms : Nat → List IsoformFeatures
  reads : Nat → ReadAln

/-- `GeneInfo.start / end` of a gene list: the hull of the gene records -/
def hull : List GeneRec → Iv
  | [] => (0, 0)
  | g :: r => r.foldl (fun h x => (min h.1 x.span.1, max h.2 x.span.2)) g.span

/-- the `GeneIn` of the loaded genes -/
def geneIn (A : Ann) (G : List GeneRec) : GeneIn :=
  { region := hull G, isoforms := G.flatMap (fun g => A.isoforms g.gid) }

/-- `process_alignments_in_region`: no gene loaded = `process_intergenic`, no gene profile (`None`: the counters skip the read);
    else the exon event of `process_genic` against the GeneInfo of the loaded genes -/
def exonEv (A : Ann) (G : List GeneRec) (a : Aln) : Option ReadEv :=
  if G.isEmpty then none else exonEvent (mkGene A.chr A.delta 0 (geneIn A G)).1 (A.reads a.rid)

def intronEv (A : Ann) (G : List GeneRec) (a : Aln) : Option ReadEv :=
  if G.isEmpty then none else intronEvent (mkGene A.chr A.delta 0 (geneIn A G)).1 A.absDelta (A.reads a.rid)

/-- the table-driven assigner answers with the real exon (intron) profile event -/
def exonProc (A : Ann) (ans : Answers) : Proc := { tableProc A.chr ans with ev := exonEv A }
def intronProc (A : Ann) (ans : Answers) : Proc := { tableProc A.chr ans with ev := intronEv A }

end IsoVerif.Model.C13Chr
