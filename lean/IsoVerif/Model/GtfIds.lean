/-
C12 — which records of an annotation become TRANSCRIPTS of the gene database (audit2-C C12 GAP-1):

  src/gtf2db.py   gtf2db: `gffutils.create_db(gtf, db, …, id_spec=id_spec)` — the dict `id_spec` (record type ↦ attribute that
                  becomes the primary key) is GENERATED from the source (`Gen/AnnotationTypes.lean: DB_ID_SPEC`); `[]` = no
                  `id_spec` argument: gffutils then keys `gene` by gene_id and `transcript` by transcript_id only.
  gffutils        (trusted, compared on real databases by the correspondence `C12I.isoforms`) `_id_handler`: a record whose
                  type has an entry in the spec and which carries that attribute gets the attribute value as id; every other
                  record gets `<type>_<n>`, n counting the auto-numbered records of that type from 1.  GTF relations: an exon
                  is a child of the feature whose id equals the exon's transcript_id (and of the one whose id equals its gene_id).
  src/gene_info.py  `db.children(gene, featuretype=GENEINFO_TRANSCRIPT_TYPES)` and `db.children(t, featuretype='exon')`.

Core Lean only.
-/
import IsoVerif.Gen.AnnotationTypes

namespace IsoVerif.Model.C12Ids
open IsoVerif.Gen

/-- one record of a GTF file, as far as keys and parenthood matter -/
structure GRec where
  ftype : String
  gid : String
  /-- the transcript_id attribute (gene records carry none) -/
  tid : Option String
  span : Int × Int
deriving DecidableEq, Repr

/-- primary key of a feature of the database -/
inductive FId where
  | named (s : String)
  | auto (ftype : String) (n : Nat)
deriving DecidableEq, Repr

/-- what gffutils does for a GTF file when no `id_spec` is given -/
def gffutilsDefaultGtfSpec : List (String × String) := [("gene", "gene_id"), ("transcript", "transcript_id")]

def effectiveSpec (spec : List (String × String)) : List (String × String) :=
  if spec.isEmpty then gffutilsDefaultGtfSpec else spec

def attrOf (r : GRec) (a : String) : Option String :=
  if a = "gene_id" then some r.gid else if a = "transcript_id" then r.tid else none

/-- the key the spec gives a record, if any -/
def keyOf (spec : List (String × String)) (r : GRec) : Option String := (spec.lookup r.ftype).bind (attrOf r)

/-- `_id_handler` over the file: `cnt t` = auto-numbered records of type `t` so far -/
def assignIdsFrom (spec : List (String × String)) (cnt : String → Nat) : List GRec → List (FId × GRec)
  | [] => []
  | r :: rs =>
    match keyOf spec r with
    | some v => (.named v, r) :: assignIdsFrom spec cnt rs
    | none => (.auto r.ftype (cnt r.ftype + 1), r) ::
        assignIdsFrom spec (fun t => if t = r.ftype then cnt t + 1 else cnt t) rs

def assignIds (spec : List (String × String)) (recs : List GRec) : List (FId × GRec) :=
  assignIdsFrom (effectiveSpec spec) (fun _ => 0) recs

/-- `db.children(feature, featuretype='exon')`: the exon records whose transcript_id is the feature's id -/
def exonsOf (recs : List GRec) : FId → List (Int × Int)
  | .named s => (recs.filter (fun r => r.ftype == "exon" && r.tid == some s)).map (·.span)
  | .auto _ _ => []

/-- what GeneInfo reads of gene `g`: id and exon coordinates of every child of a transcript type, in file order -/
def isoformsOf (spec : List (String × String)) (txTypes : List String) (recs : List GRec) (g : String) :
    List (FId × List (Int × Int)) :=
  ((assignIds spec recs).filter (fun p => txTypes.contains p.2.ftype && p.2.gid == g)).map (fun p => (p.1, exonsOf recs p.1))

/-- another spelling of the same annotation: transcript records re-typed among the transcript types -/
def retype (txTypes : List String) (f : GRec → String) (recs : List GRec) : List GRec :=
  recs.map (fun r => if txTypes.contains r.ftype then { r with ftype := f r } else r)

end IsoVerif.Model.C12Ids
