/-
C05 — hand-written executable model of the alignment collection layer of /repo/src/alignment_processor.py
(`AbstractAlignmentStorage`, `BAMAlignmentStorage`, `InMemoryAlignmentStorage`, `AlignmentCollector.process`,
`forward_alignments`, `split_coverage_regions`, the documented filters of `process_genic/process_intergenic`)
and of the de-duplication used downstream (`BasicReadAssignment.__eq__`, `MultimapResolver.find_duplicates`,
the index selection of `select_best_assignment`).  Core Lean only.

Conventions
* an alignment is `(reference_start, reference_end)` 0-based, end exclusive, as pysam gives them; its closed
  interval is `(start, stop - 1)` – exactly the tuple the code builds everywhere;
* dictionaries: `coverage_dict` (a `defaultdict(int)`) is an association list in insertion order, the two index
  dictionaries of the in-memory storage are functions `Int → Option Nat` (`none` = key absent = `KeyError`);
* exceptions (`IndexError`, `KeyError`, `TypeError` on `None`) are `none`;
* `while` loops of `split_coverage_regions` take fuel; termination is a theorem (Props/C05.lean);
* the float test `cov > max(ABS_COV_VALLEY, max_cov * REL_COV_VALLEY)` is the integer test
  `cov > ABS ∧ cov * 10^4 > max_cov * REL_e4` (constants regenerated from /repo into Gen/Constants.lean);
* `…Buggy` definitions keep the behaviour of the tree before the two `fix:` commits of this property.
-/
import IsoVerif.Gen.Prims
import IsoVerif.Gen.Constants
import IsoVerif.Gen.Enums
import IsoVerif.Gen.EventClasses

namespace IsoVerif.Model.Regions
open IsoVerif.Gen

/-! ### alignments, bins -/

structure Aln where
  start : Int            -- reference_start (0-based)
  stop : Int             -- reference_end (exclusive)
  secondary : Bool       -- is_secondary
  supplementary : Bool   -- is_supplementary
  mapped : Bool          -- reference_id != -1
  mapq : Int             -- mapping_quality
  rid : Nat              -- query_name (read identity)
  deriving DecidableEq, Repr, Inhabited

/-- `(alignment.reference_start, alignment.reference_end - 1)` -/
def Aln.iv (a : Aln) : Iv := (a.start, a.stop - 1)

/-- `x // COVERAGE_BIN` -/
def bin (x : Int) : Int := x / ap_COVERAGE_BIN

def Aln.binS (a : Aln) : Int := bin a.start
def Aln.binE (a : Aln) : Int := bin (a.stop - 1)

/-! ### coverage dictionary (`defaultdict(int)`) -/

abbrev CovDict := List (Int × Int)

/-- `coverage_dict[k]` (missing key reads as 0; the key the real lookup inserts has value 0 and is never
    observed: `coverage_positions` is computed before the loop) -/
def covGet : CovDict → Int → Int
  | [], _ => 0
  | p :: ps, k => if p.1 = k then p.2 else covGet ps k

/-- `coverage_dict[k] += 1` -/
def covBump : CovDict → Int → CovDict
  | [], k => [(k, 1)]
  | p :: ps, k => if p.1 = k then (p.1, p.2 + 1) :: ps else p :: covBump ps k

/-- `for i in range(lo, lo + n): coverage_dict[i] += 1` -/
def covBumpRange (d : CovDict) (lo : Int) : Nat → CovDict
  | 0 => d
  | n + 1 => covBumpRange (covBump d lo) (lo + 1) n

/-- smallest key: `sorted(coverage_dict.keys())[0]`; `none` = IndexError on the empty dict -/
def minKey : CovDict → Option Int
  | [] => none
  | p :: ps => match minKey ps with
    | none => some p.1
    | some m => some (min p.1 m)

/-- largest key: `sorted(coverage_dict.keys())[-1]` -/
def maxKey : CovDict → Option Int
  | [] => none
  | p :: ps => match maxKey ps with
    | none => some p.1
    | some m => some (max p.1 m)

/-! ### storages -/

/-- a `dict` bin → index (a structure, so that compiled code builds the updated dictionary once) -/
structure Idx where
  get : Int → Option Nat

def Idx.empty : Idx := ⟨fun _ => none⟩

def idxSet (d : Idx) (k : Int) (v : Nat) : Idx := ⟨fun x => if x = k then some v else d.get x⟩

/-- state shared by both storages (`BAMAlignmentStorage` only uses `region`, `cov` and the number of stored
    alignments; `InMemoryAlignmentStorage` also the two index dictionaries and the list itself) -/
structure Store where
  region : Option Iv
  cov : CovDict
  startIdx : Idx      -- alignment_start_index
  endIdx : Idx        -- alignment_end_index
  alns : List Aln     -- alignment_storage (counter = its length)

/-- a fresh / `reset()` storage -/
def Store.empty : Store := ⟨none, [], Idx.empty, Idx.empty, []⟩

/-- `AbstractAlignmentStorage.add_alignment`: the new `region` -/
def hullAdd (reg : Option Iv) (a : Aln) : Iv :=
  match reg with
  | none => (a.start, a.stop - 1)
  | some r => (min r.1 a.start, max r.2 (a.stop - 1))

/-- `add_alignment` of both storages (coverage bins, region, first-index dictionaries, append) -/
def Store.add (s : Store) (a : Aln) : Store :=
  { region := some (hullAdd s.region a)
    cov := covBumpRange s.cov a.binS (a.binE + 1 - a.binS).toNat
    startIdx := match s.startIdx.get a.binS with
      | none => idxSet s.startIdx a.binS s.alns.length
      | some _ => s.startIdx
    endIdx := match s.endIdx.get a.binE with
      | none => idxSet s.endIdx a.binE s.alns.length
      | some _ => s.endIdx
    alns := s.alns ++ [a] }

/-- storage after adding the alignments of `l` in order to a fresh storage -/
def buildStore (l : List Aln) : Store := l.foldl Store.add Store.empty

/-- `alignment_is_not_adjacent` -/
def notAdjacent (reg : Option Iv) (a : Aln) : Bool :=
  match reg with
  | none => false
  | some r => !overlaps r a.iv

/-! ### alignment statistics (counted once per record of the outer iteration) -/

/-- the `AlignmentType` key incremented for a record (`none`: no counter touched) -/
def statKey (a : Aln) : Option AlignmentType :=
  if a.secondary then some AlignmentType.secondary
  else if a.supplementary then some AlignmentType.supplementary
  else if a.mapped then some AlignmentType.primary
  else none

abbrev Stats := AlignmentType → Nat

def statStep (s : Stats) (a : Aln) : Stats :=
  match statKey a with
  | none => s
  | some k => fun t => if t = k then s t + 1 else s t

/-! ### `AlignmentCollector.process`: clusters of adjacent alignments -/

structure PState where
  store : Store
  out : List Store      -- storages handed to `forward_alignments`, in order
  stats : Stats

def PState.init : PState := ⟨Store.empty, [], fun _ => 0⟩

/-- one iteration of the `for bam_index, alignment in self.bam_merger.get()` loop -/
def processStep (st : PState) (a : Aln) : PState :=
  if notAdjacent st.store.region a then
    ⟨Store.empty.add a, st.out ++ [st.store], statStep st.stats a⟩
  else
    ⟨st.store.add a, st.out, statStep st.stats a⟩

/-- after the loop: `if alignment_storage.region: forward…` -/
def processFinish (st : PState) : List Store :=
  if st.store.region.isSome then st.out ++ [st.store] else st.out

def processStores (l : List Aln) : List Store := processFinish (l.foldl processStep PState.init)
def processStats (l : List Aln) : Stats := (l.foldl processStep PState.init).stats

/-- the clusters (lists of alignments) forwarded one after the other -/
def clusters (l : List Aln) : List (List Aln) := (processStores l).map (·.alns)

/-! ### `split_coverage_regions` -/

/-- `coverage_dict[pos] > max(ABS_COV_VALLEY, max_cov * REL_COV_VALLEY)` -/
def aboveValley (c maxCov : Int) : Bool :=
  decide (c > ap_ABS_COV_VALLEY) && decide (c * 10000 > maxCov * ap_REL_COV_VALLEY_e4)

/-- `int(MAX_REGION_LEN / COVERAGE_BIN)` -/
def minBins : Int := ap_MAX_REGION_LEN / ap_COVERAGE_BIN

/-- the inner `while`; returns `(pos, max_cov)` at exit -/
def splitInner (d : CovDict) (last cs : Int) : Nat → Int → Int → Option (Int × Int)
  | 0, _, _ => none
  | fuel + 1, pos, maxCov =>
    if (pos ≤ last ∧ pos - cs < minBins) ∨ aboveValley (covGet d pos) maxCov = true then
      splitInner d last cs fuel (pos + 1) (max maxCov (covGet d pos))
    else some (pos, maxCov)

/-- the outer `while pos <= coverage_positions[-1]`; returns the appended sub-regions -/
def splitOuter (d : CovDict) (R : Iv) (last : Int) (innerFuel : Nat) : Nat → Int → Int → Int → Option (List Iv)
  | 0, _, _, _ => none
  | fuel + 1, cs, pos, maxCov =>
    if pos ≤ last then
      match splitInner d last cs innerFuel pos maxCov with
      | none => none
      | some (p, _) =>
        match splitOuter d R last innerFuel fuel p (min (p + 1) (last + 1)) (covGet d p) with
        | none => none
        | some rest => some ((max (cs * ap_COVERAGE_BIN + 1) R.1, min (p * ap_COVERAGE_BIN) R.2) :: rest)
    else some []

/-- the two nested loops, started as the code starts them; fuel = number of bins + 2 -/
def splitLoop (R : Iv) (d : CovDict) : Option (List Iv) :=
  match minKey d, maxKey d with
  | some first, some last =>
    let fuel := (last + 2 - first).toNat
    splitOuter d R last fuel fuel first (first + 1) (covGet d first)
  | _, _ => none

def smallRegion (R : Iv) (count : Nat) : Bool :=
  decide (interval_len R < ap_MAX_REGION_LEN) && decide ((count : Int) < ap_MIN_READS_TO_SPLIT)

/-- behaviour before `fix: sub-regions tile the whole region` -/
def splitCoverageRegionsBuggy (R : Iv) (count : Nat) (d : CovDict) : Option (List Iv) :=
  if smallRegion R count then some [R] else splitLoop R d

/-- `split_regions[0] = (genomic_region[0], split_regions[0][1])` -/
def setFirstStart (x : Int) : List Iv → List Iv
  | [] => []
  | r :: rs => (x, r.2) :: rs

/-- `split_regions[-1] = (split_regions[-1][0], genomic_region[1])` -/
def setLastEnd (x : Int) : List Iv → List Iv
  | [] => []
  | [r] => [(r.1, x)]
  | r :: r' :: rs => r :: setLastEnd x (r' :: rs)

/-- the tail added by the fix: empty list → `[genomic_region]`, else stretch first and last sub-region -/
def retile (R : Iv) (regs : List Iv) : List Iv :=
  match regs with
  | [] => [R]
  | _ :: _ => setLastEnd R.2 (setFirstStart R.1 regs)

/-- `AlignmentCollector.split_coverage_regions(genomic_region, alignment_storage)` (current tree) -/
def splitCoverageRegions (R : Iv) (count : Nat) (d : CovDict) : Option (List Iv) :=
  if smallRegion R count then some [R]
  else match splitLoop R d with
    | none => none
    | some regs => some (retile R regs)

/-! ### `get_alignments` -/

/-- pysam `fetch(chr, a, b + 1)` on the coordinate-sorted file: the records overlapping `[a, b]`, in file order
    (assumed behaviour of the external call; `all` = every record of the chromosome) -/
def bamGet (all : List Aln) (r : Iv) : List Aln := all.filter (fun a => overlaps r a.iv)

/-- downward loop of `fill_index` over `alignment_start_index`, positions `pos, pos-1, …` (`n` of them) -/
def fillStartLoop : Nat → Int → Idx → Nat → Idx
  | 0, _, idx, _ => idx
  | n + 1, pos, idx, cur =>
    match idx.get pos with
    | none => fillStartLoop n (pos - 1) (idxSet idx pos cur) cur
    | some v => fillStartLoop n (pos - 1) idx v

/-- downward loop of `fill_index` over `alignment_end_index` -/
def fillEndLoop : Nat → Int → Idx → Nat → Idx
  | 0, _, idx, _ => idx
  | n + 1, pos, idx, cur =>
    match idx.get pos with
    | none => fillEndLoop n (pos - 1) (idxSet idx pos cur) cur
    | some v =>
      if v > cur then fillEndLoop n (pos - 1) (idxSet idx pos cur) cur
      else fillEndLoop n (pos - 1) idx v

/-- `InMemoryAlignmentStorage.fill_index` (`none`: `self.region` is `None`) -/
def Store.fillIndex (s : Store) : Option Store :=
  match s.region with
  | none => none
  | some R =>
    let hi := bin R.2 + 1
    let n := (hi + 1 - bin R.1).toNat
    some { s with startIdx := fillStartLoop n hi s.startIdx s.alns.length
                  endIdx := fillEndLoop n hi s.endIdx s.alns.length }

/-- `InMemoryAlignmentStorage.get_alignments(region)`; `off = 1` is the current tree
    (`alignment_start_index[end_bin + 1]`), `off = 0` the tree before the fix -/
def Store.memGetOff (off : Int) (s : Store) (r : Option Iv) : Option (List Aln) :=
  match r with
  | none => some s.alns
  | some r =>
    if some r = s.region then some s.alns
    else match s.fillIndex with
      | none => none
      | some s' =>
        match s'.endIdx.get (bin r.1), s'.startIdx.get (bin r.2 + off) with
        | some si, some ei =>
          if ei ≤ s'.alns.length then
            some (((s'.alns.take ei).drop si).filter (fun a => overlaps r a.iv))
          else none
        | _, _ => none

def Store.memGet (s : Store) (r : Option Iv) : Option (List Aln) := s.memGetOff 1 r
def Store.memGetBuggy (s : Store) (r : Option Iv) : Option (List Aln) := s.memGetOff 0 r

/-! ### `forward_alignments` -/

inductive Mode where
  | bam      -- default: BAMAlignmentStorage, every sub-region re-fetched from the file
  | memory   -- --high_memory: InMemoryAlignmentStorage
  deriving DecidableEq, Repr

/-- `storage.get_alignments(region)`; `all` is the whole chromosome (what the BAM file holds) -/
def getAlignments (m : Mode) (all : List Aln) (s : Store) (r : Option Iv) : Option (List Aln) :=
  match m with
  | .memory => s.memGet r
  | .bam => match (match r with | none => s.region | some r => some r) with
    | none => none
    | some r => some (bamGet all r)

def mapRegions (get : Iv → Option (List Aln)) : List Iv → Option (List (Iv × List Aln))
  | [] => some []
  | r :: rs => match get r, mapRegions get rs with
    | some x, some xs => some ((r, x) :: xs)
    | _, _ => none

/-- `forward_alignments(storage)`: the `(region, alignments)` pairs given to `process_alignments_in_region` -/
def forwardWith (split : Iv → Nat → CovDict → Option (List Iv)) (get : Option Iv → Option (List Aln))
    (s : Store) : Option (List (Iv × List Aln)) :=
  match s.region with
  | none => none
  | some R =>
    match split R s.alns.length s.cov with
    | none => none
    | some [_] => (get none).map (fun x => [(R, x)])
    | some regs => mapRegions (fun r => get (some r)) regs

def forward (m : Mode) (all : List Aln) (s : Store) : Option (List (Iv × List Aln)) :=
  forwardWith splitCoverageRegions (getAlignments m all s) s

def collectStores (f : Store → Option (List (Iv × List Aln))) : List Store → Option (List (Iv × List Aln))
  | [] => some []
  | s :: ss => match f s, collectStores f ss with
    | some x, some xs => some (x ++ xs)
    | _, _ => none

/-- everything `AlignmentCollector.process` yields for one chromosome: `(region, alignments)` in order -/
def collect (m : Mode) (all : List Aln) : Option (List (Iv × List Aln)) :=
  collectStores (forward m all) (processStores all)

/-- the tree before both fixes -/
def collectBuggy (m : Mode) (all : List Aln) : Option (List (Iv × List Aln)) :=
  collectStores (fun s => forwardWith splitCoverageRegionsBuggy
    (match m with
     | .memory => s.memGetBuggy
     | .bam => getAlignments .bam all s) s) (processStores all)

/-! ### documented filters of `process_genic` / `process_intergenic` -/

structure Params where
  noSecondary : Bool     -- --no_secondary
  minMapq : Int          -- --min_mapq (0 = not set)

/-- mapped, not supplementary, `--no_secondary`, `--min_mapq` (the first two `continue`s of both functions) -/
def passes (p : Params) (a : Aln) : Bool :=
  a.mapped && !a.supplementary && !(p.noSecondary && a.secondary) &&
    !(p.minMapq != 0 && decide (a.mapq < p.minMapq))

/-- the records produced for one chromosome: `(region, alignment)` pairs that survive the documented filters
    and the remaining region-dependent ones (`keep`: no aligned exons, `simple_alignments_mapq_cutoff` in
    gene-free regions, `inconsistent_mapq_cutoff` in genic ones – decided by unmodelled code) -/
def recordsOf (p : Params) (keep : Iv → Aln → Bool) (out : List (Iv × List Aln)) : List (Iv × Aln) :=
  out.flatMap (fun ra => (ra.2.filter (fun a => passes p a && keep ra.1 a)).map (fun a => (ra.1, a)))

/-! ### de-duplication (`BasicReadAssignment.__eq__`, `MultimapResolver.find_duplicates`) -/

structure Rec where
  rid : Nat
  chr : Nat
  start : Int
  stop : Int
  isoforms : List Nat
  region : Iv
  atype : ReadAssignmentType
  multimapper : Bool
  penalty : Int           -- penalty_score in units of 2^-20 (the on-disk quantum)
  deriving DecidableEq, Repr

/-- `BasicReadAssignment.__eq__` -/
def Rec.eqv (x y : Rec) : Bool :=
  x.rid == y.rid && x.chr == y.chr && x.start == y.start && x.stop == y.stop && x.isoforms == y.isoforms

/-- inner `for j in range(i + 1, …)` loop: adds to `discarded_duplicates` -/
def fdInner {α} [DecidableEq α] (eq : α → α → Bool) (x : α) : List α → List α → List α
  | [], disc => disc
  | y :: ys, disc =>
    if disc.contains y then fdInner eq x ys disc
    else if eq x y then fdInner eq x ys (y :: disc)
    else fdInner eq x ys disc

/-- outer loop of `find_duplicates` over the index list; returns `selected_assignments` -/
def fdOuter {α} [DecidableEq α] (eq : α → α → Bool) : List α → List α → List α
  | [], _ => []
  | x :: rest, disc =>
    if disc.contains x then fdOuter eq rest disc
    else x :: fdOuter eq rest (fdInner eq x rest disc)

/-- `MultimapResolver.find_duplicates(assignment_list, assignment_indices)` with `eq i j` =
    `assignment_list[i] == assignment_list[j]` -/
def findDuplicates {α} [DecidableEq α] (eq : α → α → Bool) (idxs : List α) : List α :=
  if idxs.length ≤ 1 then idxs else fdOuter eq idxs []

/-- `assignment_list[i] == assignment_list[j]` (`false` out of range; the indices always come from `range`) -/
def recEqAt (recs : List Rec) (i j : Nat) : Bool :=
  match recs[i]?, recs[j]? with
  | some x, some y => x.eqv y
  | _, _ => false

/-- indices `i` of `recs` with `p recs[i]` -/
def idxFilter (recs : List Rec) (p : Rec → Bool) : List Nat :=
  (List.range recs.length).filter (fun i => match recs[i]? with | some x => p x | none => false)

/-- `select_best_inconsistent`: the indices with the minimal penalty (all of them when ≤ 1) -/
def selectBestInconsistent (recs : List Rec) (idxs : List Nat) : List Nat :=
  if idxs.length ≤ 1 then idxs
  else
    let scores := idxs.filterMap (fun i => (recs[i]?).map (fun x => (x.penalty, i)))
    match scores with
    | [] => []
    | s :: ss =>
      let best := ss.foldl (fun m x => if x.1 < m then x.1 else m) s.1
      (scores.filter (fun x => x.1 = best)).map (·.2)

/-- candidates of `select_noninformative`: the records with the best overlap with their region.  The code then
    keeps exactly ONE of them (lowest region start, then further tie-breakers that belong to C08); which one is
    deliberately left open here – C05 only needs that one candidate is kept. -/
def noninformativeCands (recs : List Rec) (idxs : List Nat) : List Nat :=
  let infos := idxs.filterMap (fun i => (recs[i]?).map (fun x => (intersection_len x.region (x.start, x.stop), i)))
  let maxOv := infos.foldl (fun m x => max m x.1) 0
  (infos.filter (fun x => x.1 = maxOv)).map (·.2)

/-- what `select_best_assignment` passes to `filter_assignments` (`take_best` strategy): an index list, or
    "one of these" for the non-informative branch -/
inductive Selection where
  | exact (idxs : List Nat)
  | oneOf (cands : List Nat)
  deriving Repr, DecidableEq

def selectBest (recs : List Rec) : Selection :=
  let primaryUnique := idxFilter recs (fun a => !a.atype.is_inconsistent && a.atype.is_consistent && !a.multimapper
    && a.atype != ReadAssignmentType.ambiguous)
  let consistent := idxFilter recs (fun a => !a.atype.is_inconsistent && a.atype.is_consistent)
  let inconsistent := idxFilter recs (fun a => a.atype.is_inconsistent)
  let primaryInconsistent := idxFilter recs (fun a => a.atype.is_inconsistent && !a.multimapper)
  let noninformative := idxFilter recs (fun a => !a.atype.is_inconsistent && !a.atype.is_consistent)
  if primaryUnique ≠ [] then .exact primaryUnique
  else if consistent ≠ [] then .exact consistent
  else if primaryInconsistent ≠ [] then .exact (selectBestInconsistent recs primaryInconsistent)
  else if inconsistent ≠ [] then .exact (selectBestInconsistent recs inconsistent)
  else if noninformative ≠ [] then .oneOf (noninformativeCands recs noninformative)
  else .exact [0]

/-- `kept` = indices of the records of one read that stay non-suspended after `MultimapResolver.resolve`
    (`take_best`): a single record is returned untouched, otherwise `filter_assignments` keeps
    `find_duplicates(select_best…)` -/
def ResolveKept (recs : List Rec) (kept : List Nat) : Prop :=
  if recs.length ≤ 1 then kept = List.range recs.length
  else match selectBest recs with
    | .exact idxs => kept = findDuplicates (recEqAt recs) idxs
    | .oneOf cands => ∃ b, b ∈ cands ∧ kept = [b]

/-- executable rendering for the driver: `(exact?, list)` -/
def resolveKeptExec (recs : List Rec) : Bool × List Nat :=
  if recs.length ≤ 1 then (true, List.range recs.length)
  else match selectBest recs with
    | .exact idxs => (true, findDuplicates (recEqAt recs) idxs)
    | .oneOf cands => (false, cands)

end IsoVerif.Model.Regions
