/-
Decidable predicates on the inputs of `compare_junctions` used by the C01 converse theorems (Props/C01Converse.lean) and
evaluated by the driver for the oracle:
  * `chainsWFb`  – intron chains as the pipeline produces them (Boolean form of `ChainsWF`);
  * `tolerated`  – the comparator's tolerance classes for one read intron, the last of which
                   (`terminalMisalignmentClass`) is the known finding `terminal_exon_misalignment_far`.
Core Lean only.
-/
import IsoVerif.Model.JunctionCompare
import IsoVerif.Lemmas.Interval

namespace IsoVerif.Model.C01
open IsoVerif.Gen IsoVerif.Model IsoVerif.Lemmas

/-- length of the first exon of a chain inside `reg`, as `get_exon(reg, chain, 0)` gives it (0 for an empty chain) -/
def firstExonLen (reg : Iv) (J : List Iv) : Int := match J.head? with | some j => j.1 - reg.1 | none => 0
/-- length of the last exon, as `get_exon(reg, chain, -1)` gives it -/
def lastExonLen (reg : Iv) (J : List Iv) : Int := match J.getLast? with | some j => reg.2 - j.2 | none => 0

/-! ### the comparator's tolerances -/

/-- (a) an intron this short may be taken for a deletion (`are_suspicious_introns`, first test) -/
def suspiciousShort (c : CmpCtx) (r : Iv) : Bool := decide (interval_len r ≤ c.q.max_suspicious_intron_abs_len)

/-- (b) `intron_shift`: some isoform intron has its left site within `max_intron_shift` and a length within
    `max_intron_abs_diff` of the read intron -/
def shiftTolerated (c : CmpCtx) (ij : List Iv) (r : Iv) : Bool :=
  ij.any (fun k => decide (iabs (k.1 - r.1) ≤ c.q.max_intron_shift) &&
    decide (iabs (interval_len r - interval_len k) ≤ c.q.max_intron_abs_diff))

/-- (c) `exon_misalignment`: the isoform has an internal exon so short that skipping it may be an alignment artifact
    (the code measures `next_intron_start − previous_intron_end + 1`, i.e. exon length + 2) -/
def missedExonTolerated (c : CmpCtx) (ij : List Iv) : Bool :=
  (ij.zip ij.tail).any (fun ab => decide (ab.2.1 - ab.1.2 + 1 ≤ c.p.max_missed_exon_len))

/-- (d) `fake_terminal_exon_left/right`: the intron is the first (last) one and the first (last) read exon is at most
    `max_fake_terminal_exon_len` long -/
def fakeTerminalTolerated (c : CmpCtx) (rj : List Iv) (rr : Iv) (i : Nat) : Bool :=
  (decide (i = 0) && decide (firstExonLen rr rj ≤ c.p.max_fake_terminal_exon_len)) ||
  (decide (i + 1 = rj.length) && decide (lastExonLen rr rj ≤ c.p.max_fake_terminal_exon_len))

/-- (e) the known finding class `terminal_exon_misalignment_far`: a read with several introns whose first (last) intron
    is the odd one and whose first (last) exon has a length within 2δ of the isoform's first (last) exon -/
def terminalMisalignmentClass (c : CmpCtx) (rj : List Iv) (rr : Iv) (ij : List Iv) (ir : Iv) (i : Nat) : Bool :=
  decide (rj.length > 1) &&
  ((decide (i = 0) && decide (iabs (firstExonLen rr rj - firstExonLen ir ij) < 2 * c.p.delta)) ||
   (decide (i + 1 = rj.length) && decide (iabs (lastExonLen rr rj - lastExonLen ir ij) < 2 * c.p.delta)))

/-- read intron `r = rj[i]` may be excused by one of the comparator's tolerances w.r.t. the isoform `(ij, ir)` -/
def tolerated (c : CmpCtx) (rj : List Iv) (rr : Iv) (ij : List Iv) (ir : Iv) (i : Nat) (r : Iv) : Bool :=
  suspiciousShort c r || shiftTolerated c ij r || missedExonTolerated c ij || fakeTerminalTolerated c rj rr i ||
  terminalMisalignmentClass c rj rr ij ir i

/-! ### tolerance (d) as the REPAIRED code applies it (audit finding C01-G1)

The fake-terminal-exon tolerance excuses the short outermost exon and its intron ONLY: the overhang of the NEXT exon over
the isoform end is classified by `categorize_exon_elongation_subtype` like the overhang of any outermost exon
(`elongationEvents` measures `measuredExon`).  `fakeTerminalTolerated` (above) is the class the code tolerated BEFORE the
repair; the repaired class is `fakeTerminalWithin`. -/

/-- the elongation test of the (repaired) code reports a MAJOR overhang at the left (right) end of the read w.r.t. isoform
    `I`; geometric characterisation: `Props/C01FakeTerminal.lean: majorOverhang_left_of_marks / _right_of_marks` -/
def majorOverhang (g : Gene) (p : Params) (rp : ReadProf) (I : IsoInfo) (left : Bool) : Bool :=
  match elongationEvents g p rp I with
  | some el => el.any (fun e => decide (e.ty = if left then MatchEventSubtype.major_exon_elongation_left
                                                else MatchEventSubtype.major_exon_elongation_right))
  | none => false

/-- the read carries a polyA / polyT position (polyA verification may then re-interpret an overhang) -/
def hasTail (pa : PolyA) : Bool := !(decide (pa.extA = -1) && decide (pa.extT = -1) && decide (pa.intA = -1) && decide (pa.intT = -1))

/-- (d′) the intron is the first (last) one, the first (last) read exon is at most `max_fake_terminal_exon_len` long AND
    the next exon is within the ordinary elongation tolerance (no major overhang at that end; reads with a polyA / polyT
    position are not covered) -/
def fakeTerminalWithin (g : Gene) (p : Params) (rp : ReadProf) (I : IsoInfo) (i : Nat) : Bool :=
  (decide (i = 0) && decide (firstExonLen rp.region rp.introns ≤ p.max_fake_terminal_exon_len) &&
    (!(majorOverhang g p rp I true) || hasTail rp.polya)) ||
  (decide (i + 1 = rp.introns.length) && decide (lastExonLen rp.region rp.introns ≤ p.max_fake_terminal_exon_len) &&
    (!(majorOverhang g p rp I false) || hasTail rp.polya))

/-- `tolerated` with class (d) tightened to what the repaired code tolerates -/
def toleratedFix (g : Gene) (p : Params) (q : CParams) (rp : ReadProf) (I : IsoInfo) (i : Nat) (r : Iv) : Bool :=
  suspiciousShort (cmpCtxOf g p q) r || shiftTolerated (cmpCtxOf g p q) I.introns r ||
  missedExonTolerated (cmpCtxOf g p q) I.introns || fakeTerminalWithin g p rp I i ||
  terminalMisalignmentClass (cmpCtxOf g p q) rp.introns rp.region I.introns I.region i

/-! ### the read's END seen by `compare_junctions`: nothing re-interprets a tail there (Props/C01Tail.lean, `EndGeom`)

Position-only conditions under which the comparator can NOT emit `fake_terminal_exon_*` or `terminal_exon_misalignment_*`
at one end of the read (`Lemmas/C01CmpEnd.lean: compareJunctions_clean_right / _left`, for ALL inputs):
 (1) the read's outermost exon at that end is longer than `max_fake_terminal_exon_len` (spliced reads);
 (2) for reads with at least two introns: the read's and the isoform's outermost exons at that end differ in length by at
     least 2δ (otherwise a displaced terminal exon may be called `terminal_exon_misalignment_*`: the known finding
     `terminal_exon_misalignment_far` lives exactly there).
(The third end artifact, `incomplete_intron_retention_*`, needs no condition: it is itself a major inconsistency.) -/

def endCleanRight (p : Params) (rj : List Iv) (rr : Iv) (ij : List Iv) (ir : Iv) : Bool :=
  (rj.isEmpty || decide (p.max_fake_terminal_exon_len < lastExonLen rr rj)) &&
  (decide (rj.length ≤ 1) || ij.isEmpty || decide (2 * p.delta ≤ iabs (lastExonLen rr rj - lastExonLen ir ij)))

def endCleanLeft (p : Params) (rj : List Iv) (rr : Iv) (ij : List Iv) (ir : Iv) : Bool :=
  (rj.isEmpty || decide (p.max_fake_terminal_exon_len < firstExonLen rr rj)) &&
  (decide (rj.length ≤ 1) || ij.isEmpty || decide (2 * p.delta ≤ iabs (firstExonLen rr rj - firstExonLen ir ij)))

/-! ### Boolean forms of the hypotheses of `Props/C01Tail.lean: tail_far_never_consistent_geom` (driver / oracle) -/

/-- Boolean form of `TailBeyond` -/
def tailBeyondB (d stop ext int : Int) : Bool :=
  (decide (ext ≠ -1) || decide (int ≠ -1)) && (decide (ext = -1) || decide (d < iabs (stop - ext))) &&
  (decide (int = -1) || decide (d < iabs (stop - int)))

/-- Boolean form of `LongTerminal` -/
def longTerminalB (p : Params) (iso : List Iv) (front : Bool) : Bool :=
  (List.range iso.length).all (fun c => c == 0 ||
    (decide (p.max_fake_terminal_exon_len <
        intervalsTotalLength (if front then iso.take c else iso.drop (iso.length - c))) &&
     decide (p.max_missed_exon_len <
        intervalsTotalLength (if front then iso.take c else iso.drop (iso.length - c)))))

/-- Boolean form of `TailFar` -/
def tailFarB (p : Params) (rp : ReadProf) (I : IsoInfo) : Bool :=
  match I.strand with
  | .plus =>
    match I.exons.getLast? with
    | some l => tailBeyondB p.apa_delta l.2 rp.polya.extA rp.polya.intA && longTerminalB p I.exons false
    | none => false
  | .minus =>
    match I.exons.head? with
    | some f => tailBeyondB p.apa_delta f.1 rp.polya.extT rp.polya.intT && longTerminalB p I.exons true
    | none => false
  | .other => false

/-- Boolean form of `EndGeom` -/
def endGeomB (p : Params) (rp : ReadProf) (I : IsoInfo) : Bool :=
  match I.strand with
  | .plus => endCleanRight p rp.introns rp.region I.introns I.region
  | .minus => endCleanLeft p rp.introns rp.region I.introns I.region
  | .other => true

/-- all hypotheses of `tail_far_never_consistent_geom` about one read and its gene -/
def tailClauseHyp (g : Gene) (p : Params) (rp : ReadProf) : Bool :=
  !rp.blocks.isEmpty && g.isos.all (fun I => tailFarB p rp I && endGeomB p rp I)

/-- Boolean form of `ChainsWF` (used by the driver / the oracle to decide the domain of the theorems) -/
def chainsWFb (δ : Int) (rj : List Iv) (rr : Iv) (ij : List Iv) (ir : Iv) : Bool :=
  decide (0 ≤ δ) && decide (SD rj) && decide (SD ij) &&
  rj.all (fun r => decide (2 * δ ≤ r.2 - r.1)) && ij.all (fun k => decide (2 * δ ≤ k.2 - k.1)) &&
  rj.all (fun r => decide (rr.1 ≤ r.1) && decide (r.2 ≤ rr.2)) &&
  ij.all (fun k => decide (ir.1 ≤ k.1) && decide (k.2 ≤ ir.2))


end IsoVerif.Model.C01
