/-
C06 — executable model of the chromosome fan-out of src/dataset_processor.py.

  §1  process pool: tasks = chromosomes, a schedule = any list of (worker, task) start events; every worker
      carries a private state from task to task (`ProcessPoolExecutor` forks the workers from the parent, a
      forked worker starts with a copy of the parent's state); `pool.map` returns the results in submission
      order whatever the completion order.
  §2  `merge_files`: per-chromosome part files concatenated in the order of the natural sort key
      `[int(t) if t.isdigit() else t.lower() for t in re.split('(\d+)', s)]` (ASCII names).
  §3  the worker state of the generated inventory (`Gen/SharedState`) and the two per-chromosome tasks
      `collect_reads_in_parallel` / `construct_models_in_parallel` as far as they touch that state
      (assignment ids, FeatureInfo ids, the set of already reported known isoforms), the parent-side glue
      between the two pools (multimapper table), `ReadAssignmentLoader.get_next` id matching.
  §4  set-iteration sites: every function takes the iteration order of the set as an explicit list.
  §5  default vs --high_memory multimapper bookkeeping of `DatasetProcessor.collect_reads`.

Core Lean only (the driver links this file).
-/
namespace IsoVerif.Model.C06

/-! ## §1 process pool -/

/-- start of task number `task` (index into the submitted list) on worker `worker` -/
abbrev Event := Nat × Nat

def setW {σ : Type} (st : Nat → σ) (w : Nat) (x : σ) : Nat → σ := fun v => if v = w then x else st v

/-- run the start events in order.  Returns the completion records `(task index, output)` and the final
    worker states.  An event that names a task which was not submitted does nothing (a valid schedule has none). -/
def runEvents {σ χ ω : Type} (f : σ → χ → ω × σ) (chrs : List χ) :
    (Nat → σ) → List Event → List (Nat × ω) × (Nat → σ)
  | st, [] => ([], st)
  | st, (w, t) :: es =>
    match chrs[t]? with
    | none => runEvents f chrs st es
    | some c =>
      let r := f (st w) c
      let rest := runEvents f chrs (setW st w r.2) es
      ((t, r.1) :: rest.1, rest.2)

/-- what `proc.map(f, chrs)` yields: the result of task `i` at position `i` (`none`: task never ran) -/
def poolMap {σ χ ω : Type} (f : σ → χ → ω × σ) (chrs : List χ) (st : Nat → σ) (s : List Event) : List (Option ω) :=
  (List.range chrs.length).map (fun i => (runEvents f chrs st s).1.lookup i)

/-- every submitted task is started exactly once -/
def ValidSchedule (n : Nat) (s : List Event) : Prop := (s.map Prod.snd).Perm (List.range n)

instance (n : Nat) (s : List Event) : Decidable (ValidSchedule n s) := by
  unfold ValidSchedule; infer_instance

/-- `--threads 1`: plain `map` in the parent process (worker 0), tasks in submission order -/
def seqSchedule (n : Nat) : List Event := (List.range n).map (fun i => (0, i))

/-! ## §2 merge_files -/

/-- stable insertion sort (structural, so that `decide` can evaluate it); `le x y` = "x may stay before y" -/
def insertBy {α : Type} (le : α → α → Bool) (x : α) : List α → List α
  | [] => [x]
  | y :: ys => if le x y then x :: y :: ys else y :: insertBy le x ys

def isort {α : Type} (le : α → α → Bool) : List α → List α
  | [] => []
  | x :: xs => insertBy le x (isort le xs)

inductive Tok where
  | str (s : List Nat)      -- code points of a lower-cased non-digit run
  | num (n : Nat)
  deriving DecidableEq, Repr

def digitVal (c : Char) : Nat := c.toNat - '0'.toNat

mutual
/-- inside a non-digit run of `re.split('(\d+)', s)` (`cur` = the run so far, reversed, lower-cased) -/
def scanStr : List Char → List Nat → List Tok
  | [], cur => [Tok.str cur.reverse]
  | c :: cs, cur =>
    if c.isDigit then Tok.str cur.reverse :: scanNum cs (digitVal c)
    else scanStr cs (c.toLower.toNat :: cur)
/-- inside a digit run (`n` = its value so far) -/
def scanNum : List Char → Nat → List Tok
  | [], n => [Tok.num n, Tok.str []]
  | c :: cs, n =>
    if c.isDigit then scanNum cs (10 * n + digitVal c)
    else Tok.num n :: scanStr cs [c.toLower.toNat]
end

/-- the sort key of `merge_files` -/
def naturalKey (s : String) : List Tok := scanStr s.toList []

def cmpNat (a b : Nat) : Ordering := if a < b then .lt else if a = b then .eq else .gt

/-- lexicographic comparison of sequences (Python `<` on str and on list): first difference decides, a proper
    prefix is smaller -/
def lexCmp {α : Type} (cmp : α → α → Ordering) : List α → List α → Ordering
  | [], [] => .eq
  | [], _ :: _ => .lt
  | _ :: _, [] => .gt
  | a :: as, b :: bs =>
    match cmp a b with
    | .eq => lexCmp cmp as bs
    | o => o

/-- comparing a `str` with an `int` raises TypeError in Python: `none` -/
def cmpTok : Tok → Tok → Option Ordering
  | .str a, .str b => some (lexCmp cmpNat a b)
  | .num a, .num b => some (cmpNat a b)
  | _, _ => none

/-- Python list comparison: the first differing pair decides (TypeError if its types differ),
    a proper prefix is smaller -/
def cmpKey : List Tok → List Tok → Option Ordering
  | [], [] => some .eq
  | [], _ :: _ => some .lt
  | _ :: _, [] => some .gt
  | a :: as, b :: bs =>
    if a = b then cmpKey as bs else cmpTok a b

/-- `key a <= key b` as used by the (stable) sort; a TypeError is reported as `false` here and excluded by
    theorem `natural_key_no_type_error` -/
def keyLe (a b : String) : Bool :=
  match cmpKey (naturalKey a) (naturalKey b) with
  | some .gt => false
  | some _ => true
  | none => false

/-- order in which `merge_files` visits the part files (`list.sort` is stable) -/
def mergeOrder (names : List String) : List String := isort keyLe names

/-- number of leading lines that start with `#`: the header test BY CONTENT of the tree before the repair
    (`while f.readline().startswith("#")`) -/
def headerCount : List String → Nat
  | [] => 0
  | l :: ls => if l.startsWith "#" then headerCount ls + 1 else 0

/-- `merge_files` of the tree BEFORE the repair `fix_merge_header`: every leading line of a part that starts with `#`
    counted as a header line - also a record whose first field (read id, feature id, contig name) starts with `#` -/
def mergeFilesOrig (fs : String → Option (List String)) (names : List String) (copyHeader : Bool) : List String :=
  let rec go : List String → Nat → List String
    | [], _ => []
    | n :: ns, i =>
      match fs n with
      | none => go ns (i + 1)
      | some ls => (if copyHeader && i == 0 then ls else ls.drop (headerCount ls)) ++ go ns (i + 1)
  go (mergeOrder names) 0

/-- `merge_files(file_name, label, chr_ids, handler, copy_header, header_lines)`: concatenate the existing parts in
    natural order; the first `header_lines` lines of part `i` (the number of lines the WRITER of the parts puts before
    the first record, given by the caller) are kept only when `copy_header` and `i = 0` (index in the *sorted* list,
    also when that file does not exist); `f.readline()` at the end of a short file reads nothing (`List.drop`) -/
def mergeFiles (fs : String → Option (List String)) (names : List String) (copyHeader : Bool) (headerLines : Nat) :
    List String :=
  let rec go : List String → Nat → List String
    | [], _ => []
    | n :: ns, i =>
      match fs n with
      | none => go ns (i + 1)
      | some ls => (if copyHeader && i == 0 then ls else ls.drop headerLines) ++ go ns (i + 1)
  go (mergeOrder names) 0

/-- `rreplace(fname, label, label_chr)` for a file name `pre ++ label ++ suf` whose last occurrence of the
    label is the intended one -/
def partName (pre label suf chr : String) : String := pre ++ label ++ "_" ++ chr ++ suf

/-! ## §3 worker state and the two per-chromosome tasks -/

/-- the process-wide state listed in `Gen/SharedState.shared_state_inventory` -/
structure WState where
  assignCtr : Nat := 0            -- ReadAssignment.assignment_id_generator.value
  featCtr : Nat := 0              -- FeatureInfo.feature_id_counter.value
  detected : List String := []    -- GraphBasedModelConstructor.detected_known_isoforms (and, since fix b2b4dd9,
                                  -- .reported_novel_chains: same reset and filter mechanics, disjoint key space)
  dupCtr : Nat := 0               -- MultimapResolver.duplicate_counter (parent process only)
  deriving Repr, DecidableEq

/-- one alignment as the assigner sees it: everything except the running id is a function of the inputs -/
structure ReadRec where
  readId : String
  payload : Nat                   -- abstract: gene / isoform / type / exons ...
  deriving Repr, DecidableEq

/-- one `GeneInfo` + its reads as produced by `AlignmentCollector.process` -/
structure Block where
  nFeatures : Nat                 -- FeatureInfo objects created when the GeneInfo is built
  reads : List ReadRec
  known : List String             -- reference isoforms that pass the reporting thresholds in this block
  nAssign2 : Nat := 0             -- ReadAssignment objects created while models are constructed (ids never used)
  deriving Repr, DecidableEq

structure Chr where
  name : String
  blocks : List Block
  deriving Repr, DecidableEq

/-- ids `ctr+1, ctr+2, …` for the reads of one block -/
def numberReads (ctr : Nat) : List ReadRec → List (Nat × ReadRec)
  | [] => []
  | r :: rs => (ctr + 1, r) :: numberReads (ctr + 1) rs

/-- blocks of the save file of one chromosome: reads with their assignment ids -/
abbrev SaveFile := List (Block × List (Nat × ReadRec))

def collectBlocks : WState → List Block → SaveFile × WState
  | st, [] => ([], st)
  | st, b :: bs =>
    let ids := numberReads st.assignCtr b.reads
    let st1 := { st with assignCtr := st.assignCtr + b.reads.length, featCtr := st.featCtr + b.nFeatures }
    let rest := collectBlocks st1 bs
    ((b, ids) :: rest.1, rest.2)

/-- `collect_reads_in_parallel` -/
def collectTask (st : WState) (c : Chr) : SaveFile × WState := collectBlocks st c.blocks

/-- a resolved multimapper record handed to the second pool: (read id, chromosome, assignment id, verdict);
    verdict `none` = suspended, `some p` = kept with the (possibly changed) payload `p` -/
structure MMRec where
  readId : String
  chr : String
  aid : Nat
  verdict : Option Nat
  deriving Repr, DecidableEq

/-- `ReadAssignmentLoader.get_next` for one stored read: look the read up in the multimapper table of this
    chromosome; the *last* record with the same assignment id and chromosome wins -/
def matchOne (chr : String) (mm : List MMRec) (aid : Nat) (r : ReadRec) : Option (Option ReadRec) :=
  let cands := mm.filter (fun a => a.readId == r.readId)
  if cands.isEmpty then some (some r)          -- not a multimapper: kept as is
  else
    match (cands.filter (fun a => a.aid == aid && a.chr == chr)).getLast? with
    | none => some none                        -- "Incomplete information on read": dropped
    | some a =>
      match a.verdict with
      | none => some none                      -- suspended: dropped
      | some p => some (some { r with payload := p })

def loadBlock (chr : String) (mm : List MMRec) (ids : List (Nat × ReadRec)) : List ReadRec :=
  ids.filterMap (fun (aid, r) => (matchOne chr mm aid r).join)

/-- report the known isoforms of one block that were not reported before -/
def reportKnown : List String → List String → List String × List String
  | det, [] => ([], det)
  | det, t :: ts =>
    if det.contains t then reportKnown det ts
    else
      let rest := reportKnown (t :: det) ts
      (t :: rest.1, rest.2)

/-- per-chromosome output lines of the second pool: reads after multimapper resolution + reported known isoforms -/
structure ChrOut where
  reads : List ReadRec
  transcripts : List String
  deriving Repr, DecidableEq

def constructBlocks (chr : String) (mm : List MMRec) : WState → SaveFile → ChrOut × WState
  | st, [] => ({ reads := [], transcripts := [] }, st)
  | st, (b, ids) :: bs =>
    let rd := loadBlock chr mm ids
    let rep := reportKnown st.detected b.known
    let st1 := { st with assignCtr := st.assignCtr + b.nAssign2, featCtr := st.featCtr + b.nFeatures, detected := rep.2 }
    let rest := constructBlocks chr mm st1 bs
    ({ reads := rd ++ rest.1.reads, transcripts := rep.1 ++ rest.1.transcripts }, rest.2)

/-- input of one task of the second pool -/
structure Task2 where
  name : String
  save : SaveFile
  mm : List MMRec

/-- `construct_models_in_parallel` after /repo commit 42b6bc8: the set of reported isoforms is cleared first -/
def constructTask (st : WState) (t : Task2) : ChrOut × WState :=
  constructBlocks t.name t.mm { st with detected := [] } t.save

/-- the same before the reset was added (kept for the witness) -/
def constructTaskNoReset (st : WState) (t : Task2) : ChrOut × WState :=
  constructBlocks t.name t.mm st t.save

/-- parent side: the multimapper table from the save files (in submission order).  `resolve` is the
    multimapper resolver (C08) seen as a function from the alignments of one read `(chr, payload)` to verdicts;
    it never sees the assignment ids. -/
def allRecs (names : List String) (saves : List SaveFile) : List (String × Nat × ReadRec) :=
  (names.zip saves).flatMap (fun (n, sv) => sv.flatMap (fun (_, ids) => ids.map (fun (aid, r) => (n, aid, r))))

def readIdsInOrder : List (String × Nat × ReadRec) → List String → List String
  | [], _ => []
  | (_, _, r) :: rest, seen =>
    if seen.contains r.readId then readIdsInOrder rest seen else r.readId :: readIdsInOrder rest (r.readId :: seen)

def mmTable (resolve : List (String × Nat) → List (Option Nat)) (recs : List (String × Nat × ReadRec)) : List MMRec :=
  (readIdsInOrder recs []).flatMap (fun rid =>
    let grp := recs.filter (fun x => x.2.2.readId == rid)
    if grp.length ≤ 1 then []
    else
      let vs := resolve (grp.map (fun x => (x.1, x.2.2.payload)))
      (grp.zip vs).map (fun (x, v) => { readId := rid, chr := x.1, aid := x.2.1, verdict := v }))

/-- the whole sample: pool 1 under schedule `s1`, parent glue, pool 2 under `s2`, merged output in the order
    of `order` (a permutation of the task indices: the natural order of the part-file names).
    `none` when a schedule leaves a task out. -/
def tasks2 (resolve : List (String × Nat) → List (Option Nat)) (chrs : List Chr) (saves : List SaveFile) : List Task2 :=
  let names := chrs.map (·.name)
  let mm := mmTable resolve (allRecs names saves)
  (names.zip saves).map (fun (n, sv) => ({ name := n, save := sv, mm := mm.filter (fun a => a.chr == n) } : Task2))

def pipeline (resolve : List (String × Nat) → List (Option Nat)) (chrs : List Chr)
    (st1 : Nat → WState) (s1 : List Event) (st2 : Nat → WState) (s2 : List Event) (order : List Nat) :
    Option (List ChrOut) :=
  match (poolMap collectTask chrs st1 s1).mapM id with
  | none => none
  | some saves =>
    match (poolMap constructTask (tasks2 resolve chrs saves) st2 s2).mapM id with
    | none => none
    | some outs => order.mapM (fun i => outs[i]?)

/-! ## §4 set-iteration sites (the argument list is the iteration order of the set) -/

def sortStr (l : List String) : List String := isort (fun a b => decide (a ≤ b)) l

/-- `",".join(self.gene_ids)` of `FeatureInfo.to_str` after /repo commit fc708be (`sorted(gene_ids)`) -/
def geneIdsColumn (iter : List String) : String := ",".intercalate (sortStr iter)
/-- before: `list(gene_ids)` -/
def geneIdsColumnBuggy (iter : List String) : String := ",".intercalate iter

/-- `BasicReadAssignment.isoforms` after /repo commit 3186289 and the tie-break comparison of
    `select_noninformative` on it -/
def isoformsKey (iter : List String) : List String := sortStr iter
def isoformsKeyBuggy (iter : List String) : List String := iter

/-- `AssignedFeatureCounter.__init__`: group → numeric id, and the label printed for a numeric id -/
def groupNumbering (iter : List String) : List (String × Nat) := (sortStr iter).zipIdx
/-- before /repo commit b707b14 (`enumerate(read_groups)` over the set, labels from the sorted list) -/
def groupNumberingBuggy (iter : List String) : List (String × Nat) := iter.zipIdx
def linearLabel (numbering : List (String × Nat)) (ordered : List String) (g : String) : Option String :=
  match numbering.lookup g with
  | none => none
  | some i => ordered[i]?

/-- `gene_counts[g_id] += 1` on an insertion-ordered dict -/
def bumpCount : List (String × Nat) → String → List (String × Nat)
  | [], g => [(g, 1)]
  | (k, v) :: rest, g => if k == g then (k, v + 1) :: rest else (k, v) :: bumpCount rest g

/-- `GraphBasedModelConstructor.select_reference_gene`: `iter` lists, per intron of the transcript that some gene
    owns, the iteration order of the set `intron_genes[intron]`; the dict is filled in that order -/
def geneCounts (iter : List (List String)) : List (String × Nat) := iter.flatten.foldl bumpCount []

/-- `sorted(gene_counts.items(), key=lambda x: (x[1], x[0]), reverse=True)`: `a` may stay before `b` -/
def refGeneBefore (a b : String × Nat) : Bool := decide (b.2 < a.2) || (a.2 == b.2 && decide (b.1 ≤ a.1))
/-- with the gene id dropped from the key (stable sort: ties keep the dict order) -/
def refGeneBeforeBuggy (a b : String × Nat) : Bool := decide (b.2 ≤ a.2)

def selectReferenceGene (iter : List (List String)) (strandOk : String → Bool) : Option String :=
  ((isort refGeneBefore (geneCounts iter)).find? (fun p => strandOk p.1)).map (·.1)
def selectReferenceGeneBuggy (iter : List (List String)) (strandOk : String → Bool) : Option String :=
  ((isort refGeneBeforeBuggy (geneCounts iter)).find? (fun p => strandOk p.1)).map (·.1)

def dedup : List String → List String
  | [] => []
  | x :: xs => if xs.contains x then dedup xs else x :: dedup xs

/-- read groups: per-chromosome set → `_groups` file (iteration order 1) → union in the parent → `_info` file
    (iteration order 2) → `set` → `sorted`: the header of every grouped table.  `perm2` re-orders the union. -/
def groupsHeader (perChrIter : List (List String)) (perm2 : List String → List String) : List String :=
  sortStr (dedup (perm2 (dedup perChrIter.flatten)))

/-! ## §5 multimapper bookkeeping: default vs --high_memory (`DatasetProcessor.collect_reads`) -/

/-- a `BasicReadAssignment` as far as the bookkeeping looks at it -/
structure BRec where
  readId : String
  chr : String
  polyA : Bool
  suspended : Bool        -- assignment_type == suspended (only the resolver sets it)
  tag : Nat               -- the rest
  deriving Repr, DecidableEq

/-- dict `read_id → [records]`: keys in the order of their first occurrence, every list in encounter order -/
def groupByRead : List BRec → List (String × List BRec)
  | [] => []
  | r :: rest =>
    (r.readId, r :: rest.filter (fun x => x.readId == r.readId))
      :: groupByRead (rest.filter (fun x => !(x.readId == r.readId)))
termination_by l => l.length
decreasing_by
  simp only [List.length_cons, List.length_unattach]
  exact Nat.lt_succ_of_le (Nat.le_trans (List.length_filter_le _ _) (by simp))

def keptCount (l : List BRec) : Nat := (l.filter (fun a => !a.suspended)).length
def keptPolyA (l : List BRec) : Nat := ((l.filter (fun a => !a.suspended)).filter (·.polyA)).length

/-- `resolve_multimappers`: lists longer than 1 are resolved and written to the per-chromosome tables (in dict
    order); every non-suspended record counts (returns table, total, polyA total) -/
def resolveAll (resolve : List BRec → List BRec) : List (String × List BRec) → List BRec × Nat × Nat
  | [] => ([], 0, 0)
  | g :: gs =>
    let rest := resolveAll resolve gs
    if g.2.length > 1 then
      let l := resolve g.2
      (l ++ rest.1, keptCount l + rest.2.1, keptPolyA l + rest.2.2)
    else
      (rest.1, keptCount g.2 + rest.2.1, keptPolyA g.2 + rest.2.2)

/-- high-memory mode: all records kept in memory -/
def bookkeepingHigh (resolve : List BRec → List BRec) (recs : List BRec) : List BRec × Nat × Nat :=
  resolveAll resolve (groupByRead recs)

def countId (recs : List BRec) (rid : String) : Nat := (recs.filter (fun x => x.readId == rid)).length

/-- default: only read ids are kept; `prepare_multimapper_dict` re-reads the save files, counts the unique reads
    directly and groups the others -/
def bookkeepingLow (resolve : List BRec → List BRec) (recs : List BRec) : List BRec × Nat × Nat :=
  let uniq := recs.filter (fun r => countId recs r.readId == 1)
  let multi := recs.filter (fun r => !(countId recs r.readId == 1))
  let res := resolveAll resolve (groupByRead multi)
  (res.1, res.2.1 + uniq.length, res.2.2 + (uniq.filter (·.polyA)).length)

end IsoVerif.Model.C06
