/-
C16 (growth c05edge) — `move_ref_coord_alogn_alignment` after the repair `fix: padding inside the walked tail`:
a `P` operation consumes neither read nor reference bases and is stepped over (`elif cigar_event == 6: pass`); the
"Unexpected event" branch formats its integer (`"%d" % cigar_event`) and continues.  Before the repair that branch
evaluated `"Unexpected event: " + cigar_event` – a `TypeError` that aborted the whole run (`moveRefLoop`,
`moveRefCoord`, `findPolyaTail`, `findPolytHead`, `detectPolya` of Model/PolyAFinder.lean keep that behaviour: they are
the `…Orig` definitions of this file).  Core Lean only.
-/
import IsoVerif.Model.PolyAFinder
import IsoVerif.Model.TailSpec
import IsoVerif.Model.FinderChar

namespace IsoVerif.Model.C16
open IsoVerif.Gen IsoVerif.Model

/-- the tree before the repair (names used by the `…_witness` theorems) -/
abbrev moveRefLoopOrig := moveRefLoop
abbrev moveRefCoordOrig := moveRefCoord
abbrev findPolyaTailOrig := findPolyaTail
abbrev findPolytHeadOrig := findPolytHead
abbrev detectPolyaOrig := detectPolya

def notPad (o : CigarOp) : Bool := o.1 != CigarEvent.padding

/-- the repaired `while` loop: every one of the nine operation kinds has a branch; the last `else` (an operation code
    outside 0..8 – not representable here, `CigarEvent(code)` has rejected it in `get_read_blocks` before) logs and goes on -/
def moveRefLoopFix (shift : Int) (readConsumed refConsumed : Int) : List CigarOp → Int
  | [] => refConsumed
  | op :: rest =>
    if ¬ (readConsumed < shift) then refConsumed
    else if op.1 = CigarEvent.insertion then moveRefLoopFix shift (readConsumed + op.2) refConsumed rest
    else if op.1 = CigarEvent.deletion ∨ op.1 = CigarEvent.skipped then
      moveRefLoopFix shift readConsumed (refConsumed + op.2) rest
    else if op.1 = CigarEvent.«match» ∨ op.1 = CigarEvent.seq_match ∨ op.1 = CigarEvent.seq_mismatch then
      let remaining := shift - readConsumed
      if op.2 < remaining then moveRefLoopFix shift (readConsumed + op.2) (refConsumed + op.2) rest
      else moveRefLoopFix shift (readConsumed + remaining) (refConsumed + remaining) rest
    else if op.1 = CigarEvent.soft_clipping ∨ op.1 = CigarEvent.hard_clipping then refConsumed
    else moveRefLoopFix shift readConsumed refConsumed rest      -- padding: `pass`

/-- repaired `move_ref_coord_alogn_alignment`; `none` = AssertionError (empty CIGAR) only -/
def moveRefCoordFix (cigar : List CigarOp) (shift : Int) : Option Int :=
  if shift = 0 then some 0
  else if cigar = [] then none
  else
    let walk := if shift > 0 then cigar else cigar.reverse
    let absShift := if shift > 0 then shift else -shift
    some (moveRefLoopFix (absShift + 1) 0 0 (walk.drop (leadingClips walk)) - 1)

/-- `find_polya_tail` with the projection as a parameter (`findPolyaTailWith moveRefCoord = findPolyaTail`, by `rfl`) -/
def findPolyaTailWith (move : List CigarOp → Int → Option Int) (window num den : Nat) (refStart : Int)
    (cigar : List CigarOp) (seq : List Char) (fromPos toPos : Int) (checkEntire : Bool) : Option Int :=
  if cigar = [] then none
  else if seq = [] then some (-1)
  else
    let clip := softClipTail cigar
    let n : Int := seq.length
    if ¬ (clip < n) then none          -- assert soft_clipped_tail_len < len(seq)
    else
      let mappedEnd := n - clip
      let start := max 0 (mappedEnd - fromPos)
      let stop := min n (mappedEnd + toPos + 1)
      let region := (slice seq start stop).map (fun c => upperChar c == 'A')
      match tailScan window num den checkEntire region with
      | none => some (-1)
      | some p =>
        let pos : Int := start + p
        let refEnd := referenceEnd refStart cigar
        if pos ≥ mappedEnd then some (refEnd + (pos - mappedEnd))
        else do
          let refShift ← move cigar (pos - mappedEnd)
          some (refEnd - refShift)

def findPolytHeadWith (move : List CigarOp → Int → Option Int) (window num den : Nat) (refStart : Int)
    (cigar : List CigarOp) (seq : List Char) (fromPos toPos : Int) (checkEntire : Bool) : Option Int :=
  if cigar = [] then none
  else if seq = [] then some (-1)
  else
    let clip := softClipHead cigar
    let n : Int := seq.length
    if ¬ (clip < n) then none
    else
      let mappedStart := clip
      let start := max 0 (mappedStart - toPos)
      let stop := min n (mappedStart + fromPos + 1)
      let region := ((slice seq start stop).reverse).map (fun c => upperChar c == 'T')
      match tailScan window num den checkEntire region with
      | none => some (-1)
      | some p =>
        let pos : Int := stop - p - 1
        if pos ≤ mappedStart then some (max 1 (refStart - (mappedStart - pos)))
        else do
          let refShift ← move cigar (pos - mappedStart)
          some (max 1 (refStart + refShift))

def detectPolyaWith (move : List CigarOp → Int → Option Int) (window num den : Nat) (refStart : Int)
    (cigar : List CigarOp) (seq : List Char) : Option PolyAInfo := do
  let w : Int := window
  let ea ← findPolyaTailWith move window num den refStart cigar seq 2 (2 * w) false
  let et ← findPolytHeadWith move window num den refStart cigar seq 2 (2 * w) false
  let ia ← findPolyaTailWith move window num den refStart cigar seq (4 * w) 2 true
  let it ← findPolytHeadWith move window num den refStart cigar seq (4 * w) 2 true
  some ⟨ea, et, ia, it⟩

/-- the repaired finder -/
def findPolyaTailFix := findPolyaTailWith moveRefCoordFix
def findPolytHeadFix := findPolytHeadWith moveRefCoordFix
def detectPolyaFix := detectPolyaWith moveRefCoordFix

/-! ### specifications of the repaired code (executable; evaluated by the driver against the real code) -/

/-- base-by-base projection, no exception for `P` (a `P` expands to no column that consumes anything) -/
def moveRefCoordSpecFix (cigar : List CigarOp) (shift : Int) : Option Int :=
  if shift = 0 then some 0
  else if cigar = [] then none
  else some ((refColsUpTo (expand (walkCore cigar (decide (shift > 0)))) shift.natAbs : Int) - 1)

def findPolyaTailSpecWith (moveSpec : List CigarOp → Int → Option Int) (w num den : Nat) (refStart : Int)
    (cigar : List CigarOp) (seq : List Char) (fromPos toPos : Int) (checkEntire : Bool) : Option Int :=
  if cigar = [] then none
  else if seq = [] then some (-1)
  else if (seq.length : Int) ≤ softClipTail cigar then none
  else
    match tailScanSpec w num den checkEntire (regionA cigar seq fromPos toPos) with
    | none => some (-1)
    | some p =>
      let q : Int := startA cigar seq fromPos + p
      let mappedEnd : Int := (seq.length : Int) - softClipTail cigar
      if mappedEnd ≤ q then some (referenceEnd refStart cigar + (q - mappedEnd))
      else (moveSpec cigar (q - mappedEnd)).map (referenceEnd refStart cigar - ·)

def findPolytHeadSpecWith (moveSpec : List CigarOp → Int → Option Int) (w num den : Nat) (refStart : Int)
    (cigar : List CigarOp) (seq : List Char) (fromPos toPos : Int) (checkEntire : Bool) : Option Int :=
  if cigar = [] then none
  else if seq = [] then some (-1)
  else if (seq.length : Int) ≤ softClipHead cigar then none
  else
    match tailScanSpec w num den checkEntire (regionT cigar seq fromPos toPos) with
    | none => some (-1)
    | some p =>
      let q : Int := stopT cigar seq fromPos - p - 1
      if q ≤ softClipHead cigar then some (max 1 (refStart - (softClipHead cigar - q)))
      else (moveSpec cigar (q - softClipHead cigar)).map (fun k => max 1 (refStart + k))

def findPolyaTailSpecFix := findPolyaTailSpecWith moveRefCoordSpecFix
def findPolytHeadSpecFix := findPolytHeadSpecWith moveRefCoordSpecFix

end IsoVerif.Model.C16
