/-
C16 / C11 (growth c16x) — `PolyAFinder.find_polyt_head` after the repair `fix: the polyT head window is the mirror image
of the polyA tail window` (src/polya_finder.py, two lines):

    to_check_start = max(0, read_mapped_region_start - to_pos - 1)        # was: … - to_pos
    to_check_end   = min(len(seq), read_mapped_region_start + from_pos)   # was: … + from_pos + 1

`find_polya_tail` scans `from_pos` aligned bases and `to_pos + 1` clipped bases; before the repair `find_polyt_head`
scanned `to_pos` clipped bases and `from_pos + 1` aligned ones, one base off the mirror image (`findPolytHeadFix`
of Model/FinderPad.lean keeps that window; `window_mirror_witness`).  The position convention is unchanged (0-based
coordinate of the last head base, clamped at 1 — pinned by tests/test_polya_cage_finder.py).  Core Lean only.
-/
import IsoVerif.Model.FinderPad

namespace IsoVerif.Model.C16
open IsoVerif.Gen IsoVerif.Model

/-- `find_polyt_head` with the repaired window, the projection as a parameter -/
def findPolytHeadWinWith (move : List CigarOp → Int → Option Int) (window num den : Nat) (refStart : Int)
    (cigar : List CigarOp) (seq : List Char) (fromPos toPos : Int) (checkEntire : Bool) : Option Int :=
  if cigar = [] then none
  else if seq = [] then some (-1)
  else
    let clip := softClipHead cigar
    let n : Int := seq.length
    if ¬ (clip < n) then none
    else
      let mappedStart := clip
      let start := max 0 (mappedStart - toPos - 1)
      let stop := min n (mappedStart + fromPos)
      let region := ((slice seq start stop).reverse).map (fun c => upperChar c == 'T')
      match tailScan window num den checkEntire region with
      | none => some (-1)
      | some p =>
        let pos : Int := stop - p - 1
        if pos ≤ mappedStart then some (max 1 (refStart - (mappedStart - pos)))
        else do
          let refShift ← move cigar (pos - mappedStart)
          some (max 1 (refStart + refShift))

/-- the repaired `find_polyt_head` (repaired window + the `P` repair of the projection) -/
def findPolytHeadWin := findPolytHeadWinWith moveRefCoordFix

/-- `detect_polya` with the repaired head window, the projection as a parameter -/
def detectPolyaWinWith (move : List CigarOp → Int → Option Int) (window num den : Nat) (refStart : Int)
    (cigar : List CigarOp) (seq : List Char) : Option PolyAInfo := do
  let w : Int := window
  let ea ← findPolyaTailWith move window num den refStart cigar seq 2 (2 * w) false
  let et ← findPolytHeadWinWith move window num den refStart cigar seq 2 (2 * w) false
  let ia ← findPolyaTailWith move window num den refStart cigar seq (4 * w) 2 true
  let it ← findPolytHeadWinWith move window num den refStart cigar seq (4 * w) 2 true
  some ⟨ea, et, ia, it⟩

/-- the repaired `detect_polya` (the code of /repo after both finder repairs) -/
def detectPolyaWin := detectPolyaWinWith moveRefCoordFix

/-- `sequence_to_check` of the repaired `find_polyt_head`: the last `to_pos + 1` clipped bases and the first `from_pos`
    aligned bases, reversed, flags "base is T" -/
def regionTWin (cigar : List CigarOp) (seq : List Char) (fromPos toPos : Int) : List Bool :=
  ((slice seq (max 0 (softClipHead cigar - toPos - 1))
    (min (seq.length : Int) (softClipHead cigar + fromPos))).reverse).map (fun c => upperChar c == 'T')

/-- `to_check_end` of the repaired `find_polyt_head` -/
def stopTWin (cigar : List CigarOp) (seq : List Char) (fromPos : Int) : Int :=
  min (seq.length : Int) (softClipHead cigar + fromPos)

/-- executable specification of the repaired `find_polyt_head` (brute-force scan of `regionTWin` + base-by-base
    projection); evaluated by the driver against the real code (op `find_polyt_head_spec`) -/
def findPolytHeadSpecWin (w num den : Nat) (refStart : Int) (cigar : List CigarOp) (seq : List Char)
    (fromPos toPos : Int) (checkEntire : Bool) : Option Int :=
  if cigar = [] then none
  else if seq = [] then some (-1)
  else if (seq.length : Int) ≤ softClipHead cigar then none
  else
    match tailScanSpec w num den checkEntire (regionTWin cigar seq fromPos toPos) with
    | none => some (-1)
    | some p =>
      let q : Int := stopTWin cigar seq fromPos - p - 1
      if q ≤ softClipHead cigar then some (max 1 (refStart - (softClipHead cigar - q)))
      else (moveRefCoordSpecFix cigar (q - softClipHead cigar)).map (fun k => max 1 (refStart + k))

end IsoVerif.Model.C16
