/-
C10 — from the name a description gives to an experiment to the folder and the files the experiment writes
(audit-2 GAP C10-1; side finding: several BAM files on one line of a list file).

`InputDataStorage.__init__` builds one `SampleData(files, name, os.path.join(args.output, name), …)` per parsed experiment and
`SampleData._init_paths` names every output file `os.path.join(out_dir, name + <suffix>)`.  The experiment name is therefore
a FOLDER name and a FILE PREFIX, and "every experiment gets exactly the files a separate run would produce" needs

  * the name to be a string at all (`name: 7` in a YAML file is an `int`: `os.path.join` raises TypeError and the whole
    invocation dies),
  * two accepted names never to denote one folder (`A` and `./A` are different strings and one folder),
  * the files `<out>/<name>/<name>.<suffix>` to lie in the experiment's own folder (`name: ""` puts `.gene_counts.tsv` into
    `<out>` itself, `A/` asks for `<out>/A/A/.gene_counts.tsv`).

What the source does about it is read off the source (`Gen.name_policy`, generator `gen_sample_name_policy`):
`namePolicyFixed` is the repaired tree (`str(sample['name'])`, blank → positional name, `check_experiment_name` before every
`SampleData`, one BAM file per list line), `namePolicyOrig` the tree before.  The parser loops themselves are the ones of
`Model/Samples.lean` (`parseYamlR`, `parseListR`), unchanged.

Paths are lists of characters (`String.toList`); `resolveL` is what a path MEANS: the list of directory entries walked from
the root (`.` and empty components skipped, `..` steps back) – `os.path.normpath` of an absolute path, and the file the
kernel opens when no component is a symbolic link.
-/
import IsoVerif.Model.Samples
import IsoVerif.Gen.SampleNamePolicy

namespace IsoVerif.Model.C10

/-! ## the value of the `name` key -/

/-- what `yaml.safe_load` returns for the `name` key of an experiment entry -/
inductive YamlName where
  | absent                      -- no such key
  | null                        -- `name:` with a blank value → `None`
  | str (s : String)
  | int (i : Int)               -- `name: 7`
  | bool (b : Bool)             -- `name: true`
  | other (printed : String)    -- float, date, list …: given by its Python `str()` (trusted)
  deriving DecidableEq, Repr

/-- Python `str(x)` -/
def YamlName.printed : YamlName → String
  | .absent => ""
  | .null => "None"
  | .str s => s
  | .int i => toString i
  | .bool true => "True"
  | .bool false => "False"
  | .other p => p

/-- the value is not a `str` object -/
def YamlName.nonString : YamlName → Bool
  | .null => true
  | .int _ => true
  | .bool _ => true
  | .other _ => true
  | _ => false

/-- (a) `str(sample['name'])` instead of `sample['name']`; (b) a blank / empty value is named by position like an absent key;
    (c) `check_experiment_name` before every `SampleData`; (d) `--bam_list`: a line with several files is refused -/
structure NamePolicy where
  yamlStr : Bool
  yamlBlank : Bool
  folderCheck : Bool
  oneBamPerLine : Bool
  deriving DecidableEq, Repr

def namePolicyOfSource : NamePolicy :=
  ⟨Gen.name_policy.lookup "yaml_name_value" == some "str",
   Gen.name_policy.lookup "yaml_blank_name" == some "positional",
   Gen.name_policy.lookup "folder_check" == some "all_samples",
   Gen.name_policy.lookup "bam_line_files" == some "one"⟩

/-- the repaired tree -/
def namePolicyFixed : NamePolicy := ⟨true, true, true, true⟩
/-- the tree before the repair (audit-2 GAP C10-1) -/
def namePolicyOrig : NamePolicy := ⟨false, false, false, false⟩

/-- an experiment entry of the YAML list as loaded -/
structure RawEntry where
  name : YamlName
  files : Option (List InFile)
  labels : Option (List String)
  illumina : Option (List String)
  deriving DecidableEq, Repr

/-- the name the loop of `get_samples_from_yaml` starts from; `none` = `<prefix><position>`.
    Without `str()` (`yamlStr = false`) a non-string value takes part in the loop under its printed value – that `7 == "7"` is
    false in Python is not modelled – and reaches `os.path.join` as it is (`rawCrash`). -/
def nameForLoop (pol : NamePolicy) : YamlName → Option String
  | .absent => none
  | .null => if pol.yamlBlank then none else some "None"
  | .str s => if pol.yamlBlank && s == "" then none else some s
  | .int i => some (YamlName.int i).printed
  | .bool b => some (YamlName.bool b).printed
  | .other p => some p

def RawEntry.toEntry (pol : NamePolicy) (e : RawEntry) : YamlEntry :=
  ⟨nameForLoop pol e.name, e.files, e.labels, e.illumina⟩

/-- the entry becomes an experiment (it has files) -/
def RawEntry.hasFiles (e : RawEntry) : Bool :=
  match e.files with
  | some (_ :: _) => true
  | _ => false

/-- `os.path.join(args.output, <not a str>)`: TypeError.  Exact when at most the non-string names collide with each other;
    the first experiment of every group of equal names keeps its own (non-string) name, so one of them always gets there. -/
def rawCrash (pol : NamePolicy) (entries : List RawEntry) : Bool :=
  !pol.yamlStr && entries.any (fun e => e.name.nonString && !(pol.yamlBlank && e.name == .null) && e.hasFiles)

/-! ## paths -/

/-- `posixpath.join(a, b)` -/
def pathJoinL (a b : List Char) : List Char :=
  if b.head? = some '/' then b
  else if a = [] ∨ a.getLast? = some '/' then a ++ b
  else a ++ '/' :: b

/-- `posixpath.basename(p)`: what follows the last slash -/
def basenameL (p : List Char) : List Char := (p.reverse.takeWhile (fun c => c != '/')).reverse

/-- `check_experiment_name`: `name in ('', '.', '..') or os.path.basename(name) != name` -/
def badFolderNameL (n : List Char) : Bool :=
  n == [] || n == ['.'] || n == ['.', '.'] || basenameL n != n

def badFolderName (n : String) : Bool := badFolderNameL n.toList

/-- `SampleData.out_dir` -/
def outDirL (out name : List Char) : List Char := pathJoinL out name
/-- `SampleData._make_path(prefix + suffix)` -/
def outFileL (out name suffix : List Char) : List Char := pathJoinL (outDirL out name) (name ++ suffix)

/-- the components between slashes (`p.split('/')`) -/
def splitSlash : List Char → List (List Char)
  | [] => [[]]
  | c :: cs =>
    if c = '/' then [] :: splitSlash cs
    else match splitSlash cs with
      | [] => [[c]]
      | h :: t => (c :: h) :: t

/-- one step of the walk: `` and `.` stay, `..` goes up (the root is its own parent), a name goes down -/
def walkStep (stack : List (List Char)) (comp : List Char) : List (List Char) :=
  if comp = [] ∨ comp = ['.'] then stack
  else if comp = ['.', '.'] then stack.dropLast
  else stack ++ [comp]

def resolveFrom (base : List (List Char)) (p : List Char) : List (List Char) := (splitSlash p).foldl walkStep base

/-- the directory entries walked from the root to reach `p` -/
def resolveL (p : List Char) : List (List Char) := resolveFrom [] p

/-- the folder of the experiment `name` of a run with `--output out` -/
def folderOf (out name : String) : List (List Char) := resolveL (outDirL out.toList name.toList)
/-- … and its file `<name><suffix>` -/
def fileOf (out name : String) (suffix : List Char) : List (List Char) := resolveL (outFileL out.toList name.toList suffix)

/-! ## a description → experiments, a refusal, or a traceback -/

inductive Described (α : Type) where
  | ok (a : α)
  | exit                -- logger.critical + exit(…): the user is told what to change
  | crash               -- an exception kills the invocation
  deriving DecidableEq, Repr

/-- `get_samples_from_yaml` + the loop of `__init__` that builds the samples -/
def describeYamlP (pol : NamePolicy) (rc : Bool) (pfx : String) (entries : List RawEntry) : Described (List ParsedSample) :=
  match parseYamlR rc pfx (entries.map (RawEntry.toEntry pol)) with
  | none => .exit
  | some rs =>
    if rawCrash pol entries then .crash
    else if pol.folderCheck && rs.any (fun r => badFolderName r.name) then .exit
    else .ok rs

/-- … of the current source -/
def describeYaml (pfx : String) (entries : List RawEntry) : Described (List ParsedSample) :=
  describeYamlP namePolicyOfSource renameRuleOfSource.yaml pfx entries

/-- the line names several files -/
def ListLine.manyFiles : ListLine → Bool
  | .files fs _ => decide (fs.length > 1)
  | .header _ => false

/-- `get_samples_from_file` (`bam` = `self.input_type == "bam"`: called for `--bam_list`, else `--fastq_list`): the line loop of
    `Model/Samples.lean`, behind the refusal of a BAM line that names several files (the exit sits inside the loop; every earlier
    way out of the loop is an exit too, so its position does not show) -/
def parseListP (pol : NamePolicy) (rc : Bool) (bam : Bool) (pfx : String) (lines : List ListLine) : Option (List ParsedSample) :=
  if pol.oneBamPerLine && bam && lines.any ListLine.manyFiles then none
  else parseListR rc pfx lines

/-- … of the current source, for BAM input (what `harness/props/C09_growth.py: real_list` calls) -/
def parseListBam (pfx : String) (lines : List ListLine) : Option (List ParsedSample) :=
  parseListP namePolicyOfSource renameRuleOfSource.list true pfx lines

/-- `get_samples_from_file` + the loop of `__init__` -/
def describeListP (pol : NamePolicy) (rc : Bool) (bam : Bool) (pfx : String) (lines : List ListLine) :
    Described (List ParsedSample) :=
  match parseListP pol rc bam pfx lines with
  | none => .exit
  | some rs =>
    if pol.folderCheck && rs.any (fun r => badFolderName r.name) then .exit
    else .ok rs

def describeList (bam : Bool) (pfx : String) (lines : List ListLine) : Described (List ParsedSample) :=
  describeListP namePolicyOfSource renameRuleOfSource.list bam pfx lines

/-- BAM input: `list(map(lambda x: x[0], sample.file_list))` – the files the run opens (`none` = IndexError on an empty library) -/
def openedBams (r : ParsedSample) : Option (List String) := r.libs.mapM List.head?

end IsoVerif.Model.C10
