/-
C07 — the run of Model/Resume.lean with a process pool (`--threads N`, N > 1).  Core Lean only.

What is modelled (src/dataset_processor.py `collect_reads` / `process_assigned_reads`):

    with ProcessPoolExecutor(max_workers=self.args.threads) as proc:
        results = proc.map(collect_reads_in_parallel, ..., chr_ids, ..., chunksize=1)

* a **parallel stage** = one task per chromosome, every task executed by some worker process.  Leaving the `with`
  block waits for *all* tasks (`shutdown(wait=True)`): that is the stage barrier.  The main process touches the file
  system only before and after the block, so the run is
      main-process stages · POOL(collect tasks) · main-process stages (multimappers, info, lock, final files opened)
      · POOL(construct tasks) · main-process stages (drop `_processed`, merge, clean-up);
* every task looks at the file system when the stage starts (its skip-if-locked branch, its existence checks) — all
  files a task reads or writes carry its own chromosome or are written by the main process only, see
  `Lemmas/ResumePool.lean` — and yields the event list `(runActs (task c fs) fs).evs` (cut at the point where it raises);
* a task that raises does **not** stop the other tasks (the exception is stored in its future and re-raised by the
  main process when it iterates over `results`, after the barrier): the stage fails, but only after every other task
  ran to its end.  (With `--threads 1` the tasks are a lazy `map`: a raise stops the later ones — `runStages`.)
* the global event list of the stage is an **arbitrary interleaving** of the per-task lists.  An interleaving is given by
  a *schedule*: a list of chromosomes, "the next event is performed by the task of chromosome c" (`weave`).  Entries of
  tasks that have nothing left are skipped, and the schedule is completed by `fill` (every task performs what it has
  left): every schedule is total, and every interleaving of the per-task lists is `weave` of some schedule.
* a crash = a prefix of the global event list; the events of each task in it form a prefix of the task's list, a task
  that was not started contributes nothing.  Every tuple of per-task prefixes is the crash state of some schedule
  (`c₁ⁿ¹ c₂ⁿ² …`).  With N workers the executor starts a task only when a worker is free, so only the tuples with at
  most N partially executed tasks (started in submission order) are reachable in reality: the schedules quantified
  over here are a superset of the reachable ones, nothing is lost by not modelling the worker limit.
-/
import IsoVerif.Model.Resume

namespace IsoVerif.Model.Resume

/-- interleaving of per-task event lists: `rem c` = what the task of chromosome `c` still has to perform; the schedule
    names the task that performs the next event (entries of finished tasks / of no task are skipped) -/
def weave : List Chr → (Chr → List Ev) → List Ev
  | [], _ => []
  | c :: s, rem =>
      match rem c with
      | [] => weave s rem
      | e :: es => e :: weave s (fun x => if x = c then es else rem x)

/-- the barrier: whatever the schedule left undone is performed before the stage ends (task by task) -/
def fill (cs : List Chr) (rem : Chr → List Ev) : List Chr :=
  cs.flatMap (fun c => List.replicate (rem c).length c)

/-- the event lists of the tasks of a parallel stage started on `fs` -/
def taskEvents (task : Chr → Stage) (cs : List Chr) (fs : FS) : Chr → List Ev :=
  fun c => if c ∈ cs then (runActs (task c fs) fs).evs else []

/-- one parallel stage: tasks `cs`, schedule `sched` -/
def poolStage (task : Chr → Stage) (cs sched : List Chr) (fs : FS) : Res :=
  let rem := taskEvents task cs fs
  let es := weave (sched ++ fill cs rem) rem
  ⟨es, applyAll fs es, cs.all (fun c => (runActs (task c fs) fs).ok)⟩

inductive Phase where
  | seq (s : Stage)                                      -- executed by the main process
  | pool (task : Chr → Stage) (cs sched : List Chr)      -- ProcessPoolExecutor.map over the chromosomes

def runPhase : Phase → FS → Res
  | .seq s, fs => runActs (s fs) fs
  | .pool task cs sched, fs => poolStage task cs sched fs

def runPhases : List Phase → FS → Res
  | [], fs => ⟨[], fs, true⟩
  | p :: ps, fs =>
      let r := runPhase p fs
      if r.ok then
        let r2 := runPhases ps r.fs
        ⟨r.evs ++ r2.evs, r2.fs, r2.ok⟩
      else r

/-- the stages of `stages` (Model/Resume.lean), the two per-chromosome loops replaced by parallel stages;
    `s1` / `s2` = the schedules of the collection / model-construction pool -/
def phases (v : Variant) (cfg : Cfg) (ord : List Path) (resume sk : Bool) (s1 s2 : List Chr) : List Phase :=
  [.seq (paramsStage v resume), .seq (refStage v cfg resume), .seq (rgStage cfg resume), .seq (collectPre cfg resume (sk || cfg.fromSaves)),
   .pool (collectChr v cfg resume (sk || cfg.fromSaves)) cfg.chrs s1,
   .seq (collectPost cfg (sk || cfg.fromSaves)), .seq (constructPre cfg),
   .pool (constructChr v cfg resume) cfg.chrs s2,
   .seq (dropStage v cfg), .seq (mergeStage cfg (unalOK v cfg sk))]
  ++ (if cfg.keepTmp || cfg.fromSaves then []
      else [.seq (cleanupLocks v cfg), .seq (globStage isSaveAux ord), .seq (globStage isRgAux ord)])

/-- one run with a process pool on the file system `fs` -/
def runPool (v : Variant) (cfg : Cfg) (ord : List Path) (resume : Bool) (s1 s2 : List Chr) (fs : FS) : Res :=
  runPhases (.seq (forceClean v cfg resume) :: phases v cfg ord resume (resume && fs.has .lock) s1 s2) fs

/-- the file system left by a pool run started on `fs0` and killed after `k` events of its global event list -/
def crashFSPool (v : Variant) (cfg : Cfg) (ord : List Path) (s1 s2 : List Chr) (fs0 : FS) (k : Nat) : FS :=
  applyAll fs0 ((runPool v cfg ord false s1 s2 fs0).evs.take k)

/-- start on `fs0` with schedules `s1 s2`, kill after `k` events, resume (directory order `ord'`, schedules `s1' s2'`),
    compare with the uninterrupted run on `fs0` -/
def verdictPoolFrom (v : Variant) (cfg : Cfg) (ord ord' : List Path) (s1 s2 s1' s2' : List Chr) (fs0 : FS) (k : Nat) :
    Verdict :=
  let r := runPool v cfg ord' true s1' s2' (crashFSPool v cfg ord s1 s2 fs0 k)
  if !r.ok then .fail
  else if sameFinals cfg r.fs (runPool v cfg ord false s1 s2 fs0).fs then .equal
  else .diff

/-- the same with the resumed run under the options of its own command line (`resumeCfg`, Model/Resume.lean) -/
def verdictPoolFromOpts (v : Variant) (cfg : Cfg) (ord ord' : List Path) (hm kt : Bool) (s1 s2 s1' s2' : List Chr) (fs0 : FS)
    (k : Nat) : Verdict :=
  let r := runPool v (resumeCfg cfg hm kt) ord' true s1' s2' (crashFSPool v cfg ord s1 s2 fs0 k)
  if !r.ok then .fail
  else if sameFinals cfg r.fs (runPool v cfg ord false s1 s2 fs0).fs then .equal
  else .diff

def verdictPool (v : Variant) (cfg : Cfg) (ord ord' : List Path) (s1 s2 s1' s2' : List Chr) (k : Nat) : Verdict :=
  verdictPoolFrom v cfg ord ord' s1 s2 s1' s2' FS.empty k

/-- the largest number of tasks simultaneously in progress (first event performed, last one not yet) along a schedule;
    `started` = the tasks that have performed an event.  An executor with `n` workers only produces schedules with
    `maxInProgress ≤ n` (a worker executes one task at a time) -/
def maxInProgress : List Chr → (Chr → List Ev) → List Chr → Nat
  | [], _, _ => 0
  | c :: s, rem, started =>
      match rem c with
      | [] => maxInProgress s rem started
      | _ :: es =>
          let started' := if started.contains c then started else c :: started
          let now := (started'.filter (fun x => x == c || !(rem x).isEmpty)).length
          max now (maxInProgress s (fun x => if x = c then es else rem x) started')

/-- workers needed by schedule `sched` of a parallel stage started on `fs` -/
def workersNeeded (task : Chr → Stage) (cs sched : List Chr) (fs : FS) : Nat :=
  maxInProgress sched (taskEvents task cs fs) []

end IsoVerif.Model.Resume
