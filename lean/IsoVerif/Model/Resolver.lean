/-
C08 — executable model of multimapper resolution.

  src/multimap_resolver.py   MultimapResolver.resolve / select_best_assignment / select_best_inconsistent /
                             merge_assignments / filter_assignments / find_duplicates / select_noninformative
  src/isoform_assignment.py  BasicReadAssignment (compact record, `__eq__`, penalty_score)
  src/dataset_processor.py   the two ways the per-read lists are built (`--high_memory` vs
                             `prepare_multimapper_dict`), `resolve_multimappers` (verdict written per chromosome),
                             `ReadAssignmentLoader.get_next` (verdict re-applied; suspended skipped)
  src/intron_graph.py        IntronCollector.collect_introns / IntronGraph.construct (multimappers ignored)
  src/long_read_counter.py   the weight one record adds to a count table (local copy, only for `read_total`)

Core Lean only.  String identifiers (read id, chromosome, isoform, gene) are natural numbers: the harness
interns the strings order-preservingly (rank in the sorted set of strings), so `=` and `<` on the numbers are
Python's `==` and `<` on the strings.  `penalty` is `penalty_score * 2^20` (the on-disk unit).
Exceptions of the real code are `none`.
-/
import IsoVerif.Gen.Enums
import IsoVerif.Gen.EventClasses
import IsoVerif.Gen.Strategies
import IsoVerif.Gen.Prims
import IsoVerif.Gen.Resolver

namespace IsoVerif.Model.Resolver
open IsoVerif.Gen

abbrev RType := ReadAssignmentType

/-- `BasicReadAssignment` -/
structure Rec where
  aid : Nat
  readId : Nat
  chr : Nat
  start : Int
  stop : Int
  region : Iv
  multimapper : Bool
  polyA : Bool
  atype : RType
  gtype : RType
  penalty : Int
  isoforms : List Nat
  genes : List Nat
  deriving DecidableEq, Repr, Inhabited

/-- `BasicReadAssignment.__eq__` (fields: `Gen.basic_eq_fields`) -/
def recEq (a b : Rec) : Bool :=
  a.readId == b.readId && a.chr == b.chr && a.start == b.start && a.stop == b.stop && a.isoforms == b.isoforms

/-- a record together with its index in the read's list (`enumerate(assignment_list)`) -/
abbrev IRec := Rec × Nat

/-- the loop of `find_duplicates`: an element is selected unless an already *selected* earlier element is
    equal to it (that is what the `discarded_duplicates` set records); `kept` = `selected_assignments` -/
def firstWinsAux {α : Type} (eq : α → α → Bool) : List α → List α → List α
  | kept, [] => kept
  | kept, x :: rest =>
    if kept.any (fun k => eq k x) then firstWinsAux eq kept rest else firstWinsAux eq (kept ++ [x]) rest

/-- first-wins elimination of duplicates (also `set(xs)` in first-occurrence order) -/
def firstWins {α : Type} (eq : α → α → Bool) (l : List α) : List α := firstWinsAux eq [] l

/-- `find_duplicates(assignment_list, assignment_indices)` for a *list* of indices -/
def findDuplicates (keep : List IRec) : List IRec :=
  firstWins (fun a b => recEq a.1 b.1) keep

/-- `len(set(xs))` -/
def setSize (xs : List Nat) : Nat := (firstWins (fun a b => a == b) xs).length

def suspend (r : Rec) : Rec := { r with atype := .suspended, gtype := .suspended }

/-- the body of the `if i in assignments_to_keep_set` branch of `filter_assignments` -/
def flag (changeT changeG : Bool) (r : Rec) : Rec :=
  let amb : RType := if r.atype.is_inconsistent then .inconsistent_ambiguous else .ambiguous
  let r1 : Rec := if changeT then { r with atype := amb, multimapper := true } else r
  if changeG then { r1 with gtype := amb, multimapper := true } else r1

/-- `filter_assignments` once the kept indices are known (after `find_duplicates`).
    `several_kept = len(assignments_to_keep) > 1`: the read is re-flagged only when it is kept on several records; a
    single retained record keeps the types and the multimapper flag it came with (audit-2 GAP C08-1, `fix:` commit) -/
def applyKeep (l : List Rec) (kept : List IRec) : List Rec :=
  let several := decide (1 < kept.length)
  let changeT := several && decide (1 < setSize (kept.flatMap (fun x => x.1.isoforms)))
  let changeG := several && decide (1 < setSize (kept.flatMap (fun x => x.1.genes)))
  l.zipIdx.map (fun x => if (kept.map (·.2)).contains x.2 then flag changeT changeG x.1 else suspend x.1)

/-- the same before that fix: the flags looked at the names only, so ONE retained record that names two isoforms at its
    own locus (`ambiguous` / `inconsistent_ambiguous`) was re-flagged `multimapper` because of records that lost
    (kept for the regression witness `single_winner_witness`) -/
def applyKeepBuggy (l : List Rec) (kept : List IRec) : List Rec :=
  let changeT := decide (1 < setSize (kept.flatMap (fun x => x.1.isoforms)))
  let changeG := decide (1 < setSize (kept.flatMap (fun x => x.1.genes)))
  l.zipIdx.map (fun x => if (kept.map (·.2)).contains x.2 then flag changeT changeG x.1 else suspend x.1)

/-- `filter_assignments(assignment_list, assignments_to_keep)` with a list of indices -/
def filterAssignments (l : List Rec) (keep : List IRec) : List Rec :=
  applyKeep l (findDuplicates keep)

/-! ### classes of `select_best_assignment` (the `if / elif / else` of its loop) -/

def isInc (r : Rec) : Bool := r.atype.is_inconsistent
def isCons (r : Rec) : Bool := !r.atype.is_inconsistent && r.atype.is_consistent
def isNoninf (r : Rec) : Bool := !r.atype.is_inconsistent && !r.atype.is_consistent
def isPrimaryUnique (r : Rec) : Bool := isCons r && !r.multimapper && !(r.atype == .ambiguous)
def isPrimaryInc (r : Rec) : Bool := isInc r && !r.multimapper

/-- `best_score = min(assignment_scores, key=...)[0]` over a non-empty list given as head + tail -/
def minPenalty (first : Int) (rest : List IRec) : Int :=
  rest.foldl (fun m x => min m x.1.penalty) first

/-- the candidates `select_best_inconsistent` hands to `filter_assignments` -/
def bestInconsistent : List IRec → List IRec
  | [] => []
  | [a] => [a]
  | a :: b :: rest =>
    let best := minPenalty a.1.penalty (b :: rest)
    (a :: b :: rest).filter (fun x => x.1.penalty == best)

def selectBestInconsistent (l : List Rec) (inc : List IRec) : List Rec :=
  filterAssignments l (bestInconsistent inc)

/-- `intersection_len(assignment.genomic_region, (assignment.start, assignment.end))` -/
def overlapLen (r : Rec) : Int := intersection_len r.region (r.start, r.stop)

/-- `max_overlap_len` after the first loop of `select_noninformative` (starts from 0) -/
def maxOverlap (non : List IRec) : Int := non.foldl (fun m x => max m (overlapLen x.1)) 0

/-- the tuple `(region start, chr_id, start, end, isoforms)` compared by the tie-break, flattened
    (lexicographic order of the flat list = Python's tuple order, the first four components having fixed length) -/
def tieKey (r : Rec) : List Int := [r.region.1, (r.chr : Int), r.start, r.stop] ++ r.isoforms.map (fun n => Int.ofNat n)

/-- second loop of `select_noninformative` (fixed tree): `b` is `best_assignment` (`none` = -1) -/
def pickBest (maxOv : Int) : Option IRec → List IRec → Option IRec
  | b, [] => b
  | none, x :: rest =>
    if overlapLen x.1 == maxOv then pickBest maxOv (some x) rest else pickBest maxOv none rest
  | some y, x :: rest =>
    if overlapLen x.1 == maxOv then
      (if tieKey x.1 < tieKey y.1 then pickBest maxOv (some x) rest else pickBest maxOv (some y) rest)
    else pickBest maxOv (some y) rest

/-- the same loop before the `fix:` commit: only `region start < min_region_start` (first of a tie wins) -/
def pickBestBuggy (maxOv : Int) : Option IRec → List IRec → Option IRec
  | b, [] => b
  | none, x :: rest =>
    if overlapLen x.1 == maxOv then pickBestBuggy maxOv (some x) rest else pickBestBuggy maxOv none rest
  | some y, x :: rest =>
    if overlapLen x.1 == maxOv then
      (if x.1.region.1 < y.1.region.1 then pickBestBuggy maxOv (some x) rest else pickBestBuggy maxOv (some y) rest)
    else pickBestBuggy maxOv (some y) rest

/-- the single candidate of `select_noninformative`; `none` = the `assert best_assignment != -1` fails -/
def bestNoninformative (non : List IRec) : Option IRec := pickBest (maxOverlap non) none non
def bestNoninformativeBuggy (non : List IRec) : Option IRec := pickBestBuggy (maxOverlap non) none non

def selectNoninformative (l : List Rec) (non : List IRec) : Option (List Rec) :=
  (bestNoninformative non).map (fun x => filterAssignments l [x])

def classPU (l : List Rec) : List IRec := l.zipIdx.filter (fun x => isPrimaryUnique x.1)
def classCons (l : List Rec) : List IRec := l.zipIdx.filter (fun x => isCons x.1)
def classPInc (l : List Rec) : List IRec := l.zipIdx.filter (fun x => isPrimaryInc x.1)
def classInc (l : List Rec) : List IRec := l.zipIdx.filter (fun x => isInc x.1)
def classNon (l : List Rec) : List IRec := l.zipIdx.filter (fun x => isNoninf x.1)

/-- `select_best_assignment`; `none` on the empty list (`assignment_list[0]` raises) or a failed assert -/
def selectBestAssignment (l : List Rec) : Option (List Rec) :=
  if l.isEmpty then none
  else if !(classPU l).isEmpty then some (filterAssignments l (classPU l))
  else if !(classCons l).isEmpty then some (filterAssignments l (classCons l))
  else if !(classPInc l).isEmpty then some (selectBestInconsistent l (classPInc l))
  else if !(classInc l).isEmpty then some (selectBestInconsistent l (classInc l))
  else if !(classNon l).isEmpty then selectNoninformative l (classNon l)
  else some (l.take 1)

/-- `select_best_assignment` of the tree before the `fix:` commit (kept for the regression witness) -/
def selectBestAssignmentBuggy (l : List Rec) : Option (List Rec) :=
  if l.isEmpty then none
  else if !(classPU l).isEmpty then some (filterAssignments l (classPU l))
  else if !(classCons l).isEmpty then some (filterAssignments l (classCons l))
  else if !(classPInc l).isEmpty then some (selectBestInconsistent l (classPInc l))
  else if !(classInc l).isEmpty then some (selectBestInconsistent l (classInc l))
  else if !(classNon l).isEmpty then
    (bestNoninformativeBuggy (classNon l)).map (fun x => filterAssignments l [x])
  else some (l.take 1)

/-- `merge_assignments`: the informative indices are collected in a `set`; `find_duplicates` returns a
    collection of at most one index unchanged and subscripts anything longer, which raises `TypeError`
    on a set (`none`) -/
def mergeAssignments (l : List Rec) : Option (List Rec) :=
  let inf := l.zipIdx.filter (fun x => !(x.1.atype == .noninformative))
  if inf.length ≤ 1 then some (applyKeep l inf) else none

/-- `MultimapResolver.resolve` -/
def resolve (s : MultimapResolvingStrategy) (l : List Rec) : Option (List Rec) :=
  if l.length ≤ 1 then some l
  else match s with
    | .ignore_multimapper => some (l.map (fun r => { r with atype := .suspended }))
    | .merge => mergeAssignments l
    | .take_best => selectBestAssignment l

/-- the candidates (before `find_duplicates`) `select_best_assignment` chooses on a non-empty list -/
def candidates (l : List Rec) : Option (List IRec) :=
  if l.isEmpty then none
  else if !(classPU l).isEmpty then some (classPU l)
  else if !(classCons l).isEmpty then some (classCons l)
  else if !(classPInc l).isEmpty then some (bestInconsistent (classPInc l))
  else if !(classInc l).isEmpty then some (bestInconsistent (classInc l))
  else (bestNoninformative (classNon l)).map (fun x => [x])

/-- `select_best_assignment` before the `several_kept` fix (the same candidates, the old flag rule) -/
def selectBestAssignmentBuggyFlag (l : List Rec) : Option (List Rec) :=
  (candidates l).map (fun c => applyKeepBuggy l (findDuplicates c))

/-- observable verdict: a record of the resolver's output is retained iff it is not `suspended` -/
def retained (out : List Rec) : List Rec := out.filter (fun r => !(r.atype == .suspended))

/-- the alignment a record stands for (the `__eq__` fields besides the read id) -/
abbrev Key := Nat × Int × Int × List Nat
def key (r : Rec) : Key := (r.chr, r.start, r.stop, r.isoforms)

/-- `BasicReadAssignment.__init__` / `deserialize_from_read_assignment`: `penalty_score` starts at 0.0 and is
    replaced, once per isoform match, by `min(penalty_score, isoform_matches[0].penalty_score)` -/
def compactPenalty : List Int → Int
  | [] => 0
  | p0 :: rest => (p0 :: rest).foldl (fun acc _ => min acc p0) 0

/-! ### the pickle boundary (`__getstate__` / `__setstate__`): results of worker processes, `--high_memory --threads > 1` -/

/-- a value in the state tuple -/
inductive PVal where
  | nat (n : Nat) | int (i : Int) | bool (b : Bool) | rtype (t : RType) | nats (l : List Nat)
  deriving DecidableEq, Repr

/-- the element `__getstate__` emits for a layout entry (`none` = a name the model does not know) -/
def getField (f : String) (r : Rec) : Option PVal :=
  if f == "assignment_id" then some (.nat r.aid)
  else if f == "read_id" then some (.nat r.readId)
  else if f == "chr_id" then some (.nat r.chr)
  else if f == "start" then some (.int r.start)
  else if f == "end" then some (.int r.stop)
  else if f == "genomic_region.0" then some (.int r.region.1)
  else if f == "genomic_region.1" then some (.int r.region.2)
  else if f == "multimapper" then some (.bool r.multimapper)
  else if f == "polyA_found" then some (.bool r.polyA)
  else if f == "assignment_type" then some (.rtype r.atype)
  else if f == "gene_assignment_type" then some (.rtype r.gtype)
  else if f == "penalty_score" then some (.int r.penalty)
  else if f == "isoforms" then some (.nats r.isoforms)
  else if f == "genes" then some (.nats r.genes)
  else none

/-- `self.<f> = v` in `__setstate__` (Python stores whatever it is given: a value of another kind in a slot is kept
    as such and breaks the consumer later; the model reports it as `none`) -/
def setField (f : String) (v : PVal) (r : Rec) : Option Rec :=
  match v with
  | .nat n =>
    if f == "assignment_id" then some { r with aid := n }
    else if f == "read_id" then some { r with readId := n }
    else if f == "chr_id" then some { r with chr := n }
    else none
  | .int i =>
    if f == "start" then some { r with start := i }
    else if f == "end" then some { r with stop := i }
    else if f == "genomic_region.0" then some { r with region := (i, r.region.2) }
    else if f == "genomic_region.1" then some { r with region := (r.region.1, i) }
    else if f == "penalty_score" then some { r with penalty := i }
    else none
  | .bool b =>
    if f == "multimapper" then some { r with multimapper := b }
    else if f == "polyA_found" then some { r with polyA := b }
    else none
  | .rtype t =>
    if f == "assignment_type" then some { r with atype := t }
    else if f == "gene_assignment_type" then some { r with gtype := t }
    else none
  | .nats l =>
    if f == "isoforms" then some { r with isoforms := l }
    else if f == "genes" then some { r with genes := l }
    else none

/-- `__getstate__` over the generated layout -/
def getstate (r : Rec) : Option (List PVal) := basic_getstate_layout.mapM (fun f => getField f r)

/-- `__setstate__` over the generated layout, on a fresh object -/
def setstate (st : List PVal) : Option Rec :=
  basic_setstate_layout.foldlM (fun acc p => (st[p.2]?).bind (fun v => setField p.1 v acc)) (default : Rec)

/-- `pickle.loads(pickle.dumps(a))` -/
def pickleRoundTrip (r : Rec) : Option Rec := (getstate r).bind setstate

/-! ### how the per-read lists are built (`DatasetProcessor.collect_reads`) -/

/-- append `r` to the list of its read id in an insertion-ordered dict (`defaultdict(list)`) -/
def dictAppend : List (Nat × List Rec) → Rec → List (Nat × List Rec)
  | [], r => [(r.readId, [r])]
  | (k, v) :: rest, r => if k == r.readId then (k, v ++ [r]) :: rest else (k, v) :: dictAppend rest r

/-- `--high_memory`: every record of every chromosome, in processing order, appended under its read id -/
def groupAll (records : List Rec) : List (Nat × List Rec) := records.foldl dictAppend []

/-- `--high_memory` with worker processes: the records come back through the pickle boundary -/
def groupAllPickled (records : List Rec) : Option (List (Nat × List Rec)) :=
  (records.mapM pickleRoundTrip).map groupAll

/-- default mode, first pass: `multimappers_counts[read_id] += 1` -/
def countOf (records : List Rec) (rid : Nat) : Nat := (records.filter (fun r => r.readId == rid)).length

/-- default mode, `prepare_multimapper_dict`: records whose read id was seen exactly once are skipped -/
def groupMulti (records : List Rec) : List (Nat × List Rec) :=
  (records.filter (fun r => !(countOf records r.readId == 1))).foldl dictAppend []

/-- `resolve_multimappers`: only lists longer than one are resolved and written; result per read id -/
def resolveAll (s : MultimapResolvingStrategy) (d : List (Nat × List Rec)) : List (Nat × Option (List Rec)) :=
  (d.filter (fun kv => 1 < kv.2.length)).map (fun kv => (kv.1, resolve s kv.2))

/-- the verdict file of chromosome `c`: the resolved records with that `chr_id`, grouped per read id
    (`construct_models_in_parallel` rebuilds `multimapped_reads[read_id]` from it) -/
def verdictsFor (c : Nat) (resolved : List (Nat × List Rec)) : List (Nat × List Rec) :=
  (resolved.map (fun kv => (kv.1, kv.2.filter (fun r => r.chr == c)))).filter (fun kv => !kv.2.isEmpty)

/-! ### `ReadAssignmentLoader.get_next`: the verdict re-applied to the full records -/

/-- the fields of a full `ReadAssignment` that the consumers downstream of the loader look at -/
structure Full where
  aid : Nat
  readId : Nat
  chr : Nat
  atype : RType
  gtype : RType
  multimapper : Bool
  introns : List Iv
  isoforms : List Nat
  deriving DecidableEq, Repr, Inhabited

/-- `for a in dict[read_id]: if a.assignment_id == ... and a.chr_id == ...: resolved_assignment = a` (last wins) -/
def lookupVerdict (vs : List Rec) (ra : Full) : Option Rec :=
  vs.foldl (fun acc a => if a.aid == ra.aid && a.chr == ra.chr then some a else acc) none

/-- one iteration of the `while self.unpickler.is_read_assignment()` loop: `none` = `continue` -/
def loadOne (dict : List (Nat × List Rec)) (ra : Full) : Option Full :=
  match dict.lookup ra.readId with
  | none => some ra
  | some vs =>
    match lookupVerdict vs ra with
    | none => none
    | some a =>
      if a.atype == .suspended then none
      else some { ra with atype := a.atype, gtype := a.gtype, multimapper := a.multimapper }

/-- a second verdict with the same (assignment id, chromosome) makes the loop log "Duplicate read ... a.gene_id",
    an attribute `BasicReadAssignment` does not have: `AttributeError` -/
def dupVerdict (vs : List Rec) (ra : Full) : Bool :=
  decide (2 ≤ (vs.filter (fun a => a.aid == ra.aid && a.chr == ra.chr)).length)

def raisesFor (dict : List (Nat × List Rec)) (ra : Full) : Bool :=
  match dict.lookup ra.readId with
  | none => false
  | some vs => dupVerdict vs ra

/-- `assignment_storage` of one gene region when nothing raises -/
def loadCore (dict : List (Nat × List Rec)) (ras : List Full) : List Full := ras.filterMap (loadOne dict)

/-- `ReadAssignmentLoader.get_next` for one gene region; `none` = raises -/
def load (dict : List (Nat × List Rec)) (ras : List Full) : Option (List Full) :=
  if ras.any (raisesFor dict) then none else some (loadCore dict ras)

/-- `IntronCollector.collect_introns`: the multiset of introns that get counted -/
def collectIntrons (storage : List Full) : List Iv :=
  (storage.filter (fun a => !(a.introns.isEmpty || a.multimapper))).flatMap (·.introns)

/-- `IntronGraph.construct`: the edges added (consecutive intron pairs of non-multimapper reads whose introns
    were not discarded) -/
def graphEdges (discarded : List Iv) (storage : List Full) : List (Iv × Iv) :=
  (storage.filter (fun a => !(a.multimapper || a.introns.any (fun i => discarded.contains i)))).flatMap
    (fun a => a.introns.zip a.introns.tail)

/-! ### weight of one retained record in a transcript count table (local, see C02 for the counter) -/

/-- per-feature increment as a fraction `(num, den)`; `none` = nothing is added.
    `ReadWeightCounter.process_ambiguous` / `process_inconsistent` + the dispatch of
    `AssignedFeatureCounter.add_read_info` on the (transcript) assignment type, `n = len(feature_ids)`. -/
def featureWeight (s : CountingStrategy) (t : RType) (n : Nat) : Option (Nat × Nat) :=
  if t.is_unassigned || n == 0 then none
  else if t == .ambiguous then
    (if n == 1 then some (1, 1) else if s.ambiguous then some (1, n) else some (0, 1))
  else if t.is_inconsistent then
    (if t == .inconsistent_ambiguous || 1 < n then
       (if s.ambiguous && s.inconsistent then some (1, n) else none)
     else if s.inconsistent then some (1, 1)
     else if s.inconsistent_minor && t == .inconsistent_non_intronic then some (1, 1)
     else none)
  else if t.is_unique then some (1, 1)
  else none

/-- number of features that receive the increment (a `unique` record credits `list(feature_ids)[0]` only) -/
def creditedFeatures (t : RType) (n : Nat) : Nat :=
  if t == .ambiguous then n else if t.is_inconsistent then n else if t.is_unique then min n 1 else 0

/-- total added to a table by one record with (table-specific) assignment type `t` and `n` features -/
def totalOf (s : CountingStrategy) (t : RType) (n : Nat) : Rat :=
  match featureWeight s t n with
  | none => 0
  | some (num, den) => (creditedFeatures t n : Rat) * ((num : Rat) / (den : Rat))

/-- transcript table: `assignment_type` and the set of assigned transcripts -/
def recordTotal (s : CountingStrategy) (r : Rec) : Rat := totalOf s r.atype (setSize r.isoforms)
/-- gene table: `gene_assignment_type` and the set of assigned genes -/
def recordTotalG (s : CountingStrategy) (r : Rec) : Rat :=
  -- `add_read_info` first looks at the *transcript* side whatever the table: unassigned or without transcript => nothing
  if r.atype.is_unassigned || setSize r.isoforms == 0 then 0 else totalOf s r.gtype (setSize r.genes)

def sumRat (l : List Rat) : Rat := l.foldr (· + ·) 0

/-- total added to the transcript (gene) table by all retained records of one read -/
def readTotal (s : CountingStrategy) (out : List Rec) : Rat := sumRat ((retained out).map (recordTotal s))
def readTotalG (s : CountingStrategy) (out : List Rec) : Rat := sumRat ((retained out).map (recordTotalG s))

end IsoVerif.Model.Resolver
