/-
Hand-written executable model of the interval utilities of /repo/src/common.py that contain loops
(the straight-line primitives are *generated*: IsoVerif/Gen/Prims.lean).
Core Lean only.  Every function mirrors one Python function; Python index loops become structural
recursion on the list(s) with the loop's locals as accumulators.  Exceptions of the real code
(IndexError on [], assertion failures, ZeroDivisionError) are `none`.
-/
import IsoVerif.Gen.Prims

namespace IsoVerif.Model
open IsoVerif.Gen

/-- Python list indexing with negative-index wrap-around; `none` = IndexError -/
def pyGet? {α} (l : List α) (i : Int) : Option α :=
  if 0 ≤ i then l[i.toNat]?
  else if -(l.length : Int) ≤ i then l[((l.length : Int) + i).toNat]?
  else none

/-- `intervals_total_length` -/
def intervalsTotalLength : List Iv → Int
  | [] => 0
  | r :: rs => interval_len r + intervalsTotalLength rs

/-- body of the `while` loop of `sum_intervals_to_point` (i runs upwards while l[i].1 < pos) -/
def sumToLoop (pos : Int) : List Iv → Int
  | [] => 0
  | r :: rs =>
    if r.1 < pos then
      (if r.1 ≤ pos ∧ pos ≤ r.2 then pos - r.1 else r.2 - r.1 + 1) + sumToLoop pos rs
    else 0

/-- `sum_intervals_to_point`; `none` on the empty list (IndexError) -/
def sumIntervalsToPoint (l : List Iv) (pos : Int) : Option Int :=
  match l.head?, l.getLast? with
  | some f, some t =>
    if pos ≤ f.1 then some 0
    else if pos > t.2 then some (intervalsTotalLength l)
    else some (sumToLoop pos l)
  | _, _ => none

/-- loop of `sum_intervals_from_point` on the *reversed* list (i runs downwards while l[i].2 > pos) -/
def sumFromLoop (pos : Int) : List Iv → Int
  | [] => 0
  | r :: rs =>
    if r.2 > pos then
      (if r.1 ≤ pos ∧ pos ≤ r.2 then r.2 - pos else r.2 - r.1 + 1) + sumFromLoop pos rs
    else 0

def sumIntervalsFromPoint (l : List Iv) (pos : Int) : Option Int :=
  match l.head?, l.getLast? with
  | some f, some t =>
    if pos < f.1 then some (intervalsTotalLength l)
    else if pos > t.2 then some 0
    else some (sumFromLoop pos l.reverse)
  | _, _ => none

/-- the sweep of `read_coverage_fraction`: returns the accumulated `intersection` -/
def readCoverageSweep : List Iv → List Iv → Int
  | [], _ => 0
  | _ :: _, [] => 0
  | a :: as, b :: bs =>
    if overlaps a b then
      if b.2 < a.2 then (min a.2 b.2 - max a.1 b.1 + 1) + readCoverageSweep (a :: as) bs
      else (min a.2 b.2 - max a.1 b.1 + 1) + readCoverageSweep as (b :: bs)
    else if left_of b a then readCoverageSweep (a :: as) bs
    else readCoverageSweep as (b :: bs)
termination_by l1 l2 => l1.length + l2.length

/-- `read_coverage_fraction` as an exact fraction (numerator, denominator); `none` = ZeroDivisionError -/
def readCoverageFraction (read iso : List Iv) : Option (Int × Int) :=
  let d := intervalsTotalLength read
  if d = 0 then none else some (readCoverageSweep read iso, d)

/-- tail loops of `jaccard_similarity`: add every block not yet included (only the head can be included) -/
def tailUnion (inc : Bool) : List Iv → Int
  | [] => 0
  | r :: rs => (if inc then 0 else r.2 - r.1 + 1) + tailUnion false rs

/-- `intersection += ...` of an overlapping pair -/
def ovInter (a b : Iv) : Int := min a.2 b.2 - max a.1 b.1 + 1

/-- `union += ...` of an overlapping pair, depending on the `included` flags of the two heads -/
def ovUnion (a b : Iv) (i1 i2 : Bool) : Int :=
  if !i2 && !i1 then max a.2 b.2 - min a.1 b.1 + 1
  else if i2 then max 0 (a.2 - b.2)
  else max 0 (b.2 - a.2)

/-- main loop of `jaccard_similarity`; `i1`/`i2` are `included1[pos1]`/`included2[pos2]` of the current
    heads (a block that has been passed is never looked at again, a new head starts at 0).
    Returns (intersection, union); `none` = the `assert` inside the loop fails. -/
def jaccardLoop : List Iv → Bool → List Iv → Bool → Option (Int × Int)
  | [], _, l2, i2 => some (0, tailUnion i2 l2)
  | a :: as, i1, [], _ => some (0, tailUnion i1 (a :: as))
  | a :: as, i1, b :: bs, i2 =>
    if overlaps a b then
      if i1 && i2 then none
      else if b.2 < a.2 then
        (jaccardLoop (a :: as) true bs false).map (fun p => (p.1 + ovInter a b, p.2 + ovUnion a b i1 i2))
      else
        (jaccardLoop as false (b :: bs) true).map (fun p => (p.1 + ovInter a b, p.2 + ovUnion a b i1 i2))
    else if left_of b a then
      (jaccardLoop (a :: as) i1 bs false).map (fun p => (p.1, p.2 + (if i2 then 0 else b.2 - b.1 + 1)))
    else
      (jaccardLoop as false (b :: bs) i2).map (fun p => (p.1, p.2 + (if i1 then 0 else a.2 - a.1 + 1)))
termination_by l1 _ l2 _ => l1.length + l2.length

/-- `jaccard_similarity` as (intersection, union); `none` = assertion error (union = 0 or inner assert) -/
def jaccardSweep (l1 l2 : List Iv) : Option (Int × Int) :=
  match jaccardLoop l1 false l2 false with
  | some (i, u) => if u = 0 then none else some (i, u)
  | none => none

/-- replace the last block of the (reversed) union accumulator -/
def bumpLast (acc : List Iv) (e : Int) : Option (List Iv) :=
  match acc with
  | [] => none            -- union[-1] on an empty list: IndexError
  | l :: t => some ((l.1, max l.2 e) :: t)

/-- tail loops of `merge_ranges` -/
def tailAppend (inc : Bool) (acc : List Iv) : List Iv → List Iv
  | [] => acc
  | r :: rs => tailAppend false (if inc then acc else r :: acc) rs

/-- the update of the (reversed) union accumulator for an overlapping pair -/
def ovAcc (a b : Iv) (i1 i2 : Bool) (acc : List Iv) : Option (List Iv) :=
  if !i2 && !i1 then some ((min a.1 b.1, max a.2 b.2) :: acc)
  else if i2 then bumpLast acc a.2
  else bumpLast acc b.2

/-- main loop of `merge_ranges`; `acc` is the union list reversed -/
def mergeLoop : List Iv → Bool → List Iv → Bool → List Iv → Option (List Iv)
  | [], _, l2, i2, acc => some (tailAppend i2 acc l2)
  | a :: as, i1, [], _, acc => some (tailAppend i1 acc (a :: as))
  | a :: as, i1, b :: bs, i2, acc =>
    if overlaps a b then
      if i1 && i2 then none
      else
        match ovAcc a b i1 i2 acc with
        | none => none
        | some acc' =>
          if b.2 < a.2 then mergeLoop (a :: as) true bs false acc'
          else mergeLoop as false (b :: bs) true acc'
    else if left_of b a then
      mergeLoop (a :: as) i1 bs false (if i2 then acc else b :: acc)
    else
      mergeLoop as false (b :: bs) i2 (if i1 then acc else a :: acc)
termination_by l1 _ l2 _ _ => l1.length + l2.length

/-- `merge_ranges`; `none` = assertion error (empty result or inner assert) -/
def mergeRanges (l1 l2 : List Iv) : Option (List Iv) :=
  match mergeLoop l1 false l2 false [] with
  | some acc => if acc.isEmpty then none else some acc.reverse
  | none => none

/-- `extra_exon_percentage` as exact fraction (outside, total); `none` = ZeroDivisionError -/
def extraExonLoop (reg : Iv) : List Iv → Int × Int
  | [] => (0, 0)
  | e :: es =>
    let r := extraExonLoop reg es
    let o1 := if e.1 < reg.1 then min e.2 (reg.1 - 1) - e.1 + 1 else 0
    let o2 := if e.2 > reg.2 then e.2 - max e.1 (reg.2 + 1) + 1 else 0
    (r.1 + o1 + o2, r.2 + (e.2 - e.1 + 1))

def extraExonPercentage (reg : Iv) (exons : List Iv) : Option (Int × Int) :=
  let r := extraExonLoop reg exons
  if r.2 = 0 then none else some r

/-- `junctions_from_blocks` -/
def junctionsFromBlocks : List Iv → List Iv
  | [] => []
  | [_] => []
  | a :: b :: t =>
    if a.2 + 1 < b.1 then (a.2 + 1, b.1 - 1) :: junctionsFromBlocks (b :: t)
    else junctionsFromBlocks (b :: t)

/-- `get_exons`: the two infinite sentinels are never read by `junctions_from_blocks`
    (only `[i][1]` of the first and `[i+1][0]` of the last), so 0 stands in for them. -/
def getExons (region : Iv) (introns : List Iv) : List Iv :=
  junctionsFromBlocks ((0, region.1 - 1) :: introns ++ [(region.2 + 1, 0)])

/-- `get_exon`; `none` = AssertionError / IndexError -/
def getExon (region : Iv) (junctions : List Iv) (exonPosition : Int) : Option Iv :=
  let n : Int := junctions.length
  if exonPosition > n then none
  else
    let p := if exonPosition < 0 then n + exonPosition + 1 else exonPosition
    if p = 0 then (pyGet? junctions 0).map (fun j => (region.1, j.1 - 1))
    else if p = n then (pyGet? junctions (-1)).map (fun j => (j.2 + 1, region.2))
    else
      match pyGet? junctions (p - 1), pyGet? junctions p with
      | some x, some y => some (x.2 + 1, y.1 - 1)
      | _, _ => none

/-- `get_following_exon_from_junctions` -/
def getFollowingExon (region : Iv) (introns : List Iv) (pos : Int) : Option Iv :=
  let n : Int := introns.length
  let endv : Option Int :=
    if pos = n - 1 ∨ pos = -1 then some region.2
    else (pyGet? introns (pos + 1)).map (fun j => j.1 - 1)
  match endv, pyGet? introns pos with
  | some e, some j => some (j.2 + 1, e)
  | _, _ => none

/-- `get_preceding_exon_from_junctions` -/
def getPrecedingExon (region : Iv) (introns : List Iv) (pos : Int) : Option Iv :=
  let n : Int := introns.length
  if pos > n then none
  else
    let start : Option Int :=
      if pos = 0 then some region.1 else (pyGet? introns (pos - 1)).map (fun j => j.2 + 1)
    match start with
    | none => none
    | some s =>
      if pos = n then some (s, region.2)
      else (pyGet? introns pos).map (fun j => (s, j.1 - 1))

/-- first loop of `truncate_read_to_polya`: scan from the right for the last exon with start < polyA;
    returns the index (−1 if none), given the reversed list and the index of its head -/
def endIndexLoop (polya : Int) : List Iv → Int → Int
  | [], _ => -1
  | r :: rs, i => if r.1 < polya then i else endIndexLoop polya rs (i - 1)

/-- second loop: from the left while `start_index <= end_index`; returns start_index -/
def startIndexLoop (polyt : Int) (endIndex : Int) : List Iv → Int → Int
  | [], i => i
  | r :: rs, i =>
    if i ≤ endIndex then
      if r.2 > polyt then i else startIndexLoop polyt endIndex rs (i + 1)
    else i

/-- Python slice l[a:b] for arbitrary ints (negative indices wrap, clamped) -/
def pySlice {α} (l : List α) (a b : Int) : List α :=
  let n : Int := l.length
  let norm (i : Int) : Nat := (if i < 0 then max 0 (n + i) else min i n).toNat
  let a' := norm a
  let b' := norm b
  (l.drop a').take (b' - a')

/-- `truncate_read_to_polya`; `none` = IndexError -/
def truncateReadToPolya (exons : List Iv) (polya polyt : Int) : Option (List Iv) :=
  match exons.head?, exons.getLast? with
  | some f, some t =>
    let n : Int := exons.length
    let endIndex := if polya != -1 then endIndexLoop polya exons.reverse (n - 1) else n - 1
    let endPos := if polya != -1 then polya else t.2
    let startIndex := if polyt != -1 then startIndexLoop polyt endIndex exons 0 else 0
    let startPos := if polyt != -1 then polyt else f.1
    if startPos = f.1 ∧ endPos = t.2 then some exons
    else if startIndex = endIndex then some [(startPos, endPos)]
    else
      match pyGet? exons startIndex, pyGet? exons endIndex with
      | some s, some e =>
        some ((startPos, s.2) :: pySlice exons (startIndex + 1) endIndex ++ [(e.1, endPos)])
      | _, _ => none
  | _, _ => none

/-- halving loop of `interval_bin_search` on the interval list; `none` = out of fuel or an index that
    Python would wrap (negative) / raise on (too large). -/
def binSearchLoop (l : List Iv) (pos : Int) : Nat → Nat → Nat → Option Nat
  | 0, _, _ => none
  | fuel + 1, ind, step =>
    match l[ind]?, l[ind + 1]? with
    | some a, some b =>
      if a.1 ≤ pos ∧ pos < b.1 then some ind
      else
        let step' := max 1 (step / 2)
        if pos < a.1 then
          if step' ≤ ind then binSearchLoop l pos fuel (ind - step') step' else none
        else binSearchLoop l pos fuel (ind + step') step'
    | _, _ => none

/-- `interval_bin_search`; result −1 as in the code; `none` = IndexError / non-termination -/
def intervalBinSearch (l : List Iv) (pos : Int) : Option Int :=
  match l.head?, l.getLast? with
  | some f, some t =>
    if pos > t.2 ∨ pos < f.1 then some (-1)
    else
      let s := l.length - 1
      if pos ≥ t.1 then some s
      else (binSearchLoop l pos (2 * l.length + 2) (s / 2) (s / 2)).map (fun (i : Nat) => (i : Int))
  | _, _ => none

def binSearchRevLoop (l : List Iv) (pos : Int) : Nat → Nat → Nat → Option Nat
  | 0, _, _ => none
  | fuel + 1, ind, step =>
    -- `l[ind - 1]` with ind = 0 is Python's l[-1] (the last interval): modelled as such
    match pyGet? l ((ind : Int) - 1), l[ind]? with
    | some a, some b =>
      if a.2 < pos ∧ pos ≤ b.2 then some ind
      else
        let step' := max 1 (step / 2)
        if pos > b.2 then binSearchRevLoop l pos fuel (ind + step') step'
        else if step' ≤ ind then binSearchRevLoop l pos fuel (ind - step') step' else none
    | _, _ => none

/-- `interval_bin_search_rev` -/
def intervalBinSearchRev (l : List Iv) (pos : Int) : Option Int :=
  match l.head?, l.getLast? with
  | some f, some t =>
    if pos > t.2 ∨ pos < f.1 then some (-1)
    else if pos ≤ f.2 then some 0
    else
      let s := l.length - 1
      (binSearchRevLoop l pos (2 * l.length + 2) (s / 2) (s / 2)).map (fun (i : Nat) => (i : Int))
  | _, _ => none

end IsoVerif.Model
