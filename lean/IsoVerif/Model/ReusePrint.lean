/-
The read-level printers inside the second half of `process_sample` (Model/Reuse.lean): how
`construct_models_in_parallel` / `ReadAssignmentAggregator` feed `read_assignments.tsv` and `corrected_reads.bed`, and how
`merge_assignments` assembles the two files.  Core Lean only.

  src/dataset_processor.py
    ReadAssignmentLoader.get_next           on FULL records: `loadGroupFull` (the verdict of the multimapper file
                                            re-applied; `suspended` and unmatched records skipped; C08 `loadOne`),
                                            `raisesAny` (the AttributeError of the "Duplicate read" log line)
    construct_models_in_parallel            `printChr`: per gene region a fresh `gene_info` (`viewOf`:
                                            `GeneInfo.deserialize` + `set_reference_sequence`), then
                                            `aggregator.global_printer.add_read_info` per loaded record; `constructChrP`
                                            = the same on the chromosome's two saved files
    ReadAssignmentAggregator.__init__       the per-chromosome files: `tsvPart` (common header, column header, lines),
                                            `bedPart` (column header, lines); both printers with `PrintAllFunctor`
    DatasetProcessor.merge_assignments      `printedOf`: the main files (headers written by the main aggregator) +
                                            `merge_files(..., copy_header=False, header_lines=printer.header_lines)` =
                                            every part without the header lines its printer wrote, in the natural order
                                            of the file names (`mergeBody`; the header test by content of the tree before
                                            the repair fix_merge_header is kept as `mergeBodyOrig` / `printedOfOrig`)
    process_assigned_reads on a prefix      `processSavedP`;  `savingRunP` / `restartRunP` = Model/Reuse.lean's runs
                                            together with the two printed files

PARAMETERS (`PrintEnv`): what `GeneInfo.deserialize` re-derives from the gene DATABASE for a header
(`all_isoforms_introns`), the chromosome sequences of the reference, `--check_canonical` / `--cage`, the two
`common_header` lines.  Model construction, the SQANTI-like printer and gzipped output are outside.
-/
import IsoVerif.Model.Reuse
import IsoVerif.Model.Printers

namespace IsoVerif.Model.C15
open IsoVerif.Gen IsoVerif.Model IsoVerif.Model.Serial IsoVerif.Model.Resolver IsoVerif.Model.C12
open IsoVerif.Model.Printers

/-! ### `ReadAssignmentLoader.get_next` on full records -/

/-- the view the loader has of a full record (`PRec.toFull` of `toPRec`, which does not depend on the header) -/
def fullOf (E : Env) (r : ReadAssignment) : Full :=
  { aid := (toRec E (basicOf r)).aid, readId := (toRec E (basicOf r)).readId, chr := (toRec E (basicOf r)).chr,
    atype := r.assignmentType, gtype := r.geneAssignmentType, multimapper := r.multimapper, introns := [],
    isoforms := (toRec E (basicOf r)).isoforms }

/-- `read_assignment.assignment_type / gene_assignment_type / multimapper = resolved_assignment. ...` -/
def applyVerdict (r : ReadAssignment) (f : Full) : ReadAssignment :=
  { r with assignmentType := f.atype, geneAssignmentType := f.gtype, multimapper := f.multimapper }

/-- `assignment_storage` of one gene region (when nothing raises): the records the loader keeps, verdict applied -/
def loadGroupFull (E : Env) (dict : List (Nat × List Rec)) (rs : List ReadAssignment) : List ReadAssignment :=
  rs.filterMap (fun r => (loadOne dict (fullOf E r)).map (applyVerdict r))

/-- some record of the chromosome makes `get_next` raise -/
def raisesAny (E : Env) (dict : List (Nat × List Rec)) (gs : List (Group ReadAssignment)) : Bool :=
  gs.any (fun g => g.2.any (fun r => raisesFor dict (fullOf E r)))

/-! ### the externals of printing -/

structure PrintEnv where
  params : Params
  /-- `gene_info.all_isoforms_introns` as `GeneInfo.deserialize(infile, genedb)` re-derives it for a header -/
  isoformIntrons : GeneHeader → List (String × List Iv)
  /-- `Fasta(args.reference)[chr_id]` as a character list -/
  chrSeq : String → C18.Seq
  /-- the two lines of `common_header` ("# Command line: ...", "# IsoQuant version: ...") -/
  commonHeader : List String

/-- one step of the loop of `extend_reference_region` over `(read_assignment.exons, read_assignment.corrected_exons)`:
    `if exons: region_start = min(region_start, exons[0][0]); region_end = max(region_end, exons[-1][1])` -/
def spanStep (acc : Int × Int) (exons : List Iv) : Int × Int :=
  match exons.head?, exons.getLast? with
  | some f, some l => (min acc.1 f.1, max acc.2 l.2)
  | _, _ => acc

/-- the span of the region and of every read handed on -/
def regionOver (kept : List ReadAssignment) (se : Int × Int) : Int × Int :=
  kept.foldl (fun acc r => spanStep (spanStep acc r.exons) r.correctedExons) se

/-- `gene_info.reference_region` / `all_read_region_start` of a gene region when the printers run:
    `NormalTmpFileAssignmentLoader.get_object` cuts the window of the SAVED span (`set_reference_sequence(start, end,
    chr_record)`, C18's model: start clamped to 1), then `ReadAssignmentLoader.extend_reference_region` (fix f48e223)
    widens it over the reads it hands on when one of them reaches beyond it (fresh memo both times); nothing happens
    without a chromosome record or without reads -/
def refOf (chrSeq : C18.Seq) (h : GeneHeader) (kept : List ReadAssignment) : C18.GeneRef :=
  let g0 := (C18.setReferenceSequence chrSeq h.start h.end).1
  if chrSeq.isEmpty then { refRegion := [], start := h.start }      -- `if self.chr_record:` false: region None, start as saved
  else if kept.isEmpty then g0
  else
    let reg := regionOver kept (g0.start, h.end)
    if reg.1 < g0.start ∨ reg.2 > h.end then (C18.setReferenceSequence chrSeq reg.1 reg.2).1 else g0

/-- the `gene_info` of a gene region of chromosome `chrName` as the printers see it: `chr_id` is read from the stream,
    `all_isoforms_introns` comes from the database, the reference window is `refOf` over the records the loader keeps
    (for an empty record the region is empty and no Canonical field is printed, as for `None`) -/
def viewOf (X : PrintEnv) (chrName : String) (h : GeneHeader) (kept : List ReadAssignment) : GeneView :=
  { chrId := h.chrId, isoformIntrons := X.isoformIntrons h, ref := refOf (X.chrSeq chrName) h kept }

/-- `ReadAssignmentAggregator`: `BEDPrinter(..., print_corrected=True)` and `BasicTSVAssignmentPrinter(...)`, both with
    the default `PrintAllFunctor()` -/
def aggregatorPrinters (X : PrintEnv) : PrinterCfg := { bedChecker := .all, tsvChecker := .all, params := X.params }

/-! ### one chromosome -/

/-- the `while loader.has_next()` loop of `construct_models_in_parallel`, printers only: every gene region gets a
    fresh `gene_info` (empty memo), its kept records go through the composite printer in order -/
def printGroups (E : Env) (X : PrintEnv) (chrName : String) (dict : List (Nat × List Rec)) :
    List (Group ReadAssignment) → Option Lines
  | [] => some { bed := [], tsv := [] }
  | g :: gs =>
    match printRecords (aggregatorPrinters X) (viewOf X chrName g.1 (loadGroupFull E dict g.2))
            (loadGroupFull E dict g.2) [],
          printGroups E X chrName dict gs with
    | some a, some b => some (a.append b)
    | _, _ => none

/-- the printed lines of one chromosome; `none` = the loader or a printer raises -/
def printChr (E : Env) (X : PrintEnv) (chrName : String) (dict : List (Nat × List Rec))
    (gs : List (Group ReadAssignment)) : Option Lines :=
  if raisesAny E dict gs then none else printGroups E X chrName dict gs

/-- `construct_models_in_parallel` on the two saved files of a chromosome, printers only -/
def constructChrP (E : Env) (X : PrintEnv) (chrName : String) (f : ChrFiles) : Option Lines :=
  match loadVerdicts E chrName f.multimappers, loadStreamFull.run f.save with
  | some dict, some (groups, _) => printChr E X chrName dict groups
  | _, _ => none

/-! ### the files -/

/-- `<prefix>_<chr>.read_assignments.tsv` as a list of lines -/
def tsvPart (X : PrintEnv) (l : Lines) : List String :=
  X.commonHeader ++ [printer_tsv_header] ++ l.tsv.map TsvLine.render

/-- `<prefix>_<chr>.corrected_reads.bed` -/
def bedPart (l : Lines) : List String := [printer_bed_header] ++ l.bed.map C14.BedRecord.render

/-- `line.startswith("#")` (the header test BY CONTENT of the tree before the repair `fix_merge_header`) -/
def isHeaderLine (l : String) : Bool := l.toList.head? == some '#'

/-- `while f.readline().startswith("#"): header_count += 1` (before the repair) -/
def headerCount : List String → Nat
  | [] => 0
  | l :: ls => if isHeaderLine l then headerCount ls + 1 else 0

/-- `merge_files(..., copy_header=False, header_lines=k)`: every existing part, in the order of the sorted file names,
    without its first `k` lines - the number of lines the printer of the parts wrote before the first record
    (`printer.header_lines`, passed by `merge_assignments`) -/
def mergeBody (k : Nat) (order : List Nat) (parts : List (List String)) : List String :=
  (order.filterMap (fun c => parts[c]?)).flatMap (fun ls => ls.drop k)

/-- `merge_files(..., copy_header=False)` before the repair: every part without its leading lines that start with `#`
    - also the line of a read whose id starts with `#` -/
def mergeBodyOrig (order : List Nat) (parts : List (List String)) : List String :=
  (order.filterMap (fun c => parts[c]?)).flatMap (fun ls => ls.drop (headerCount ls))

structure Printed where
  /-- the lines of `<prefix>.read_assignments.tsv` -/
  tsv : List String
  /-- the lines of `<prefix>.corrected_reads.bed` -/
  bed : List String
  deriving DecidableEq, Repr

/-- `BasicTSVAssignmentPrinter.header_lines` = `(additional_header + self.header).count("\n")`: the command-line header
    lines (one `\n` each) and the column header -/
def tsvHeaderLines (X : PrintEnv) : Nat := X.commonHeader.length + 1
/-- `BEDPrinter.header_lines` -/
def bedHeaderLines : Nat := 1

/-- `merge_assignments`: the main aggregator's printers have written their headers, `merge_files` appends the parts -/
def printedOf (X : PrintEnv) (order : List Nat) (outs : List Lines) : Printed :=
  { tsv := X.commonHeader ++ [printer_tsv_header] ++ mergeBody (tsvHeaderLines X) order (outs.map (tsvPart X)),
    bed := [printer_bed_header] ++ mergeBody bedHeaderLines order (outs.map bedPart) }

/-- `merge_assignments` of the tree before the repair `fix_merge_header` -/
def printedOfOrig (X : PrintEnv) (order : List Nat) (outs : List Lines) : Printed :=
  { tsv := X.commonHeader ++ [printer_tsv_header] ++ mergeBodyOrig order (outs.map (tsvPart X)),
    bed := [printer_bed_header] ++ mergeBodyOrig order (outs.map bedPart) }

/-- the two read-level files of `process_assigned_reads(sample, saves_file)` -/
def processSavedP (E : Env) (cfg : Config) (X : PrintEnv) (names : List String) (files : Saved) : Option Printed :=
  ((names.zip files.chrs).mapM (fun x => constructChrP E X x.1 x.2)).map (printedOf X cfg.mergeOrder)

/-- a run from BAM files with its two read-level files: the same pass over the saved files feeds counters and printers,
    so the run fails when either does -/
def savingRunP (E : Env) (cfg : Config) (X : PrintEnv) (readGroups : List String) (unmapped : List Nat)
    (chroms : List ChrIn) : Option (Saved × RunOut × Printed) :=
  match savingRun E cfg readGroups unmapped chroms with
  | none => none
  | some (files, o) => (processSavedP E cfg X (chroms.map (·.name)) files).map (fun p => (files, o, p))

/-- a run restarted with `--read_assignments <prefix>` with its two read-level files -/
def restartRunP (E : Env) (cfg : Config) (X : PrintEnv) (names : List String) (files : Saved) :
    Option (RunOut × Printed) :=
  match restartRun E cfg names files, processSavedP E cfg X names files with
  | some o, some p => some (o, p)
  | _, _ => none

end IsoVerif.Model.C15
