/-
C07 — one invocation with several experiments (`--bam_list` / `--yaml`; isoquant.py, DatasetProcessor.process_all_samples).
Core Lean only.

* every experiment has its own folder `<out>/<name>/` (path classes of Model/Resume.lean, one copy per experiment);
  `.params` is one file for the whole invocation;
* a fresh run removes the lock files of *every* experiment (remove_previous_run_locks), saves `.params` once, then
  runs the reference stage (`refStage`: `DatasetProcessor.__init__`, **once per invocation**, before the first experiment,
  in the top-level folder: the unpacked copy of a plain-gzip reference and an index inside the folder are files of the
  invocation like `.params`, every experiment reads them), then processes the experiments one after the other: for each,
  everything `stages` lists after the `.params` stage and the reference stage, in the experiment's own folder; a resumed
  invocation loads and re-saves `.params`, runs the reference stage again, then goes through **every** experiment again
  with `--resume` semantics, from whatever its folder holds;
* the reference is one per invocation: `Cfg.gzRef` / `Cfg.idx` of the *first* experiment say what the reference stage does
  (well-formed invocations — `MWF`, Props/C07Multi.lean — have the same two flags in every experiment);
* what the experiments share besides `.params` is the state of the process: the alignment counter.  `withCarried` sets
  `Cfg.carried` of every experiment: an earlier experiment of the invocation has unaligned reads (the counter is not
  zero when this experiment starts unless it is reset — `Variant.resetCounter`);
* the tables combined over the experiments (written after the last experiment from the experiments' final count
  tables) are not modelled.
-/
import IsoVerif.Model.Resume

namespace IsoVerif.Model.Resume

/-- the files of the reference stage: the unpacked copy of a plain-gzip reference, the index (file and content), the
    temporary index — top-level files of the invocation, one copy for all experiments -/
def isRefPath : Path → Bool
  | .refFa | .refFai | .refFaiData | .refFaiTmp => true
  | _ => false

/-- the output folder of an invocation with several experiments -/
structure MFS where
  params : Option Tok
  ref : FS                 -- the top-level files of the reference stage (only the `isRefPath` entries are looked at)
  dirs : Nat → FS          -- the folder of experiment `i` (its `.params` and `isRefPath` entries are never looked at)

def MFS.empty : MFS := ⟨none, FS.empty, fun _ => FS.empty⟩

/-- the folder of experiment `i` as the run of that experiment sees it: its own files, the shared `.params` and the
    shared files of the reference stage -/
def MFS.view (m : MFS) (i : Nat) : FS := fun p =>
  if p = .params then m.params else if isRefPath p then m.ref p else m.dirs i p

/-- an event of experiment `i` (an event on a shared file is seen by every experiment) -/
def MFS.apply (m : MFS) (i : Nat) (e : Ev) : MFS :=
  if e.path = .params then { m with params := e.val }
  else if isRefPath e.path then { m with ref := Resume.apply m.ref e }
  else { m with dirs := fun j => if j = i then Resume.apply (m.dirs i) e else m.dirs j }

abbrev MEv := Nat × Ev

def mApplyAll (m : MFS) : List MEv → MFS
  | [] => m
  | (i, e) :: es => mApplyAll (m.apply i e) es

structure MRes where
  evs : List MEv
  fs : MFS
  ok : Bool

/-- one experiment: index, configuration, directory order seen by its clean-up -/
abbrev Exp := Nat × Cfg × List Path

/-- the experiments one after the other; the invocation stops at the first one that raises -/
def runExps (v : Variant) (resume : Bool) : List Exp → MFS → MRes
  | [], m => ⟨[], m, true⟩
  | (i, cfg, ord) :: rest, m =>
      let fs := m.view i
      let r := runStages ((stages v cfg ord resume (resume && fs.has .lock)).drop 2) fs
      let evs := r.evs.map (fun e => (i, e))
      let m' := mApplyAll m evs
      if r.ok then
        let r2 := runExps v resume rest m'
        ⟨evs ++ r2.evs, r2.fs, r2.ok⟩
      else ⟨evs, m', false⟩

/-- the lock files of every experiment, removed by a fresh run before it saves its parameters -/
def cleanAllEvents (v : Variant) (resume : Bool) (exps : List Exp) (m : MFS) : List MEv :=
  if resume || !v.cleanBeforeParams then []
  else exps.flatMap (fun x => (lockList x.2.1 (m.view x.1)).map (fun p => (x.1, Ev.remove p)))

/-- isoquant.py: `--resume` unpickles `.params`; save_params rewrites it (once per invocation) -/
def paramsEvents (v : Variant) : List MEv := (paramsEvs v).map (fun e => (0, e))

/-- DatasetProcessor.__init__: the reference stage, once per invocation (the reference is that of the first experiment:
    one `--reference` per invocation), on the top-level folder -/
def runRef (v : Variant) (resume : Bool) (exps : List Exp) (m : MFS) : Res :=
  match exps with
  | [] => ⟨[], m.view 0, true⟩
  | x :: _ => runActs (refStage v x.2.1 resume (m.view x.1)) (m.view x.1)

/-- one invocation on the folder `m` -/
def runMulti (v : Variant) (exps : List Exp) (resume : Bool) (m : MFS) : MRes :=
  let c := cleanAllEvents v resume exps m
  let m1 := mApplyAll m c
  if resume && !(m1.view 0).loadable .params then ⟨c, m1, false⟩
  else
    let m2 := mApplyAll m1 (paramsEvents v)
    let rr := runRef v resume exps m2
    let re := rr.evs.map (fun e => (0, e))
    let m3 := mApplyAll m2 re
    if rr.ok then
      let r := runExps v resume exps m3
      ⟨c ++ paramsEvents v ++ (re ++ r.evs), r.fs, r.ok⟩
    else ⟨c ++ paramsEvents v ++ re, m3, false⟩

/-- `Cfg.carried` of every experiment: an earlier experiment of the invocation has unaligned reads -/
def withCarried : Bool → List Cfg → List Cfg
  | _, [] => []
  | b, cfg :: rest => { cfg with carried := b } :: withCarried (b || cfg.unmapped) rest

/-- the experiments of an invocation: configurations (in processing order) and the directory orders of their clean-ups -/
def mkExps (cfgs : List Cfg) (ords : List (List Path)) : List Exp :=
  ((withCarried false cfgs).zip ords).zipIdx.map (fun x => (x.2, x.1.1, x.1.2))

def crashMulti (v : Variant) (exps : List Exp) (m0 : MFS) (k : Nat) : MFS :=
  mApplyAll m0 ((runMulti v exps false m0).evs.take k)

def sameFinalsMulti (exps : List Exp) (a b : MFS) : Bool :=
  exps.all (fun x => sameFinals x.2.1 (a.view x.1) (b.view x.1))

/-- start on `m0`, kill after `k` events of the invocation, resume (the clean-ups of the resumed invocation see the
    directory orders of `exps'`), compare the final files of every experiment with the uninterrupted invocation on `m0` -/
def verdictMulti (v : Variant) (exps exps' : List Exp) (m0 : MFS) (k : Nat) : Verdict :=
  let r := runMulti v exps' true (crashMulti v exps m0 k)
  if !r.ok then .fail
  else if sameFinalsMulti exps r.fs (runMulti v exps false m0).fs then .equal
  else .diff

end IsoVerif.Model.Resume
