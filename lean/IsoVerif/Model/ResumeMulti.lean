/-
C07 — one invocation with several experiments (`--bam_list` / `--yaml`; isoquant.py, DatasetProcessor.process_all_samples).
Core Lean only.

* every experiment has its own folder `<out>/<name>/` (path classes of Model/Resume.lean, one copy per experiment);
  `.params` is one file for the whole invocation;
* a fresh run removes the lock files of *every* experiment (remove_previous_run_locks), saves `.params` once, then
  processes the experiments one after the other: for each, everything `stages` lists after the `.params` stage and the
  reference stage (`refStage`: once per invocation, in the top-level folder — a plain-gzip reference is **not** part of
  this model of several experiments, `Cfg.gzRef` is ignored here), in the experiment's own folder; a resumed invocation loads and re-saves `.params`, then goes through **every** experiment
  again with `--resume` semantics, from whatever its folder holds;
* what the experiments share besides `.params` is the state of the process: the alignment counter.  `withCarried` sets
  `Cfg.carried` of every experiment: an earlier experiment of the invocation has unaligned reads (the counter is not
  zero when this experiment starts unless it is reset — `Variant.resetCounter`);
* the tables combined over the experiments (written after the last experiment from the experiments' final count
  tables) are not modelled.
-/
import IsoVerif.Model.Resume

namespace IsoVerif.Model.Resume

/-- the output folder of an invocation with several experiments -/
structure MFS where
  params : Option Tok
  dirs : Nat → FS          -- the folder of experiment `i` (its `.params` entry is never looked at)

def MFS.empty : MFS := ⟨none, fun _ => FS.empty⟩

/-- the folder of experiment `i` as the run of that experiment sees it: its own files and the shared `.params` -/
def MFS.view (m : MFS) (i : Nat) : FS := fun p => if p = .params then m.params else m.dirs i p

/-- an event of experiment `i` -/
def MFS.apply (m : MFS) (i : Nat) (e : Ev) : MFS :=
  if e.path = .params then { m with params := e.val }
  else { m with dirs := fun j => if j = i then Resume.apply (m.dirs i) e else m.dirs j }

abbrev MEv := Nat × Ev

def mApplyAll (m : MFS) : List MEv → MFS
  | [] => m
  | (i, e) :: es => mApplyAll (m.apply i e) es

structure MRes where
  evs : List MEv
  fs : MFS
  ok : Bool

/-- one experiment: index, configuration, directory order seen by its clean-up -/
abbrev Exp := Nat × Cfg × List Path

/-- the experiments one after the other; the invocation stops at the first one that raises -/
def runExps (v : Variant) (resume : Bool) : List Exp → MFS → MRes
  | [], m => ⟨[], m, true⟩
  | (i, cfg, ord) :: rest, m =>
      let fs := m.view i
      let r := runStages ((stages v cfg ord resume (resume && fs.has .lock)).drop 2) fs
      let evs := r.evs.map (fun e => (i, e))
      let m' := mApplyAll m evs
      if r.ok then
        let r2 := runExps v resume rest m'
        ⟨evs ++ r2.evs, r2.fs, r2.ok⟩
      else ⟨evs, m', false⟩

/-- the lock files of every experiment, removed by a fresh run before it saves its parameters -/
def cleanAllEvents (v : Variant) (resume : Bool) (exps : List Exp) (m : MFS) : List MEv :=
  if resume || !v.cleanBeforeParams then []
  else exps.flatMap (fun x => (lockList x.2.1 (m.view x.1)).map (fun p => (x.1, Ev.remove p)))

/-- isoquant.py: `--resume` unpickles `.params`; save_params rewrites it (once per invocation) -/
def paramsEvents (v : Variant) : List MEv := (paramsEvs v).map (fun e => (0, e))

/-- one invocation on the folder `m` -/
def runMulti (v : Variant) (exps : List Exp) (resume : Bool) (m : MFS) : MRes :=
  let c := cleanAllEvents v resume exps m
  let m1 := mApplyAll m c
  if resume && !(m1.view 0).loadable .params then ⟨c, m1, false⟩
  else
    let m2 := mApplyAll m1 (paramsEvents v)
    let r := runExps v resume exps m2
    ⟨c ++ paramsEvents v ++ r.evs, r.fs, r.ok⟩

/-- `Cfg.carried` of every experiment: an earlier experiment of the invocation has unaligned reads -/
def withCarried : Bool → List Cfg → List Cfg
  | _, [] => []
  | b, cfg :: rest => { cfg with carried := b } :: withCarried (b || cfg.unmapped) rest

/-- the experiments of an invocation: configurations (in processing order) and the directory orders of their clean-ups -/
def mkExps (cfgs : List Cfg) (ords : List (List Path)) : List Exp :=
  ((withCarried false cfgs).zip ords).zipIdx.map (fun x => (x.2, x.1.1, x.1.2))

def crashMulti (v : Variant) (exps : List Exp) (m0 : MFS) (k : Nat) : MFS :=
  mApplyAll m0 ((runMulti v exps false m0).evs.take k)

def sameFinalsMulti (exps : List Exp) (a b : MFS) : Bool :=
  exps.all (fun x => sameFinals x.2.1 (a.view x.1) (b.view x.1))

/-- start on `m0`, kill after `k` events of the invocation, resume (the clean-ups of the resumed invocation see the
    directory orders of `exps'`), compare the final files of every experiment with the uninterrupted invocation on `m0` -/
def verdictMulti (v : Variant) (exps exps' : List Exp) (m0 : MFS) (k : Nat) : Verdict :=
  let r := runMulti v exps' true (crashMulti v exps m0 k)
  if !r.ok then .fail
  else if sameFinalsMulti exps r.fs (runMulti v exps false m0).fs then .equal
  else .diff

end IsoVerif.Model.Resume
