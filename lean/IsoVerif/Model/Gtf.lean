/-
Hand-written executable model of the GTF output path of /repo (property C03):

  src/transcript_printer.py     validate_exons, GFFPrinter.dump (state machine over dump calls: printed_gene_ids),
                                create_extended_storage
  src/gene_info.py              TranscriptModel.from_reference_transcript
  src/graph_based_model_construction.py
                                correct_novel_transcript_ends, the mono-exon constructor of
                                generate_monoexon_from_clustered, the `get_exons` constructor (Model/Interval.lean)
  src/file_utils.py             merge_files: natural sort key, concatenation in key order

Core Lean only.  Identifiers (chromosome, gene id, transcript id) are `Nat` (the harness interns the strings;
formatting of an id is injective, nothing in the code inspects the characters), strands are `Nat`
(0 '+', 1 '-', 2 '.'), feature kinds are `Int` with 0 = 'exon' and the sign/size giving the Python string
order of the kind names relative to 'exon'.  Exceptions of the real code are `none`.
The attribute column (source, exon_id, additional attributes) is not modelled (C17 covers ids).
-/
import IsoVerif.Gen.Prims
import IsoVerif.Model.Interval

namespace IsoVerif.Model.C03
open IsoVerif.Gen IsoVerif.Model

abbrev Id := Nat
abbrev Strand := Nat

def strandMinus : Strand := 1

/-! ### Python `sorted` (stable) as a structural insertion sort -/

/-- insert `x` (which preceded every element of the list in the original order) before the first element
    that is not strictly smaller: equal elements keep their original order -/
def insBy {α} (lt : α → α → Bool) (x : α) : List α → List α
  | [] => [x]
  | y :: ys => if lt y x then y :: insBy lt x ys else x :: y :: ys

def isortBy {α} (lt : α → α → Bool) : List α → List α
  | [] => []
  | x :: xs => insBy lt x (isortBy lt xs)

/-- Python tuple order on pairs of ints -/
def ivLt (a b : Iv) : Bool := decide (a.1 < b.1) || (decide (a.1 = b.1) && decide (a.2 < b.2))

/-- a printable feature `(start, end, kind)`; Python tuple order (kind codes are order-isomorphic to the names) -/
abbrev Feat := Int × Int × Int
def featLt (a b : Feat) : Bool :=
  decide (a.1 < b.1) || (decide (a.1 = b.1) && (decide (a.2.1 < b.2.1) || (decide (a.2.1 = b.2.1) && decide (a.2.2 < b.2.2))))

/-- `validate_exons`: `novel_exons == sorted(novel_exons) and all(0 < x[0] <= x[1] for x in novel_exons)` -/
def validateExons (l : List Iv) : Bool :=
  (l == isortBy ivLt l) && l.all (fun x => decide (0 < x.1) && decide (x.1 ≤ x.2))

/-! ### transcript models and the reference annotation -/

structure TModel where
  chr : Id
  strand : Strand
  tid : Id
  gid : Id
  exons : List Iv
  known : Bool              -- transcript_type == TranscriptModelType.known
  other : List Feat := []   -- other_features (CDS, start/stop codon, UTR)
deriving DecidableEq, Repr

/-- what `GeneInfo` holds about one reference transcript -/
structure RefTx where
  tid : Id
  gid : Id
  strand : Strand
  exons : List Iv
  other : List Feat := []
deriving DecidableEq, Repr

/-- the part of a `GeneInfo` that `dump` / `from_reference_transcript` / `create_extended_storage` read -/
structure GeneCtx where
  chr : Id
  /-- `get_gene_regions()` of a non-empty gene_info, `{}` otherwise -/
  regions : List (Id × Iv) := []
  /-- the entries of `all_isoforms_exons` etc., in dict order: the transcript records that have AT LEAST ONE exon record
      (`set_introns_and_exons` skips the others; `Model/GtfRef.lean: ChrAnn.ctx` derives this list from all records) -/
  isoforms : List RefTx := []
deriving Repr

/-- `TranscriptModel.from_reference_transcript(gene_info, isoform_id)`; `none` = KeyError -/
def fromReference (ctx : GeneCtx) (isoform : Id) : Option TModel :=
  match ctx.isoforms.find? (fun r => r.tid == isoform) with
  | none => none
  | some r => some { chr := ctx.chr, strand := r.strand, tid := r.tid, gid := r.gid, exons := r.exons,
                     known := true, other := r.other }

/-- `create_extended_storage`: every isoform of the chromosome-wide GeneInfo, then the novel models -/
def createExtendedStorage (ctx : GeneCtx) (novel : List TModel) : Option (List TModel) :=
  (ctx.isoforms.mapM (fun r => fromReference ctx r.tid)).map (· ++ novel)

/-! ### output lines -/

inductive Line where
  | gene (chr : Id) (s e : Int) (strand : Strand) (gid : Id) (ntx : Nat)
  | tx (chr : Id) (s e : Int) (strand : Strand) (gid tid : Id)
  | feat (chr : Id) (kind : Int) (s e : Int) (strand : Strand) (gid tid : Id) (num : Nat)
deriving DecidableEq, Repr

/-! ### `GFFPrinter.dump` -/

/-- `GFFGeneInfo` -/
structure GRec where
  chr : Id
  strand : Strand
  range : Iv
deriving DecidableEq, Repr

/-- the two insertion-ordered dicts of `dump` (`gene_to_model_dict`, `gene_info_dict`): key order + lookups.
    `mods` keeps the model together with its `transcript_region` (the code stores the index and recomputes
    `exon_blocks[0][0], exon_blocks[-1][1]`, the same value). -/
structure Acc where
  keys : List Id
  info : Id → Option GRec
  mods : Id → List (TModel × Iv)

def Acc.empty : Acc := { keys := [], info := fun _ => none, mods := fun _ => [] }

/-- one iteration of the first loop of `dump`; `none` = IndexError (empty exon list passes `validate_exons`)
    or a failed `assert model.chr_id == ...` -/
def phase1Step (ctx : GeneCtx) (acc : Acc) (m : TModel) : Option Acc :=
  if validateExons m.exons = false then some acc
  else
    match m.exons.head?, m.exons.getLast? with
    | some f, some l =>
      let tr : Iv := (f.1, l.2)
      match acc.info m.gid with
      | none =>
        if m.chr ≠ ctx.chr then none
        else
          let gr : Iv := match ctx.regions.lookup m.gid with
            | some r => max_range r tr
            | none => tr
          some { keys := acc.keys ++ [m.gid],
                 info := fun g => if g = m.gid then some ⟨m.chr, m.strand, gr⟩ else acc.info g,
                 mods := fun g => if g = m.gid then acc.mods g ++ [(m, tr)] else acc.mods g }
      | some r =>
        if m.chr ≠ r.chr then none
        else
          some { keys := acc.keys,
                 info := fun g => if g = m.gid then some ⟨m.chr, m.strand, max_range r.range tr⟩ else acc.info g,
                 mods := fun g => if g = m.gid then acc.mods g ++ [(m, tr)] else acc.mods g }
    | _, _ => none

def phase1 (ctx : GeneCtx) : List TModel → Acc → Option Acc
  | [], acc => some acc
  | m :: ms, acc =>
    match phase1Step ctx acc m with
    | none => none
    | some acc' => phase1 ctx ms acc'

/-- `gene_order = sorted([(g, gene_info_dict[g].gene_region) ...], key=lambda x: x[1])` (stable) -/
def geneOrder (acc : Acc) : List (Id × GRec) :=
  isortBy (fun a b => ivLt a.2.range b.2.range)
    (acc.keys.filterMap (fun g => (acc.info g).map (fun r => (g, r))))

/-- exon and other-feature lines of one model -/
def featLines (m : TModel) : List Line :=
  let fs : List Feat := m.other ++ m.exons.map (fun e => (e.1, e.2, (0 : Int)))
  let sorted := if m.strand = strandMinus then (isortBy featLt fs).reverse else isortBy featLt fs
  sorted.zipIdx.map (fun p => Line.feat m.chr p.1.2.2 p.1.1 p.1.2.1 m.strand m.gid m.tid (p.2 + 1))

def txBlock (p : TModel × Iv) : List Line :=
  Line.tx p.1.chr p.2.1 p.2.2 p.1.strand p.1.gid p.1.tid :: featLines p.1

/-- second loop of `dump`: walks `gene_order`, `printed` is `self.printed_gene_ids` -/
def emitGenes (acc : Acc) : List (Id × GRec) → List Id → List Id × List Line
  | [], printed => (printed, [])
  | (g, r) :: rest, printed =>
    let ms := acc.mods g
    let gl := if printed.contains g then [] else [Line.gene r.chr r.range.1 r.range.2 r.strand g ms.length]
    let printed' := if printed.contains g then printed else g :: printed
    let res := emitGenes acc rest printed'
    (res.1, gl ++ ms.flatMap txBlock ++ res.2)

/-- `GFFPrinter.dump(gene_info, transcript_model_storage)`: new `printed_gene_ids`, lines written -/
def dump (printed : List Id) (ctx : GeneCtx) (models : List TModel) : Option (List Id × List Line) :=
  if models.isEmpty then some (printed, [])
  else
    match phase1 ctx models Acc.empty with
    | none => none
    | some acc => some (emitGenes acc (geneOrder acc) printed)

/-- one `dump` call -/
structure Call where
  ctx : GeneCtx
  models : List TModel
deriving Repr

/-- a history of dump calls on one printer (one chromosome of one sample) -/
def runCalls : List Id → List Call → Option (List Id × List Line)
  | printed, [] => some (printed, [])
  | printed, c :: cs =>
    match dump printed c.ctx c.models with
    | none => none
    | some (p1, l1) =>
      match runCalls p1 cs with
      | none => none
      | some (p2, l2) => some (p2, l1 ++ l2)

/-! ### constructors of novel exon lists -/

/-- `construct_fl_isoforms`: `novel_exons = get_exons(transcript_range, list(intron_path))` followed by the guard
    `if len(novel_exons) != len(intron_path) + 1: continue` (`none` = the path is skipped) -/
def flNovelExons (range : Iv) (path : List Iv) : Option (List Iv) :=
  let ex := getExons range path
  if ex.length ≠ path.length + 1 then none else some ex

/-- `min` / `max` of a non-empty Python list -/
def listMin : List Int → Option Int
  | [] => none
  | x :: xs => match listMin xs with
    | none => some x
    | some m => some (min x m)

def listMax : List Int → Option Int
  | [] => none
  | x :: xs => match listMax xs with
    | none => some x
    | some m => some (max x m)

/-- one cluster of `generate_monoexon_from_clustered` (with no competing model in the storage):
    `reads` are the single exons of the clustered reads, `three` the clustered polyA/polyT position.
    `some []` = no model (count below the cutoff), `none` = ValueError (`min([])`). -/
def monoExonFromCluster (cutoff : Nat) (forward : Bool) (reads : List Iv) (three : Int) : Option (List Iv) :=
  if reads.length < cutoff then some []
  else if forward then (listMin (reads.map (·.1))).map (fun five => [(five, three)])
  else (listMax (reads.map (·.2))).map (fun five => [(three, five)])

/-- state of the read loop of `correct_novel_transcript_ends` -/
structure EndState where
  startSupported : Bool := false
  readStarts : List Int := []
  endSupported : Bool := false
  readEnds : List Int := []

def intLt (a b : Int) : Bool := decide (a < b)

/-- one read `(read_exons[0][0], read_exons[-1][1])` -/
def endStep (apa : Int) (ts te : Int) (first last : Iv) (st : EndState) (rd : Iv) : EndState :=
  let ss := st.startSupported || decide (iabs (rd.1 - ts) ≤ apa)
  let rs := if !ss && decide (rd.1 < first.2) then rd.1 :: st.readStarts else st.readStarts
  let es := st.endSupported || decide (iabs (rd.2 - te) ≤ apa)
  let re := if !es && decide (rd.2 > last.1) then rd.2 :: st.readEnds else st.readEnds
  { startSupported := ss, readStarts := rs, endSupported := es, readEnds := re }

def setHead (l : List Iv) (x : Iv) : List Iv :=
  match l with
  | [] => []
  | _ :: t => x :: t

def setLast (l : List Iv) (x : Iv) : List Iv :=
  match l with
  | [] => []
  | [_] => [x]
  | a :: b :: t => a :: setLast (b :: t) x

/-- `if new_transcript_start and new_transcript_start < exon_blocks[0][1]: exon_blocks[0] = (new_start, exon_blocks[0][1])` -/
def applyStart (exons : List Iv) (first : Iv) (newStart : Option Int) : List Iv :=
  match newStart with
  | some s => if s ≠ 0 ∧ s < first.2 then setHead exons (s, first.2) else exons
  | none => exons

/-- `if new_transcript_end and new_transcript_end > exon_blocks[-1][0]: exon_blocks[-1] = (exon_blocks[-1][0], new_end)`
    (`exon_blocks[-1]` is read after the start was changed: for a mono-exon transcript it is the changed exon) -/
def applyEnd (exons1 : List Iv) (newEnd : Option Int) : Option (List Iv) :=
  match newEnd, exons1.getLast? with
  | some e, some last1 => some (if e ≠ 0 ∧ e > last1.1 then setLast exons1 (last1.1, e) else exons1)
  | none, _ => some exons1
  | some _, none => none

/-- `correct_novel_transcript_ends(model, assigned_reads)`: the new `exon_blocks`; `reads` are the
    `(corrected_exons[0][0], corrected_exons[-1][1])` of the assigned reads in order; `none` = IndexError -/
def correctEnds (exons : List Iv) (reads : List Iv) (apa : Int) : Option (List Iv) :=
  match exons.head?, exons.getLast? with
  | some first, some last =>
    let ts := first.1
    let te := last.2
    let st := reads.foldl (endStep apa ts te first last) {}
    let newStart : Option Int :=
      if st.startSupported then none else (isortBy intLt st.readStarts).find? (fun s => decide (s > ts))
    let newEnd : Option Int :=
      if st.endSupported then none else ((isortBy intLt st.readEnds).reverse).find? (fun e => decide (e < te))
    applyEnd (applyStart exons first newStart) newEnd
  | _, _ => none

/-! ### `merge_files`: natural sort key and concatenation -/

/-- one token of `re.split('(\d+)', s)` after the key lambda: digit runs become ints, the rest lower-cased text -/
inductive Tok where
  | num (n : Nat)
  | txt (s : List Char)
deriving DecidableEq, Repr

def isDig (c : Char) : Bool := decide ('0' ≤ c) && decide (c ≤ '9')

def digitsVal (acc : Nat) : List Char → Nat
  | [] => acc
  | c :: cs => digitsVal (acc * 10 + (c.toNat - '0'.toNat)) cs

/-- `re.split('(\d+)', s)`: alternating text / digit-run pieces, starting and ending with a (possibly empty)
    text piece.  `cur` is the piece being read (reversed), `inDig` says whether it is a digit run. -/
def splitDigits : List Char → List Char → Bool → List (List Char)
  | [], cur, inDig => if inDig then [cur.reverse, []] else [cur.reverse]
  | c :: cs, cur, inDig =>
    if isDig c then
      if inDig then splitDigits cs (c :: cur) true
      else cur.reverse :: splitDigits cs [c] true
    else
      if inDig then cur.reverse :: splitDigits cs [c] false
      else splitDigits cs (c :: cur) false

def lowerAscii (c : Char) : Char := if 'A' ≤ c ∧ c ≤ 'Z' then Char.ofNat (c.toNat + 32) else c

/-- the key lambda: `int(t) if t.isdigit() else t.lower()` (ASCII names; `''.isdigit()` is False) -/
def natKey (s : List Char) : List Tok :=
  (splitDigits s [] false).map (fun t => if !t.isEmpty && t.all isDig then Tok.num (digitsVal 0 t) else Tok.txt (t.map lowerAscii))

def charsLt : List Char → List Char → Bool
  | [], [] => false
  | [], _ :: _ => true
  | _ :: _, [] => false
  | a :: as, b :: bs => if a.toNat < b.toNat then true else if b.toNat < a.toNat then false else charsLt as bs

/-- Python `<` on the key lists; `none` = TypeError (`int` vs `str` at the first differing position) -/
def keyLt : List Tok → List Tok → Option Bool
  | [], [] => some false
  | [], _ :: _ => some true
  | _ :: _, [] => some false
  | a :: as, b :: bs =>
    if a = b then keyLt as bs
    else match a, b with
      | .num x, .num y => some (decide (x < y))
      | .txt x, .txt y => some (charsLt x y)
      | _, _ => none

/-- stable insertion sort by the natural key of `name`, with a comparison that may raise -/
def insKey {α} (name : α → List Char) (x : α) : List α → Option (List α)
  | [] => some [x]
  | y :: ys =>
    match keyLt (natKey (name y)) (natKey (name x)) with
    | none => none
    | some true => (insKey name x ys).map (y :: ·)
    | some false => some (x :: y :: ys)

def sortNatural {α} (name : α → List Char) : List α → Option (List α)
  | [] => some []
  | x :: xs => match sortNatural name xs with
    | none => none
    | some r => insKey name x r

/-- `merge_files` on per-chromosome outputs `(file name, lines)`: concatenation in natural order of the names
    (every file is read once; a missing file is skipped by the code and is `[]` here) -/
def mergeFiles {α} (files : List (List Char × List α)) : Option (List α) :=
  (sortNatural (·.1) files).map (fun fs => fs.flatMap (·.2))

/-- `merge_files(..., copy_header=False, header_lines=k)` (repair `fix_merge_header`): of every part the first `k` lines
    - the lines its writer put before the first record - are skipped, whatever the records look like; both GTF merges
    and the read-to-model merge pass `k = 0` (`GFFPrinter` writes the per-chromosome files without a header), which is
    `mergeFiles` -/
def mergeFilesH {α} (k : Nat) (files : List (List Char × List α)) : Option (List α) :=
  (sortNatural (·.1) files).map (fun fs => fs.flatMap (fun f => f.2.drop k))

/-- `merge_files(..., copy_header=False)` of the tree BEFORE the repair: the leading lines of every part that start
    with `#` (`isHdr`) were taken for header lines - for a contig named `#c1` that is every record of its GTF -/
def mergeFilesOrig {α} (isHdr : α → Bool) (files : List (List Char × List α)) : Option (List α) :=
  (sortNatural (·.1) files).map (fun fs => fs.flatMap (fun f => f.2.dropWhile isHdr))

end IsoVerif.Model.C03
