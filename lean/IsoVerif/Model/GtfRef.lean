/-
C03 — the reference side of the output annotation, one level above `Model/Gtf.lean`:

  src/gene_info.py              GeneInfo.set_introns_and_exons (a transcript record WITHOUT exon records is skipped with a
                                warning: it gets no entry in `all_isoforms_exons` / `all_isoforms_introns`), set_gene_ids /
                                set_isoform_strands / set_sources (which still list it)
  src/graph_based_model_construction.py
                                TranscriptToGeneJoiner.__init__, second loop (one lookup in `all_isoforms_introns` per key of
                                `gene_id_map`): `joinerRefLoopOrig` is the pinned code (`d[transcript_id]`, KeyError for an
                                exon-less transcript), `joinerRefLoop` the repaired one (`d.get(transcript_id, [])`)
  src/transcript_printer.py     create_extended_storage (both branches: chromosome with / without annotated genes)
  src/dataset_processor.py      get_chr_list (the per-chromosome tasks are the KEYS OF THE REFERENCE FASTA), the
                                extended-annotation part of construct_models_in_parallel (one dump per task on a fresh printer)

Core Lean only.  `none` = exception of the real code.
-/
import IsoVerif.Model.Gtf

namespace IsoVerif.Model.C03
open IsoVerif.Gen IsoVerif.Model

/-- one `transcript` / `mRNA` child of a gene as gffutils returns it -/
structure DbTx where
  tid : Id
  gid : Id
  /-- chromosome of the transcript record itself (it may differ from the gene's when one `gene_id` is used on two
      chromosomes and gffutils infers the gene record) -/
  seqid : Id
  strand : Strand
  /-- exon children ordered by start; EMPTY for a transcript record without exon records -/
  exons : List Iv
  other : List Feat := []
deriving DecidableEq, Repr

/-- what `genedb.region(seqid=chr, start=1, featuretype="gene")` and `db.children(gene)` give for one chromosome -/
structure ChrAnn where
  chr : Id
  /-- gene id ↦ (start, end) of the gene records lying on `chr`, in `gene_db_list` order -/
  regions : List (Id × Iv) := []
  /-- every transcript child of these genes WHEREVER IT LIES, in the order of the nested loops of `set_introns_and_exons` -/
  txs : List DbTx := []
deriving DecidableEq, Repr

def DbTx.ref (t : DbTx) : RefTx := { tid := t.tid, gid := t.gid, strand := t.strand, exons := t.exons, other := t.other }

/-- `set_introns_and_exons`: `if not exons: logger.warning(...); continue` — the entries of `all_isoforms_exons` -/
def isoformsOf (txs : List DbTx) : List RefTx := (txs.filter (fun t => !t.exons.isEmpty)).map DbTx.ref

/-- the chromosome-wide `GeneInfo` of `create_extended_storage` as `dump` / `from_reference_transcript` see it -/
def ChrAnn.ctx (a : ChrAnn) : GeneCtx := { chr := a.chr, regions := a.regions, isoforms := isoformsOf a.txs }

/-! ### `TranscriptToGeneJoiner.__init__`, second loop -/

/-- `gene_introns` (defaultdict(set)) and `gene_to_transcripts` (defaultdict(set)): insertion-ordered association lists of
    duplicate-free lists -/
structure RefTables where
  introns : List (Id × List Iv) := []
  g2t : List (Id × List Id) := []
deriving DecidableEq, Repr

def setIns {α} [DecidableEq α] (s : List α) (x : α) : List α := if x ∈ s then s else s ++ [x]

/-- `d[k].update(l)` on a defaultdict(set) -/
def ddUpdate {α} [DecidableEq α] (d : List (Id × List α)) (k : Id) (l : List α) : List (Id × List α) :=
  match d.lookup k with
  | none => d ++ [(k, l.foldl setIns [])]
  | some _ => d.map (fun p => if p.1 = k then (k, l.foldl setIns p.2) else p)

/-- `all_isoforms_introns[tid]`; `none` = KeyError -/
def intronsOf? (iso : List RefTx) (tid : Id) : Option (List Iv) :=
  (iso.find? (fun r => r.tid == tid)).map (fun r => junctionsFromBlocks r.exons)

def refStep (acc : RefTables) (gid tid : Id) (l : List Iv) : RefTables :=
  { introns := ddUpdate acc.introns gid l, g2t := ddUpdate acc.g2t gid [tid] }

/-- the pinned code: `self.gene_introns[gene_id].update(self.gene_info.all_isoforms_introns[transcript_id])` -/
def joinerRefLoopOrig (iso : List RefTx) : List DbTx → RefTables → Option RefTables
  | [], acc => some acc
  | t :: ts, acc =>
    match intronsOf? iso t.tid with
    | none => none
    | some l => joinerRefLoopOrig iso ts (refStep acc t.gid t.tid l)

/-- `all_isoforms_introns.get(tid, [])` -/
def intronsOrEmpty (iso : List RefTx) (tid : Id) : List Iv :=
  match intronsOf? iso tid with
  | none => []
  | some l => l

/-- the repaired code: `….update(self.gene_info.all_isoforms_introns.get(transcript_id, []))` -/
def joinerRefLoop (iso : List RefTx) : List DbTx → RefTables → RefTables
  | [], acc => acc
  | t :: ts, acc => joinerRefLoop iso ts (refStep acc t.gid t.tid (intronsOrEmpty iso t.tid))

/-- the second loop on the GeneInfo of an annotation: keys of `gene_id_map` = ALL transcripts, lookups in the exon-ful ones -/
def ChrAnn.joinerTablesOrig (a : ChrAnn) : Option RefTables := joinerRefLoopOrig (isoformsOf a.txs) a.txs {}
def ChrAnn.joinerTables (a : ChrAnn) : RefTables := joinerRefLoop (isoformsOf a.txs) a.txs {}

/-! ### one run: which chromosomes get a task, and what the extended annotation of a task holds -/

structure RunInput where
  /-- `reference_record_dict.keys()`: `get_chr_list()` sorts them by length, the SET is the task set -/
  fastaKeys : List Id
  /-- the annotation grouped by the chromosome of its gene records -/
  ann : List ChrAnn := []
  /-- `novel_model_storage` of every task -/
  novel : List (Id × List TModel) := []
deriving Repr

def RunInput.annOf (inp : RunInput) (c : Id) : Option ChrAnn := inp.ann.find? (fun a => a.chr == c)

def RunInput.novelOf (inp : RunInput) (c : Id) : List TModel :=
  match inp.novel.lookup c with
  | none => []
  | some l => l

/-- `create_extended_storage(genedb, chr_id, chr_record, novel)` + `tmp_extended_gff_printer.dump(gene_info, all_models)` of
    one task; a chromosome without annotated genes takes the `if not gene_list` branch (`GeneInfo.from_region`) -/
def extendedOfChr (inp : RunInput) (c : Id) : Option (List Line) :=
  match inp.annOf c with
  | none => (dump [] { chr := c } (inp.novelOf c)).map (·.2)
  | some a =>
    match createExtendedStorage a.ctx (inp.novelOf c) with
    | none => none
    | some ms => (dump [] a.ctx ms).map (·.2)

/-- the loop over the tasks (`pool.map(construct_models_in_parallel, …, chr_ids, …)`): an exception in any task ends the run -/
def extendedRunAux (inp : RunInput) : List Id → Option (List (Id × List Line))
  | [] => some []
  | c :: cs =>
    match extendedOfChr inp c with
    | none => none
    | some ls =>
      match extendedRunAux inp cs with
      | none => none
      | some r => some ((c, ls) :: r)

/-- the lines of `extended_annotation.gtf` before the merge: one block per key of the FASTA -/
def extendedRun (inp : RunInput) : Option (List (Id × List Line)) := extendedRunAux inp inp.fastaKeys

def extendedLines (inp : RunInput) : Option (List Line) := (extendedRun inp).map (fun bs => bs.flatMap (·.2))

end IsoVerif.Model.C03
