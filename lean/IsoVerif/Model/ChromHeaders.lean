/-
C05 / C12 (growth, seeds C05_a4 / C12_a4) — the BAM files of one experiment need not share a header.  Core Lean only.

  src/alignment_processor.py   AlignmentCollector.get_chromosome_length   `max(lengths, default=0)` over the files whose
                                                                          `get_reference_length(chr_id)` does not raise
                                                                          KeyError; the reference FASTA record
                                                                          (`chr_record`) is NOT consulted
                               BAMOnlineMerger._fetch                     `fetch` of a file whose header lacks the sequence
                                                                          raises ValueError -> `iter(())` FOR THAT FILE

A file of the experiment is its `@SQ LN` entry for the chromosome of the task (`none`: the header does not list it) and its
records on that chromosome.  Everything behind the scan interval is the existing composition `collectFiles`
(`Model/RegionsMulti.lean`).
-/
import IsoVerif.Model.RegionsMulti

namespace IsoVerif.Model.RegionsMulti
open IsoVerif.Gen IsoVerif.Model IsoVerif.Model.Regions

structure HFile where
  /-- `bam.get_reference_length(chr_id)`; `none` = KeyError (and `fetch` raises ValueError) -/
  len : Option Int
  recs : List Aln
deriving Repr

/-- the `lengths` list of `get_chromosome_length` -/
def listedLengths (fs : List HFile) : List Int := fs.filterMap (fun f => f.len)

/-- `AlignmentCollector.get_chromosome_length()` = `max(lengths, default=0)` -/
def chromLength (fs : List HFile) : Int :=
  match listedLengths fs with
  | [] => 0
  | l :: t => t.foldl max l

/-- the iterator `_fetch` gives the merger for one file -/
def HFile.visible (f : HFile) : List Aln :=
  match f.len with
  | none => []
  | some _ => f.recs

/-- `AlignmentCollector(chr_id, bam_pairs, params, …, chr_record).process()`; `fasta` = `len(chr_record)` when a record is
    given — present in the signature because the constructor receives it, absent from the right-hand side because the scan
    interval is `(0, get_chromosome_length())` -/
def collectHeaders (m : Mode) (fs : List HFile) (_fasta : Option Int) : Option (List (Iv × List FAln)) :=
  collectFiles m (fs.map HFile.visible) (chromLength fs)

def chromStatsHeaders (fs : List HFile) (_fasta : Option Int) : Stats :=
  chromStatsFiles (fs.map HFile.visible) (chromLength fs)

end IsoVerif.Model.RegionsMulti
