/-
C11 — reflection `x ↦ L + 1 − x` of the objects of the assigner model (Model/Assign.lean, property C01): events,
polyA info, isoform / gene / read-profile records, plus the left/right decomposition of
`categorize_exon_elongation_subtype` that the reflection theorems are stated with.  Definitions only (core Lean);
the theorems are in Props/C11AssignMirror.lean, the Python twins in harness/props/c11x_assignm.py (compared through
the `C11.T.*` driver ops of Driver/C11AssignMirror.lean on every run).

Under reflection
  * event names swap left/right (`swapLR`), positions carried by the polyA-site events are mirrored (the code
    never writes the sentinel −1 there), the intron index carried by `terminal_exon_misalignment_*` is counted from the other end
    (i ↦ (nExons − 1) − 1 − i), every other payload is kept;
  * polyA ↔ polyT (external and internal), strand + ↔ −;
  * feature lists are mirrored (`mirrorL`), profiles reversed, profile ranges `(a, b) ↦ (n − b, n − a)`.
-/
import IsoVerif.Model.Assign
import IsoVerif.Model.C11Symmetry

namespace IsoVerif.Model.C11
open IsoVerif.Gen IsoVerif.Model IsoVerif.Model.C01

/-- events whose `event_info` is a genomic position (written by src/polya_verification.py) -/
def isPolyaSiteTy : MatchEventSubtype → Bool
  | .correct_polya_site_left | .correct_polya_site_right
  | .alternative_polya_site_left | .alternative_polya_site_right
  | .internal_polya_left | .internal_polya_right => true
  | _ => false

/-- events whose `isoform_region` is an intron index written by `detect_reference_exons_beyond_polya / before_polyt` -/
def isTermMisTy : MatchEventSubtype → Bool
  | .terminal_exon_misalignment_left | .terminal_exon_misalignment_right => true
  | _ => false

/-- mirror image of one event of an isoform with `nEx` exons on a chromosome of length `L` -/
def mirrorEvent (L : Int) (nEx : Nat) (e : Event) : Event :=
  { ty := swapLR e.ty
    isoRegion := if isTermMisTy e.ty then ((nEx : Int) - 2 - e.isoRegion.2, (nEx : Int) - 2 - e.isoRegion.1)
                 else e.isoRegion
    readRegion := e.readRegion
    info := if isPolyaSiteTy e.ty then mirrorP L e.info else e.info }

def mirrorStrand : Strand → Strand
  | .plus => .minus
  | .minus => .plus
  | .other => .other

/-- polyA ↔ polyT, positions mirrored, sentinel −1 kept -/
def mirrorPolyA (L : Int) (pa : PolyA) : PolyA :=
  { extA := mirrorPos L pa.extT, extT := mirrorPos L pa.extA, intA := mirrorPos L pa.intT, intT := mirrorPos L pa.intA }

/-- half-open index range of a profile over `n` features, seen from the other end -/
def mirrorRange (n : Nat) (r : Int × Int) : Int × Int := ((n : Int) - r.2, (n : Int) - r.1)

def mirrorProfRes (n : Nat) (r : ProfileResult) : ProfileResult :=
  { gene := r.gene.reverse, read := r.read.reverse, range := mirrorRange n r.range }

/-- isoform record of a gene with `nIntr` introns and `nSplit` split exons -/
def mirrorIsoInfo (L : Int) (nIntr nSplit : Nat) (I : IsoInfo) : IsoInfo :=
  { id := I.id, exons := mirrorL L I.exons, introns := mirrorL L I.introns, region := mirrorIv L I.region,
    strand := mirrorStrand I.strand,
    intronProf := I.intronProf.reverse, intronRange := mirrorRange nIntr I.intronRange,
    splitProf := I.splitProf.reverse, splitRange := mirrorRange nSplit I.splitRange }

/-- the isoform order (= id order) is kept: ids are names, not coordinates -/
def mirrorGene (L : Int) (g : Gene) : Gene :=
  { start := L + 1 - g.stop, stop := L + 1 - g.start,
    introns := mirrorL L g.introns, exons := mirrorL L g.exons, splitExons := mirrorL L g.splitExons,
    isos := g.isos.map (mirrorIsoInfo L g.introns.length g.splitExons.length) }

def mirrorReadProf (L : Int) (g : Gene) (rp : ReadProf) : ReadProf :=
  { blocks := mirrorL L rp.blocks, region := mirrorIv L rp.region, introns := mirrorL L rp.introns,
    intron := mirrorProfRes g.introns.length rp.intron, split := mirrorProfRes g.splitExons.length rp.split,
    polya := mirrorPolyA L rp.polya }

/-- an isoform match of isoform `I` with its events mirrored -/
def mirrorMatch (L : Int) (I : IsoInfo) (m : IsoMatch) : IsoMatch :=
  { m with events := m.events.map (mirrorEvent L I.exons.length) }

def mirrorPair (L : Int) (g : Gene) (Im : IsoInfo × IsoMatch) : IsoInfo × IsoMatch :=
  (mirrorIsoInfo L g.introns.length g.splitExons.length Im.1, mirrorMatch L Im.1 Im.2)

/-! ### `categorize_exon_elongation_subtype` split into its two ends

`elongationEvents = left ++ right`; the mirror image is `mirror right ++ mirror left` (not the reversed list: each end
lists its terminal-site event before its elongation event). -/

/-- the events of the read's LEFT end given the first common split exon `cf` -/
def elongLeftOf (p : Params) (isoFirst cf : Int) (fr sf : Iv) : List Event :=
  if overlaps fr sf then
    endEvents p (decide (cf = isoFirst)) (sf.1 - fr.1)
      .terminal_site_match_left_precise .terminal_site_match_left .major_exon_elongation_left .exon_elongation_left
  else []

/-- the events of the read's RIGHT end given the last common split exon `cl` -/
def elongRightOf (p : Params) (isoLast cl : Int) (lr sl : Iv) : List Event :=
  if overlaps lr sl then
    endEvents p (decide (cl = isoLast)) (lr.2 - sl.2)
      .terminal_site_match_right_precise .terminal_site_match_right .major_exon_elongation_right .exon_elongation_right
  else []

/-- `elongationEvents` returning the two ends separately (`elongationEvents_eq_sides`) -/
def elongSides (g : Gene) (p : Params) (rp : ReadProf) (I : IsoInfo) : Option (List Event × List Event) :=
  let isoFirst := I.splitRange.1
  let isoLast := I.splitRange.2 - 1
  let from1 := max isoFirst rp.split.range.1
  if from1 < 0 then none else
  let cf := commonFirst (I.splitProf.drop from1.toNat) (rp.split.gene.drop from1.toNat) from1
  if I.splitProf.length < g.splitExons.length ∧ cf = -1 then none else
  if rp.split.gene.length < g.splitExons.length ∧ cf = -1 then none else
  let from2 := min isoLast (rp.split.range.2 - 1)
  match commonLast I.splitProf rp.split.gene (from2 + 1).toNat from2 with
  | none => none
  | some cl =>
    match rp.blocks.head?, rp.blocks.getLast?, pyGet? g.splitExons cf, pyGet? g.splitExons cl with
    | some fr, some lr, some sf, some sl =>
      some (elongLeftOf p isoFirst cf (measuredExon p fr rp.blocks[1]? sf) sf,
            elongRightOf p isoLast cl (measuredExon p lr rp.blocks.reverse[1]? sl) sl)
    | _, _, _, _ => none

/-- the two index loops of `categorize_exon_elongation_subtype`: (common_first_exon, common_last_exon);
    `none` = the second loop raises -/
def commonEnds (rp : ReadProf) (I : IsoInfo) : Option (Int × Int) :=
  let from1 := max I.splitRange.1 rp.split.range.1
  let from2 := min (I.splitRange.2 - 1) (rp.split.range.2 - 1)
  (commonLast I.splitProf rp.split.gene (from2 + 1).toNat from2).map
    (fun cl => (commonFirst (I.splitProf.drop from1.toNat) (rp.split.gene.drop from1.toNat) from1, cl))

/-- well-formedness of the profile data `categorize_exon_elongation_subtype` reads: both profiles have one entry per
    split exon and both ranges lie inside `[0, n]` (what `set_profiles` / `construct_profiles` produce) -/
def ElongWF (g : Gene) (rp : ReadProf) (I : IsoInfo) : Prop :=
  I.splitProf.length = g.splitExons.length ∧ rp.split.gene.length = g.splitExons.length ∧
  0 ≤ I.splitRange.1 ∧ I.splitRange.2 ≤ g.splitExons.length ∧
  0 ≤ rp.split.range.1 ∧ rp.split.range.2 ≤ g.splitExons.length

instance (g : Gene) (rp : ReadProf) (I : IsoInfo) : Decidable (ElongWF g rp I) := by unfold ElongWF; infer_instance

/-- isoform and read share a split exon inside both ranges (otherwise the code logs "Odd case for exon elongation"
    and goes on with index −1 = the LAST split exon, for both ends) -/
def HasCommon (rp : ReadProf) (I : IsoInfo) : Prop :=
  ∃ cf cl, commonEnds rp I = some (cf, cl) ∧ cf ≠ -1 ∧ cl ≠ -1

instance (rp : ReadProf) (I : IsoInfo) : Decidable (HasCommon rp I) := by
  unfold HasCommon
  cases h : commonEnds rp I with
  | none => exact isFalse (by simp)
  | some c =>
    by_cases h1 : c.1 ≠ -1 ∧ c.2 ≠ -1
    · exact isTrue ⟨c.1, c.2, by simp, h1.1, h1.2⟩
    · exact isFalse (by
        rintro ⟨cf, cl, e, a, b⟩
        simp only [Option.some.injEq] at e
        subst e; exact h1 ⟨a, b⟩)

/-- the update of the assignment type by one match's elongation events (`check_read_ends`) -/
def elongTypeStep (el : List Event) (ty : ReadAssignmentType) : ReadAssignmentType :=
  if el.any (fun e => e.ty.is_major_elongation) then
    (if !ty.is_inconsistent then ReadAssignmentType.inconsistent_non_intronic else ty)
  else if el.any (fun e => e.ty.is_minor_elongation) then
    (if ty = ReadAssignmentType.unique then ReadAssignmentType.unique_minor_difference else ty)
  else ty

/-- the mirror image of `checkReadEnds` written on the ORIGINAL data: per match the two ends are appended in the
    order right, left with all events mirrored -/
def checkReadEndsMirrored (L : Int) (g : Gene) (p : Params) (rp : ReadProf) :
    List (IsoInfo × IsoMatch) → ReadAssignmentType → Option (List (IsoInfo × IsoMatch) × ReadAssignmentType)
  | [], ty => some ([], ty)
  | (I, m) :: rest, ty =>
    match elongSides g p rp I with
    | none => none
    | some s =>
      let mE := mirrorEvent L I.exons.length
      let el := s.2.map mE ++ s.1.map mE
      let m' := { m with events := el.foldl addSub (m.events.map mE) }
      match checkReadEndsMirrored L g p rp rest (elongTypeStep (s.1 ++ s.2) ty) with
      | none => none
      | some (r, t) => some ((mirrorIsoInfo L g.introns.length g.splitExons.length I, m') :: r, t)

/-! ### hypotheses of the polyA / polyT duality: the sentinel −1 is never a coordinate -/

/-- `x` is a real coordinate before and after the reflection (neither is the sentinel −1) -/
def NoSent (L x : Int) : Prop := x ≠ -1 ∧ L + 1 - x ≠ -1

instance (L x : Int) : Decidable (NoSent L x) := by unfold NoSent; infer_instance

/-- an optional position: absent (−1), or a real coordinate before and after the reflection -/
def PosOK (L x : Int) : Prop := x ≠ -1 → L + 1 - x ≠ -1

instance (L x : Int) : Decidable (PosOK L x) := by unfold PosOK; infer_instance

/-- hypotheses of `verify_polya ↔ verify_polyt`: a position is present (the code asserts it); no present position, no
    isoform end and no position corrected by `shift_polya` is (or is mirrored onto) the sentinel −1.
    `fake` = number of `fake_terminal_exon_right` events.  (Before fix a2ae069 a further hypothesis was needed: the code
    took `abs(x − pos)` of an ABSENT position too; see `detectBeyondPolyaBuggy_mirror_witness`.) -/
def PolyaMirrorOK (L : Int) (iso read : List Iv) (ext int : Int) (fake : Nat) : Prop :=
  (ext ≠ -1 ∨ int ≠ -1) ∧ PosOK L ext ∧ PosOK L int ∧
  (match iso.getLast? with | some e => NoSent L e.2 | none => True) ∧
  (match shiftPolya read fake ext, shiftPolya read fake int with
   | some e1, some i1 => (ext ≠ -1 → NoSent L e1) ∧ (int ≠ -1 → NoSent L i1)
   | _, _ => True)

instance (L : Int) (iso read : List Iv) (ext int : Int) (fake : Nat) : Decidable (PolyaMirrorOK L iso read ext int fake) := by
  unfold PolyaMirrorOK
  cases iso.getLast? <;> cases shiftPolya read fake ext <;> cases shiftPolya read fake int <;> infer_instance

/-- the same for `verify_polyt` (isoform start, `shift_polyt`, `fake_terminal_exon_left`) -/
def PolytMirrorOK (L : Int) (iso read : List Iv) (ext int : Int) (fake : Nat) : Prop :=
  (ext ≠ -1 ∨ int ≠ -1) ∧ PosOK L ext ∧ PosOK L int ∧
  (match iso.head? with | some e => NoSent L e.1 | none => True) ∧
  (match shiftPolyt read fake ext, shiftPolyt read fake int with
   | some e1, some i1 => (ext ≠ -1 → NoSent L e1) ∧ (int ≠ -1 → NoSent L i1)
   | _, _ => True)

instance (L : Int) (iso read : List Iv) (ext int : Int) (fake : Nat) : Decidable (PolytMirrorOK L iso read ext int fake) := by
  unfold PolytMirrorOK
  cases iso.head? <;> cases shiftPolyt read fake ext <;> cases shiftPolyt read fake int <;> infer_instance

/-- hypothesis of the `verify_read_ends` duality: no position at all, or the hypotheses of the polyA / polyT pair -/
def ReadEndsMirrorOK (L : Int) (rp : ReadProf) (I : IsoInfo) (evs : List Event) : Prop :=
  match I.strand with
  | .plus => (rp.polya.extA = -1 ∧ rp.polya.intA = -1) ∨
      PolyaMirrorOK L I.exons rp.blocks rp.polya.extA rp.polya.intA (countTy evs .fake_terminal_exon_right)
  | .minus => (rp.polya.extT = -1 ∧ rp.polya.intT = -1) ∨
      PolytMirrorOK L I.exons rp.blocks rp.polya.extT rp.polya.intT (countTy evs .fake_terminal_exon_left)
  | .other => True

instance (L : Int) (rp : ReadProf) (I : IsoInfo) (evs : List Event) : Decidable (ReadEndsMirrorOK L rp I evs) := by
  unfold ReadEndsMirrorOK
  cases I.strand <;> infer_instance

/-- the matching parameters of `--data_type nanopore` (used by the non-vacuity examples) -/
def nanoporeParams : Params :=
  { delta := 6, minor_exon_extension := 50, major_exon_extension := 300, min_abs_exon_overlap := 10,
    apa_delta := 50, minimal_exon_overlap := 5, minimal_intron_absence_overlap := 20,
    max_fake_terminal_exon_len := 40, max_missed_exon_len := 100, resolve_ambiguous := .monoexon_and_fsm }

/-! ### concrete data of the non-vacuity examples and witnesses (Props/C11AssignMirror.lean) -/

def exIsoOf (exons : List Iv) (strand : Strand) (splitProf : List Int) (splitRange : Int × Int) : IsoInfo :=
  { id := 0, exons := exons, introns := junctionsFromBlocks exons, region := (exons.head!.1, exons.getLast!.2),
    strand := strand, intronProf := [], intronRange := (0, 0), splitProf := splitProf, splitRange := splitRange }

def exGeneOf (split : List Iv) (isos : List IsoInfo) : Gene :=
  { start := split.head!.1, stop := split.getLast!.2, introns := junctionsFromBlocks split, exons := split,
    splitExons := split, isos := isos }

def exReadOf (blocks : List Iv) (gene read : List Int) (range : Int × Int) (pa : PolyA) : ReadProf :=
  { blocks := blocks, region := (blocks.head!.1, blocks.getLast!.2), introns := junctionsFromBlocks blocks,
    intron := { gene := [], read := [], range := (0, 0) }, split := { gene := gene, read := read, range := range },
    polya := pa }

def noPolyA : PolyA := { extA := -1, extT := -1, intA := -1, intT := -1 }

/-- three-exon isoform; the read covers the first two exons, starts 20 bp before the isoform and runs 30 bp into the
    second intron -/
def exIso : IsoInfo := exIsoOf [(100, 200), (300, 400), (500, 600)] .plus [1, 1, 1] (0, 3)
def exGene : Gene := exGeneOf [(100, 200), (300, 400), (500, 600)] [exIso]
def exRead : ReadProf := exReadOf [(80, 200), (300, 430)] [1, 1, 0] [1, 1] (0, 2) noPolyA

/-- no common split exon inside the two ranges (the code's "Odd case for exon elongation") -/
def oddIso : IsoInfo := exIsoOf [(10, 20)] .plus [1, 0] (0, 1)
def oddGene : Gene := exGeneOf [(10, 20), (30, 40)] [oddIso]
def oddRead : ReadProf := exReadOf [(20, 38)] [0, 1] [1] (1, 2) noPolyA

/-- polyA data: a read ending 20 bp before the isoform end with the tail right behind it -/
def paIso : List Iv := [(100, 200), (300, 400)]
def paRead : List Iv := [(100, 200), (300, 380)]
def paInfo : PolyA := { extA := 381, extT := -1, intA := -1, intT := -1 }

/-- regression witness of fix a2ae069: a gene at the chromosome start whose short last exon lies beyond the polyA site -/
def sentIso : List Iv := [(5, 30), (180, 190)]
def sentRead : List Iv := [(5, 30)]
def sentInfo : PolyA := { extA := 135, extT := -1, intA := -1, intT := -1 }

/-- a two-isoform gene built by the model's `from_models` and a read through its profile constructor (examples of
    the candidate-selection theorems) -/
def selGene : Gene :=
  (Gene.fromModels [{ exons := [(100, 200), (300, 400), (500, 600)], strand := .plus },
                    { exons := [(100, 200), (500, 600)], strand := .plus }]).getD exGene
def selRead : ReadProf := (constructProfiles selGene nanoporeParams [(150, 200), (300, 430)] noPolyA).getD exRead

end IsoVerif.Model.C11
