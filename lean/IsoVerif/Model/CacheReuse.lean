import IsoVerif.Model.Cache

/-
C20 — the OLD `index_reference` of src/read_mapper.py (before the repair of audit2 C20-G3), kept as a variant for its witness:

    index_name = <output>/<reference file name>_k<K>_idx
    if os.path.isfile(index_name): return index_name          # re-used BY NAME, whatever it was built from
    … run minimap2 -d index_name reference …

followed by `store_index(index, args)`, which records the file under the key of THIS run's reference with the mtimes it finds.
In Model/Cache.lean (and in the repaired code) that place is `produce c false`: the index is always built.
Core Lean only.  A run is executed alone, to its end (the defect needs no concurrency).
-/
namespace IsoVerif.Model.C20

/-- `index_reference` (old) + the entry `store_index` computes: when a file exists under the index's name nothing is built
    and no production is logged; the pending entry and the result carry the mtimes found -/
def stepReuse {β : Type} (cd : Codec β) (w : World β) (p : Proc) (c : Client) : World β × Proc :=
  match w.mtime c.target, w.mtime c.src, allSome (c.aux.map w.mtime) with
  | some tm, some sm, some am =>
    let e : Entry := { kind := c.file, target := c.target, srcM := sm, tgtM := tm, tag := c.tag, aux := am }
    (w, { p with pending := upd p.pending c.file (some (c.key, e)),
                 results := { client := c, target := c.target, srcM := sm, tgtM := tm, auxM := am, hit := false } :: p.results })
  | _, _, _ => stepProc cd w { p with todo := .produce c false :: p.todo }

/-- `n` steps of one process on its own -/
def stepsAlone {β : Type} (cd : Codec β) : Nat → World β × Proc → World β × Proc
  | 0, x => x
  | n + 1, x => stepsAlone cd n (stepProc cd x.1 x.2)

/-- one whole run (start-up, `find_stored_index`, OLD `index_reference`, `store_index`) executed alone -/
def runReuseAlone {β : Type} (cd : Codec β) (w : World β) (c : Client) : World β × Proc :=
  let x1 := stepsAlone cd 12 (w, Proc.init (setupFixed ++ [.load c.file true false, .lookup c 0]))
  match x1.2.results with
  | _ :: _ => x1
  | [] =>
    let x2 := stepReuse cd x1.1 x1.2 c
    stepsAlone cd 4 (x2.1, { x2.2 with todo := x2.2.todo ++ [.load c.file true true, .replaceBuf c.file false] })

/-- one whole run of the code base (repaired `index_reference`) executed alone -/
def runFixedAlone {β : Type} (cd : Codec β) (w : World β) (c : Client) : World β × Proc :=
  stepsAlone cd 16 (w, Proc.init (progFixed { db := none, stores := [(c, true)] }))

end IsoVerif.Model.C20
