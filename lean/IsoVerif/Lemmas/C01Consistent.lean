/-
Helper lemmas about the consistent path (`matchConsistent`): which isoforms can be reported, which events can occur.
Core Lean only.
-/
import IsoVerif.Lemmas.C01Assign

namespace IsoVerif.Lemmas.C01
open IsoVerif.Gen IsoVerif.Model IsoVerif.Model.C01 IsoVerif.Lemmas

/-- an event type that `classify_assignment` knows how to classify -/
def knownTy (t : MatchEventSubtype) : Bool := t.is_consistent || t.is_minor_error || t.is_major_inconsistency

def AllKnown (evs : List Event) : Prop := ∀ e ∈ evs, knownTy e.ty = true

theorem allKnown_append {a b : List Event} (ha : AllKnown a) (hb : AllKnown b) : AllKnown (a ++ b) := by
  intro e he
  rcases List.mem_append.mp he with h | h
  · exact ha e h
  · exact hb e h

theorem allKnown_single (e : Event) (h : knownTy e.ty = true) : AllKnown [e] := by
  intro x hx; simp at hx; subst hx; exact h

theorem allKnown_sublist {a b : List Event} (h : a.Sublist b) (hb : AllKnown b) : AllKnown a :=
  fun e he => hb e (h.subset he)

theorem allKnown_addSub {evs : List Event} {e : Event} (h1 : AllKnown evs) (h2 : knownTy e.ty = true) :
    AllKnown (addSub evs e) := by
  unfold addSub
  split
  · split
    · exact allKnown_single e h2
    · intro x hx
      simp at hx
      rcases hx with hx | hx
      · subst hx; exact h1 _ (by simp)
      · subst hx; exact h2
  · exact allKnown_append h1 (allKnown_single e h2)

theorem allKnown_foldl_addSub (el : List Event) : ∀ (evs : List Event), AllKnown evs → AllKnown el →
    AllKnown (el.foldl addSub evs) := by
  induction el with
  | nil => intro evs h _; exact h
  | cons e t ih =>
    intro evs h1 h2
    simp only [List.foldl_cons]
    apply ih
    · exact allKnown_addSub h1 (h2 e (by simp))
    · intro x hx; exact h2 x (List.mem_cons_of_mem _ hx)

/-! ### the categorisation events -/

theorem spliceMatch_spec (rp : ReadProf) (I : IsoInfo) (m : IsoMatch) (h : spliceMatch rp I = some m) :
    m.iso = some I.id ∧ AllKnown m.events := by
  unfold spliceMatch at h
  cases hc : categorizeSplice rp I with
  | none => simp [hc] at h
  | some ce =>
    simp [hc] at h; subst h
    refine ⟨rfl, ?_⟩
    simp only [mkMatchOne]
    apply allKnown_single
    unfold categorizeSplice at hc
    split at hc
    · simp at hc; subst hc; decide
    · split at hc
      · simp at hc
      · simp at hc; subst hc; decide
      · cases hd : detectIsmSubtype rp I with
        | none => simp [hd] at hc
        | some t =>
          simp [hd] at hc; subst hc
          unfold detectIsmSubtype at hd
          cases hr : regionOf I.introns with
          | none => simp [hr] at hd
          | some r =>
            simp [hr] at hd
            subst hd
            simp only
            split
            · decide
            · split
              · decide
              · split <;> decide

theorem unsplicedMatch_spec (I : IsoInfo) (m : IsoMatch) (h : unsplicedMatch I = some m) :
    m.iso = some I.id ∧ AllKnown m.events := by
  unfold unsplicedMatch at h
  simp only at h
  cases hc : monoExonClassification
      (if I.exons.length = 1 then [({ ty := MatchEventSubtype.mono_exon_match } : Event)]
       else [{ ty := MatchEventSubtype.mono_exonic }]) with
  | none => simp [hc] at h
  | some c =>
    simp [hc] at h; subst h
    refine ⟨rfl, ?_⟩
    simp only [mkMatchList]
    apply allKnown_sublist List.filter_sublist
    split
    · apply allKnown_single; decide
    · apply allKnown_single; decide

/-! ### elongation events -/

theorem endEvents_known (p : Params) (terminal : Bool) (extra : Int) (a b c d : MatchEventSubtype)
    (ha : knownTy a = true) (hb : knownTy b = true) (hc : knownTy c = true) (hd : knownTy d = true) :
    AllKnown (endEvents p terminal extra a b c d) := by
  unfold endEvents
  split
  · apply allKnown_append
    · split
      · apply allKnown_single; simp only; split <;> assumption
      · intro e he; cases he
    · split
      · exact allKnown_single _ hc
      · split
        · exact allKnown_single _ hd
        · intro e he; cases he
  · split
    · exact allKnown_single _ hd
    · intro e he; cases he

theorem elongationEvents_known (g : Gene) (p : Params) (rp : ReadProf) (I : IsoInfo) (el : List Event)
    (h : elongationEvents g p rp I = some el) : AllKnown el := by
  unfold elongationEvents at h
  simp only at h
  split at h
  · simp at h
  · split at h
    · simp at h
    · split at h
      · simp at h
      · split at h
        · simp at h
        · split at h
          · simp at h; subst h
            apply allKnown_append
            · split
              · exact endEvents_known _ _ _ _ _ _ _ (by decide) (by decide) (by decide) (by decide)
              · intro e he; cases he
            · split
              · exact endEvents_known _ _ _ _ _ _ _ (by decide) (by decide) (by decide) (by decide)
              · intro e he; cases he
          · simp at h

/-! ### polyA verification -/

theorem checkIfClose_known (p : Params) (stop ext int : Int) (evs r : List Event) (ty : MatchEventSubtype)
    (hty : knownTy ty = true) (hevs : AllKnown evs) (h : checkIfClose p stop ext int evs ty = some r) : AllKnown r := by
  unfold checkIfClose at h
  simp only at h
  split at h
  · simp at h; subst h; exact allKnown_append hevs (allKnown_single _ hty)
  · split at h
    · simp at h; subst h; exact allKnown_append hevs (allKnown_single _ hty)
    · simp at h

theorem allKnown_map_range (c : Nat) (f : Nat → Event) (hf : ∀ i, knownTy (f i).ty = true) :
    AllKnown ((List.range c).map f) := by
  intro e he
  simp only [List.mem_map] at he
  obtain ⟨i, _, hi⟩ := he
  subst hi; exact hf i

theorem detectBeyondPolya_known (p : Params) (iso : List Iv) (ext int : Int) (evs : List Event)
    (r : List Event × Int × Int) (hevs : AllKnown evs) (h : detectBeyondPolya p iso ext int evs = some r) :
    AllKnown r.1 := by
  unfold detectBeyondPolya at h
  extract_lets pos c at h
  split at h
  · simp at h; subst h; exact hevs
  · split at h
    · extract_lets tlen d at h
      split at h
      · simp at h; subst h
        apply allKnown_append hevs
        apply allKnown_map_range
        intro i; rfl
      · simp at h; subst h; exact hevs
    · simp at h

theorem detectBeforePolyt_known (p : Params) (iso : List Iv) (ext int : Int) (evs : List Event)
    (r : List Event × Int × Int) (hevs : AllKnown evs) (h : detectBeforePolyt p iso ext int evs = some r) :
    AllKnown r.1 := by
  unfold detectBeforePolyt at h
  extract_lets pos c at h
  split at h
  · simp at h; subst h; exact hevs
  · split at h
    · extract_lets tlen d at h
      split at h
      · simp at h; subst h
        apply allKnown_append hevs
        apply allKnown_map_range
        intro i; rfl
      · simp at h; subst h; exact hevs
    · simp at h

theorem allKnown_eraseLastOf (evs : List Event) (t1 t2 : MatchEventSubtype) (h : AllKnown evs) :
    AllKnown (eraseLastOf evs t1 t2) := by
  unfold eraseLastOf
  split
  · exact h
  · exact allKnown_sublist (List.eraseIdx_sublist evs _) h

theorem verifyPolya_known (p : Params) (iso read : List Iv) (pa : PolyA) (evs0 r : List Event)
    (hevs : AllKnown evs0) (h : verifyPolya p iso read pa evs0 = some r) : AllKnown r := by
  unfold verifyPolya at h
  split at h
  · simp at h
  · extract_lets isoEnd fake mis evs at h
    have hk : AllKnown evs := allKnown_eraseLastOf evs0 _ _ hevs
    split at h
    · rename_i r' hc
      simp at h; subst h
      exact checkIfClose_known p _ _ _ _ _ MatchEventSubtype.correct_polya_site_right (by decide) hk hc
    · split at h
      · simp at h
      · split at h
        · rename_i ext1 int1 _ _
          simp only at h
          split at h
          · simp at h
          · rename_i evs2 ext2 int2 hstep
            have hk2 : AllKnown evs2 := by
              split at hstep
              · simp at hstep; rw [← hstep.1]; exact hk
              · exact detectBeyondPolya_known _ _ _ _ _ _ hk hstep
            split at h
            · rename_i r' hc
              simp at h; subst h
              exact checkIfClose_known p _ _ _ _ _ MatchEventSubtype.correct_polya_site_right (by decide) hk2 hc
            · generalize (if int2 = -1 then ext2 else int2) = pos at h
              split at h <;> (simp at h; subst h) <;>
                exact allKnown_append hk2 (allKnown_single _ rfl)
        · simp at h

theorem verifyPolyt_known (p : Params) (iso read : List Iv) (pa : PolyA) (evs0 r : List Event)
    (hevs : AllKnown evs0) (h : verifyPolyt p iso read pa evs0 = some r) : AllKnown r := by
  unfold verifyPolyt at h
  split at h
  · simp at h
  · extract_lets isoStart fake mis evs at h
    have hk : AllKnown evs := allKnown_eraseLastOf evs0 _ _ hevs
    split at h
    · rename_i r' hc
      simp at h; subst h
      exact checkIfClose_known p _ _ _ _ _ MatchEventSubtype.correct_polya_site_left (by decide) hk hc
    · split at h
      · simp at h
      · split at h
        · rename_i ext1 int1 _ _
          simp only at h
          split at h
          · simp at h
          · rename_i evs2 ext2 int2 hstep
            have hk2 : AllKnown evs2 := by
              split at hstep
              · simp at hstep; rw [← hstep.1]; exact hk
              · exact detectBeforePolyt_known _ _ _ _ _ _ hk hstep
            split at h
            · rename_i r' hc
              simp at h; subst h
              exact checkIfClose_known p _ _ _ _ _ MatchEventSubtype.correct_polya_site_left (by decide) hk2 hc
            · generalize (if int2 = -1 then ext2 else int2) = pos at h
              split at h <;> (simp at h; subst h) <;>
                exact allKnown_append hk2 (allKnown_single _ rfl)
        · simp at h

theorem checkInternal_known (pos : Int) (evs : List Event) (a b : MatchEventSubtype) (hb : knownTy b = true)
    (h : AllKnown evs) : AllKnown (checkInternal pos evs a b).1 := by
  unfold checkInternal
  split
  · exact h
  · split
    · exact allKnown_append h (allKnown_single _ hb)
    · exact h

theorem verifyReadEnds_known (p : Params) (rp : ReadProf) (I : IsoInfo) (evs r : List Event)
    (hevs : AllKnown evs) (h : verifyReadEnds p rp I evs = some r) : AllKnown r := by
  unfold verifyReadEnds at h
  simp only at h
  have key : ∀ (o : Option (List Event)), (∀ x, o = some x → AllKnown x) →
      o.map (fun e => if e.isEmpty then [({ ty := MatchEventSubtype.none } : Event)] else e) = some r → AllKnown r := by
    intro o ho hm
    cases o with
    | none => simp at hm
    | some x =>
      simp at hm
      split at hm
      · subst hm; apply allKnown_single; decide
      · subst hm; exact ho x rfl
  apply key _ _ h
  intro x hx
  split at hx
  · have hk := checkInternal_known rp.polya.intA evs .incomplete_intron_retention_right .internal_polya_right (by decide) hevs
    split at hx
    · exact verifyPolya_known _ _ _ _ _ _ hk hx
    · simp at hx; subst hx; exact hk
  · have hk := checkInternal_known rp.polya.intT evs .incomplete_intron_retention_left .internal_polya_left (by decide) hevs
    split at hx
    · exact verifyPolyt_known _ _ _ _ _ _ hk hx
    · simp at hx; subst hx; exact hk
  · simp at hx; subst hx; exact hevs

/-! ### `check_read_ends`, `verify_read_ends_for_assignment` keep the isoforms and only add classified events -/

def PairOK (S : List IsoInfo) (p : IsoInfo × IsoMatch) : Prop :=
  p.1 ∈ S ∧ p.2.iso = some p.1.id ∧ AllKnown p.2.events

theorem checkReadEnds_ok (g : Gene) (p : Params) (rp : ReadProf) (S : List IsoInfo) :
    ∀ (ms : List (IsoInfo × IsoMatch)) (ty : ReadAssignmentType) (r : List (IsoInfo × IsoMatch)) (ty' : ReadAssignmentType),
      checkReadEnds g p rp ms ty = some (r, ty') → (∀ q ∈ ms, PairOK S q) →
      (∀ q ∈ r, PairOK S q) ∧ r.length = ms.length := by
  intro ms
  induction ms with
  | nil => intro ty r ty' h _; simp [checkReadEnds] at h; obtain ⟨h1, _⟩ := h; subst h1; simp
  | cons q t ih =>
    intro ty r ty' h hok
    obtain ⟨I, m⟩ := q
    simp only [checkReadEnds] at h
    cases hel : elongationEvents g p rp I with
    | none => simp [hel] at h
    | some el =>
      simp only [hel] at h
      split at h
      · simp at h
      · rename_i r' t' hrec
        simp at h
        obtain ⟨hr, _⟩ := h
        subst hr
        obtain ⟨ih1, ih2⟩ := ih _ r' t' hrec (fun q hq => hok q (List.mem_cons_of_mem _ hq))
        obtain ⟨hS, hiso, hkn⟩ := hok (I, m) (by simp)
        refine ⟨?_, by simp [ih2]⟩
        intro q hq
        rcases List.mem_cons.mp hq with hq | hq
        · subst hq
          exact ⟨hS, hiso, allKnown_foldl_addSub el m.events hkn (elongationEvents_known g p rp I el hel)⟩
        · exact ih1 q hq

theorem verifyEnds_ok (p : Params) (rp : ReadProf) (S : List IsoInfo) (ms r : List (IsoInfo × IsoMatch))
    (ty : ReadAssignmentType) (h : verifyEndsForAssignment p rp ms = some (r, ty)) (hok : ∀ q ∈ ms, PairOK S q) :
    (∀ q ∈ r, PairOK S q) ∧ r.length = ms.length ∧ ty = classifyAssignment (r.map (·.2.events)) := by
  unfold verifyEndsForAssignment at h
  split at h
  · simp at h
  · rename_i ms' hms
    simp at h
    obtain ⟨h1, h2⟩ := h
    subst h1
    have hz := mapOpt_spec _ _ _ hms
    refine ⟨?_, (forall₂_length hz).symm, h2.symm⟩
    intro q hq
    obtain ⟨q0, hq0, hq0q⟩ := forall₂_mem_right hz q hq
    cases hv : verifyReadEnds p rp q0.1 q0.2.events with
    | none => simp [hv] at hq0q
    | some e =>
      simp [hv] at hq0q
      subst hq0q
      obtain ⟨hS, hiso, hkn⟩ := hok q0 hq0
      exact ⟨hS, hiso, verifyReadEnds_known p rp q0.1 q0.2.events e hkn hv⟩

theorem checkReadEnds_left (g : Gene) (p : Params) (rp : ReadProf) :
    ∀ (ms : List (IsoInfo × IsoMatch)) (ty : ReadAssignmentType) (r : List (IsoInfo × IsoMatch)) (ty' : ReadAssignmentType),
      checkReadEnds g p rp ms ty = some (r, ty') →
      ∀ q ∈ ms, ∃ q' ∈ r, q'.1 = q.1 ∧ q'.2.iso = q.2.iso := by
  intro ms
  induction ms with
  | nil => intro ty r ty' _ q hq; cases hq
  | cons q0 t ih =>
    intro ty r ty' h q hq
    obtain ⟨I, m⟩ := q0
    simp only [checkReadEnds] at h
    cases hel : elongationEvents g p rp I with
    | none => simp [hel] at h
    | some el =>
      simp only [hel] at h
      split at h
      · simp at h
      · rename_i r' t' hrec
        simp at h
        obtain ⟨hr, _⟩ := h
        subst hr
        rcases List.mem_cons.mp hq with hq | hq
        · subst hq
          exact ⟨(I, { m with events := el.foldl addSub m.events }), List.mem_cons_self, rfl, rfl⟩
        · obtain ⟨q', hq', h1, h2⟩ := ih _ r' t' hrec q hq
          exact ⟨q', List.mem_cons_of_mem _ hq', h1, h2⟩

theorem verifyEnds_left (p : Params) (rp : ReadProf) (ms r : List (IsoInfo × IsoMatch))
    (ty : ReadAssignmentType) (h : verifyEndsForAssignment p rp ms = some (r, ty)) :
    ∀ q ∈ ms, ∃ q' ∈ r, q'.1 = q.1 ∧ q'.2.iso = q.2.iso := by
  unfold verifyEndsForAssignment at h
  split at h
  · simp at h
  · rename_i ms' hms
    simp at h
    obtain ⟨h1, _⟩ := h
    subst h1
    have hz := mapOpt_spec _ _ _ hms
    intro q hq
    obtain ⟨q', hq', hqq⟩ := forall₂_mem_left hz q hq
    cases hv : verifyReadEnds p rp q.1 q.2.events with
    | none => simp [hv] at hqq
    | some e =>
      simp [hv] at hqq
      subst hqq
      exact ⟨_, hq', rfl, rfl⟩

/-! ### `match_consistent` as a whole -/

theorem matchConsistent_spec (g : Gene) (p : Params) (rp : ReadProf) (a : Assignment)
    (h : matchConsistent g p rp = some (some a)) :
    ∃ cons matched, consistentIsoforms g p rp = some (some cons) ∧
      (if (!rp.intron.read.isEmpty) = true then selectSpliced p rp cons else selectUnspliced p rp cons) = some matched ∧
      matched ≠ [] ∧ a.isoMatches.length = matched.length ∧
      (∀ m ∈ a.isoMatches, ∃ I ∈ matched, m.iso = some I.id ∧ AllKnown m.events) ∧
      a.ty = classifyAssignment (a.isoMatches.map (·.events)) ∧ a.ty.is_inconsistent = false ∧
      (∀ I ∈ matched, ∃ m ∈ a.isoMatches, m.iso = some I.id) := by
  unfold matchConsistent at h
  split at h
  · simp at h
  · simp at h
  · rename_i cons hcons
    simp only at h
    split at h
    · simp at h
    · rename_i matched hsel
      split at h
      · simp at h
      · rename_i hne
        split at h
        · simp at h
        · rename_i ms hms
          split at h
          · simp at h
          · rename_i ms1 ty1 hcre
            split at h
            · simp at h
            · rename_i ms2 ty2 hver
              split at h
              · simp at h
              · rename_i hninc
                simp at h; subst h
                refine ⟨cons, matched, hcons, hsel, ?_, ?_, ?_, ?_, ?_, ?_⟩
                · intro e; apply hne; simp [e]
                · -- lengths
                  have hz := mapOpt_spec _ _ _ hms
                  have l1 := forall₂_length hz
                  have hok0 : ∀ q ∈ ms, PairOK matched q := by
                    intro q hq
                    obtain ⟨I, hI, hIq⟩ := forall₂_mem_right hz q hq
                    split at hIq
                    · cases hsm : spliceMatch rp I with
                      | none => simp [hsm] at hIq
                      | some m =>
                        simp [hsm] at hIq; subst hIq
                        obtain ⟨h1, h2⟩ := spliceMatch_spec rp I m hsm
                        exact ⟨hI, h1, h2⟩
                    · cases hsm : unsplicedMatch I with
                      | none => simp [hsm] at hIq
                      | some m =>
                        simp [hsm] at hIq; subst hIq
                        obtain ⟨h1, h2⟩ := unsplicedMatch_spec I m hsm
                        exact ⟨hI, h1, h2⟩
                  obtain ⟨_, l2⟩ := checkReadEnds_ok g p rp matched ms _ ms1 ty1 hcre hok0
                  have hok1 := (checkReadEnds_ok g p rp matched ms _ ms1 ty1 hcre hok0).1
                  obtain ⟨_, l3, _⟩ := verifyEnds_ok p rp matched ms1 ms2 ty2 hver hok1
                  simp only [List.length_map]
                  omega
                · intro m hm
                  have hz := mapOpt_spec _ _ _ hms
                  have hok0 : ∀ q ∈ ms, PairOK matched q := by
                    intro q hq
                    obtain ⟨I, hI, hIq⟩ := forall₂_mem_right hz q hq
                    split at hIq
                    · cases hsm : spliceMatch rp I with
                      | none => simp [hsm] at hIq
                      | some m =>
                        simp [hsm] at hIq; subst hIq
                        obtain ⟨h1, h2⟩ := spliceMatch_spec rp I m hsm
                        exact ⟨hI, h1, h2⟩
                    · cases hsm : unsplicedMatch I with
                      | none => simp [hsm] at hIq
                      | some m =>
                        simp [hsm] at hIq; subst hIq
                        obtain ⟨h1, h2⟩ := unsplicedMatch_spec I m hsm
                        exact ⟨hI, h1, h2⟩
                  have hok1 := (checkReadEnds_ok g p rp matched ms _ ms1 ty1 hcre hok0).1
                  obtain ⟨hok2, _, _⟩ := verifyEnds_ok p rp matched ms1 ms2 ty2 hver hok1
                  simp only [List.mem_map] at hm
                  obtain ⟨q, hq, hqm⟩ := hm
                  obtain ⟨hS, hiso, hkn⟩ := hok2 q hq
                  subst hqm
                  exact ⟨q.1, hS, hiso, hkn⟩
                · have hz := mapOpt_spec _ _ _ hms
                  have hok0 : ∀ q ∈ ms, PairOK matched q := by
                    intro q hq
                    obtain ⟨I, hI, hIq⟩ := forall₂_mem_right hz q hq
                    split at hIq
                    · cases hsm : spliceMatch rp I with
                      | none => simp [hsm] at hIq
                      | some m =>
                        simp [hsm] at hIq; subst hIq
                        obtain ⟨h1, h2⟩ := spliceMatch_spec rp I m hsm
                        exact ⟨hI, h1, h2⟩
                    · cases hsm : unsplicedMatch I with
                      | none => simp [hsm] at hIq
                      | some m =>
                        simp [hsm] at hIq; subst hIq
                        obtain ⟨h1, h2⟩ := unsplicedMatch_spec I m hsm
                        exact ⟨hI, h1, h2⟩
                  have hok1 := (checkReadEnds_ok g p rp matched ms _ ms1 ty1 hcre hok0).1
                  obtain ⟨_, _, hty⟩ := verifyEnds_ok p rp matched ms1 ms2 ty2 hver hok1
                  simp only [List.map_map]
                  rw [hty]; rfl
                · simpa using hninc
                · intro I hI
                  have hz := mapOpt_spec _ _ _ hms
                  obtain ⟨q, hq, hIq⟩ := forall₂_mem_left hz I hI
                  have hq1 : q.1 = I ∧ q.2.iso = some I.id := by
                    split at hIq
                    · cases hsm : spliceMatch rp I with
                      | none => simp [hsm] at hIq
                      | some m =>
                        simp [hsm] at hIq; subst hIq
                        exact ⟨rfl, (spliceMatch_spec rp I m hsm).1⟩
                    · cases hsm : unsplicedMatch I with
                      | none => simp [hsm] at hIq
                      | some m =>
                        simp [hsm] at hIq; subst hIq
                        exact ⟨rfl, (unsplicedMatch_spec I m hsm).1⟩
                  obtain ⟨q1, hq1m, h11, h12⟩ := checkReadEnds_left g p rp ms _ ms1 ty1 hcre q hq
                  obtain ⟨q2, hq2m, h21, h22⟩ := verifyEnds_left p rp ms1 ms2 ty2 hver q1 hq1m
                  refine ⟨q2.2, List.mem_map.mpr ⟨q2, hq2m, rfl⟩, ?_⟩
                  rw [h22, h12, hq1.2]

/-! ### isoform ids are pairwise distinct; small candidate lists are returned unchanged -/

theorem mkIsos_ids (introns split : List Iv) : ∀ (ms : List Isoform) (i : Nat) (isos : List IsoInfo),
    mkIsos introns split ms i = some isos → isos.Pairwise (fun a b => a.id < b.id) ∧ ∀ I ∈ isos, i ≤ I.id := by
  intro ms
  induction ms with
  | nil => intro i isos h; simp [mkIsos] at h; subst h; simp
  | cons m t ih =>
    intro i isos h
    simp only [mkIsos] at h
    cases h1 : mkIso introns split m i with
    | none => simp [h1] at h
    | some a =>
      cases h2 : mkIsos introns split t (i + 1) with
      | none => simp [h1, h2] at h
      | some r =>
        simp [h1, h2] at h; subst h
        obtain ⟨ihp, ihl⟩ := ih (i + 1) r h2
        have ha : a.id = i := by
          unfold mkIso at h1
          split at h1
          · simp at h1
          · simp at h1; subst h1; rfl
        constructor
        · rw [List.pairwise_cons]
          exact ⟨fun b hb => by have := ihl b hb; omega, ihp⟩
        · intro I hI
          rcases List.mem_cons.mp hI with hI | hI
          · subst hI; omega
          · have := ihl I hI; omega

theorem isos_pairwise (ms : List Isoform) (g : Gene) (h : Gene.fromModels ms = some g) :
    g.isos.Pairwise (fun a b => a.id < b.id) := by
  unfold Gene.fromModels at h
  split at h
  · simp at h
  · simp at h
  · simp only at h
    split at h
    · simp at h
    · split at h
      · simp at h
      · rename_i isos hisos
        simp at h; subst h
        exact (mkIsos_ids _ _ ms 0 isos hisos).1

theorem consistentIsoforms_sublist (g : Gene) (p : Params) (rp : ReadProf) (l : List IsoInfo)
    (h : consistentIsoforms g p rp = some (some l)) : l.Sublist g.isos := by
  unfold consistentIsoforms at h
  simp only at h
  split at h
  · simp at h
  · split at h
    · simp at h
    · rename_i ov hov
      split at h
      · simp at h
      · cases hfm : findMatchingIntron rp ov with
        | none => simp [hfm] at h
        | some m =>
          simp [hfm] at h; subst h
          have s1 := (filterOpt_spec _ _ _ hfm).2.2.1
          have s2 := (filterOpt_spec _ _ _ hov).2.2.1
          have s3 : (findContaining p rp g.isos).Sublist g.isos := by
            unfold findContaining; exact List.filter_sublist
          exact (s1.trans s2).trans s3

theorem all_eq_length_le_one {l : List IsoInfo} (hp : l.Pairwise (fun a b => a.id < b.id)) (T : IsoInfo)
    (hT : ∀ I ∈ l, I = T) : l.length ≤ 1 := by
  match l, hp, hT with
  | [], _, _ => simp
  | [_], _, _ => simp
  | a :: b :: t, hp, hT =>
    exfalso
    rw [List.pairwise_cons] at hp
    have h1 := hp.1 b (by simp)
    have ea := hT a (by simp)
    have eb := hT b (by simp)
    rw [ea, eb] at h1
    omega

theorem cons_length_le_one (ms : List Isoform) (g : Gene) (hg : Gene.fromModels ms = some g) (p : Params)
    (rp : ReadProf) (cons : List IsoInfo) (hcons : consistentIsoforms g p rp = some (some cons)) (T : IsoInfo)
    (hT : ∀ I ∈ cons, I = T) : cons.length ≤ 1 :=
  all_eq_length_le_one ((isos_pairwise ms g hg).sublist (consistentIsoforms_sublist g p rp cons hcons)) T hT

theorem selectSpliced_small (p : Params) (rp : ReadProf) (cons matched : List IsoInfo)
    (h : selectSpliced p rp cons = some matched) (hc : cons.length ≤ 1) : matched = cons := by
  unfold selectSpliced at h
  simp only at h
  have h1 : ¬ cons.length > 1 := by omega
  simp only [h1, if_false] at h
  simpa using h.symm

theorem selectUnspliced_small (p : Params) (rp : ReadProf) (cons matched : List IsoInfo)
    (h : selectUnspliced p rp cons = some matched) (hc : cons.length ≤ 1) : matched = cons := by
  unfold selectUnspliced at h
  have h1 : ¬ (cons.length > 1 ∧ p.resolve_ambiguous ≠ Resolve.none) := by omega
  simp only [h1, if_false] at h
  simpa using h.symm

/-! ### the selection keeps a well-scoring isoform -/

theorem maxRat_mem : ∀ (l : List Rat) (m : Rat), maxRat l = some m → m ∈ l := by
  intro l
  induction l with
  | nil => intro m hm; simp [maxRat] at hm
  | cons x xs ih =>
    intro m hm
    simp only [maxRat] at hm
    cases hx : maxRat xs with
    | none => simp [hx] at hm; subst hm; simp
    | some m' =>
      simp [hx] at hm
      split at hm
      · subst hm; simp
      · subst hm; exact List.mem_cons_of_mem _ (ih m' hx)

theorem resolveByScore_keeps (score : IsoInfo → Option Rat) (matched r : List IsoInfo) (T : IsoInfo) (sT : Rat)
    (h : resolveByScore score (some topScoredFactor) matched = some r) (hT : T ∈ matched) (hs : score T = some sT)
    (hbest : ∀ I ∈ matched, ∀ s, score I = some s → s ≤ sT * topScoredFactor) (hmin : minimalScore ≤ sT) : T ∈ r := by
  unfold resolveByScore at h
  split at h
  · rename_i he
    simp [List.isEmpty_iff] at he
    rw [he] at hT; cases hT
  · split at h
    · simp at h
    · rename_i scores hsc
      have hz := mapOpt_spec _ _ _ hsc
      split at h
      · simp at h
      · rename_i best hb
        simp only at h
        simp at h; subst h
        obtain ⟨y, hy, hTy⟩ := forall₂_mem_left hz T hT
        rw [hs] at hTy; simp at hTy; subst hTy
        simp only [List.mem_map, List.mem_filter]
        refine ⟨(T, sT), ⟨hy, ?_⟩, rfl⟩
        have hbin := maxRat_mem _ best hb
        simp only [List.mem_map] at hbin
        obtain ⟨q, hq, hqb⟩ := hbin
        obtain ⟨I, hI, hIq⟩ := forall₂_mem_right hz q hq
        cases hsI : score I with
        | none => simp [hsI] at hIq
        | some s =>
          simp [hsI] at hIq
          subst hIq
          simp only at hqb
          subst hqb
          have := hbest I hI s hsI
          simp only [Bool.and_eq_true, decide_eq_true_eq]
          exact ⟨this, hmin⟩

theorem selectSpliced_keeps (p : Params) (rp : ReadProf) (cons r : List IsoInfo) (T : IsoInfo) (sT : Rat)
    (h : selectSpliced p rp cons = some r) (hT : T ∈ cons)
    (hsplit : equalProfilesInRange T.splitProf rp.split.gene rp.split.range = some true)
    (hs : jaccardScore p rp T = some sT)
    (hbest : ∀ I ∈ cons, ∀ s, jaccardScore p rp I = some s → s ≤ sT * topScoredFactor) (hmin : minimalScore ≤ sT) :
    T ∈ r := by
  unfold selectSpliced at h
  simp only at h
  have step1 : ∀ m, (if cons.length > 1 then
      (findMatchingSplit rp cons).map (fun em => if em.length ≠ 0 then em else cons) else some cons) = some m →
      T ∈ m ∧ ∀ x ∈ m, x ∈ cons := by
    intro m hm
    split at hm
    · cases hfm : findMatchingSplit rp cons with
      | none => simp [hfm] at hm
      | some em =>
        simp [hfm] at hm
        have hsp := filterOpt_spec _ _ _ hfm
        split at hm
        · subst hm; exact ⟨hT, fun x hx => hx⟩
        · subst hm; exact ⟨hsp.2.1 T hT hsplit, fun x hx => (hsp.1 x hx).1⟩
    · simp at hm; subst hm; exact ⟨hT, fun x hx => hx⟩
  split at h
  · simp at h
  · rename_i matched hm
    obtain ⟨hTm, hsub⟩ := step1 matched hm
    have hbest' : ∀ I ∈ matched, ∀ s, jaccardScore p rp I = some s → s ≤ sT * topScoredFactor :=
      fun I hI s hsI => hbest I (hsub I hI) s hsI
    split at h
    · split at h
      · exact resolveByScore_keeps _ _ _ T sT h hTm hs hbest' hmin
      · split at h
        · simp at h
        · exact resolveByScore_keeps _ _ _ T sT h hTm hs hbest' hmin
        · simp at h; subst h; exact hTm
      · simp at h; subst h; exact hTm
    · simp at h; subst h; exact hTm

theorem selectUnspliced_keeps (p : Params) (rp : ReadProf) (cons r : List IsoInfo) (T : IsoInfo) (sT : Rat)
    (h : selectUnspliced p rp cons = some r) (hT : T ∈ cons)
    (hs : jaccardScore p rp T = some sT)
    (hbest : ∀ I ∈ cons, ∀ s, jaccardScore p rp I = some s → s ≤ sT * topScoredFactor) (hmin : minimalScore ≤ sT) :
    T ∈ r := by
  unfold selectUnspliced at h
  split at h
  · exact resolveByScore_keeps _ _ _ T sT h hT hs hbest hmin
  · simp at h; subst h; exact hT

end IsoVerif.Lemmas.C01
