/-
Helper lemmas for C13 (profiles): what a +1 / −1 in the gene profile of
OverlappingFeaturesProfileConstructor.construct_profile_for_features means.  Core Lean only.
-/
import IsoVerif.Model.Profiles
import IsoVerif.Model.FeatureCounts

namespace IsoVerif.Lemmas.C13
open IsoVerif.Model IsoVerif.Model.C13 IsoVerif.Gen

theorem drop_cons_inv {α : Type} (l : List α) (n : Nat) (a : α) (t : List α) (h : l.drop n = a :: t) :
    l[n]? = some a ∧ l.drop (n + 1) = t := by
  constructor
  · have := @List.getElem?_drop α l n 0
    rw [h] at this; simpa using this.symm
  · have : l.drop (n + 1) = (l.drop n).drop 1 := by rw [List.drop_drop]
    rw [this, h]; rfl

/-- a known feature lies strictly inside a gap between two consecutive read features -/
def InGap (R : List Iv) (k : Iv) : Prop :=
  ∃ j r r', R[j]? = some r ∧ R[j + 1]? = some r' ∧ r.2 < k.1 ∧ k.2 < r'.1

/-- the known features are ordered by start (they are a sorted list of distinct tuples in the code) -/
def SortedStarts (K : List Iv) : Prop := K.Pairwise (fun a b => a.1 ≤ b.1)

theorem SortedStarts_drop {K : List Iv} (h : SortedStarts K) (n : Nat) : SortedStarts (K.drop n) :=
  List.Pairwise.sublist (List.drop_sublist n K) h

/-- invariant of the sweep: every +1 has a recorded match, every recorded match satisfies the comparator -/
structure SIncl (cmp : Iv → Iv → Bool) (K R : List Iv) (st : OvState) : Prop where
  one : ∀ i, st.gene[i]? = some 1 → ∃ j, (j, i) ∈ st.matched
  mat : ∀ p ∈ st.matched, ∃ r k, R[p.1]? = some r ∧ K[p.2]? = some k ∧ cmp r k = true

theorem ovSweep_incl (cmp absent : Iv → Iv → Bool) (M : Iv) (K R : List Iv) :
    ∀ (ks : List Iv) (gi : Nat) (rs : List Iv) (ri : Nat) (st : OvState),
      K.drop gi = ks → R.drop ri = rs → SIncl cmp K R st → SIncl cmp K R (ovSweep cmp absent M ks gi rs ri st) := by
  intro ks gi rs ri st
  induction ks, gi, rs, ri, st using ovSweep.induct cmp absent M with
  | case1 => intro _ _ h; simpa [ovSweep] using h
  | case2 => intro _ _ h; simpa [ovSweep] using h
  | case3 k ks gi r rs ri st h1 st' ih =>
    intro hk hr hs
    rw [ovSweep]; simp only [h1, if_true]
    apply ih hk (drop_cons_inv R ri r rs hr).2
    simp only [st']
    split
    · exact ⟨hs.one, hs.mat⟩
    · exact hs
  | case4 k ks gi r rs ri st h1 h2 st' ih =>
    intro hk hr hs
    rw [ovSweep]; simp only [h1, h2, if_true, if_false]
    apply ih (drop_cons_inv K gi k ks hk).2 hr
    simp only [st']
    split
    · refine ⟨?_, hs.mat⟩
      intro i hi
      simp only [List.getElem?_set] at hi
      split at hi
      · split at hi <;> simp at hi
      · exact hs.one i hi
    · exact hs
  | case5 k ks gi r rs ri st h1 h2 h3 ih =>
    intro hk hr hs
    rw [ovSweep]; simp only [h1, h2, h3, if_true, if_false]
    apply ih (drop_cons_inv K gi k ks hk).2 hr
    refine ⟨?_, ?_⟩
    · intro i hi
      simp only [List.getElem?_set] at hi
      split at hi
      · rename_i hgi; subst hgi
        exact ⟨ri, by simp⟩
      · obtain ⟨j, hj⟩ := hs.one i hi
        exact ⟨j, by simp [hj]⟩
    · intro p hp
      simp only [List.mem_append, List.mem_singleton] at hp
      rcases hp with hp | hp
      · exact hs.mat p hp
      · subst hp
        exact ⟨r, k, (drop_cons_inv R ri r rs hr).1, (drop_cons_inv K gi k ks hk).1, h3⟩
  | case6 k ks gi r rs ri st h1 h2 h3 h4 st' ih =>
    intro hk hr hs
    rw [ovSweep]; simp only [h1, h2, h3, h4, if_true, if_false]
    apply ih (drop_cons_inv K gi k ks hk).2 hr
    simp only [st']
    split
    · refine ⟨?_, hs.mat⟩
      intro i hi
      simp only [List.getElem?_set] at hi
      split at hi
      · split at hi <;> simp at hi
      · exact hs.one i hi
    · exact hs
  | case7 k ks gi r rs ri st h1 h2 h3 h4 =>
    intro _ _ hs
    rw [ovSweep]; simp only [h1, h2, h3, h4, if_false]
    exact hs

/-- invariant of the sweep: every −1 is justified by the absence test or by a gap between consecutive read features -/
structure SExcl (absent : Iv → Iv → Bool) (M : Iv) (K R : List Iv) (st : OvState) : Prop where
  neg : ∀ i : Nat, st.gene[i]? = some (-1) → ∃ k, K[i]? = some k ∧ (absent M k = true ∨ InGap R k)

theorem ovSweep_excl (cmp absent : Iv → Iv → Bool) (M : Iv) (K R : List Iv) (hK : SortedStarts K) :
    ∀ (ks : List Iv) (gi : Nat) (rs : List Iv) (ri : Nat) (st : OvState),
      K.drop gi = ks → R.drop ri = rs →
      (ri > 0 → ∃ r', R[ri - 1]? = some r' ∧ ∀ k' ∈ ks, r'.2 < k'.1) →
      SExcl absent M K R st → SExcl absent M K R (ovSweep cmp absent M ks gi rs ri st) := by
  intro ks gi rs ri st
  induction ks, gi, rs, ri, st using ovSweep.induct cmp absent M with
  | case1 => intro _ _ _ h; simpa [ovSweep] using h
  | case2 => intro _ _ _ h; simpa [ovSweep] using h
  | case3 k ks gi r rs ri st h1 st' ih =>
    intro hk hr hg hs
    rw [ovSweep]; simp only [h1, if_true]
    have hsorted : ∀ k' ∈ ks, k.1 ≤ k'.1 := by
      have := SortedStarts_drop hK gi
      rw [hk] at this
      exact (List.pairwise_cons.mp this).1
    apply ih hk (drop_cons_inv R ri r rs hr).2
    · intro _
      refine ⟨r, by simpa using (drop_cons_inv R ri r rs hr).1, ?_⟩
      intro k' hk'
      rcases List.mem_cons.mp hk' with e | e
      · subst e; exact h1
      · have := hsorted k' e; omega
    · simp only [st']
      split
      · exact ⟨hs.neg⟩
      · exact hs
  | case4 k ks gi r rs ri st h1 h2 st' ih =>
    intro hk hr hg hs
    rw [ovSweep]; simp only [h1, h2, if_true, if_false]
    apply ih (drop_cons_inv K gi k ks hk).2 hr
    · intro hri
      obtain ⟨r', hr', hall⟩ := hg hri
      exact ⟨r', hr', fun k' hk' => hall k' (List.mem_cons_of_mem _ hk')⟩
    · simp only [st']
      split
      · rename_i hri
        refine ⟨?_⟩
        intro i hi
        simp only [List.getElem?_set] at hi
        split at hi
        · rename_i hgi; subst hgi
          obtain ⟨r', hr', hall⟩ := hg hri
          refine ⟨k, (drop_cons_inv K gi k ks hk).1, Or.inr ⟨ri - 1, r', r, hr', ?_, hall k (by simp), h2⟩⟩
          have : ri - 1 + 1 = ri := by omega
          rw [this]; exact (drop_cons_inv R ri r rs hr).1
        · exact hs.neg i hi
      · exact hs
  | case5 k ks gi r rs ri st h1 h2 h3 ih =>
    intro hk hr hg hs
    rw [ovSweep]; simp only [h1, h2, h3, if_true, if_false]
    apply ih (drop_cons_inv K gi k ks hk).2 hr
    · intro hri
      obtain ⟨r', hr', hall⟩ := hg hri
      exact ⟨r', hr', fun k' hk' => hall k' (List.mem_cons_of_mem _ hk')⟩
    · refine ⟨?_⟩
      intro i hi
      simp only [List.getElem?_set] at hi
      split at hi
      · split at hi <;> simp at hi
      · exact hs.neg i hi
  | case6 k ks gi r rs ri st h1 h2 h3 h4 st' ih =>
    intro hk hr hg hs
    rw [ovSweep]; simp only [h1, h2, h3, h4, if_true, if_false]
    apply ih (drop_cons_inv K gi k ks hk).2 hr
    · intro hri
      obtain ⟨r', hr', hall⟩ := hg hri
      exact ⟨r', hr', fun k' hk' => hall k' (List.mem_cons_of_mem _ hk')⟩
    · simp only [st']
      split
      · rename_i habs
        refine ⟨?_⟩
        intro i hi
        simp only [List.getElem?_set] at hi
        split at hi
        · rename_i hgi; subst hgi
          exact ⟨k, (drop_cons_inv K gi k ks hk).1, Or.inl habs⟩
        · exact hs.neg i hi
      · exact hs
  | case7 k ks gi r rs ri st h1 h2 h3 h4 =>
    intro _ _ _ hs
    rw [ovSweep]; simp only [h1, h2, h3, h4, if_false]
    exact hs


theorem ovSweep_gene_length (cmp absent : Iv → Iv → Bool) (M : Iv) :
    ∀ (ks : List Iv) (gi : Nat) (rs : List Iv) (ri : Nat) (st : OvState),
      (ovSweep cmp absent M ks gi rs ri st).gene.length = st.gene.length := by
  intro ks gi rs ri st
  induction ks, gi, rs, ri, st using ovSweep.induct cmp absent M with
  | case1 => simp [ovSweep]
  | case2 => simp [ovSweep]
  | case3 k ks gi r rs ri st h1 st' ih =>
    rw [ovSweep]; simp only [h1, if_true]
    refine Eq.trans ih ?_
    simp only [st']; split <;> rfl
  | case4 k ks gi r rs ri st h1 h2 st' ih =>
    rw [ovSweep]; simp only [h1, h2, if_true, if_false]
    refine Eq.trans ih ?_
    simp only [st']; split <;> simp
  | case5 k ks gi r rs ri st h1 h2 h3 ih =>
    rw [ovSweep]; simp only [h1, h2, h3, if_true, if_false]
    refine Eq.trans ih ?_
    simp
  | case6 k ks gi r rs ri st h1 h2 h3 h4 st' ih =>
    rw [ovSweep]; simp only [h1, h2, h3, h4, if_true, if_false]
    refine Eq.trans ih ?_
    simp only [st']; split <;> simp
  | case7 k ks gi r rs ri st h1 h2 h3 h4 =>
    rw [ovSweep]; simp [h1, h2, h3, h4]

/-! ### tie elimination only writes −1, and only at tie losers -/

theorem foldl_neg_gen {β : Type} (h : List Int → β → List Int) (Q : β → Nat → Prop)
    (hstep : ∀ (g : List Int) (x : β) (i : Nat), (h g x)[i]? = g[i]? ∨ ((h g x)[i]? = some (-1) ∧ Q x i)) :
    ∀ (L : List β) (g : List Int) (i : Nat),
      (L.foldl h g)[i]? = g[i]? ∨ ((L.foldl h g)[i]? = some (-1) ∧ ∃ x ∈ L, Q x i) := by
  intro L
  induction L with
  | nil => intro g i; exact Or.inl rfl
  | cons x xs ih =>
    intro g i
    simp only [List.foldl_cons]
    rcases ih (h g x) i with h1 | ⟨h1, y, hy, hq⟩
    · rcases hstep g x i with h2 | ⟨h2, hq⟩
      · exact Or.inl (h1.trans h2)
      · exact Or.inr ⟨h1.trans h2, x, by simp, hq⟩
    · exact Or.inr ⟨h1, y, by simp [hy], hq⟩

theorem minList_mem : ∀ (l : List Int) (m : Int), minList l = some m → m ∈ l ∧ ∀ x ∈ l, m ≤ x := by
  intro l
  induction l with
  | nil => intro m h; simp [minList] at h
  | cons x xs ih =>
    intro m h
    simp only [minList] at h
    cases hx : minList xs with
    | none =>
      rw [hx] at h; simp at h; subst h
      cases xs with
      | nil => simp
      | cons y ys => simp only [minList] at hx; split at hx <;> simp at hx
    | some m' =>
      rw [hx] at h; simp at h; subst h
      obtain ⟨h1, h2⟩ := ih m' hx
      constructor
      · by_cases hc : x ≤ m'
        · simp [Int.min_def, hc]
        · simp [Int.min_def, hc, h1]
      · intro y hy
        rcases List.mem_cons.mp hy with e | e
        · subst e; exact Int.min_le_left _ _
        · exact Int.le_trans (Int.min_le_right _ _) (h2 y e)

theorem mem_zip_map_self {α β : Type} (f : α → β) (l : List α) (p : α × β) (h : p ∈ l.zip (l.map f)) :
    p.1 ∈ l ∧ p.2 = f p.1 := by
  induction l with
  | nil => simp at h
  | cons a t ih =>
    simp only [List.map_cons, List.zip_cons_cons, List.mem_cons] at h
    rcases h with h | h
    · subst h; simp
    · obtain ⟨h1, h2⟩ := ih h
      exact ⟨List.mem_cons_of_mem _ h1, h2⟩

/-- a known feature `i` loses a tie: some read feature matched both `i` and a strictly closer `i'` -/
def LoserIdx (K R : List Iv) (matched : List (Nat × Nat)) (i : Nat) : Prop :=
  ∃ ri i', (ri, i) ∈ matched ∧ (ri, i') ∈ matched ∧
    matchDelta (R.getD ri (0, 0)) (K.getD i' (0, 0)) < matchDelta (R.getD ri (0, 0)) (K.getD i (0, 0))

theorem ovEliminate_spec (K R : List Iv) (matched : List (Nat × Nat)) (g : List Int) (i : Nat) :
    (ovEliminate K R matched g)[i]? = g[i]? ∨
      ((ovEliminate K R matched g)[i]? = some (-1) ∧ LoserIdx K R matched i) := by
  unfold ovEliminate
  have := foldl_neg_gen
    (fun (g : List Int) (ri : Nat) =>
      let ms := (matched.filter (fun p => p.1 == ri)).map (·.2)
      if ms.length > 1 then
        let ds := ms.map (fun gi => matchDelta (R.getD ri (0, 0)) (K.getD gi (0, 0)))
        match minList ds with
        | none => g
        | some best => (ms.zip ds).foldl (fun g' p => if p.2 > best then g'.set p.1 (-1) else g') g
      else g)
    (fun ri i => ∃ i', (ri, i) ∈ matched ∧ (ri, i') ∈ matched ∧
      matchDelta (R.getD ri (0, 0)) (K.getD i' (0, 0)) < matchDelta (R.getD ri (0, 0)) (K.getD i (0, 0)))
    ?_ (List.range R.length) g i
  · rcases this with h | ⟨h, ri, _, i', h1, h2, h3⟩
    · exact Or.inl h
    · exact Or.inr ⟨h, ri, i', h1, h2, h3⟩
  · intro g ri i
    simp only
    split
    · split
      · exact Or.inl rfl
      · rename_i best hbest
        have hin := foldl_neg_gen
          (fun (g' : List Int) (p : Nat × Int) => if p.2 > best then g'.set p.1 (-1) else g')
          (fun p i => p.2 > best ∧ p.1 = i) ?_
          (((matched.filter (fun p => p.1 == ri)).map (·.2)).zip
            (((matched.filter (fun p => p.1 == ri)).map (·.2)).map
              (fun gi => matchDelta (R.getD ri (0, 0)) (K.getD gi (0, 0))))) g i
        · rcases hin with h | ⟨h, p, hp, hgt, hidx⟩
          · exact Or.inl h
          · refine Or.inr ⟨h, ?_⟩
            obtain ⟨hp1, hp2⟩ := mem_zip_map_self _ _ p hp
            obtain ⟨hb1, _⟩ := minList_mem _ best hbest
            obtain ⟨i', hi', hbi⟩ := List.mem_map.mp hb1
            have hm : ∀ x, x ∈ (matched.filter (fun p => p.1 == ri)).map (·.2) → (ri, x) ∈ matched := by
              intro x hx
              obtain ⟨q, hq, hqx⟩ := List.mem_map.mp hx
              obtain ⟨hq1, hq2⟩ := List.mem_filter.mp hq
              have : q.1 = ri := by simpa using hq2
              have : q = (ri, x) := by cases q; simp_all
              rw [← this]; exact hq1
            refine ⟨i', ?_, hm i' hi', ?_⟩
            · rw [← hidx]; exact hm p.1 hp1
            · rw [hbi, ← hidx, ← hp2]; exact hgt
        · intro g' p j
          split
          · rename_i hgt
            simp only [List.getElem?_set]
            split
            · rename_i hj
              split
              · exact Or.inr ⟨rfl, hgt, hj⟩
              · rename_i hlen
                left
                have : g'[j]? = none := by
                  rw [List.getElem?_eq_none_iff]; omega
                rw [this]
            · exact Or.inl rfl
          · exact Or.inl rfl
    · exact Or.inl rfl

/-! ### polyA / polyT masking, assembly -/

theorem zipWith_mask (c : Iv → Prop) [DecidablePred c] (K : List Iv) (g : List Int) (i : Nat) (x : Int) (hx : x ≠ -2)
    (h : (List.zipWith (fun (k : Iv) (v : Int) => if c k then -2 else v) K g)[i]? = some x) :
    g[i]? = some x ∧ ∃ k, K[i]? = some k ∧ ¬ c k := by
  rw [List.getElem?_zipWith] at h
  cases hk : K[i]? with
  | none => simp [hk] at h
  | some k =>
    cases hg : g[i]? with
    | none => simp [hk, hg] at h
    | some v =>
      simp only [hk, hg, Option.some.injEq] at h
      by_cases hc : c k
      · simp [hc] at h; exact absurd h.symm hx
      · simp [hc] at h; subst h; exact ⟨rfl, k, rfl, hc⟩

/-- a known feature `k` at index `i` loses a tie (declaratively): a read feature matches both `k` and a strictly
    closer known feature -/
def TieLoser (cmp : Iv → Iv → Bool) (K R : List Iv) (k : Iv) : Prop :=
  ∃ (j : Nat) (r : Iv) (i' : Nat) (k' : Iv), R[j]? = some r ∧ K[i']? = some k' ∧ cmp r k = true ∧ cmp r k' = true ∧ matchDelta r k' < matchDelta r k

/-- the state after the sweep, started as `construct_profile_for_features` starts it -/
def sweepState (K : List Iv) (gr : Iv) (cmp absent : Iv → Iv → Bool) (R : List Iv) (M : Iv) : OvState :=
  ovSweep cmp absent M K 0 R 0
    { gene := K.map (fun k => if absent M k then -1 else 0), read := R.map (fun r => if absent gr r then -1 else 0), matched := [] }

theorem sweepState_incl (K : List Iv) (gr : Iv) (cmp absent : Iv → Iv → Bool) (R : List Iv) (M : Iv) :
    SIncl cmp K R (sweepState K gr cmp absent R M) := by
  apply ovSweep_incl cmp absent M K R K 0 R 0 _ rfl rfl
  constructor
  · intro i hi
    simp only [List.getElem?_map] at hi
    cases hk : K[i]? with
    | none => simp [hk] at hi
    | some k => simp [hk] at hi; split at hi <;> simp at hi
  · intro p hp; simp at hp

theorem sweepState_excl (K : List Iv) (gr : Iv) (cmp absent : Iv → Iv → Bool) (R : List Iv) (M : Iv) (hK : SortedStarts K) :
    SExcl absent M K R (sweepState K gr cmp absent R M) := by
  apply ovSweep_excl cmp absent M K R hK K 0 R 0 _ rfl rfl (by simp)
  constructor
  intro i hi
  simp only [List.getElem?_map] at hi
  cases hk : K[i]? with
  | none => simp [hk] at hi
  | some k =>
    simp [hk] at hi
    refine ⟨k, rfl, Or.inl ?_⟩
    by_cases h : absent M k = true
    · exact h
    · simp [h] at hi

theorem constructOverlapping_gene (K : List Iv) (gr : Iv) (cmp absent : Iv → Iv → Bool) (δ : Int) (R : List Iv) (M : Iv)
    (pa pt : Int) (i : Nat) (x : Int) (hx : x ≠ -2)
    (h : (constructOverlapping K gr cmp absent δ R M pa pt).gene[i]? = some x) :
    (ovEliminate K R (sweepState K gr cmp absent R M).matched (sweepState K gr cmp absent R M).gene)[i]? = some x ∧
    ∃ k, K[i]? = some k ∧ ¬ (pa ≠ -1 ∧ k.1 > pa + δ) ∧ ¬ (pt ≠ -1 ∧ k.2 < pt - δ) := by
  unfold constructOverlapping at h
  simp only at h
  have hlen : ∀ (g : List Int), g[i]? = some x → ∃ v, g[i]? = some v := fun g hg => ⟨x, hg⟩
  -- peel polyT
  have h2 : ∀ (g2 : List Int), (if (pt != -1) = true then
      List.zipWith (fun (k : Iv) (v : Int) => if k.2 < pt - δ then -2 else v) K g2 else g2)[i]? = some x →
      g2[i]? = some x ∧ (∀ k, K[i]? = some k → ¬ (pt ≠ -1 ∧ k.2 < pt - δ)) := by
    intro g2 hg
    split at hg
    · obtain ⟨h1, k, hk, hc⟩ := zipWith_mask (fun k : Iv => k.2 < pt - δ) K g2 i x hx hg
      refine ⟨h1, ?_⟩
      intro k' hk'; rw [hk] at hk'; cases hk'; exact fun hh => hc hh.2
    · rename_i hpt
      refine ⟨hg, ?_⟩
      intro k _ hh; exact hpt (by simpa using hh.1)
  have h1 : ∀ (g1 : List Int), (if (pa != -1) = true then
      List.zipWith (fun (k : Iv) (v : Int) => if k.1 > pa + δ then -2 else v) K g1 else g1)[i]? = some x →
      g1[i]? = some x ∧ (∀ k, K[i]? = some k → ¬ (pa ≠ -1 ∧ k.1 > pa + δ)) := by
    intro g1 hg
    split at hg
    · obtain ⟨h1, k, hk, hc⟩ := zipWith_mask (fun k : Iv => k.1 > pa + δ) K g1 i x hx hg
      refine ⟨h1, ?_⟩
      intro k' hk'; rw [hk] at hk'; cases hk'; exact fun hh => hc hh.2
    · rename_i hpa
      refine ⟨hg, ?_⟩
      intro k _ hh; exact hpa (by simpa using hh.1)
  obtain ⟨hg2, hpt⟩ := h2 _ h
  obtain ⟨hg1, hpa⟩ := h1 _ hg2
  refine ⟨hg1, ?_⟩
  -- the index is inside K: eliminate keeps what the sweep produced, whose gene list is K-indexed
  rcases ovEliminate_spec K R (sweepState K gr cmp absent R M).matched (sweepState K gr cmp absent R M).gene i with he | ⟨_, ri, i', hm, _, _⟩
  · have hg1' : (ovEliminate K R (sweepState K gr cmp absent R M).matched (sweepState K gr cmp absent R M).gene)[i]? = some x := hg1
    have hlt : i < (sweepState K gr cmp absent R M).gene.length := by
      rw [he] at hg1'
      exact (List.getElem?_eq_some_iff.mp hg1').1
    have hlen : (sweepState K gr cmp absent R M).gene.length = K.length := by
      unfold sweepState; rw [ovSweep_gene_length]; simp
    have hk : K[i]? = some K[i] := by
      rw [List.getElem?_eq_getElem]
    exact ⟨K[i]'(by omega), by rw [List.getElem?_eq_getElem], hpa _ (by rw [List.getElem?_eq_getElem]), hpt _ (by rw [List.getElem?_eq_getElem])⟩
  · obtain ⟨r, k, _, hk, _⟩ := (sweepState_incl K gr cmp absent R M).mat _ hm
    exact ⟨k, hk, hpa k hk, hpt k hk⟩

end IsoVerif.Lemmas.C13
