/-
C11 helper lemmas — Model/Corrector.lean (`match_genomic_features`, `process_events`, `correct_assigned_read`)
under translation.  Events carry intron INDEX ranges, error counts are per read intron: both unchanged.
-/
import IsoVerif.Gen.Prims
import IsoVerif.Model.Interval
import IsoVerif.Model.Corrector
import IsoVerif.Model.C11Symmetry
import IsoVerif.Model.C11SymBedCorr
import IsoVerif.Lemmas.C11Shift

namespace IsoVerif.Lemmas.C11
open IsoVerif.Gen IsoVerif.Model IsoVerif.Model.C14 IsoVerif.Model.C11

/-! ## Model/Corrector.lean — translation -/

theorem corr_equal_ranges_shift (k : Int) (a b : Iv) (d : Int) :
    equal_ranges (shiftIv k a) (shiftIv k b) d = equal_ranges a b d := by
  simp only [equal_ranges, iabs, shiftIv]; grind

theorem corr_contains_well_inside_shift (k : Int) (a b : Iv) (d : Int) :
    contains_well_inside (shiftIv k a) (shiftIv k b) d = contains_well_inside a b d := by
  simp only [contains_well_inside, shiftIv]; grind

theorem corr_siteDelta_shift (k : Int) (a b : Iv) : siteDelta (shiftIv k a) (shiftIv k b) = siteDelta a b := by
  simp only [siteDelta, iabs, shiftIv]; grind

/-- the sweep's output with the matched known features shifted -/
def shiftMatches (k : Int) (m : List (Nat × Iv)) : List (Nat × Iv) := m.map (fun q => (q.1, shiftIv k q.2))

theorem matchSweep_shift (k δ : Int) (ks rs : List Iv) (ri : Nat) :
    matchSweep δ (shiftL k ks) (shiftL k rs) ri = shiftMatches k (matchSweep δ ks rs ri) := by
  fun_induction matchSweep δ ks rs ri with
  | case1 rs ri => simp [shiftL_nil, matchSweep, shiftMatches]
  | case2 a as ri => simp [shiftL_nil, shiftL_cons, matchSweep, shiftMatches]
  | case3 a as r rs ri h ih =>
    simp only [shiftL_cons] at ih ⊢
    rw [matchSweep]
    simp only [corr_equal_ranges_shift, h, if_true, ih, shiftMatches, List.map_cons]
  | case4 a as r rs ri h1 h2 ih =>
    simp only [shiftL_cons] at ih ⊢
    rw [matchSweep]
    simp only [corr_equal_ranges_shift, overlaps_shift, h1, h2, if_true, ih]
    simp
  | case5 a as r rs ri h1 h2 h3 ih =>
    simp only [shiftL_cons] at ih ⊢
    rw [matchSweep]
    simp only [corr_equal_ranges_shift, overlaps_shift, left_of_shift, h1, h2, h3, if_true, ih]
    simp
  | case6 a as r rs ri h1 h2 h3 ih =>
    simp only [shiftL_cons] at ih ⊢
    rw [matchSweep]
    simp only [corr_equal_ranges_shift, overlaps_shift, left_of_shift, h1, h2, h3, ih]
    simp

theorem candidatesOf_shift (k : Int) (m : List (Nat × Iv)) (i : Nat) :
    candidatesOf (shiftMatches k m) i = shiftL k (candidatesOf m i) := by
  simp only [candidatesOf, shiftMatches, shiftL, List.filter_map, List.map_map]
  rfl

theorem map_siteDelta_shift (k : Int) (r : Iv) (cs : List Iv) :
    (shiftL k cs).map (siteDelta (shiftIv k r)) = cs.map (siteDelta r) := by
  simp only [shiftL, List.map_map]
  apply List.map_congr_left; intro c _
  exact corr_siteDelta_shift k r c

theorem corr_pickBest_shift (k : Int) (r : Iv) (cs : List Iv) :
    pickBest (shiftIv k r) (shiftL k cs) = (pickBest r cs).map (shiftIv k) := by
  simp only [pickBest, shiftL_length, map_siteDelta_shift, shiftL_head?]
  split
  · cases listMin (cs.map (siteDelta r)) with
    | none => rfl
    | some best =>
      simp only
      rw [← shiftL_head?]
      congr 1
      simp only [shiftL, List.filter_map]
      congr 1
      apply List.filter_congr; intro c _
      simp only [Function.comp, corr_siteDelta_shift]
  · rfl

theorem pickAll_shift (k : Int) (m : List (Nat × Iv)) (rs : List Iv) (i : Nat) :
    pickAll (shiftMatches k m) (shiftL k rs) i = shiftL k (pickAll m rs i) := by
  induction rs generalizing i with
  | nil => rfl
  | cons r rs ih =>
    simp only [shiftL_cons, pickAll, candidatesOf_shift, corr_pickBest_shift, ih]
    cases pickBest r (candidatesOf m i) <;> rfl

theorem matchGenomicFeatures_shift (k δ : Int) (known reads : List Iv) :
    matchGenomicFeatures δ (shiftL k known) (shiftL k reads) = shiftL k (matchGenomicFeatures δ known reads) := by
  simp only [matchGenomicFeatures, matchSweep_shift, pickAll_shift]

theorem fuzzySite_shift (k own ref : Int) (e : Int × Int) :
    fuzzySite (own + k) (ref + k) e = fuzzySite own ref e + k := by
  simp only [fuzzySite]
  by_cases h : own = ref
  · simp [h]
  · have : ¬ (own + k = ref + k) := by omega
    simp only [h, this, if_false]; split <;> rfl

theorem fuzzyLoop_shift (k : Int) (err : Nat → Bool → Int × Int) (rs qs : List Iv) (i : Nat) :
    fuzzyLoop err (shiftL k rs) (shiftL k qs) i = shiftL k (fuzzyLoop err rs qs i) := by
  induction rs generalizing qs i with
  | nil => simp [shiftL_nil, fuzzyLoop]
  | cons r rs ih =>
    cases qs with
    | nil => simp [shiftL_nil, shiftL_cons, fuzzyLoop]
    | cons q qs =>
      simp only [shiftL_cons, fuzzyLoop, ih, shiftIv_fst, shiftIv_snd, fuzzySite_shift]
      rfl

theorem correctedIntrons_shift (k : Int) (p : CParams) (err : Nat → Bool → Int × Int) (known ri : List Iv) :
    correctedIntrons p err (shiftL k known) (shiftL k ri) = shiftL k (correctedIntrons p err known ri) := by
  simp only [correctedIntrons, matchGenomicFeatures_shift, fuzzyLoop_shift]
  split <;> rfl

theorem rangeGet_shift (k : Int) (l : List Iv) (a : Int) (n : Nat) :
    rangeGet (shiftL k l) a n = (rangeGet l a n).map (shiftL k) := by
  induction n generalizing a with
  | zero => rfl
  | succ n ih =>
    simp only [rangeGet, pyGet?_shiftL, ih]
    cases pyGet? l a <;> cases rangeGet l (a + 1) n <;> rfl

theorem sliceIncl_shift (k : Int) (l : List Iv) (a b : Int) :
    sliceIncl (shiftL k l) a b = shiftExL k (sliceIncl l a b) := by
  simp only [sliceIncl, rangeGet_shift]
  cases rangeGet l a (b + 1 - a).toNat <;> rfl

theorem keepStep_shift (k : Int) (ri corr : List Iv) (e : MEvent) (reg : Iv) (acc : List Iv) :
    keepStep (shiftL k ri) (shiftL k corr) e (shiftIv k reg) (shiftL k acc)
      = shiftExRes k (keepStep ri corr e reg acc) := by
  simp only [keepStep, sliceIncl_shift]
  split
  · cases sliceIncl corr e.read.1 e.read.2 <;> simp [shiftExL, shiftExRes, shiftL_append]
  · cases sliceIncl ri e.read.1 e.read.2 <;> simp [shiftExL, shiftExRes, shiftL_append]

theorem eventStep_shift (k : Int) (p : CParams) (rr : Iv) (ri corr : List Iv) (isoR : Iv) (isoI : List Iv)
    (e : MEvent) (reg : Iv) (acc : List Iv) :
    eventStep p (shiftIv k rr) (shiftL k ri) (shiftL k corr) (shiftIv k isoR) (shiftL k isoI) e (shiftIv k reg)
        (shiftL k acc)
      = shiftExRes k (eventStep p rr ri corr isoR isoI e reg acc) := by
  simp only [eventStep, pyGet?_shiftL, keepStep_shift, sliceIncl_shift]
  split
  · split
    · rfl
    · cases pyGet? ri e.read.1 with
      | none => rfl
      | some x => simp only [Option.map_some, shiftExRes, shiftIv]; congr 3; omega
  · split
    · split
      · rfl
      · cases pyGet? ri e.read.1 with
        | none => rfl
        | some x => simp only [Option.map_some, shiftExRes, shiftIv]; congr 3; omega
    · split
      · cases pyGet? isoI e.iso.1 with
        | none => rfl
        | some x => simp [shiftExRes, shiftIv, shiftL_append, shiftL]
      · split
        · cases pyGet? isoI e.iso.1 with
          | none => rfl
          | some x => simp [shiftExRes, shiftIv, shiftL_append, shiftL]
        · split
          · cases pyGet? isoI e.iso.1 <;> cases pyGet? isoI e.iso.2 <;>
              simp only [Option.map_none, Option.map_some, shiftExRes]
            rename_i a b
            have hc : contains_well_inside (shiftIv k rr) ((shiftIv k a).1, (shiftIv k b).2) p.delta
                = contains_well_inside rr (a.1, b.2) p.delta := corr_contains_well_inside_shift k rr (a.1, b.2) p.delta
            rw [hc]
            split
            · split
              · rfl
              · cases sliceIncl isoI e.iso.1 e.iso.2 <;> simp [shiftExL, shiftExRes, shiftL_append]
            · rfl
          · rfl

theorem getAll_shift (k : Int) (l : List Iv) (js : List Int) :
    getAll (shiftL k l) js = (getAll l js).map (shiftL k) := by
  induction js with
  | nil => rfl
  | cons j js ih =>
    simp only [getAll, pyGet?_shiftL, ih]
    cases pyGet? l j <;> cases getAll l js <;> simp [shiftL]

theorem microStep_shift (k : Int) (mm : List (Int × Int)) (isoI : List Iv) (i : Int) (acc : List Iv) :
    microStep mm (shiftL k isoI) i (shiftL k acc) = shiftExL k (microStep mm isoI i acc) := by
  simp only [microStep, getAll_shift]
  cases getAll isoI (microAt mm i) <;> simp [shiftExL, shiftL_append]

theorem eventLoop_shift (k : Int) (p : CParams) (emap : List (Int × MEvent)) (mm : List (Int × Int)) (rr : Iv)
    (ri corr : List Iv) (isoR : Iv)
    (isoI : List Iv) (fuel : Nat) (i : Int) (reg : Iv) (acc : List Iv) :
    eventLoop p emap mm (shiftIv k rr) (shiftL k ri) (shiftL k corr) (shiftIv k isoR) (shiftL k isoI) fuel i
        (shiftIv k reg) (shiftL k acc)
      = shiftExRes k (eventLoop p emap mm rr ri corr isoR isoI fuel i reg acc) := by
  induction fuel generalizing i reg acc with
  | zero => rfl
  | succ f ih =>
    simp only [eventLoop, shiftL_length, microStep_shift, pyGet?_shiftL, eventStep_shift]
    split
    · cases microStep mm isoI i acc with
      | error x => rfl
      | ok acc1 =>
        simp only [shiftExL]
        cases emap.lookup i with
        | none =>
          simp only
          cases pyGet? corr i with
          | none => rfl
          | some c =>
            simp only [Option.map_some]
            have := ih (i + 1) reg (acc1 ++ [c])
            simp only [shiftL_append, shiftL_cons, shiftL_nil] at this
            exact this
        | some e =>
          simp only
          rw [eventStep_shift]
          cases eventStep p rr ri corr isoR isoI e reg acc1 with
          | error x => rfl
          | ok q =>
            obtain ⟨reg', acc2⟩ := q
            simp only [shiftExRes]
            exact ih _ _ _
    · cases microStep mm isoI (corr.length : Int) acc with
      | error x => rfl
      | ok acc1 => rfl

theorem processEvents_shift (k : Int) (p : CParams) (err : Nat → Bool → Int × Int) (known : List Iv)
    (emap : List (Int × MEvent)) (mm : List (Int × Int)) (rr : Iv) (ri : List Iv) (isoR : Iv) (isoI : List Iv) :
    processEvents p err (shiftL k known) emap mm (shiftIv k rr) (shiftL k ri) (shiftIv k isoR) (shiftL k isoI)
      = shiftExRes k (processEvents p err known emap mm rr ri isoR isoI) := by
  simp only [processEvents, correctedIntrons_shift, eventFuel, shiftL_length]
  exact eventLoop_shift k p emap mm rr ri _ isoR isoI _ 0 rr []

theorem buildExons_shift (k : Int) (reg : Iv) (ni : List Iv) :
    buildExons (shiftIv k reg) (shiftL k ni) = shiftL k (buildExons reg ni) := by
  simp only [buildExons, shiftL_head?, shiftL_getLast?, junctionsFromBlocks_shift]
  cases ni.head? <;> cases ni.getLast? <;> simp only [Option.map_none, Option.map_some] <;> try rfl
  rename_i f l
  have e1 : f.1 + k - 1 = f.1 - 1 + k := by omega
  have e2 : l.2 + k + 1 = l.2 + 1 + k := by omega
  simp only [shiftL_cons, shiftL_append, shiftL_nil, shiftIv, e1, e2]

theorem chainSorted_shift (k : Int) (l : List Iv) : chainSorted (shiftL k l) = chainSorted l := by
  fun_induction chainSorted l with
  | case1 => rfl
  | case2 a => rfl
  | case3 a b t ih =>
    have h : (a.2 + k < b.1 + k) ↔ (a.2 < b.1) := by omega
    simp only [shiftL_cons] at ih ⊢
    simp only [chainSorted, ih, shiftIv_fst, shiftIv_snd, h]

theorem validChain_shift (k : Int) (l : List Iv) : validChain (shiftL k l) = validChain l := by
  have h : ∀ e : Iv, (e.1 + k ≤ e.2 + k) ↔ (e.1 ≤ e.2) := by intro e; omega
  rw [validChain, chainSorted_shift]
  simp only [validChain, shiftL, List.all_map, Function.comp_def, shiftIv_fst, shiftIv_snd, h]

theorem intronsSpaced_shift (k : Int) (l : List Iv) : intronsSpaced (shiftL k l) = intronsSpaced l := by
  fun_induction intronsSpaced l with
  | case1 => rfl
  | case2 a => rfl
  | case3 a b t ih =>
    have h : (a.2 + k + 1 < b.1 + k) ↔ (a.2 + 1 < b.1) := by omega
    simp only [shiftL_cons] at ih ⊢
    simp only [intronsSpaced, ih, shiftIv_fst, shiftIv_snd, h]

/-- `is_valid_intron_chain` does not see a translation -/
theorem validIntronChain_shift (k : Int) (l : List Iv) : validIntronChain (shiftL k l) = validIntronChain l := by
  have h : ∀ e : Iv, (e.1 + k ≤ e.2 + k) ↔ (e.1 ≤ e.2) := by intro e; omega
  rw [validIntronChain, intronsSpaced_shift]
  simp only [validIntronChain, shiftL, List.all_map, Function.comp_def, shiftIv_fst, shiftIv_snd, h]

end IsoVerif.Lemmas.C11
