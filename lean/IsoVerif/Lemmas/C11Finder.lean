/-
C11 helper definitions / lemmas — Model/PolyAFinder.lean: the position reported by `find_polya_tail` / `find_polyt_head`
as an OFFSET from `reference_start` (`tailOffset`, `headOffset`: the function bodies with `reference_start = 0`, "not found"
kept apart from a found offset), so that "the result is reference_start + offset" can be stated for every start.
-/
import IsoVerif.Model.PolyAFinder
import IsoVerif.Model.C11Symmetry

namespace IsoVerif.Lemmas.C11
open IsoVerif.Gen IsoVerif.Model IsoVerif.Model.C16

/-- how a found offset / "not found" is rendered for a given reference start -/
def renderTail (s : Int) : Option Int → Int
  | none => -1
  | some x => s + x
/-- `find_polyt_head` clamps the reported position at 1 -/
def renderHead (s : Int) : Option Int → Int
  | none => -1
  | some x => max 1 (s + x)

theorem referenceEnd_rel (s : Int) (c : List CigarOp) : referenceEnd s c = s + referenceEnd 0 c := by
  simp only [referenceEnd]; split <;> omega

/-- `find_polya_tail` relative to `reference_start`: outer `none` = raises, `some none` = not found (−1) -/
def tailOffset (window num den : Nat) (cigar : List CigarOp) (seq : List Char)
    (fromPos toPos : Int) (checkEntire : Bool) : Option (Option Int) :=
  if cigar = [] then none
  else if seq = [] then some none
  else
    let clip := softClipTail cigar
    let n : Int := seq.length
    if ¬ (clip < n) then none
    else
      let mappedEnd := n - clip
      let start := max 0 (mappedEnd - fromPos)
      let stop := min n (mappedEnd + toPos + 1)
      let region := (slice seq start stop).map (fun c => upperChar c == 'A')
      match tailScan window num den checkEntire region with
      | none => some none
      | some p =>
        let pos : Int := start + p
        let refEnd := referenceEnd 0 cigar
        if pos ≥ mappedEnd then some (some (refEnd + (pos - mappedEnd)))
        else do
          let refShift ← moveRefCoord cigar (pos - mappedEnd)
          some (some (refEnd - refShift))

def headOffset (window num den : Nat) (cigar : List CigarOp) (seq : List Char)
    (fromPos toPos : Int) (checkEntire : Bool) : Option (Option Int) :=
  if cigar = [] then none
  else if seq = [] then some none
  else
    let clip := softClipHead cigar
    let n : Int := seq.length
    if ¬ (clip < n) then none
    else
      let mappedStart := clip
      let start := max 0 (mappedStart - toPos)
      let stop := min n (mappedStart + fromPos + 1)
      let region := ((slice seq start stop).reverse).map (fun c => upperChar c == 'T')
      match tailScan window num den checkEntire region with
      | none => some none
      | some p =>
        let pos : Int := stop - p - 1
        if pos ≤ mappedStart then some (some (-(mappedStart - pos)))
        else do
          let refShift ← moveRefCoord cigar (pos - mappedStart)
          some (some refShift)

theorem findPolyaTail_eq_offset (w n d : Nat) (s : Int) (cigar : List CigarOp) (seq : List Char) (f t : Int) (c : Bool) :
    findPolyaTail w n d s cigar seq f t c = (tailOffset w n d cigar seq f t c).map (renderTail s) := by
  unfold findPolyaTail tailOffset
  simp only [referenceEnd_rel s cigar]
  by_cases h1 : cigar = []
  · simp [h1]
  by_cases h2 : seq = []
  · simp [h1, h2, renderTail]
  by_cases h3 : softClipTail cigar < (seq.length : Int)
  · simp only [h1, h2, h3, if_false, not_true_eq_false]
    generalize tailScan w n d c _ = fp
    cases fp with
    | none => rfl
    | some p =>
      simp only []
      split
      · simp only [Option.map_some, renderTail]; congr 1; omega
      · cases moveRefCoord cigar _ with
        | none => rfl
        | some r => simp only [Option.bind_eq_bind, Option.bind_some, Option.map_some, renderTail]; congr 1; omega
  · simp [h1, h2, h3]

theorem findPolytHead_eq_offset (w n d : Nat) (s : Int) (cigar : List CigarOp) (seq : List Char) (f t : Int) (c : Bool) :
    findPolytHead w n d s cigar seq f t c = (headOffset w n d cigar seq f t c).map (renderHead s) := by
  unfold findPolytHead headOffset
  by_cases h1 : cigar = []
  · simp [h1]
  by_cases h2 : seq = []
  · simp [h1, h2, renderHead]
  by_cases h3 : softClipHead cigar < (seq.length : Int)
  · simp only [h1, h2, h3, if_false, not_true_eq_false]
    generalize tailScan w n d c _ = fp
    cases fp with
    | none => rfl
    | some p =>
      simp only []
      split
      · simp only [Option.map_some, renderHead]; congr 2
      · cases moveRefCoord cigar _ with
        | none => rfl
        | some r => simp only [Option.bind_eq_bind, Option.bind_some, Option.map_some, renderHead]
  · simp [h1, h2, h3]

/-! ## clean tails: 15 A's right behind the aligned part (whatever follows), three non-A bases before them -/

def t15 : List Bool := [true, true, true, true, true, true, true, true, true, true, true, true, true, true, true]

theorem findPolya_clean2 (rest : List Bool) : findPolya 16 12 (false :: false :: (t15 ++ rest)) = some 2 := by
  simp [findPolya, t15, findPolyaLoop, countTrue, findAA]

theorem findPolya_clean3 (rest : List Bool) : findPolya 16 12 (false :: false :: false :: (t15 ++ rest)) = some 3 := by
  simp [findPolya, t15, findPolyaLoop, countTrue, findAA]

/-- without the entire-tail test the scan is the window scan with `min_count = 16 * 3 / 4 = 12` -/
theorem tailScan_false_16 (region : List Bool) : tailScan 16 3 4 false region = findPolya 16 12 region := by
  have h12 : 16 * 3 / 4 = 12 := by decide
  simp only [tailScan, h12]
  cases findPolya 16 12 region <;> simp

def a15 : List Char := ['A','A','A','A','A','A','A','A','A','A','A','A','A','A','A']

theorem clean_tail (pre : List Char) (c1 c2 : Char) (rest : List Char) (s : Int)
    (h1 : (upperChar c1 == 'A') = false) (h2 : (upperChar c2 == 'A') = false) :
    findPolyaTail 16 3 4 s [(CigarEvent.«match», (pre.length : Int) + 2), (CigarEvent.soft_clipping, 15 + (rest.length : Int))]
      (pre ++ (c1 :: c2 :: (a15 ++ rest))) 2 32 false = some (s + (pre.length : Int) + 2) := by
  have hclip : softClipTail [(CigarEvent.«match», (pre.length : Int) + 2), (CigarEvent.soft_clipping, 15 + (rest.length : Int))]
      = 15 + (rest.length : Int) := by simp [softClipTail]
  have hlen : ((pre ++ (c1 :: c2 :: (a15 ++ rest))).length : Int) = (pre.length : Int) + 2 + 15 + rest.length := by
    simp [a15]; omega
  have hre : referenceEnd s [(CigarEvent.«match», (pre.length : Int) + 2), (CigarEvent.soft_clipping, 15 + (rest.length : Int))]
      = s + (pre.length : Int) + 2 := by
    simp [referenceEnd, refLen, consumesRef]; omega
  unfold findPolyaTail
  simp only [hclip, hlen, hre]
  have e1 : (pre.length : Int) + 2 + 15 + rest.length - (15 + (rest.length : Int)) = (pre.length : Int) + 2 := by omega
  simp only [e1]
  have e2 : max 0 ((pre.length : Int) + 2 - 2) = (pre.length : Int) := by omega
  simp only [e2]
  have hslice : slice (pre ++ (c1 :: c2 :: (a15 ++ rest))) (pre.length : Int)
      (min ((pre.length : Int) + 2 + 15 + rest.length) ((pre.length : Int) + 2 + 32 + 1)) =
      c1 :: c2 :: (a15 ++ rest.take (min rest.length 18)) := by
    simp only [slice, Int.toNat_natCast, List.drop_left']
    have : (min ((pre.length : Int) + 2 + 15 + rest.length) ((pre.length : Int) + 2 + 32 + 1)).toNat - pre.length
        = 17 + min rest.length 18 := by omega
    rw [this, Nat.add_comm]
    simp [a15, List.take]
  have hmap : List.map (fun c => upperChar c == 'A') (c1 :: c2 :: (a15 ++ List.take (min rest.length 18) rest)) =
      false :: false :: (t15 ++ List.map (fun c => upperChar c == 'A') (List.take (min rest.length 18) rest)) := by
    have ha : List.map (fun c => upperChar c == 'A') a15 = t15 := by decide
    simp only [List.map_cons, List.map_append, h1, h2, ha]
  rw [hslice, hmap, tailScan_false_16, findPolya_clean2]
  simp
  omega

def tt15 : List Char := ['T','T','T','T','T','T','T','T','T','T','T','T','T','T','T']

theorem clean_head (rest : List Char) (d1 d2 d3 : Char) (post : List Char) (s : Int)
    (h1 : (upperChar d1 == 'T') = false) (h2 : (upperChar d2 == 'T') = false) (h3 : (upperChar d3 == 'T') = false) :
    findPolytHead 16 3 4 s [(CigarEvent.soft_clipping, (rest.length : Int) + 15), (CigarEvent.«match», 3 + (post.length : Int))]
      (rest ++ (tt15 ++ (d1 :: d2 :: d3 :: post))) 2 32 false = some (max 1 (s - 1)) := by
  have hclip : softClipHead [(CigarEvent.soft_clipping, (rest.length : Int) + 15), (CigarEvent.«match», 3 + (post.length : Int))]
      = (rest.length : Int) + 15 := by simp [softClipHead]
  have hlen : ((rest ++ (tt15 ++ (d1 :: d2 :: d3 :: post))).length : Int) = (rest.length : Int) + 15 + 3 + post.length := by
    simp [tt15]; omega
  unfold findPolytHead
  simp only [hclip, hlen]
  have e1 : min ((rest.length : Int) + 15 + 3 + post.length) ((rest.length : Int) + 15 + 2 + 1) = (rest.length : Int) + 18 := by omega
  have e2 : max 0 ((rest.length : Int) + 15 - 32) = ((rest.length - 17 : Nat) : Int) := by omega
  simp only [e1, e2]
  have hslice : slice (rest ++ (tt15 ++ (d1 :: d2 :: d3 :: post))) ((rest.length - 17 : Nat) : Int) ((rest.length : Int) + 18) =
      rest.drop (rest.length - 17) ++ (tt15 ++ [d1, d2, d3]) := by
    simp only [slice, Int.toNat_natCast]
    have e : ((rest.length : Int) + 18).toNat - (rest.length - 17) = (rest.drop (rest.length - 17)).length + 18 := by
      simp; omega
    rw [e, List.drop_append_of_le_length (by omega)]
    simp [List.take_append, tt15]
    apply List.take_of_length_le
    simp
  have hmap : List.map (fun c => upperChar c == 'T') (rest.drop (rest.length - 17) ++ (tt15 ++ [d1, d2, d3])).reverse =
      false :: false :: false :: (t15 ++ List.map (fun c => upperChar c == 'T') (rest.drop (rest.length - 17)).reverse) := by
    have ha : List.map (fun c => upperChar c == 'T') tt15.reverse = t15 := by decide
    simp only [List.reverse_append, List.map_append, List.reverse_cons, List.reverse_nil, List.nil_append,
      List.cons_append, List.map_cons, List.map_nil, h1, h2, h3, ha, List.append_assoc]
  rw [hslice, hmap, tailScan_false_16, findPolya_clean3]
  simp
  refine ⟨by omega, ?_⟩
  have c : (rest.length : Int) + 18 - 3 - 1 ≤ (rest.length : Int) + 15 := by omega
  simp only [c, if_true]
  congr 2; omega

end IsoVerif.Lemmas.C11
