/-
Refinement lemmas for the CIGAR walkers of src/common.py regenerated into `Gen/Loops.lean` (`get_read_blocks`,
`concat_gapless_blocks`) against the hand model `Model/Cigar.lean`.  Property-level statements: `Props/C16Gen.lean`.
-/
import IsoVerif.Gen.LoopsCigar
import IsoVerif.Lemmas.GenBase
import IsoVerif.Model.Cigar

namespace IsoVerif.Lemmas.GenCigar
open IsoVerif.Gen IsoVerif.Model IsoVerif.Model.C16 IsoVerif.Lemmas.GenLoops

/-- the CIGAR as pysam hands it over — `(code, length)` pairs — decoded to the model's operations;
    `none` = some code is not a `CigarEvent` value (`CigarEvent(code)` raises ValueError) -/
def decodeOps : List Iv → Option (List CigarOp)
  | [] => some []
  | t :: ts =>
    match pyCigarEvent t.1 with
    | none => none
    | some ev => (decodeOps ts).map (fun ops => (ev, t.2) :: ops)

theorem decodeOps_length {tuples : List Iv} {ops : List CigarOp} (h : decodeOps tuples = some ops) :
    ops.length = tuples.length := by
  induction tuples generalizing ops with
  | nil => simp [decodeOps] at h; subst h; rfl
  | cons t ts ih =>
    simp only [decodeOps] at h
    cases hev : pyCigarEvent t.1 with
    | none => simp [hev] at h
    | some ev =>
      simp only [hev] at h
      cases hd : decodeOps ts with
      | none => simp [hd] at h
      | some os =>
        simp only [hd, Option.map_some, Option.some.injEq] at h
        subst h
        simp [ih hd]

theorem decodeOps_get {tuples : List Iv} {ops : List CigarOp} (h : decodeOps tuples = some ops) (k : Nat)
    (hk : k < tuples.length) :
    ∃ ev, pyCigarEvent tuples[k].1 = some ev ∧ ops[k]? = some (ev, tuples[k].2) := by
  induction tuples generalizing ops k with
  | nil => simp at hk
  | cons t ts ih =>
    simp only [decodeOps] at h
    cases hev : pyCigarEvent t.1 with
    | none => simp [hev] at h
    | some ev =>
      simp only [hev] at h
      cases hd : decodeOps ts with
      | none => simp [hd] at h
      | some os =>
        simp only [hd, Option.map_some, Option.some.injEq] at h
        subst h
        cases k with
        | zero => exact ⟨ev, by simpa using hev, by simp⟩
        | succ k =>
          obtain ⟨ev', h1, h2⟩ := ih hd k (by simpa using hk)
          exact ⟨ev', by simpa using h1, by simpa using h2⟩

/-! ### `concat_gapless_blocks` -/

/-- what `concat_gapless_blocks` returns for the model's final `(resulting_blocks, current_block)` -/
def cfin : List Iv × Option Iv → List Iv
  | (res, some c) => res ++ [c]
  | (res, none) => res

theorem concat_after1 (blocks tuples : List Iv) (ci bi : Int) (res : List Iv) (cur : Option Iv) (del : Int) :
    concat_gapless_blocks.after1 blocks tuples ci bi res cur del = some (cfin (res, cur)) := by
  unfold concat_gapless_blocks.after1
  cases cur <;> simp [cfin]

theorem concat_loop (blocks tuples : List Iv) (ops : List CigarOp) (hdec : decodeOps tuples = some ops)
    (fuel kc kb : Nat) (res : List Iv) (cur : Option Iv) (del : Int)
    (hkc : kc ≤ tuples.length) (hkb : kb ≤ blocks.length) (hf : tuples.length + 1 ≤ fuel + kc) :
    concat_gapless_blocks.loop1 blocks tuples fuel (kc : Int) (kb : Int) res cur del
      = some (cfin (concatGaplessAux cur del res (ops.drop kc) (blocks.drop kb))) := by
  induction fuel generalizing kc kb res cur del with
  | zero => omega
  | succ fuel ih =>
    unfold concat_gapless_blocks.loop1
    have hlen := decodeOps_length hdec
    simp only [pyLen, pyIdx_natCast]
    by_cases hc : kc < tuples.length
    · by_cases hb : kb < blocks.length
      · obtain ⟨ev, hev, hop⟩ := decodeOps_get hdec kc hc
        have hx : tuples[kc]? = some tuples[kc] := List.getElem?_eq_getElem hc
        have hy : blocks[kb]? = some blocks[kb] := List.getElem?_eq_getElem hb
        have hd1 := drop_eq_cons_of_getElem ops kc _ hop
        have hd2 := drop_eq_cons_of_getElem blocks kb _ hy
        have hc1 : ((kc : Int) + 1) = ((kc + 1 : Nat) : Int) := by omega
        have hc2 : ((kb : Int) + 1) = ((kb + 1 : Nat) : Int) := by omega
        have hl1 : (kc : Int) < (tuples.length : Int) := by omega
        have hl2 : (kb : Int) < (blocks.length : Int) := by omega
        simp only [hl1, hl2, decide_true, Bool.and_self, if_true, hx, hev, hy, hc1, hc2]
        rw [hd1, hd2]
        cases cur with
        | none =>
          simp only [Option.isNone_none, if_true, concatGaplessAux]
          by_cases hm : ev.in_cigar_match_events = true
          · simp only [hm, if_true]
            rw [ih (kc + 1) (kb + 1) _ _ _ (by omega) (by omega) (by omega)]
          · simp only [hm, Bool.false_eq_true, if_false]
            by_cases hdl : ev = CigarEvent.deletion
            · simp only [hdl, decide_true, if_true]
              rw [ih (kc + 1) kb _ _ _ (by omega) (by omega) (by omega), hd2]
            · simp only [hdl, decide_false, Bool.false_eq_true, if_false]
              rw [ih (kc + 1) kb _ _ _ (by omega) (by omega) (by omega), hd2]
        | some c =>
          simp only [Option.isNone_some, Bool.false_eq_true, if_false, concatGaplessAux]
          by_cases hs : ev = CigarEvent.skipped
          · simp only [hs, decide_true, if_true]
            rw [ih (kc + 1) kb _ _ _ (by omega) (by omega) (by omega), hd2]
          · simp only [hs, decide_false, Bool.false_eq_true, if_false]
            by_cases hdl : ev = CigarEvent.deletion
            · simp only [hdl, decide_true, if_true]
              rw [ih (kc + 1) kb _ _ _ (by omega) (by omega) (by omega), hd2]
            · simp only [hdl, decide_false, Bool.false_eq_true, if_false]
              by_cases hm : ev.in_cigar_match_events = true
              · simp only [hm, if_true]
                rw [ih (kc + 1) (kb + 1) _ _ _ (by omega) (by omega) (by omega)]
              · simp only [hm, Bool.false_eq_true, if_false]
                rw [ih (kc + 1) kb _ _ _ (by omega) (by omega) (by omega), hd2]
      · have hnil : blocks.drop kb = [] := List.drop_eq_nil_of_le (by omega)
        have hl2 : ¬ (kb : Int) < (blocks.length : Int) := by omega
        simp only [hl2, decide_false, Bool.and_false, Bool.false_eq_true, if_false, concat_after1, hnil]
        cases ops.drop kc <;> simp [concatGaplessAux]
    · have hnil : ops.drop kc = [] := List.drop_eq_nil_of_le (by omega)
      have hl1 : ¬ (kc : Int) < (tuples.length : Int) := by omega
      simp only [hl1, decide_false, Bool.false_and, Bool.false_eq_true, if_false, concat_after1, hnil,
        concatGaplessAux]

theorem concat_gapless_blocks_eq (blocks tuples : List Iv) (ops : List CigarOp) (hdec : decodeOps tuples = some ops) :
    concat_gapless_blocks blocks tuples = some (concatGaplessBlocks blocks ops) := by
  unfold concat_gapless_blocks concatGaplessBlocks
  have := concat_loop blocks tuples ops hdec (concat_gapless_blocks.fuel1 blocks tuples) 0 0 [] none 0
    (by omega) (by omega) (by simp [concat_gapless_blocks.fuel1])
  simp only [Int.natCast_zero, List.drop_zero] at this
  rw [this]
  cases h : concatGaplessAux none 0 [] ops blocks with
  | mk res cur => cases cur <;> rfl


/-! ### `get_read_blocks` -/

/-- the returned triple -/
def rbOut (st : RBState) : List Iv × List Iv × List Iv := (st.refBlocks, st.readBlocks, st.cigarBlocks)

/-- the three None-able locals of the Python code carry the components of the model's one `Option` triple -/
def Link (cur : Option (Int × Int × Int)) (a b c : Option Int) : Prop :=
  a = cur.map (·.1) ∧ b = cur.map (·.2.1) ∧ c = cur.map (·.2.2)

theorem rb_after1 (s : Int) (tuples : List Iv) (rp fp idx : Int) (cur : Option (Int × Int × Int)) (a b c : Option Int)
    (hl : Link cur a b c) (hm : Bool) (rb cb rdb : List Iv) :
    get_read_blocks.after1 s tuples rp fp idx a b c hm rb cb rdb
      = some (rbOut (finish ⟨rp, fp, idx, cur, hm, rb, rdb, cb⟩)) := by
  obtain ⟨rfl, rfl, rfl⟩ := hl
  unfold get_read_blocks.after1 finish rbOut
  cases cur with
  | none => simp [pyTruthyOptInt, truthy]
  | some t =>
    obtain ⟨x, y, z⟩ := t
    by_cases hx : x = 0 <;> cases hm <;> simp [pyTruthyOptInt, truthy, pushBlock, hx]

theorem rb_bind_cons (ev : CigarEvent) (n : Int) (o : Option (List CigarOp)) (st : RBState) :
    (o.map (fun ops => (ev, n) :: ops)).bind (fun ops => some (rbOut (finish (ops.foldl step st))))
      = o.bind (fun ops => some (rbOut (finish (ops.foldl step (step st (ev, n)))))) := by
  cases o <;> rfl

theorem rb_loop (s : Int) (tuples : List Iv) (fuel k : Nat) (rp fp : Int) (cur : Option (Int × Int × Int))
    (a b c : Option Int) (hl : Link cur a b c) (hm : Bool) (rb cb rdb : List Iv)
    (hk : k ≤ tuples.length) (hf : tuples.length + 1 ≤ fuel + k) :
    get_read_blocks.loop1 s tuples fuel rp fp (k : Int) a b c hm rb cb rdb
      = (decodeOps (tuples.drop k)).bind
          (fun ops => some (rbOut (finish (ops.foldl step ⟨rp, fp, (k : Int), cur, hm, rb, rdb, cb⟩)))) := by
  induction fuel generalizing k rp fp cur a b c hm rb cb rdb with
  | zero => omega
  | succ fuel ih =>
    unfold get_read_blocks.loop1
    simp only [pyLen, pyIdx_natCast]
    by_cases hc : k < tuples.length
    · have hx : tuples[k]? = some tuples[k] := List.getElem?_eq_getElem hc
      have hd := drop_eq_cons_of_getElem tuples k _ hx
      have hc1 : ((k : Int) + 1) = ((k + 1 : Nat) : Int) := by omega
      have hl1 : (k : Int) < (tuples.length : Int) := by omega
      have hk' : k + 1 ≤ tuples.length := by omega
      have hf' : tuples.length + 1 ≤ fuel + (k + 1) := by omega
      simp only [hl1, decide_true, if_true, hx, hd, decodeOps]
      cases hev : pyCigarEvent tuples[k].1 with
      | none => rfl
      | some ev =>
        simp only [rb_bind_cons, step, hc1]
        obtain ⟨rfl, rfl, rfl⟩ := hl
        generalize tuples[k].2 = n
        cases cur with
        | none =>
          simp only [Option.map_none, Option.isNone_none, Bool.true_and, stepBody, pyTruthyOptInt, Bool.false_eq_true,
            if_false, closeBlock, truthy]
          by_cases h1 : ev.in_cigar_ins_del_match_events = true
          · simp only [h1, if_true]
            by_cases h2 : ev = CigarEvent.insertion
            · simp only [h2, decide_true, if_true]
              exact ih (k + 1) _ _ (some (fp, rp, (k : Int))) _ _ _ ⟨rfl, rfl, rfl⟩ _ _ _ _ hk' hf'
            · simp only [h2, decide_false, Bool.false_eq_true, if_false]
              by_cases h3 : ev = CigarEvent.deletion
              · simp only [h3, decide_true, if_true]
                exact ih (k + 1) _ _ (some (fp, rp, (k : Int))) _ _ _ ⟨rfl, rfl, rfl⟩ _ _ _ _ hk' hf'
              · simp only [h3, decide_false, Bool.false_eq_true, if_false]
                exact ih (k + 1) _ _ (some (fp, rp, (k : Int))) _ _ _ ⟨rfl, rfl, rfl⟩ _ _ _ _ hk' hf'
          · simp only [h1, Bool.false_eq_true, if_false]
            by_cases h4 : ev.in_cigar_match_events = true
            · simp only [h4, if_true]
              exact ih (k + 1) _ _ none _ _ _ ⟨rfl, rfl, rfl⟩ _ _ _ _ hk' hf'
            · simp only [h4, Bool.false_eq_true, if_false]
              by_cases h2 : ev = CigarEvent.insertion
              · simp only [h2, decide_true, if_true]
                exact ih (k + 1) _ _ none _ _ _ ⟨rfl, rfl, rfl⟩ _ _ _ _ hk' hf'
              · simp only [h2, decide_false, Bool.false_eq_true, if_false]
                by_cases h3 : ev = CigarEvent.deletion
                · simp only [h3, decide_true, if_true]
                  exact ih (k + 1) _ _ none _ _ _ ⟨rfl, rfl, rfl⟩ _ _ _ _ hk' hf'
                · simp only [h3, decide_false, Bool.false_eq_true, if_false]
                  by_cases h5 : ev = CigarEvent.skipped
                  · simp only [h5, decide_true, if_true]
                    exact ih (k + 1) _ _ none _ _ _ ⟨rfl, rfl, rfl⟩ _ _ _ _ hk' hf'
                  · simp only [h5, decide_false, Bool.false_eq_true, if_false]
                    by_cases h6 : ev = CigarEvent.soft_clipping
                    · simp only [h6, decide_true, if_true]
                      exact ih (k + 1) _ _ none _ _ _ ⟨rfl, rfl, rfl⟩ _ _ _ _ hk' hf'
                    · simp only [h6, decide_false, Bool.false_eq_true, if_false]
                      exact ih (k + 1) _ _ none _ _ _ ⟨rfl, rfl, rfl⟩ _ _ _ _ hk' hf'
        | some t =>
          obtain ⟨x, y, z⟩ := t
          simp only [Option.map_some, Option.isNone_some, Bool.false_and, stepBody, Bool.false_eq_true, if_false]
          by_cases h4 : ev.in_cigar_match_events = true
          · simp only [h4, if_true]
            exact ih (k + 1) _ _ (some (x, y, z)) _ _ _ ⟨rfl, rfl, rfl⟩ _ _ _ _ hk' hf'
          · simp only [h4, Bool.false_eq_true, if_false]
            by_cases h2 : ev = CigarEvent.insertion
            · simp only [h2, decide_true, if_true]
              exact ih (k + 1) _ _ (some (x, y, z)) _ _ _ ⟨rfl, rfl, rfl⟩ _ _ _ _ hk' hf'
            · simp only [h2, decide_false, Bool.false_eq_true, if_false]
              by_cases h3 : ev = CigarEvent.deletion
              · simp only [h3, decide_true, if_true]
                exact ih (k + 1) _ _ (some (x, y, z)) _ _ _ ⟨rfl, rfl, rfl⟩ _ _ _ _ hk' hf'
              · simp only [h3, decide_false, Bool.false_eq_true, if_false]
                by_cases h5 : ev = CigarEvent.skipped
                · simp only [h5, decide_true, if_true, closeBlock, truthy, pyTruthyOptInt]
                  by_cases hx0 : x = 0
                  · subst hx0
                    simp only [bne_self_eq_false, Bool.false_eq_true, if_false]
                    exact ih (k + 1) _ _ (some (0, y, z)) _ _ _ ⟨rfl, rfl, rfl⟩ _ _ _ _ hk' hf'
                  · have hb : (x != 0) = true := by simpa using hx0
                    simp only [hb, if_true]
                    cases hm
                    · simp only [Bool.false_eq_true, if_false]
                      exact ih (k + 1) _ _ none _ _ _ ⟨rfl, rfl, rfl⟩ _ _ _ _ hk' hf'
                    · simp only [if_true, pushBlock]
                      exact ih (k + 1) _ _ none _ _ _ ⟨rfl, rfl, rfl⟩ _ _ _ _ hk' hf'
                · simp only [h5, decide_false, Bool.false_eq_true, if_false]
                  by_cases h6 : ev = CigarEvent.soft_clipping
                  · simp only [h6, decide_true, if_true, closeBlock, truthy, pyTruthyOptInt]
                    by_cases hx0 : x = 0
                    · subst hx0
                      simp only [bne_self_eq_false, Bool.false_eq_true, if_false]
                      exact ih (k + 1) _ _ (some (0, y, z)) _ _ _ ⟨rfl, rfl, rfl⟩ _ _ _ _ hk' hf'
                    · have hb : (x != 0) = true := by simpa using hx0
                      simp only [hb, if_true]
                      cases hm
                      · simp only [Bool.false_eq_true, if_false]
                        exact ih (k + 1) _ _ none _ _ _ ⟨rfl, rfl, rfl⟩ _ _ _ _ hk' hf'
                      · simp only [if_true, pushBlock]
                        exact ih (k + 1) _ _ none _ _ _ ⟨rfl, rfl, rfl⟩ _ _ _ _ hk' hf'
                  · simp only [h6, decide_false, Bool.false_eq_true, if_false]
                    exact ih (k + 1) _ _ (some (x, y, z)) _ _ _ ⟨rfl, rfl, rfl⟩ _ _ _ _ hk' hf'
    · have hnil : tuples.drop k = [] := List.drop_eq_nil_of_le (by omega)
      have hl1 : ¬ (k : Int) < (tuples.length : Int) := by omega
      simp only [hl1, decide_false, Bool.false_eq_true, if_false, hnil, decodeOps, Option.bind_some, List.foldl_nil]
      exact rb_after1 s tuples rp fp k cur a b c hl hm rb cb rdb


theorem get_read_blocks_eq (s : Int) (tuples : List Iv) :
    get_read_blocks s tuples = (decodeOps tuples).map (fun ops => rbOut (getReadBlocks s ops)) := by
  unfold get_read_blocks
  have := rb_loop s tuples (get_read_blocks.fuel1 s tuples) 0 0 (s + 1) none none none none ⟨rfl, rfl, rfl⟩ false [] [] []
    (by omega) (by simp [get_read_blocks.fuel1])
  simp only [Int.natCast_zero, List.drop_zero] at this
  rw [this]
  cases decodeOps tuples with
  | none => rfl
  | some ops => rfl

end IsoVerif.Lemmas.GenCigar
