import IsoVerif.Lemmas.Merge

/-!
Grounding of the interval-arithmetic specifications in *sets of positions*: inside any window
`[lo, lo + n)` that contains the lists, `intervalsTotalLength` is the number of covered positions and
`inter` is the number of positions covered by both lists.
-/
namespace IsoVerif.Lemmas
open IsoVerif.Gen IsoVerif.Model

/-- decidable coverage test -/
def covb (l : List Iv) (p : Int) : Bool := l.any (fun r => decide (r.1 ≤ p) && decide (p ≤ r.2))

theorem covb_iff (l : List Iv) (p : Int) : covb l p = true ↔ cov l p := by
  simp [covb, cov]

/-- number of positions `lo + i`, `i < n`, satisfying `f` -/
def countWin (f : Int → Bool) (lo : Int) (n : Nat) : Nat := ((List.range n).filter (fun (i : Nat) => f (lo + (i : Int)))).length

theorem countWin_succ (f : Int → Bool) (lo : Int) (n : Nat) :
    countWin f lo (n + 1) = countWin f lo n + (if f (lo + (n : Int)) then 1 else 0) := by
  simp only [countWin, List.range_succ, List.filter_append, List.length_append, List.filter_cons, List.filter_nil]
  split <;> simp

theorem countWin_or_disjoint (f g : Int → Bool) (lo : Int) (n : Nat) (h : ∀ p, ¬ (f p = true ∧ g p = true)) :
    countWin (fun p => f p || g p) lo n = countWin f lo n + countWin g lo n := by
  induction n with
  | zero => simp [countWin]
  | succ n ih =>
    rw [countWin_succ, countWin_succ, countWin_succ, ih]
    have := h (lo + (n : Int))
    cases hf : f (lo + (n : Int)) <;> cases hg : g (lo + (n : Int)) <;> simp_all <;> omega

theorem countWin_false (lo : Int) (n : Nat) : countWin (fun _ => false) lo n = 0 := by
  simp [countWin]

theorem countWin_congr (f g : Int → Bool) (lo : Int) (n : Nat) (h : ∀ p, f p = g p) :
    countWin f lo n = countWin g lo n := by
  have : f = g := funext h
  rw [this]

/-- a single interval inside the window has `hi − lo' + 1` positions (0 if empty) -/
theorem countWin_interval (a b lo : Int) (n : Nat) (h1 : lo ≤ a) (h2 : b < lo + n) :
    (countWin (fun p => decide (a ≤ p) && decide (p ≤ b)) lo n : Int) = max 0 (b - a + 1) := by
  induction n with
  | zero => simp [countWin]; omega
  | succ n ih =>
    rw [countWin_succ]
    by_cases hb : b < lo + (n : Int)
    · have := ih hb
      have hn : ¬ (a ≤ lo + (n : Int) ∧ lo + (n : Int) ≤ b) := by omega
      simp only [Bool.and_eq_true, decide_eq_true_eq, hn, if_false]
      omega
    · -- b = lo + n : the last position of the window is the last position of the interval
      have hbeq : b = lo + (n : Int) := by omega
      by_cases hab : a ≤ b
      · have : (countWin (fun p => decide (a ≤ p) && decide (p ≤ b)) lo n : Int) = max 0 ((b - 1) - a + 1) := by
          have hc := countWin_congr (fun p => decide (a ≤ p) && decide (p ≤ b)) (fun p => decide (a ≤ p) && decide (p ≤ b - 1)) lo n
          -- inside the window [lo, lo+n) every p ≤ b−1, so the two predicates agree there: prove by induction instead
          clear hc
          have gen : ∀ m : Nat, m ≤ n →
              (countWin (fun p => decide (a ≤ p) && decide (p ≤ b)) lo m : Int) = max 0 (lo + (m : Int) - a) := by
            intro m
            induction m with
            | zero => intro _; simp [countWin]; omega
            | succ m ihm =>
              intro hm
              rw [countWin_succ]
              have := ihm (by omega)
              by_cases hin : a ≤ lo + (m : Int)
              · have : (a ≤ lo + (m : Int) ∧ lo + (m : Int) ≤ b) := by omega
                simp only [Bool.and_eq_true, decide_eq_true_eq, this, and_self, if_true]
                omega
              · have : ¬ (a ≤ lo + (m : Int) ∧ lo + (m : Int) ≤ b) := by omega
                simp only [Bool.and_eq_true, decide_eq_true_eq, this, if_false]
                omega
          have := gen n (Nat.le_refl n)
          omega
        have hin : (a ≤ lo + (n : Int) ∧ lo + (n : Int) ≤ b) := by omega
        simp only [Bool.and_eq_true, decide_eq_true_eq, hin, and_self, if_true]
        omega
      · have hz : ∀ m : Nat, (countWin (fun p => decide (a ≤ p) && decide (p ≤ b)) lo m : Int) = 0 := by
          intro m
          induction m with
          | zero => simp [countWin]
          | succ m ihm =>
            rw [countWin_succ]
            have : ¬ (a ≤ lo + (m : Int) ∧ lo + (m : Int) ≤ b) := by omega
            simp only [Bool.and_eq_true, decide_eq_true_eq, this, if_false]
            omega
        have := hz n
        have hn : ¬ (a ≤ lo + (n : Int) ∧ lo + (n : Int) ≤ b) := by omega
        simp only [Bool.and_eq_true, decide_eq_true_eq, hn, if_false]
        omega

theorem covb_cons (a : Iv) (l : List Iv) (p : Int) :
    covb (a :: l) p = ((decide (a.1 ≤ p) && decide (p ≤ a.2)) || covb l p) := by
  simp [covb]

/-- |positions covered by `l`| = total length, for sorted disjoint well-formed lists inside the window -/
theorem total_length_counts (l : List Iv) (lo : Int) (n : Nat) (h : SD l) (w : WFl l)
    (hwin : ∀ r ∈ l, lo ≤ r.1 ∧ r.2 < lo + n) :
    intervalsTotalLength l = (countWin (covb l) lo n : Int) := by
  induction l with
  | nil =>
    have e : covb [] = fun _ => false := by funext p; simp [covb]
    rw [e, countWin_false]; simp [intervalsTotalLength]
  | cons a rest ih =>
    have ha := WFl_head w
    have hdis : ∀ p, ¬ ((decide (a.1 ≤ p) && decide (p ≤ a.2)) = true ∧ covb rest p = true) := by
      intro p ⟨h1, h2⟩
      obtain ⟨r, hr, hr1, hr2⟩ := (covb_iff rest p).mp h2
      have := SD_all_right h w r hr
      simp at h1; omega
    rw [countWin_congr (covb (a :: rest)) (fun p => (decide (a.1 ≤ p) && decide (p ≤ a.2)) || covb rest p) lo n
      (covb_cons a rest)]
    rw [countWin_or_disjoint _ _ lo n hdis]
    have hw := hwin a (by simp)
    have h1 := countWin_interval a.1 a.2 lo n hw.1 hw.2
    have h2 := ih (SD_tail h) (WFl_tail w) (fun r hr => hwin r (by simp [hr]))
    simp only [intervalsTotalLength, interval_len]
    push_cast
    omega

/-- positions covered by both `a` and the list `l` -/
theorem rowSum_counts (a : Iv) (l : List Iv) (lo : Int) (n : Nat) (h : SD l) (w : WFl l) (ha : a.1 ≤ a.2)
    (hwa : lo ≤ a.1 ∧ a.2 < lo + n) :
    rowSum a l = (countWin (fun p => (decide (a.1 ≤ p) && decide (p ≤ a.2)) && covb l p) lo n : Int) := by
  induction l with
  | nil =>
    have e : (fun p => (decide (a.1 ≤ p) && decide (p ≤ a.2)) && covb [] p) = fun _ => false := by funext p; simp [covb]
    rw [e, countWin_false]; simp [rowSum]
  | cons b rest ih =>
    have hb := WFl_head w
    have hdis : ∀ p, ¬ (((decide (a.1 ≤ p) && decide (p ≤ a.2)) && (decide (b.1 ≤ p) && decide (p ≤ b.2))) = true ∧
        ((decide (a.1 ≤ p) && decide (p ≤ a.2)) && covb rest p) = true) := by
      intro p ⟨h1, h2⟩
      simp only [Bool.and_eq_true] at h2
      obtain ⟨r, hr, hr1, hr2⟩ := (covb_iff rest p).mp h2.2
      have := SD_all_right h w r hr
      simp at h1; omega
    rw [countWin_congr _ (fun p => ((decide (a.1 ≤ p) && decide (p ≤ a.2)) && (decide (b.1 ≤ p) && decide (p ≤ b.2))) ||
        ((decide (a.1 ≤ p) && decide (p ≤ a.2)) && covb rest p)) lo n
      (by intro p; rw [covb_cons, Bool.and_or_distrib_left])]
    rw [countWin_or_disjoint _ _ lo n hdis]
    have h2 := ih (SD_tail h) (WFl_tail w)
    have h1 : (countWin (fun p => (decide (a.1 ≤ p) && decide (p ≤ a.2)) && (decide (b.1 ≤ p) && decide (p ≤ b.2))) lo n : Int)
        = intersection_len a b := by
      rw [countWin_congr _ (fun p => decide (max a.1 b.1 ≤ p) && decide (p ≤ min a.2 b.2)) lo n
        (by intro p; rw [Bool.eq_iff_iff]; simp; omega)]
      rw [countWin_interval (max a.1 b.1) (min a.2 b.2) lo n (by omega) (by omega)]
      simp only [intersection_len]
    simp only [rowSum, List.map_cons, List.sum_cons] at h2 ⊢
    push_cast
    omega

/-- |A ∩ B| = `inter` -/
theorem inter_counts (l1 l2 : List Iv) (lo : Int) (n : Nat) (h1 : SD l1) (h2 : SD l2) (w1 : WFl l1) (w2 : WFl l2)
    (hwin : ∀ r ∈ l1, lo ≤ r.1 ∧ r.2 < lo + n) :
    inter l1 l2 = (countWin (fun p => covb l1 p && covb l2 p) lo n : Int) := by
  induction l1 with
  | nil =>
    have e : (fun p => covb [] p && covb l2 p) = fun _ => false := by funext p; simp [covb]
    rw [e, countWin_false]; simp [inter]
  | cons a rest ih =>
    have ha := WFl_head w1
    have hdis : ∀ p, ¬ (((decide (a.1 ≤ p) && decide (p ≤ a.2)) && covb l2 p) = true ∧ (covb rest p && covb l2 p) = true) := by
      intro p ⟨h1', h2'⟩
      simp only [Bool.and_eq_true] at h1' h2'
      obtain ⟨r, hr, hr1, hr2⟩ := (covb_iff rest p).mp h2'.1
      have := SD_all_right h1 w1 r hr
      have := h1'.1
      simp at this; omega
    rw [countWin_congr _ (fun p => ((decide (a.1 ≤ p) && decide (p ≤ a.2)) && covb l2 p) || (covb rest p && covb l2 p)) lo n
      (by intro p; rw [covb_cons, Bool.and_or_distrib_right])]
    rw [countWin_or_disjoint _ _ lo n hdis, inter_cons_left]
    have e1 := rowSum_counts a l2 lo n h2 w2 ha (hwin a (by simp))
    have e2 := ih (SD_tail h1) (WFl_tail w1) (fun r hr => hwin r (by simp [hr]))
    push_cast
    omega

end IsoVerif.Lemmas
