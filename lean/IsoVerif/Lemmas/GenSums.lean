/-
Refinement lemmas (generated loop = hand model) for `intervals_total_length`, `sum_intervals_to_point`,
`sum_intervals_from_point`, `extra_exon_percentage` of Gen/Loops.lean.  Statements: Props/C19Gen.lean.
-/
import IsoVerif.Gen.Loops
import IsoVerif.Lemmas.GenBase

namespace IsoVerif.Lemmas.GenLoops
open IsoVerif.Gen IsoVerif.Model IsoVerif.Lemmas

/-! ### `intervals_total_length` -/

theorem intervals_total_length_loop (l0 it : List Iv) (acc : Int) :
    intervals_total_length.loop1 l0 it acc = acc + intervalsTotalLength it := by
  induction it generalizing acc with
  | nil => simp [intervals_total_length.loop1, intervals_total_length.after1, intervalsTotalLength]
  | cons r rs ih =>
    simp only [intervals_total_length.loop1, ih, intervalsTotalLength]
    omega

theorem intervals_total_length_eq (l : List Iv) : intervals_total_length l = intervalsTotalLength l := by
  simp [intervals_total_length, intervals_total_length_loop]

/-! ### `sum_intervals_to_point` -/

theorem sum_to_loop (l : List Iv) (pos : Int) (fuel k : Nat) (acc : Int)
    (hk : k ≤ l.length) (hf : l.length + 1 ≤ fuel + k) :
    sum_intervals_to_point.loop2 l pos fuel (k : Int) acc = some (acc + sumToLoop pos (l.drop k)) := by
  induction fuel generalizing k acc with
  | zero => omega
  | succ fuel ih =>
    unfold sum_intervals_to_point.loop2
    simp only [pyLen, pyIdx_natCast]
    by_cases hlt : k < l.length
    · have hx : l[k]? = some l[k] := List.getElem?_eq_getElem hlt
      have hd := drop_eq_cons_of_getElem l k _ hx
      have hcast : ((k : Int) + 1) = ((k + 1 : Nat) : Int) := by omega
      have hlt' : (k : Int) < (l.length : Int) := by omega
      simp only [hx, hd, sumToLoop, hcast, hlt', decide_true, if_true]
      by_cases hc : l[k].1 < pos
      · simp only [hc, decide_true, if_true]
        by_cases h2 : l[k].1 ≤ pos ∧ pos ≤ l[k].2
        · simp only [h2, decide_true, Bool.and_self, if_true, and_self]
          rw [ih (k + 1) _ (by omega) (by omega)]
          congr 1; omega
        · have : (decide (l[k].1 ≤ pos) && decide (pos ≤ l[k].2)) = false := by
            simpa using h2
          simp only [this, h2, if_false, Bool.false_eq_true]
          rw [ih (k + 1) _ (by omega) (by omega)]
          congr 1; omega
      · simp [hc, sum_intervals_to_point.after2]
    · have hk' : k = l.length := by omega
      subst hk'
      simp [sum_intervals_to_point.after2, sumToLoop]


theorem sum_intervals_to_point_eq (l : List Iv) (pos : Int) :
    sum_intervals_to_point l pos = sumIntervalsToPoint l pos := by
  unfold sum_intervals_to_point sumIntervalsToPoint
  rw [pyIdx_zero, pyIdx_neg_one]
  cases hh : l.head? with
  | none => simp
  | some f =>
    cases hl : l.getLast? with
    | none =>
      cases l with
      | nil => simp at hh
      | cons a t => simp at hl
    | some t =>
      simp only [sum_intervals_to_point.after1, sum_intervals_to_point.fuel2, intervals_total_length_eq]
      have := sum_to_loop l pos (l.length + 1) 0 0 (by omega) (by omega)
      simp only [Int.natCast_zero, List.drop_zero, Int.zero_add] at this
      simp only [this, decide_eq_true_eq]

/-! ### `sum_intervals_from_point` -/

theorem sum_from_loop (l : List Iv) (pos : Int) (fuel k : Nat) (acc : Int)
    (hk : k ≤ l.length) (hf : k + 1 ≤ fuel) :
    sum_intervals_from_point.loop2 l pos fuel ((k : Int) - 1) acc
      = some (acc + sumFromLoop pos (l.take k).reverse) := by
  induction fuel generalizing k acc with
  | zero => omega
  | succ fuel ih =>
    unfold sum_intervals_from_point.loop2
    cases k with
    | zero =>
      simp [sum_intervals_from_point.after2, sumFromLoop]
    | succ k =>
      have hlt : k < l.length := by omega
      have hx : l[k]? = some l[k] := List.getElem?_eq_getElem hlt
      have hi : (((k + 1 : Nat) : Int) - 1) = (k : Int) := by omega
      have hge : (k : Int) ≥ 0 := by omega
      have hi2 : ((k : Int) - 1) = ((k : Nat) : Int) - 1 := rfl
      simp only [hi, pyIdx_natCast, hx, take_succ_reverse l k hlt, sumFromLoop, hge, decide_true, if_true]
      by_cases hc : l[k].2 > pos
      · simp only [hc, decide_true, if_true]
        by_cases h2 : l[k].1 ≤ pos ∧ pos ≤ l[k].2
        · simp only [h2, decide_true, Bool.and_self, if_true, and_self]
          rw [ih k _ (by omega) (by omega)]
          congr 1; omega
        · have : (decide (l[k].1 ≤ pos) && decide (pos ≤ l[k].2)) = false := by
            simpa using h2
          simp only [this, h2, if_false, Bool.false_eq_true]
          rw [ih k _ (by omega) (by omega)]
          congr 1; omega
      · simp [hc, sum_intervals_from_point.after2]

theorem sum_intervals_from_point_eq (l : List Iv) (pos : Int) :
    sum_intervals_from_point l pos = sumIntervalsFromPoint l pos := by
  unfold sum_intervals_from_point sumIntervalsFromPoint
  rw [pyIdx_zero, pyIdx_neg_one]
  cases hh : l.head? with
  | none => simp
  | some f =>
    cases hl : l.getLast? with
    | none =>
      cases l with
      | nil => simp at hh
      | cons a t => simp at hl
    | some t =>
      simp only [sum_intervals_from_point.after1, sum_intervals_from_point.fuel2, intervals_total_length_eq, pyLen]
      have := sum_from_loop l pos (l.length + 1) l.length 0 (by omega) (by omega)
      simp only [List.take_length, Int.zero_add] at this
      simp only [this, decide_eq_true_eq]

/-! ### `extra_exon_percentage` -/

theorem extra_exon_loop (reg : Iv) (l0 it : List Iv) (t o : Int) :
    extra_exon_percentage.loop1 reg l0 it t o
      = pyDivF (o + (extraExonLoop reg it).1) (t + (extraExonLoop reg it).2) := by
  induction it generalizing t o with
  | nil => simp [extra_exon_percentage.loop1, extra_exon_percentage.after1, extraExonLoop]
  | cons e es ih =>
    unfold extra_exon_percentage.loop1
    simp only [extraExonLoop]
    by_cases h1 : e.1 < reg.1 <;> by_cases h2 : e.2 > reg.2 <;>
      simp only [h1, h2, decide_true, decide_false, if_true, if_false, Bool.false_eq_true, ih] <;>
      congr 1 <;> omega

theorem extra_exon_percentage_eq (reg : Iv) (exons : List Iv) :
    extra_exon_percentage reg exons = extraExonPercentage reg exons := by
  unfold extra_exon_percentage extraExonPercentage
  rw [extra_exon_loop]
  simp only [Int.zero_add, pyDivF]

end IsoVerif.Lemmas.GenLoops
