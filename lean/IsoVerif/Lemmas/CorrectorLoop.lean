/-
Lemmas about the event loop of `process_events` (C14): behaviour with all flags off, region invariants,
provenance of the accumulated introns, termination.
-/
import IsoVerif.Lemmas.Corrector

namespace IsoVerif.Lemmas.C14
open IsoVerif.Gen IsoVerif.Model IsoVerif.Model.C14 IsoVerif.Lemmas

deriving instance DecidableEq for Except

/-- position-wise relation between two lists of equal length -/
inductive Forall2 {α β : Type} (R : α → β → Prop) : List α → List β → Prop where
  | nil : Forall2 R [] []
  | cons {a : α} {b : β} {l1 : List α} {l2 : List β} : R a b → Forall2 R l1 l2 → Forall2 R (a :: l1) (b :: l2)

theorem Forall2.length_eq {α β : Type} {R : α → β → Prop} {l1 : List α} {l2 : List β} (h : Forall2 R l1 l2) :
    l1.length = l2.length := by
  induction h with
  | nil => rfl
  | cons _ _ ih => simp [ih]

theorem getLast?_cons_concat {α} (x : α) (l : List α) (y : α) : (x :: (l ++ [y])).getLast? = some y := by
  have : x :: (l ++ [y]) = (x :: l) ++ [y] := by simp
  rw [this, List.getLast?_concat]

/-! ### all flags off -/

def allOff : CorrectionPreset := ⟨false, false, false, false, false, false⟩

/-- every binding of the event map has key = first read-intron index of the event, and the event names a
    non-empty index range of the `n` read introns -/
def MapWF (n : Nat) (m : List (Int × MEvent)) : Prop :=
  ∀ q ∈ m, q.1 = q.2.read.1 ∧ 0 ≤ q.1 ∧ q.1 ≤ q.2.read.2 ∧ q.2.read.2 < n

theorem misalignmentSet_off {p : CParams} (hp : p.fl = allOff) : misalignmentSet p = [] := by
  simp [misalignmentSet, hp, allOff]

theorem eventStep_off {p : CParams} (hp : p.fl = allOff) (rr : Iv) (ri corr : List Iv) (isoR : Iv) (isoI : List Iv)
    (e : MEvent) (reg : Iv) (acc : List Iv) :
    eventStep p rr ri corr isoR isoI e reg acc = keepStep ri corr e reg acc := by
  unfold eventStep
  simp [hp, allOff, misalignmentSet]

theorem keepStep_same (l : List Iv) (e : MEvent) (reg : Iv) (acc : List Iv)
    (h0 : 0 ≤ e.read.1) (h1 : e.read.1 ≤ e.read.2) (h2 : e.read.2 < l.length) :
    keepStep l l e reg acc = .ok (reg, acc ++ (l.drop e.read.1.toNat).take (e.read.2 + 1 - e.read.1).toNat) := by
  unfold keepStep
  rw [sliceIncl_inrange l _ _ h0 h1 h2]
  split <;> rfl

theorem microStep_nil (isoI : List Iv) (i : Int) (acc : List Iv) : microStep [] isoI i acc = .ok acc := by
  simp [microStep, microAt, getAll]

theorem eventLoop_off {p : CParams} (hp : p.fl = allOff) (emap : List (Int × MEvent)) (rr : Iv) (l : List Iv)
    (isoR : Iv) (isoI : List Iv) (hm : MapWF l.length emap) :
    ∀ (fuel : Nat) (i : Int) (reg : Iv) (acc : List Iv), 0 ≤ i → i ≤ l.length → (l.length - i).toNat + 1 ≤ fuel →
      eventLoop p emap [] rr l l isoR isoI fuel i reg acc = .ok (reg, acc ++ l.drop i.toNat) := by
  intro fuel
  induction fuel with
  | zero => intro i reg acc _ _ hf; omega
  | succ fuel ih =>
    intro i reg acc h0 h1 hf
    rw [eventLoop]
    by_cases hlt : i < (l.length : Int)
    · simp only [hlt, if_true]
      rw [microStep_nil]
      simp only
      cases hlk : emap.lookup i with
      | none =>
        simp only
        obtain ⟨x, hx, hx'⟩ := pyGet_inrange l i h0 hlt
        rw [hx]
        simp only
        rw [ih (i + 1) reg (acc ++ [x]) (by omega) (by omega) (by omega)]
        have hlt' : i.toNat < l.length := by omega
        have hd : l.drop i.toNat = l[i.toNat] :: l.drop (i.toNat + 1) := List.drop_eq_getElem_cons hlt'
        have hxe : l[i.toNat] = x := by
          have := List.getElem?_eq_getElem hlt'
          rw [this] at hx'; exact Option.some.inj hx'
        have ht : (i + 1).toNat = i.toNat + 1 := by omega
        rw [hd, ht, hxe]
        simp
      | some e =>
        simp only
        have hq := hm (i, e) (lookup_mem hlk)
        simp only at hq
        obtain ⟨hk, _, hle, hlen⟩ := hq
        rw [eventStep_off hp, keepStep_same l e reg acc (by omega) (by omega) hlen]
        simp only
        rw [ih (e.read.2 + 1) reg _ (by omega) (by omega) (by omega)]
        have e1 : e.read.1.toNat = i.toNat := by omega
        have e2 : (e.read.2 + 1).toNat = i.toNat + (e.read.2 + 1 - e.read.1).toNat := by omega
        rw [e1, e2, List.append_assoc, ← List.drop_drop, List.take_append_drop]
    · simp only [hlt, if_false, microStep_nil]
      have : i.toNat = l.length := by omega
      rw [this]; simp

/-! ### the event map built by `correct_misalignments` -/

/-- events as the comparator is supposed to emit them: the read region is the undefined sentinel, or starts with
    the absent sentinel, or is a non-empty index range of the `n` read introns -/
def WellFormedRegions (n : Nat) (evs : List MEvent) : Prop :=
  ∀ e ∈ evs, e.read = undefinedRegion ∨ (e.read.1 = absentPosition ∧ 0 ≤ e.read.2) ∨
    (0 ≤ e.read.1 ∧ e.read.1 ≤ e.read.2 ∧ e.read.2 < n)

theorem addEvent_mem {m : List (Int × MEvent)} {e : MEvent} {q : Int × MEvent}
    (h : q ∈ addEvent m e) :
    q ∈ m ∨ (q.2 = e ∧ e.read ≠ undefinedRegion ∧ e.read.1 ≠ absentPosition ∧ q.1 = e.read.1) := by
  unfold addEvent at h
  split at h
  · exact Or.inl h
  · rename_i hne
    split at h
    · exact Or.inl h
    · rename_i hab
      cases h with
      | head => exact Or.inr ⟨rfl, hne, hab, rfl⟩
      | tail _ h' => exact Or.inl h'

theorem foldl_addEvent_mem (evs : List MEvent) (m : List (Int × MEvent)) {q : Int × MEvent}
    (h : q ∈ evs.foldl addEvent m) :
    q ∈ m ∨ (q.2 ∈ evs ∧ q.2.read ≠ undefinedRegion ∧ q.2.read.1 ≠ absentPosition ∧ q.1 = q.2.read.1) := by
  induction evs generalizing m with
  | nil => exact Or.inl h
  | cons e t ih =>
    simp only [List.foldl_cons] at h
    rcases ih (addEvent m e) h with h1 | ⟨h1, h2, h3⟩
    · rcases addEvent_mem h1 with h4 | ⟨h4, h5, h6⟩
      · exact Or.inl h4
      · subst h4
        exact Or.inr ⟨by simp, h5, h6⟩
    · exact Or.inr ⟨List.mem_cons_of_mem _ h1, h2, h3⟩

/-- every binding of `buildEventMap` comes from an event of the list, keyed as `correct_misalignments` does -/
theorem buildEventMap_mem {evs : List MEvent} {q : Int × MEvent} (h : q ∈ buildEventMap evs) :
    q.2 ∈ evs ∧ q.2.read ≠ undefinedRegion ∧ q.2.read.1 ≠ absentPosition ∧ q.1 = q.2.read.1 := by
  rcases foldl_addEvent_mem evs [] h with h1 | h1
  · cases h1
  · exact h1

/-- every binding of `buildMicroMap` comes from a `fake_micro_intron_retention` event of the list (flag on) -/
theorem buildMicroMap_mem {micro : Bool} {evs : List MEvent} {q : Int × Int} (h : q ∈ buildMicroMap micro evs) :
    ∃ e ∈ evs, e.read ≠ undefinedRegion ∧ e.read.1 = absentPosition ∧ micro = true ∧
      e.etype = corrector_micro_intron_test.1 ∧ q = (e.read.2, e.iso.1) := by
  simp only [buildMicroMap, List.mem_filterMap] at h
  obtain ⟨e, he, hq⟩ := h
  unfold microEntry at hq
  split at hq
  · cases hq
  · rename_i hne
    split at hq
    · rename_i hc
      exact ⟨e, he, hne, hc.1, hc.2.2, hc.2.1, (Option.some.inj hq).symm⟩
    · cases hq

theorem buildMicroMap_off (evs : List MEvent) : buildMicroMap false evs = [] := by
  simp [buildMicroMap, microEntry]

theorem buildEventMap_wf {n : Nat} {evs : List MEvent} (h : WellFormedRegions n evs) :
    MapWF n (buildEventMap evs) := by
  intro q hq
  obtain ⟨h1, h2, h4, h5⟩ := buildEventMap_mem hq
  rcases h q.2 h1 with h6 | h6 | h6
  · exact absurd h6 h2
  · exact absurd h6.1 h4
  · exact ⟨h5, by omega, by omega, h6.2.2⟩


/-! ### one event: what can change -/

theorem keepStep_ok {ri corr : List Iv} {e : MEvent} {reg reg' : Iv} {acc acc' : List Iv}
    (h : keepStep ri corr e reg acc = .ok (reg', acc')) :
    reg' = reg ∧ ∃ xs, acc' = acc ++ xs ∧
      ((sliceIncl corr e.read.1 e.read.2 = .ok xs ∧ corrector_known_event_types.contains e.etype = true) ∨
       (sliceIncl ri e.read.1 e.read.2 = .ok xs ∧ corrector_known_event_types.contains e.etype = false)) := by
  unfold keepStep at h
  split at h
  · rename_i hk
    cases hs : sliceIncl corr e.read.1 e.read.2 with
    | error x => simp [hs] at h
    | ok xs =>
      simp [hs] at h
      exact ⟨h.1.symm, xs, h.2.symm, Or.inl ⟨rfl, hk⟩⟩
  · rename_i hk
    cases hs : sliceIncl ri e.read.1 e.read.2 with
    | error x => simp [hs] at h
    | ok xs =>
      simp [hs] at h
      exact ⟨h.1.symm, xs, h.2.symm, Or.inr ⟨rfl, by simpa using hk⟩⟩

/-- the four ways an event may move an end of the region, each guarded by its flag; otherwise the region is kept -/
inductive RegionChange (p : CParams) (ri : List Iv) (isoR : Iv) (e : MEvent) (reg reg' : Iv) : Prop where
  | keep : reg' = reg → RegionChange p ri isoR e reg reg'
  | fakeLeft (x : Iv) : p.fl.fake_terminal_exons = true → e.etype = MatchEventSubtype.fake_terminal_exon_left →
      pyGet? ri e.read.1 = some x → reg' = (x.2 + 1, reg.2) → RegionChange p ri isoR e reg reg'
  | fakeRight (x : Iv) : p.fl.fake_terminal_exons = true → e.etype = MatchEventSubtype.fake_terminal_exon_right →
      pyGet? ri e.read.1 = some x → reg' = (reg.1, x.1 - 1) → RegionChange p ri isoR e reg reg'
  | termLeft : p.fl.terminal_exons = true → e.etype = MatchEventSubtype.terminal_exon_misalignment_left →
      reg' = (isoR.1, reg.2) → RegionChange p ri isoR e reg reg'
  | termRight : p.fl.terminal_exons = true → e.etype = MatchEventSubtype.terminal_exon_misalignment_right →
      reg' = (reg.1, isoR.2) → RegionChange p ri isoR e reg reg'

/-- where the introns appended by one event come from -/
def StepProv (ri corr isoI : List Iv) (e : MEvent) (x : Iv) : Prop :=
  (∃ j, e.read.1 ≤ j ∧ j ≤ e.read.2 ∧ (pyGet? ri j = some x ∨ pyGet? corr j = some x)) ∨
  (∃ j, ((e.iso.1 ≤ j ∧ j ≤ e.iso.2) ∨ j = e.iso.1) ∧ pyGet? isoI j = some x)

theorem eventStep_ok {p : CParams} {rr : Iv} {ri corr : List Iv} {isoR : Iv} {isoI : List Iv} {e : MEvent}
    {reg reg' : Iv} {acc acc' : List Iv}
    (h : eventStep p rr ri corr isoR isoI e reg acc = .ok (reg', acc')) :
    RegionChange p ri isoR e reg reg' ∧ ∃ xs, acc' = acc ++ xs ∧ ∀ x ∈ xs, StepProv ri corr isoI e x := by
  have hkeep : ∀ (hk : keepStep ri corr e reg acc = .ok (reg', acc')),
      RegionChange p ri isoR e reg reg' ∧ ∃ xs, acc' = acc ++ xs ∧ ∀ x ∈ xs, StepProv ri corr isoI e x := by
    intro hk
    obtain ⟨h1, xs, h2, h3⟩ := keepStep_ok hk
    refine ⟨.keep h1, xs, h2, ?_⟩
    intro x hx
    rcases h3 with ⟨hs, _⟩ | ⟨hs, _⟩
    · obtain ⟨j, a, b, c⟩ := sliceIncl_mem hs x hx
      exact Or.inl ⟨j, a, b, Or.inr c⟩
    · obtain ⟨j, a, b, c⟩ := sliceIncl_mem hs x hx
      exact Or.inl ⟨j, a, b, Or.inl c⟩
  unfold eventStep at h
  split at h
  · rename_i hc
    split at h
    · cases h
    · cases hx : pyGet? ri e.read.1 with
      | none => simp [hx] at h
      | some x =>
        simp [hx] at h
        exact ⟨.fakeLeft x hc.2 hc.1 hx h.1.symm, [], by simp [h.2], by intro x hx; cases hx⟩
  · split at h
    · rename_i hc
      split at h
      · cases h
      · cases hx : pyGet? ri e.read.1 with
        | none => simp [hx] at h
        | some x =>
          simp [hx] at h
          exact ⟨.fakeRight x hc.2 hc.1 hx h.1.symm, [], by simp [h.2], by intro x hx; cases hx⟩
    · split at h
      · rename_i hc
        cases hx : pyGet? isoI e.iso.1 with
        | none => simp [hx] at h
        | some x =>
          simp [hx] at h
          refine ⟨.termLeft hc.2 hc.1 h.1.symm, [x], h.2.symm, ?_⟩
          intro y hy; simp at hy; subst hy
          exact Or.inr ⟨e.iso.1, Or.inr rfl, hx⟩
      · split at h
        · rename_i hc
          cases hx : pyGet? isoI e.iso.1 with
          | none => simp [hx] at h
          | some x =>
            simp [hx] at h
            refine ⟨.termRight hc.2 hc.1 h.1.symm, [x], h.2.symm, ?_⟩
            intro y hy; simp at hy; subst hy
            exact Or.inr ⟨e.iso.1, Or.inr rfl, hx⟩
        · split at h
          · cases ha : pyGet? isoI e.iso.1 with
            | none => simp [ha] at h
            | some a =>
              cases hb : pyGet? isoI e.iso.2 with
              | none => simp [ha, hb] at h
              | some b =>
                simp only [ha, hb] at h
                split at h
                · split at h
                  · cases h
                  · cases hs : sliceIncl isoI e.iso.1 e.iso.2 with
                    | error x => simp [hs] at h
                    | ok xs =>
                      simp [hs] at h
                      refine ⟨.keep h.1.symm, xs, h.2.symm, ?_⟩
                      intro x hx
                      obtain ⟨j, a1, b1, c1⟩ := sliceIncl_mem hs x hx
                      exact Or.inr ⟨j, Or.inl ⟨a1, b1⟩, c1⟩
                · exact hkeep h
          · exact hkeep h

/-- errors of one event step are index errors or failed assertions, never "out of fuel" -/
theorem sliceIncl_err {l : List Iv} {a b : Int} {x : CErr} (h : sliceIncl l a b = .error x) : x = .index := by
  unfold sliceIncl at h
  split at h
  · cases h
  · injection h with h; exact h.symm

theorem keepStep_err {ri corr : List Iv} {e : MEvent} {reg : Iv} {acc : List Iv} {x : CErr}
    (h : keepStep ri corr e reg acc = .error x) : x = .index := by
  unfold keepStep at h
  split at h
  · cases hs : sliceIncl corr e.read.1 e.read.2 with
    | error y => simp [hs] at h; subst h; exact sliceIncl_err hs
    | ok xs => simp [hs] at h
  · cases hs : sliceIncl ri e.read.1 e.read.2 with
    | error y => simp [hs] at h; subst h; exact sliceIncl_err hs
    | ok xs => simp [hs] at h

theorem eventStep_err {p : CParams} {rr : Iv} {ri corr : List Iv} {isoR : Iv} {isoI : List Iv} {e : MEvent}
    {reg : Iv} {acc : List Iv} {x : CErr}
    (h : eventStep p rr ri corr isoR isoI e reg acc = .error x) : x = .index ∨ x = .assertion := by
  unfold eventStep at h
  split at h
  · split at h
    · injection h with h; exact Or.inr h.symm
    · cases hx : pyGet? ri e.read.1 with
      | none => simp [hx] at h; exact Or.inl h.symm
      | some y => simp [hx] at h
  · split at h
    · split at h
      · injection h with h; exact Or.inr h.symm
      · cases hx : pyGet? ri e.read.1 with
        | none => simp [hx] at h; exact Or.inl h.symm
        | some y => simp [hx] at h
    · split at h
      · cases hx : pyGet? isoI e.iso.1 with
        | none => simp [hx] at h; exact Or.inl h.symm
        | some y => simp [hx] at h
      · split at h
        · cases hx : pyGet? isoI e.iso.1 with
          | none => simp [hx] at h; exact Or.inl h.symm
          | some y => simp [hx] at h
        · split at h
          · cases ha : pyGet? isoI e.iso.1 with
            | none => simp [ha] at h; exact Or.inl h.symm
            | some a =>
              cases hb : pyGet? isoI e.iso.2 with
              | none => simp [ha, hb] at h; exact Or.inl h.symm
              | some b =>
                simp only [ha, hb] at h
                split at h
                · split at h
                  · injection h with h; exact Or.inr h.symm
                  · cases hs : sliceIncl isoI e.iso.1 e.iso.2 with
                    | error y => simp [hs] at h; subst h; exact Or.inl (sliceIncl_err hs)
                    | ok xs => simp [hs] at h
                · exact Or.inl (keepStep_err h)
          · exact Or.inl (keepStep_err h)

theorem getAll_mem {l : List Iv} {js : List Int} {xs : List Iv} (h : getAll l js = some xs) :
    ∀ x ∈ xs, ∃ j ∈ js, pyGet? l j = some x := by
  induction js generalizing xs with
  | nil => simp [getAll] at h; subst h; intro x hx; cases hx
  | cons j js ih =>
    unfold getAll at h
    cases hj : pyGet? l j with
    | none => simp [hj] at h
    | some y =>
      cases hr : getAll l js with
      | none => simp [hj, hr] at h
      | some ys =>
        simp [hj, hr] at h
        subst h
        intro x hx
        cases hx with
        | head => exact ⟨j, by simp, hj⟩
        | tail _ hx' =>
          obtain ⟨j', hj', hg⟩ := ih hr x hx'
          exact ⟨j', List.mem_cons_of_mem _ hj', hg⟩

theorem microStep_ok {mm : List (Int × Int)} {isoI : List Iv} {i : Int} {acc acc' : List Iv}
    (h : microStep mm isoI i acc = .ok acc') :
    ∃ xs, getAll isoI (microAt mm i) = some xs ∧ acc' = acc ++ xs := by
  unfold microStep at h
  cases hg : getAll isoI (microAt mm i) with
  | none => simp [hg] at h
  | some xs => simp [hg] at h; exact ⟨xs, rfl, h.symm⟩

theorem microStep_err {mm : List (Int × Int)} {isoI : List Iv} {i : Int} {acc : List Iv} {x : CErr}
    (h : microStep mm isoI i acc = .error x) : x = .index := by
  unfold microStep at h
  cases hg : getAll isoI (microAt mm i) with
  | none => simp [hg] at h; exact h.symm
  | some xs => simp [hg] at h

/-! ### loop invariants -/

theorem eventLoop_invariant (p : CParams) (emap : List (Int × MEvent)) (mm : List (Int × Int)) (rr : Iv)
    (ri corr : List Iv) (isoR : Iv)
    (isoI : List Iv) (Inv : Iv → List Iv → Prop)
    (hmicro : ∀ i reg acc acc', microStep mm isoI i acc = .ok acc' → Inv reg acc → Inv reg acc')
    (hplain : ∀ i c reg acc, pyGet? corr i = some c → Inv reg acc → Inv reg (acc ++ [c]))
    (hevent : ∀ i e reg acc reg' acc', emap.lookup i = some e →
      eventStep p rr ri corr isoR isoI e reg acc = .ok (reg', acc') → Inv reg acc → Inv reg' acc') :
    ∀ (fuel : Nat) (i : Int) (reg : Iv) (acc : List Iv) (reg' : Iv) (ni : List Iv), Inv reg acc →
      eventLoop p emap mm rr ri corr isoR isoI fuel i reg acc = .ok (reg', ni) → Inv reg' ni := by
  intro fuel
  induction fuel with
  | zero => intro i reg acc reg' ni _ h; simp [eventLoop] at h
  | succ fuel ih =>
    intro i reg acc reg' ni hinv h
    rw [eventLoop] at h
    split at h
    · cases hm : microStep mm isoI i acc with
      | error x => simp [hm] at h
      | ok acc1 =>
        simp only [hm] at h
        have hinv1 := hmicro i reg acc acc1 hm hinv
        cases hl : emap.lookup i with
        | none =>
          simp only [hl] at h
          cases hg : pyGet? corr i with
          | none => simp [hg] at h
          | some c =>
            simp only [hg] at h
            exact ih _ _ _ _ _ (hplain i c reg acc1 hg hinv1) h
        | some e =>
          simp only [hl] at h
          cases hs : eventStep p rr ri corr isoR isoI e reg acc1 with
          | error x => simp [hs] at h
          | ok q =>
            obtain ⟨r2, a2⟩ := q
            simp only [hs] at h
            exact ih _ _ _ _ _ (hevent i e reg acc1 r2 a2 hl hs hinv1) h
    · cases hm : microStep mm isoI (corr.length : Int) acc with
      | error x => simp [hm] at h
      | ok acc1 =>
        simp [hm] at h
        obtain ⟨h1, h2⟩ := h
        subst h1; subst h2
        exact hmicro _ reg acc acc1 hm hinv

/-- termination: if every event found at a non-negative key ends at or after that key, the loop index strictly
    increases and `len − i + 1` units of fuel suffice -/
theorem eventLoop_no_fuel_error (p : CParams) (emap : List (Int × MEvent)) (mm : List (Int × Int)) (rr : Iv)
    (ri corr : List Iv) (isoR : Iv) (isoI : List Iv) (hprog : ∀ k e, 0 ≤ k → emap.lookup k = some e → k ≤ e.read.2) :
    ∀ (fuel : Nat) (i : Int) (reg : Iv) (acc : List Iv), 0 ≤ i → ((corr.length : Int) - i).toNat + 1 ≤ fuel →
      eventLoop p emap mm rr ri corr isoR isoI fuel i reg acc ≠ .error .fuel := by
  intro fuel
  induction fuel with
  | zero => intro i reg acc _ hf; omega
  | succ fuel ih =>
    intro i reg acc h0 hf
    rw [eventLoop]
    split
    · rename_i hlt
      cases hm : microStep mm isoI i acc with
      | error x =>
        simp only
        have := microStep_err hm
        subst this; simp
      | ok acc1 =>
        simp only
        cases hl : emap.lookup i with
        | none =>
          simp only
          cases hg : pyGet? corr i with
          | none => simp
          | some c => simp only; exact ih _ _ _ (by omega) (by omega)
        | some e =>
          simp only
          have hle := hprog i e h0 hl
          cases hs : eventStep p rr ri corr isoR isoI e reg acc1 with
          | error x =>
            simp only
            intro hx
            have : x = CErr.fuel := by injection hx
            subst this
            rcases eventStep_err hs with h1 | h1 <;> cases h1
          | ok q =>
            obtain ⟨r2, a2⟩ := q
            simp only
            exact ih _ _ _ (by omega) (by omega)
    · cases hm : microStep mm isoI (corr.length : Int) acc with
      | error x =>
        simp only
        have := microStep_err hm
        subst this; simp
      | ok acc1 => simp

end IsoVerif.Lemmas.C14
