/-
C07 with a process pool: composition of the main-process stages and the two parallel stages of a run of the repaired
code, for arbitrary schedules; the lock-removal step and the `--read_assignments` frame for pool runs.
-/
import IsoVerif.Lemmas.ResumePool

namespace IsoVerif.Lemmas.Resume
open IsoVerif.Model.Resume

/-! ### phases -/

theorem runPhase_fs (p : Phase) (fs : FS) : (runPhase p fs).fs = applyAll fs (runPhase p fs).evs := by
  cases p with
  | seq s => exact runActs_fs _ _
  | pool t cs sc => rfl

theorem runPhases_fs (ps : List Phase) (fs : FS) : (runPhases ps fs).fs = applyAll fs (runPhases ps fs).evs := by
  induction ps generalizing fs with
  | nil => rfl
  | cons p ps ih =>
    simp only [runPhases]
    split
    · simp only [applyAll_append, ← runPhase_fs]; exact ih _
    · exact runPhase_fs _ _

theorem good_cons_phase {cfg : Cfg} {fs : FS} {p : Phase} {ps : List Phase}
    (h1 : Good cfg fs (runPhase p fs)) (h2 : Good cfg (runPhase p fs).fs (runPhases ps (runPhase p fs).fs)) :
    Good cfg fs (runPhases (p :: ps) fs) ∧ (runPhases (p :: ps) fs).fs = (runPhases ps (runPhase p fs).fs).fs := by
  simp only [runPhases, h1.1, if_true]
  refine ⟨⟨h2.1, ?_⟩, trivial⟩
  rw [AllP_append, ← runPhase_fs]
  exact ⟨h1.2, h2.2⟩

/-- a main-process stage followed by further phases -/
theorem seq_cons_seq {cfg : Cfg} {fs : FS} {s : Stage} {ps : List Phase} {Q : FS → Prop}
    (h1 : Good cfg fs (runActs (s fs) fs))
    (h2 : Good cfg (runActs (s fs) fs).fs (runPhases ps (runActs (s fs) fs).fs) ∧ Q (runPhases ps (runActs (s fs) fs).fs).fs) :
    Good cfg fs (runPhases (.seq s :: ps) fs) ∧ Q (runPhases (.seq s :: ps) fs).fs := by
  obtain ⟨g, e⟩ := good_cons_phase (p := .seq s) h1 h2.1
  exact ⟨g, e ▸ h2.2⟩

/-- a parallel stage followed by further phases -/
theorem seq_cons_pool {cfg : Cfg} {fs : FS} {task : Chr → Stage} {cs sc : List Chr} {ps : List Phase} {Q : FS → Prop}
    (h1 : Good cfg fs (poolStage task cs sc fs))
    (h2 : Good cfg (poolStage task cs sc fs).fs (runPhases ps (poolStage task cs sc fs).fs) ∧
          Q (runPhases ps (poolStage task cs sc fs).fs).fs) :
    Good cfg fs (runPhases (.pool task cs sc :: ps) fs) ∧ Q (runPhases (.pool task cs sc :: ps) fs).fs := by
  obtain ⟨g, e⟩ := good_cons_phase (p := .pool task cs sc) h1 h2.1
  exact ⟨g, e ▸ h2.2⟩

theorem good_J_pool {cfg : Cfg} {fs : FS} {task : Chr → Stage} {cs sc : List Chr} (h : Good cfg fs (poolStage task cs sc fs)) :
    J cfg (poolStage task cs sc fs).fs := AllP_last h.2

/-- all phases after `.params` (repaired code); `skc` = no read collection in this run -/
def restPhases (cfg : Cfg) (ord : List Path) (rs skc : Bool) (s1 s2 : List Chr) : List Phase :=
  .seq (rgStage cfg rs) :: .seq (collectPre cfg rs skc) :: .pool (collectChr fixed cfg rs skc) cfg.chrs s1 ::
  .seq (collectPost cfg skc) :: .seq (constructPre cfg) :: .pool (constructChr fixed cfg rs) cfg.chrs s2 ::
  .seq (dropStage fixed cfg) :: .seq (mergeStage cfg true) ::
  (if cfg.keepTmp || cfg.fromSaves then []
   else [.seq (cleanupLocks fixed cfg), .seq (globStage isSaveAux ord), .seq (globStage isRgAux ord)])

theorem phases_eq (cfg : Cfg) (ord : List Path) (rs sk : Bool) (s1 s2 : List Chr) :
    phases fixed cfg ord rs sk s1 s2 =
      .seq (paramsStage fixed rs) :: .seq (refStage fixed cfg rs) :: restPhases cfg ord rs (sk || cfg.fromSaves) s1 s2 := by
  simp [phases, restPhases, fixed, unalOK]

/-- from a state satisfying the invariant, everything after `.params` completes **for every pair of schedules**,
    keeps the invariant at every prefix of the interleaved event list and leaves every final file complete and correct -/
theorem rest_run_pool {cfg : Cfg} (wf : WF cfg) (ord : List Path) (hord : ord.Nodup) (rs sk : Bool) (s1 s2 : List Chr)
    {fs : FS} (h : J cfg fs)
    (hskrs : sk = true → rs = true) (hsk : sk = true → fs.has .lock = true)
    (hnsk : sk = false → cfg.fromSaves = false → rs = true → fs.has .lock = false)
    (hsv : cfg.fromSaves = true → SavesOK cfg fs)
    (hnp0 : cfg.fromSaves = true → rs = false → ∀ c ∈ cfg.chrs, fs.has (.processed c) = false)
    (href : refOK cfg fs = true) :
    Good cfg fs (runPhases (restPhases cfg ord rs (sk || cfg.fromSaves) s1 s2) fs) ∧
      FinOK cfg (runPhases (restPhases cfg ord rs (sk || cfg.fromSaves) s1 s2) fs).fs := by
  unfold restPhases
  generalize hskc : (sk || cfg.fromSaves) = skc
  have hskc_f : skc = false → sk = false ∧ cfg.fromSaves = false := by
    intro e; subst hskc; simpa using e
  have hskc_t : skc = true → sk = true ∨ cfg.fromSaves = true := by
    intro e; subst hskc; simpa using e
  -- read-group split
  obtain ⟨g1, rg1, f1⟩ := rg_stage wf rs h
  have j1 := good_J_acts g1
  refine seq_cons_seq (Q := FinOK cfg) g1 ?_
  have hsk1 : sk = true → (runActs (rgStage cfg rs fs) fs).fs.has .lock = true := by
    intro e; rw [FS.has, f1 _ rfl]; exact hsk e
  have hnsk1 : sk = false → cfg.fromSaves = false → rs = true → (runActs (rgStage cfg rs fs) fs).fs.has .lock = false := by
    intro e e' e''; rw [FS.has, f1 _ rfl]; exact hnsk e e' e''
  have hsv1 : cfg.fromSaves = true → SavesOK cfg (runActs (rgStage cfg rs fs) fs).fs :=
    fun e => savesOK_frame (hsv e) (f1 _ rfl) (fun _ => f1 _ rfl) (fun _ => f1 _ rfl)
  have hnp1 : cfg.fromSaves = true → rs = false → ∀ c ∈ cfg.chrs,
      (runActs (rgStage cfg rs fs) fs).fs.has (.processed c) = false := by
    intro e e' c hc; rw [FS.has, f1 _ rfl]; exact hnp0 e e' c hc
  have href1 : refOK cfg (runActs (rgStage cfg rs fs) fs).fs = true := by
    rw [refOK_frame (f1 _ rfl) (f1 _ rfl)]; exact href
  clear g1 f1 hsk hnsk h hsv hnp0 href
  generalize (runActs (rgStage cfg rs fs) fs).fs = fs1 at *
  -- stale locks
  obtain ⟨g2, f2, r2, e2, n2⟩ := collectPre_stage wf rs skc j1
  have j2 := good_J_acts g2
  refine seq_cons_seq (Q := FinOK cfg) g2 ?_
  have rg2 : (runActs (collectPre cfg rs skc fs1) fs1).fs.has .rgLock = true := by rw [FS.has, r2]; exact rg1
  have hsk2 : sk = true → (runActs (collectPre cfg rs skc fs1) fs1).fs.has .lock = true := by
    intro e; rw [e2 (by subst hskc; simp [e])]; exact hsk1 e
  have hnl2 : skc = false → (runActs (collectPre cfg rs skc fs1) fs1).fs.has .lock = false := by
    intro e
    by_cases hrs : rs = true
    · rw [e2 (by simp [hrs])]; exact hnsk1 (hskc_f e).1 (hskc_f e).2 hrs
    · have hrs' : rs = false := by simpa using hrs
      exact (n2 (by simp [e, hrs'])).1
  have hnc2 : rs = false → skc = false → ∀ c ∈ cfg.chrs,
      (runActs (collectPre cfg rs skc fs1) fs1).fs.has (.collected c) = false := by
    intro e e' c hc
    exact ((n2 (by simp [e, e'])).2 c hc).1
  have hnp2 : rs = false → ∀ c ∈ cfg.chrs, (runActs (collectPre cfg rs skc fs1) fs1).fs.has (.processed c) = false := by
    intro e c hc
    by_cases hq : skc = true
    · rcases hskc_t hq with hs | hf
      · rw [hskrs hs] at e; exact absurd e (by simp)
      · rw [e2 (by simp [hq])]; exact hnp1 hf e c hc
    · have hq' : skc = false := by simpa using hq
      exact ((n2 (by simp [e, hq'])).2 c hc).2
  have hsv2 : cfg.fromSaves = true → SavesOK cfg (runActs (collectPre cfg rs skc fs1) fs1).fs := by
    intro e; rw [e2 (by subst hskc; simp [e])]; exact hsv1 e
  have href2 : refOK cfg (runActs (collectPre cfg rs skc fs1) fs1).fs = true := by
    rw [refOK_frame (f2 _ rfl) (f2 _ rfl)]; exact href1
  clear g2 f2 r2 e2 n2 rg1 hsk1 hnsk1 j1 hsv1 hnp1 href1
  generalize (runActs (collectPre cfg rs skc fs1) fs1).fs = fs2 at *
  -- read collection: one task per chromosome, any schedule
  obtain ⟨g3, p3, f3⟩ := collect_pool rs skc s1 j2 rg2 hnl2 hnc2 href2
  have j3 := good_J_pool g3
  refine seq_cons_pool (Q := FinOK cfg) g3 ?_
  have hsk3 : sk = true → (poolStage (collectChr fixed cfg rs skc) cfg.chrs s1 fs2).fs.has .lock = true := by
    intro e; rw [FS.has, f3 _ (fun _ _ => rfl)]; exact hsk2 e
  have hnl3 : skc = false → (poolStage (collectChr fixed cfg rs skc) cfg.chrs s1 fs2).fs.has .lock = false := by
    intro e; rw [FS.has, f3 _ (fun _ _ => rfl)]; exact hnl2 e
  have hnp3 : rs = false → ∀ c ∈ cfg.chrs,
      (poolStage (collectChr fixed cfg rs skc) cfg.chrs s1 fs2).fs.has (.processed c) = false := by
    intro e c hc; rw [FS.has, f3 _ (fun _ _ => rfl)]; exact hnp2 e c hc
  have hsv3 : cfg.fromSaves = true → SavesOK cfg (poolStage (collectChr fixed cfg rs skc) cfg.chrs s1 fs2).fs := by
    intro e
    have hq : skc = true := by subst hskc; simp [e]
    -- with no collection every task is empty
    rw [(poolStage_skip _ _ _ _ (fun c _ => by subst hq; simp [collectChr])).1]; exact hsv2 e
  have href3 : refOK cfg (poolStage (collectChr fixed cfg rs skc) cfg.chrs s1 fs2).fs = true := by
    rw [refOK_frame (f3 _ (fun _ _ => rfl)) (f3 _ (fun _ _ => rfl))]; exact href2
  clear g3 f3 rg2 hsk2 hnl2 hnc2 hnp2 j2 hsv2 href2
  generalize (poolStage (collectChr fixed cfg rs skc) cfg.chrs s1 fs2).fs = fs3 at *
  -- multimappers, info, stage lock
  obtain ⟨g4, l4, e4, f4⟩ := collectPost_stage skc j3 hnl3 p3
  have j4 := good_J_acts g4
  refine seq_cons_seq (Q := FinOK cfg) g4 ?_
  have hnp4 : rs = false → ∀ c ∈ cfg.chrs, (runActs (collectPost cfg skc fs3) fs3).fs.has (.processed c) = false := by
    intro e c hc; rw [FS.has, f4 _ rfl]; exact hnp3 e c hc
  have sv4 : SavesOK cfg (runActs (collectPost cfg skc fs3) fs3).fs := by
    by_cases hq : skc = true
    · rcases hskc_t hq with hs | hf
      · apply savesOK_of_lock j4; rw [e4 hq]; exact hsk3 hs
      · rw [e4 hq]; exact hsv3 hf
    · have hq' : skc = false := by simpa using hq
      exact savesOK_of_lock j4 (l4 hq')
  have href4 : refOK cfg (runActs (collectPost cfg skc fs3) fs3).fs = true := by
    rw [refOK_frame (f4 _ rfl) (f4 _ rfl)]; exact href3
  clear g4 f4 hsk3 hnl3 hnp3 p3 j3 l4 e4 hsv3 href3
  generalize (runActs (collectPost cfg skc fs3) fs3).fs = fs4 at *
  -- final files opened
  obtain ⟨g5, f5⟩ := constructPre_stage j4 sv4
  have j5 := good_J_acts g5
  refine seq_cons_seq (Q := FinOK cfg) g5 ?_
  have sv5 : SavesOK cfg (runActs (constructPre cfg fs4) fs4).fs :=
    savesOK_frame sv4 (f5 _ rfl) (fun _ => f5 _ rfl) (fun _ => f5 _ rfl)
  have hnp5 : rs = false → ∀ c ∈ cfg.chrs, (runActs (constructPre cfg fs4) fs4).fs.has (.processed c) = false := by
    intro e c hc; rw [FS.has, f5 _ rfl]; exact hnp4 e c hc
  have href5 : refOK cfg (runActs (constructPre cfg fs4) fs4).fs = true := by
    rw [refOK_frame (f5 _ rfl) (f5 _ rfl)]; exact href4
  clear g5 f5 sv4 hnp4 j4 href4
  generalize (runActs (constructPre cfg fs4) fs4).fs = fs5 at *
  -- model construction: one task per chromosome, any schedule
  obtain ⟨g6, p6, f6⟩ := construct_pool rs s2 j5 sv5 hnp5 href5
  have j6 := good_J_pool g6
  refine seq_cons_pool (Q := FinOK cfg) g6 ?_
  have hout6 : ∀ c ∈ cfg.chrs, ∀ d ∈ chrOutputs cfg c,
      (poolStage (constructChr fixed cfg rs) cfg.chrs s2 fs5).fs.good d = true := by
    intro c hc d hd
    exact j6.2 (.processed c) (p6 c hc) d (by simp only [guarded, hc, if_true]; exact hd)
  clear g6 p6 f6 sv5 hnp5 j5
  generalize (poolStage (constructChr fixed cfg rs) cfg.chrs s2 fs5).fs = fs6 at *
  -- processed locks dropped
  obtain ⟨g7, n7, f7⟩ := drop_stage wf j6
  have j7 := good_J_acts g7
  refine seq_cons_seq (Q := FinOK cfg) g7 ?_
  have hout7 : ∀ c ∈ cfg.chrs, ∀ d ∈ chrOutputs cfg c, (runActs (dropStage fixed cfg fs6) fs6).fs.good d = true := by
    intro c hc d hd
    rw [FS.good, f7 d]
    · exact hout6 c hc d hd
    · intro c' e; subst e
      rcases mem_chrOutputs hd with ⟨s, e⟩ | ⟨s, e⟩ | ⟨s, e⟩ | e | e <;> cases e
  clear g7 f7 hout6 j6
  generalize (runActs (dropStage fixed cfg fs6) fs6).fs = fs7 at *
  -- merging
  obtain ⟨g8, fin8, f8⟩ := merge_stage wf j7 hout7 n7
  have j8 := good_J_acts g8
  refine seq_cons_seq (Q := FinOK cfg) g8 ?_
  clear g8 f8 hout7 n7 j7
  generalize (runActs (mergeStage cfg true fs7) fs7).fs = fs8 at *
  -- clean-up
  cases hk : (cfg.keepTmp || cfg.fromSaves) with
  | true => exact ⟨⟨rfl, j8⟩, fin8⟩
  | false =>
    simp only [Bool.false_eq_true, if_false]
    obtain ⟨g9, nl9, f9⟩ := cleanupLocks_stage wf j8
    have j9 := good_J_acts g9
    refine seq_cons_seq (Q := FinOK cfg) g9 ?_
    have fin9 : ∀ p ∈ finalPaths cfg, (runActs (cleanupLocks fixed cfg fs8) fs8).fs.good p = true := by
      intro p hp
      have hT := finalPaths_Tfin hp
      rw [FS.good, f9 p (by revert hT; cases p <;> simp [Tfin, isLock])]
      exact fin8 p hp
    clear g9 f9 fin8 j8
    generalize (runActs (cleanupLocks fixed cfg fs8) fs8).fs = fs9 at *
    obtain ⟨g10, nl10, f10⟩ := glob_stage j9 nl9 isSaveAux rfl rfl ord hord
    have j10 := good_J_acts g10
    refine seq_cons_seq (Q := FinOK cfg) g10 ?_
    have fin10 : ∀ p ∈ finalPaths cfg, (runActs (globStage isSaveAux ord fs9) fs9).fs.good p = true := by
      intro p hp
      have hT := finalPaths_Tfin hp
      rw [FS.good, f10 p (by revert hT; cases p <;> simp [Tfin, isSaveAux])]
      exact fin9 p hp
    clear g10 f10 fin9 j9 nl9
    generalize (runActs (globStage isSaveAux ord fs9) fs9).fs = fs10 at *
    obtain ⟨g11, nl11, f11⟩ := glob_stage j10 nl10 isRgAux rfl rfl ord hord
    have j11 := good_J_acts g11
    refine seq_cons_seq (Q := FinOK cfg) g11 ?_
    refine ⟨⟨rfl, j11⟩, ?_⟩
    intro p hp
    have hT := finalPaths_Tfin hp
    show (runActs (globStage isRgAux ord fs10) fs10).fs.good p = true
    rw [FS.good, f11 p (by revert hT; cases p <;> simp [Tfin, isRgAux])]
    exact fin10 p hp

/-! ### history: the lock-removal step and the `--read_assignments` frame -/

theorem runPhases_evs_all (T : Path → Bool) (ps : List Phase)
    (h : ∀ p ∈ ps, ∀ fs, ∀ e ∈ (runPhase p fs).evs, T e.path = true) (fs : FS) :
    ∀ e ∈ (runPhases ps fs).evs, T e.path = true := by
  induction ps generalizing fs with
  | nil => intro e he; simp [runPhases] at he
  | cons p ps ih =>
    intro e he
    simp only [runPhases] at he
    split at he
    · simp only [List.mem_append] at he
      rcases he with he | he
      · exact h p (by simp) fs e he
      · exact ih (fun p' hp' => h p' (by simp [hp'])) _ e he
    · exact h p (by simp) fs e he

/-- the events of a parallel stage are events of its tasks -/
theorem poolStage_evs_sub {task : Chr → Stage} {cs sc : List Chr} {fs : FS} {e : Ev} (h : e ∈ (poolStage task cs sc fs).evs) :
    ∃ c ∈ cs, e ∈ eventsOf (task c fs) := by
  obtain ⟨c, hc⟩ := mem_weave (show e ∈ weave _ (taskEvents task cs fs) from h)
  simp only [taskEvents] at hc
  split at hc
  · rename_i hcs; exact ⟨c, hcs, runActs_evs_sub _ _ e hc⟩
  · simp at hc

/-- a `--read_assignments` pool run never writes the save files it reads -/
theorem saves_untouched_pool {cfg : Cfg} (wf : WF cfg) (hm : cfg.fromSaves = true) (ord : List Path) (rs sk : Bool)
    (s1 s2 : List Chr) (fs : FS) :
    ∀ e ∈ (runPhases (.seq (forceClean fixed cfg rs) :: phases fixed cfg ord rs sk s1 s2) fs).evs, notSaves e.path = true := by
  have hst := stages_notSaves wf hm ord rs sk
  have hseq : ∀ s ∈ forceClean fixed cfg rs :: stages fixed cfg ord rs sk, ∀ fs, ∀ e ∈ (runPhase (.seq s) fs).evs,
      notSaves e.path = true := fun s hs fs e he => hst s hs fs e (runActs_evs_sub _ _ e he)
  have hpool : ∀ (task : Chr → Stage) (sc : List Chr),
      (∀ c ∈ cfg.chrs, task c ∈ forceClean fixed cfg rs :: stages fixed cfg ord rs sk) →
      ∀ fs, ∀ e ∈ (runPhase (.pool task cfg.chrs sc) fs).evs, notSaves e.path = true := by
    intro task sc hmem fs e he
    obtain ⟨c, hc, hce⟩ := poolStage_evs_sub (show e ∈ (poolStage task cfg.chrs sc fs).evs from he)
    exact hst _ (hmem c hc) fs e hce
  apply runPhases_evs_all
  intro p hp
  simp only [phases, List.mem_cons, List.mem_append, List.not_mem_nil, or_false] at hp
  have hin : ∀ s, s ∈ stages fixed cfg ord rs sk → s ∈ forceClean fixed cfg rs :: stages fixed cfg ord rs sk :=
    fun s hs => List.mem_cons_of_mem _ hs
  rcases hp with rfl | (rfl | rfl | rfl | rfl | rfl | rfl | rfl | rfl | rfl | rfl) | hp
  · exact hseq _ (by simp)
  · exact hseq _ (hin _ (by simp [stages]))
  · exact hseq _ (hin _ (by simp [stages]))
  · exact hseq _ (hin _ (by simp [stages]))
  · exact hseq _ (hin _ (by simp [stages]))
  · exact hpool _ _ (fun c hc => hin _ (by simp only [stages, List.mem_append, List.mem_map]; exact Or.inl (Or.inl (Or.inl (Or.inl (Or.inr ⟨c, hc, rfl⟩))))))
  · exact hseq _ (hin _ (by simp [stages]))
  · exact hseq _ (hin _ (by simp [stages]))
  · exact hpool _ _ (fun c hc => hin _ (by simp only [stages, List.mem_append, List.mem_map]; exact Or.inl (Or.inl (Or.inr ⟨c, hc, rfl⟩))))
  · exact hseq _ (hin _ (by simp [stages]))
  · exact hseq _ (hin _ (by simp [stages]))
  · simp only [hm, Bool.or_true, if_true, List.not_mem_nil] at hp

/-- `rest_run_pool` with the reference stage (main process) in front: everything after `.params` -/
theorem rest_run_pool_ref {cfg : Cfg} (wf : WF cfg) (ord : List Path) (hord : ord.Nodup) (rs sk : Bool) (s1 s2 : List Chr)
    {fs : FS} (h : J cfg fs)
    (hskrs : sk = true → rs = true) (hsk : sk = true → fs.has .lock = true)
    (hnsk : sk = false → cfg.fromSaves = false → rs = true → fs.has .lock = false)
    (hsv : cfg.fromSaves = true → SavesOK cfg fs)
    (hnp0 : cfg.fromSaves = true → rs = false → ∀ c ∈ cfg.chrs, fs.has (.processed c) = false) :
    Good cfg fs (runPhases (.seq (refStage fixed cfg rs) :: restPhases cfg ord rs (sk || cfg.fromSaves) s1 s2) fs) ∧
      FinOK cfg (runPhases (.seq (refStage fixed cfg rs) :: restPhases cfg ord rs (sk || cfg.fromSaves) s1 s2) fs).fs := by
  obtain ⟨g0, _, f0, r0⟩ := ref_stage rs h
  refine seq_cons_seq (Q := FinOK cfg) g0 ?_
  apply rest_run_pool wf ord hord rs sk s1 s2 (good_J_acts g0) hskrs
  · intro e; rw [FS.has, f0 _ rfl]; exact hsk e
  · intro e e' e''; rw [FS.has, f0 _ rfl]; exact hnsk e e' e''
  · intro e; exact savesOK_frame (hsv e) (f0 _ rfl) (fun _ => f0 _ rfl) (fun _ => f0 _ rfl)
  · intro e e' c hc; rw [FS.has, f0 _ rfl]; exact hnp0 e e' c hc
  · exact r0

/-- a fresh pool run = the removal of the lock files found, then the run on the cleaned folder -/
theorem runPool_split {cfg : Cfg} (wf : WF cfg) (ord : List Path) (s1 s2 : List Chr) (fs : FS) :
    (runPool fixed cfg ord false s1 s2 fs).evs =
        (lockList cfg fs).map Ev.remove ++ (runPool fixed cfg ord false s1 s2 (cleaned cfg fs)).evs ∧
    (runPool fixed cfg ord false s1 s2 fs).ok = (runPool fixed cfg ord false s1 s2 (cleaned cfg fs)).ok ∧
    (runPool fixed cfg ord false s1 s2 fs).fs = (runPool fixed cfg ord false s1 s2 (cleaned cfg fs)).fs := by
  have hck := checks_rmAll (lockList_nodup wf fs) (lockList_has cfg fs)
  obtain ⟨hok, hevs⟩ := runActs_of_checks hck
  have hfs : (runActs (rmAll (lockList cfg fs)) fs).fs = cleaned cfg fs := by
    rw [runActs_fs, hevs, eventsOf_rmAll]; rfl
  have h0 : forceClean fixed cfg false fs = rmAll (lockList cfg fs) := by simp [forceClean, fixed]
  have h1 : forceClean fixed cfg false (cleaned cfg fs) = [] := by
    simp [forceClean, fixed, lockList_cleaned, rmAll]
  simp only [runPool, runPhases, runPhase, h0, h1, hok, if_true, hevs, eventsOf_rmAll, hfs, runActs, Bool.false_and,
    List.nil_append]
  exact ⟨trivial, trivial, trivial⟩

theorem runPool_resume_eq (cfg : Cfg) (ord : List Path) (s1 s2 : List Chr) (fs : FS) :
    runPool fixed cfg ord true s1 s2 fs = runPhases (phases fixed cfg ord true (fs.has .lock) s1 s2) fs := by
  simp [runPool, runPhases, runPhase, forceClean, runActs]

theorem runPool_fresh_eq (cfg : Cfg) (ord : List Path) (s1 s2 : List Chr) {fs : FS} (h : lockList cfg fs = []) :
    runPool fixed cfg ord false s1 s2 fs = runPhases (phases fixed cfg ord false false s1 s2) fs := by
  simp [runPool, runPhases, runPhase, forceClean, fixed, h, rmAll, runActs]

end IsoVerif.Lemmas.Resume
