/-
Helper lemmas for the reuse clause of C15 (Props/C15Reuse.lean): list / Option plumbing, the verdict dictionary rebuilt
from a multimapper file, interned records that survive `ofRec` → bytes → `toRec`, what the two loaders return on the
dumps `collect_reads` wrote.
-/
import IsoVerif.Model.Reuse
import IsoVerif.Lemmas.ResolverFlow
import IsoVerif.Lemmas.C12Pipeline
import IsoVerif.Props.C15Stream

namespace IsoVerif.Lemmas.C15
open IsoVerif.Gen IsoVerif.Model IsoVerif.Model.Serial IsoVerif.Model.Resolver IsoVerif.Model.C12 IsoVerif.Model.C15
open IsoVerif.Lemmas.Serial IsoVerif.Lemmas.Resolver IsoVerif.Lemmas.ResolverFlow IsoVerif.Lemmas.C12
open IsoVerif.Props.C15Objects IsoVerif.Props.C15Stream

/-! ### Option / list plumbing -/

theorem mapM_eq_some_map {α β : Type} (f : α → Option β) (d : β) :
    ∀ (l : List α) (l' : List β), l.mapM f = some l' →
      l' = l.map (fun a => (f a).getD d) ∧ ∀ a ∈ l, f a = some ((f a).getD d) := by
  intro l
  induction l with
  | nil => intro l' h; simp at h; subst h; simp
  | cons a t ih =>
    intro l' h
    rw [List.mapM_cons] at h
    cases hfa : f a with
    | none => rw [hfa] at h; simp at h
    | some b =>
      rw [hfa] at h
      cases ht : t.mapM f with
      | none => rw [ht] at h; simp at h
      | some t' =>
        rw [ht] at h
        simp at h
        subst h
        obtain ⟨e, hall⟩ := ih t' ht
        refine ⟨by rw [List.map_cons, hfa, ← e]; rfl, ?_⟩
        intro x hx
        rcases List.mem_cons.mp hx with rfl | hx
        · rw [hfa]; rfl
        · exact hall x hx

theorem mapM_map_opt {α β γ : Type} (g : α → β) (f : β → Option γ) (l : List α) :
    (l.map g).mapM f = l.mapM (fun a => f (g a)) := by
  induction l with
  | nil => rfl
  | cons a t ih => rw [List.map_cons, List.mapM_cons, List.mapM_cons, ih]

theorem mapM_congr_mem {α β : Type} {f g : α → Option β} {l : List α} (h : ∀ a ∈ l, f a = g a) :
    l.mapM f = l.mapM g := by
  induction l with
  | nil => rfl
  | cons a t ih =>
    rw [List.mapM_cons, List.mapM_cons, h a (by simp), ih (fun x hx => h x (List.mem_cons_of_mem _ hx))]

theorem zip_map_same {α β γ : Type} (f : α → β) (g : α → γ) (l : List α) :
    (l.map f).zip (l.map g) = l.map (fun a => (f a, g a)) := by
  induction l with
  | nil => rfl
  | cons a t ih => simp [ih]

theorem zipIdx_map' {α β : Type} (f : α → β) (l : List α) (k : Nat) :
    (l.map f).zipIdx k = (l.zipIdx k).map (fun x => (f x.1, x.2)) := by
  induction l generalizing k with
  | nil => rfl
  | cons a t ih => simp [List.zipIdx_cons, ih]

/-! ### the verdict dictionary rebuilt from the lists of a multimapper file -/

theorem foldl_dictAppend_same (k : Nat) :
    ∀ (t : List Rec) (acc : ResolverFlow.Dict) (v : List Rec), k ∉ keys acc → (∀ x ∈ t, x.readId = k) →
      t.foldl dictAppend (acc ++ [(k, v)]) = acc ++ [(k, v ++ t)] := by
  intro t
  induction t with
  | nil => intro acc v _ _; simp
  | cons x t ih =>
    intro acc v hk hx
    have hxk : x.readId = k := hx x (by simp)
    have hstep : dictAppend (acc ++ [(k, v)]) x = acc ++ [(k, v ++ [x])] := by
      clear ih hx
      induction acc with
      | nil => simp [dictAppend, hxk]
      | cons kv rest ih2 =>
        obtain ⟨k', v'⟩ := kv
        simp only [keys, List.map_cons, List.mem_cons, not_or] at hk
        have hne : (k' == x.readId) = false := by
          rw [beq_eq_false_iff_ne, hxk]; exact fun e => hk.1 e.symm
        simp only [List.cons_append, dictAppend, hne, Bool.false_eq_true, if_false, List.cons.injEq, true_and]
        exact ih2 hk.2
    rw [List.foldl_cons, hstep, ih acc (v ++ [x]) hk (fun y hy => hx y (List.mem_cons_of_mem _ hy))]
    simp

/-- appending, list by list, the records of a dictionary whose keys are pairwise different, whose lists are not
    empty and hold records of their key's read only, gives the dictionary back -/
theorem foldl_dictAppend_rebuild :
    ∀ (L acc : ResolverFlow.Dict), ((keys acc) ++ (keys L)).Nodup → (∀ kv ∈ L, kv.2 ≠ [] ∧ ∀ x ∈ kv.2, x.readId = kv.1) →
      (L.flatMap (·.2)).foldl dictAppend acc = acc ++ L := by
  intro L
  induction L with
  | nil => intro acc _ _; simp
  | cons kv rest ih =>
    intro acc hnd hL
    obtain ⟨k, v⟩ := kv
    obtain ⟨hne, hk⟩ := hL (k, v) (by simp)
    cases v with
    | nil => exact absurd rfl hne
    | cons x t =>
      have hkacc : k ∉ keys acc := by
        intro hmem
        have := (List.nodup_append.mp hnd).2.2 k hmem k (by simp [keys])
        exact this rfl
      have hx : x.readId = k := hk x (by simp)
      rw [List.flatMap_cons, List.foldl_append]
      show List.foldl dictAppend (List.foldl dictAppend acc (x :: t)) _ = _
      rw [List.foldl_cons, dictAppend_of_not_mem acc x (by rw [hx]; exact hkacc), hx,
        foldl_dictAppend_same k t acc [x] hkacc (fun y hy => hk y (List.mem_cons_of_mem _ hy))]
      have hnd' : (keys (acc ++ [(k, [x] ++ t)]) ++ keys rest).Nodup := by
        simpa [keys, List.append_assoc] using hnd
      rw [ih (acc ++ [(k, [x] ++ t)]) hnd' (fun kv hkv => hL kv (List.mem_cons_of_mem _ hkv))]
      simp

/-! ### interned records and the objects they stand for -/

/-- the ids of a record are numbers that `intern` produces -/
def IdsClosed (E : Env) (r : Rec) : Prop :=
  E.intern (E.name r.readId) = r.readId ∧ E.intern (E.name r.chr) = r.chr ∧
  r.isoforms.map (fun n => E.intern (E.name n)) = r.isoforms ∧ r.genes.map (fun n => E.intern (E.name n)) = r.genes

theorem toRec_ofRec (E : Env) (r : Rec) (h : IdsClosed E r) : toRec E (ofRec E r) = r := by
  obtain ⟨h1, h2, h3, h4⟩ := h
  cases r
  simp only [toRec, ofRec, Int.toNat_natCast, penaltyToInt_of_multiple, List.map_map, Function.comp_def] at *
  rw [h1, h2, h3, h4]

/-- the strings of a compact record -/
def basicStrings (b : BasicReadAssignment) : List String := b.readId :: b.chrId :: (b.isoforms ++ b.genes)

theorem idsClosed_toRec (E : Env) (b : BasicReadAssignment) (hE : ∀ s ∈ basicStrings b, E.name (E.intern s) = s) :
    IdsClosed E (toRec E b) := by
  simp only [basicStrings, List.mem_cons, List.mem_append] at hE
  refine ⟨?_, ?_, ?_, ?_⟩
  · simp only [toRec]; rw [hE _ (Or.inl rfl)]
  · simp only [toRec]; rw [hE _ (Or.inr (Or.inl rfl))]
  · simp only [toRec, List.map_map]
    apply List.map_congr_left
    intro s hs
    simp only [Function.comp, hE s (Or.inr (Or.inr (Or.inl hs)))]
  · simp only [toRec, List.map_map]
    apply List.map_congr_left
    intro s hs
    simp only [Function.comp, hE s (Or.inr (Or.inr (Or.inr hs)))]

theorem idsClosed_flag (E : Env) (a b : Bool) (r : Rec) (h : IdsClosed E r) : IdsClosed E (flag a b r) := by
  cases a <;> cases b <;> exact h

theorem idsClosed_suspend (E : Env) (r : Rec) (h : IdsClosed E r) : IdsClosed E (suspend r) := h

theorem quantBasic_ofRec (E : Env) (r : Rec) : quantBasic (ofRec E r) = ofRec E r := by
  simp only [quantBasic, ofRec, quantPenalty_of_multiple]

/-- what resolution returns: one entry per read, records of that read only, ids untouched, no list longer than the
    stream -/
theorem resolved_facts (E : Env) (hm : Bool) (stream : List Rec) (resolved : List (Nat × List Rec))
    (h : resolveStream hm stream = some resolved) (hc : ∀ r ∈ stream, IdsClosed E r) :
    (resolved.map Prod.fst).Nodup ∧
    ∀ kv ∈ resolved, kv.2.length ≤ stream.length ∧ ∀ r' ∈ kv.2, r'.readId = kv.1 ∧ IdsClosed E r' := by
  obtain ⟨res', h', hnd, _, hall⟩ := resolveStream_spec hm stream
  rw [h] at h'
  cases h'
  refine ⟨hnd, ?_⟩
  intro kv hkv
  obtain ⟨_, hv⟩ := hall kv hkv
  rw [hv]
  refine ⟨?_, ?_⟩
  · unfold outOf
    rw [length_applyKeep]
    exact (List.filter_sublist (l := stream)).length_le
  · intro r' hr'
    obtain ⟨r, i, hri, hr⟩ := mem_applyKeep hr'
    have hrl : r ∈ lr stream kv.1 := mem_of_mem_zipIdx hri
    obtain ⟨hrs, hrk⟩ := List.mem_filter.mp hrl
    have hrk' : r.readId = kv.1 := by simpa using hrk
    rw [hr]
    split
    · exact ⟨by rw [flag_readId]; exact hrk', idsClosed_flag E _ _ r (hc r hrs)⟩
    · exact ⟨hrk', idsClosed_suspend E r (hc r hrs)⟩

/-- **the verdict file read back**: the reading loop of `construct_models_in_parallel` on the file
    `resolve_multimappers` wrote for a chromosome rebuilds exactly `verdictsFor` of that chromosome -/
theorem loadVerdicts_written (E : Env) (chrName : String) (hE : E.name (E.intern chrName) = chrName)
    (resolved : List (Nat × List Rec)) (mm : Bytes)
    (hw : writeMultimap (multimapLists E (E.intern chrName) resolved) = some mm)
    (hnd : (resolved.map Prod.fst).Nodup)
    (hrec : ∀ kv ∈ resolved, kv.2.length < ser_TERMINATION_INT ∧ ∀ r ∈ kv.2, r.readId = kv.1 ∧ IdsClosed E r) :
    loadVerdicts E chrName mm = some (verdictsFor (E.intern chrName) resolved) := by
  -- what lies in the verdict dictionary of this chromosome
  have hV : ∀ kv ∈ verdictsFor (E.intern chrName) resolved, kv.2 ≠ [] ∧ kv.2.length < ser_TERMINATION_INT ∧
      ∀ r ∈ kv.2, r.readId = kv.1 ∧ IdsClosed E r ∧ r.chr = E.intern chrName := by
    intro kv hkv
    unfold verdictsFor at hkv
    obtain ⟨hm, hne⟩ := List.mem_filter.mp hkv
    obtain ⟨kv0, hkv0, rfl⟩ := List.mem_map.mp hm
    obtain ⟨hl0, hr0⟩ := hrec kv0 hkv0
    refine ⟨?_, ?_, ?_⟩
    · intro e; simp only at e; simp [e] at hne
    · exact Nat.lt_of_le_of_lt (List.filter_sublist (l := kv0.2)).length_le hl0
    · intro r hr
      obtain ⟨hr1, hr2⟩ := List.mem_filter.mp hr
      exact ⟨(hr0 r hr1).1, (hr0 r hr1).2, by simpa using hr2⟩
  have hlen : ∀ l ∈ multimapLists E (E.intern chrName) resolved, l.length ≠ ser_TERMINATION_INT := by
    intro l hl
    simp only [multimapLists, List.map_map, List.mem_map, Function.comp] at hl
    obtain ⟨kv, hkv, rfl⟩ := hl
    rw [List.length_map]
    exact Nat.ne_of_lt (hV kv hkv).2.1
  have hrt := multimap_roundtrip _ mm [] hw hlen
  rw [List.append_nil] at hrt
  unfold loadVerdicts
  rw [hrt]
  simp only [Option.map_some, Option.some.injEq]
  have hflat : ((multimapLists E (E.intern chrName) resolved).map (List.map quantBasic)).flatten =
      ((verdictsFor (E.intern chrName) resolved).flatMap (·.2)).map (ofRec E) := by
    simp only [multimapLists, List.map_map, Function.comp_def, quantBasic_ofRec, List.flatMap_def,
      List.map_flatten]
  rw [hflat]
  have hmem : ∀ r ∈ (verdictsFor (E.intern chrName) resolved).flatMap (·.2),
      IdsClosed E r ∧ r.chr = E.intern chrName := by
    intro r hr
    obtain ⟨kv, hkv, hrkv⟩ := List.mem_flatMap.mp hr
    exact ⟨((hV kv hkv).2.2 r hrkv).2.1, ((hV kv hkv).2.2 r hrkv).2.2⟩
  have hfilter : (((verdictsFor (E.intern chrName) resolved).flatMap (·.2)).map (ofRec E)).filter
      (fun a => a.chrId == chrName) = ((verdictsFor (E.intern chrName) resolved).flatMap (·.2)).map (ofRec E) := by
    rw [List.filter_eq_self]
    intro a ha
    obtain ⟨r, hr, rfl⟩ := List.mem_map.mp ha
    simp only [ofRec, (hmem r hr).2, hE, beq_self_eq_true]
  rw [hfilter, List.map_map]
  have hid : ((verdictsFor (E.intern chrName) resolved).flatMap (·.2)).map (toRec E ∘ ofRec E) =
      (verdictsFor (E.intern chrName) resolved).flatMap (·.2) := by
    conv => rhs; rw [← List.map_id ((verdictsFor (E.intern chrName) resolved).flatMap (·.2))]
    apply List.map_congr_left
    intro r hr
    exact toRec_ofRec E r (hmem r hr).1
  rw [hid]
  have := foldl_dictAppend_rebuild (verdictsFor (E.intern chrName) resolved) []
    (by simpa [keys] using verdictsFor_keys (E.intern chrName) resolved hnd)
    (fun kv hkv => ⟨(hV kv hkv).1, fun x hx => ((hV kv hkv).2.2 x hx).1⟩)
  simpa using this

/-! ### what the saving run holds after its own write, and what the loaders return on the dumps -/

/-- the records as they come back from a dump: penalties truncated to 20 fractional bits -/
def quantGroups (gs : List (Group ReadAssignment)) : List (Group ReadAssignment) :=
  gs.map (fun g => (g.1, g.2.map quantRA))

/-- the first isoform match (the only one `BasicReadAssignment.__init__` takes the penalty from) has a penalty that
    is not negative -/
def NonNegFirst (r : ReadAssignment) : Prop := ∀ m, r.isoformMatches.head? = some m → 0 ≤ m.penaltyScore

theorem quantPenalty_nonneg (q : Rat) (h : 0 ≤ q) : ¬ quantPenalty q < 0 := by
  have hx : 0 ≤ q * ((ser_SHORT_FLOAT_MULTIPLIER : Nat) : Rat) := Rat.mul_nonneg h (by decide)
  have hn : 0 ≤ penaltyToInt q := by
    unfold penaltyToInt
    exact Int.tdiv_nonneg (Rat.num_nonneg.mpr hx) (by exact_mod_cast Nat.zero_le _)
  unfold quantPenalty
  rw [Rat.not_lt, Rat.div_def]
  apply Rat.mul_nonneg
  · exact_mod_cast hn
  · exact Rat.le_of_lt (Rat.inv_pos.mpr (by decide))

/-- the compact record built in memory (`--high_memory`) is the one the abridged loader returns -/
theorem basicOf_quantRA_of_nonneg (r : ReadAssignment) (h : NonNegFirst r) : basicOf (quantRA r) = basicOf r :=
  basicOf_quantRA r (fun m hm => ⟨Rat.not_lt.mpr (h m hm), quantPenalty_nonneg _ (h m hm)⟩)

theorem dump_decodes (gs : List (Group ReadAssignment)) (bs : Bytes) (h : writeStream (ungroup gs) = some bs)
    (hdom : ∀ g ∈ gs, ∀ r ∈ g.2, RADom r ∧ r.exons ≠ []) :
    loadStreamFull.run bs = some (quantGroups gs, []) ∧
    loadStreamQuick.run bs = some (gs.map (fun g => (g.1, g.2.map (fun r => basicOf (quantRA r)))), []) := by
  have := quick_stream_aligned gs bs [] h hdom
  rw [List.append_nil] at this
  exact ⟨this.2, this.1⟩

theorem chrPRecs_basic (E : Env) (gs : List (Group ReadAssignment)) :
    (chrPRecs E gs).map (·.basic) = (gs.flatMap (·.2)).map (fun r => toRec E (basicOf r)) := by
  induction gs with
  | nil => rfl
  | cons g t ih =>
    simp only [chrPRecs, List.flatMap_cons, List.map_append, List.map_map] at ih ⊢
    rw [ih]
    rfl

theorem quantGroups_records (gs : List (Group ReadAssignment)) :
    (quantGroups gs).flatMap (·.2) = (gs.flatMap (·.2)).map quantRA := by
  induction gs with
  | nil => rfl
  | cons g t ih =>
    simp only [quantGroups, List.map_cons, List.flatMap_cons, List.map_append] at ih ⊢
    rw [ih]

/-- the compact records of the whole experiment in processing order, as the dumps hold them -/
def streamOf (E : Env) (chroms : List ChrIn) : List Rec :=
  chroms.flatMap (fun c => (chrPRecs E (quantGroups c.groups)).map (·.basic))

theorem streamOf_chr (E : Env) (c : ChrIn) :
    (chrPRecs E (quantGroups c.groups)).map (·.basic) =
      (c.groups.flatMap (·.2)).map (fun r => toRec E (basicOf (quantRA r))) := by
  rw [chrPRecs_basic, quantGroups_records, List.map_map]
  rfl

theorem rereadBasics_dump (E : Env) (c : ChrIn) (bs : Bytes) (h : writeStream (ungroup c.groups) = some bs)
    (hdom : ∀ g ∈ c.groups, ∀ r ∈ g.2, RADom r ∧ r.exons ≠ []) :
    rereadBasics E bs = some ((chrPRecs E (quantGroups c.groups)).map (·.basic)) := by
  unfold rereadBasics
  rw [(dump_decodes c.groups bs h hdom).2, streamOf_chr]
  simp only [Option.map_some, Option.some.injEq]
  have : ∀ gs : List (Group ReadAssignment),
      (gs.map (fun g => (g.1, g.2.map (fun r => basicOf (quantRA r))))).flatMap (·.2) =
        (gs.flatMap (·.2)).map (fun r => basicOf (quantRA r)) := by
    intro gs
    induction gs with
    | nil => rfl
    | cons g t ih => simp only [List.map_cons, List.flatMap_cons, List.map_append, ih]
  rw [this, List.map_map]
  rfl

theorem countIds_map (recs : List Rec) (rid : Nat) : countIds (recs.map (·.readId)) rid = countOf recs rid := by
  simp only [countIds, countOf, List.filter_map, List.length_map]
  rfl

theorem flatMap_congr_mem {α β : Type} {f g : α → List β} {l : List α} (h : ∀ a ∈ l, f a = g a) :
    l.flatMap f = l.flatMap g := by
  induction l with
  | nil => rfl
  | cons a t ih =>
    rw [List.flatMap_cons, List.flatMap_cons, h a (by simp), ih (fun x hx => h x (List.mem_cons_of_mem _ hx))]

theorem mapM_all_some {α β : Type} (f : α → Option β) (g : α → β) (l : List α) (h : ∀ a ∈ l, f a = some (g a)) :
    l.mapM f = some (l.map g) := by
  induction l with
  | nil => rfl
  | cons a t ih =>
    rw [List.mapM_cons, h a (by simp), ih (fun x hx => h x (List.mem_cons_of_mem _ hx))]
    rfl

/-- the per-read lists (and the unique-read counts) as a function of the compact records of the experiment -/
def listsOf (hm : Bool) (stream : List Rec) : List (Nat × List Rec) × Nat × Nat :=
  if hm then (groupAll stream, 0, 0) else prepareMultimapperDict (stream.map (·.readId)) stream

theorem listsOf_fst (hm : Bool) (stream : List Rec) :
    (listsOf hm stream).1 = (if hm then groupAll stream else groupMulti stream) := by
  cases hm with
  | true => rfl
  | false =>
    simp only [listsOf, Bool.false_eq_true, if_false, prepareMultimapperDict, countIds_map]
    rfl

/-- **the per-read lists of the saving run**, both memory modes, in terms of the records as the dumps hold them:
    with `--high_memory` the lists are built from the objects in memory, whose compact form does not see the penalty
    truncation (`NonNegFirst`); otherwise from the abridged re-read of the dumps just written -/
theorem perReadLists_spec (E : Env) (hm : Bool) (chroms : List ChrIn) (saves : List Bytes)
    (d : List (Nat × List Rec) × Nat × Nat)
    (hs : chroms.mapM (fun c => writeStream (ungroup c.groups)) = some saves)
    (hdom : ∀ c ∈ chroms, ∀ g ∈ c.groups, ∀ r ∈ g.2, RADom r ∧ r.exons ≠ [])
    (hpen : hm = true → ∀ c ∈ chroms, ∀ g ∈ c.groups, ∀ r ∈ g.2, NonNegFirst r)
    (hd : perReadLists E hm chroms saves = some d) :
    d = listsOf hm (streamOf E chroms) := by
  cases hm with
  | true =>
    simp only [perReadLists, if_true, Option.some.injEq] at hd
    subst hd
    simp only [listsOf, if_true, Prod.mk.injEq, and_true]
    congr 1
    unfold streamOf
    apply flatMap_congr_mem
    intro c hc
    rw [streamOf_chr]
    unfold memBasics
    apply List.map_congr_left
    intro r hr
    obtain ⟨g, hg, hrg⟩ := List.mem_flatMap.mp hr
    rw [basicOf_quantRA_of_nonneg r (hpen rfl c hc g hg r hrg)]
  | false =>
    obtain ⟨hsaves, hall⟩ := mapM_eq_some_map _ ([] : Bytes) chroms saves hs
    have hrr : saves.mapM (rereadBasics E) =
        some (chroms.map (fun c => (chrPRecs E (quantGroups c.groups)).map (·.basic))) := by
      rw [hsaves, mapM_map_opt]
      apply mapM_all_some
      intro c hc
      exact rereadBasics_dump E c _ (hall c hc) (hdom c hc)
    simp only [perReadLists, Bool.false_eq_true, if_false, hrr, Option.map_some, Option.some.injEq] at hd
    subst hd
    have hflat : (chroms.map (fun c => (chrPRecs E (quantGroups c.groups)).map (·.basic))).flatten = streamOf E chroms := by
      simp only [streamOf, List.flatMap_def]
    have hids : chroms.flatMap (memReadIds E) = (streamOf E chroms).map (·.readId) := by
      unfold streamOf
      rw [List.map_flatMap]
      apply flatMap_congr_mem
      intro c _
      rw [streamOf_chr, List.map_map]
      rfl
    simp only [listsOf, hflat, hids, Bool.false_eq_true, if_false]

/-! ### the strings of an experiment -/

/-- the strings of a full record that reach the interned views -/
def raStrings (r : ReadAssignment) : List String :=
  r.readId :: r.chrId :: (r.isoformMatches.filterMap (·.assignedTranscript) ++ r.isoformMatches.filterMap (·.assignedGene))

/-- chromosome names, read ids, `chr_id`s, gene and transcript ids: the strings `Env.intern` is applied to -/
def allStrings (chroms : List ChrIn) : List String :=
  chroms.flatMap (fun c => c.name :: (c.groups.flatMap (·.2)).flatMap raStrings)

theorem mem_insertSorted {s x : String} {l : List String} (h : x ∈ insertSorted s l) : x = s ∨ x ∈ l := by
  induction l with
  | nil => simp only [insertSorted, List.mem_singleton] at h; exact Or.inl h
  | cons a t ih =>
    simp only [insertSorted] at h
    split at h
    · rcases List.mem_cons.mp h with h | h
      · exact Or.inl h
      · exact Or.inr h
    · split at h
      · exact Or.inr h
      · rcases List.mem_cons.mp h with h | h
        · exact Or.inr (by simp [h])
        · rcases ih h with h | h
          · exact Or.inl h
          · exact Or.inr (List.mem_cons_of_mem _ h)

theorem mem_collectIds {x : String} {ids : List (Option String)} (h : x ∈ collectIds ids) : some x ∈ ids := by
  unfold collectIds at h
  have key : ∀ (l : List String), x ∈ l.foldr insertSorted [] → x ∈ l := by
    intro l
    induction l with
    | nil => intro h; simp at h
    | cons a t ih =>
      intro h
      rcases mem_insertSorted h with h | h
      · simp [h]
      · exact List.mem_cons_of_mem _ (ih h)
  have := key _ h
  obtain ⟨o, ho, hx⟩ := List.mem_filterMap.mp this
  cases o with
  | none => simp at hx
  | some s =>
    simp only at hx
    split at hx
    · cases hx
    · cases hx; exact ho

theorem basicStrings_subset (r : ReadAssignment) : ∀ s ∈ basicStrings (basicOf (quantRA r)), s ∈ raStrings r := by
  intro s hs
  simp only [basicStrings, basicOf, quantRA, List.mem_cons, List.mem_append, List.map_map] at hs
  simp only [raStrings, List.mem_cons, List.mem_append, List.mem_filterMap]
  rcases hs with rfl | rfl | hs | hs
  · exact Or.inl rfl
  · exact Or.inr (Or.inl rfl)
  · obtain ⟨m, hm, hms⟩ := List.mem_map.mp (mem_collectIds hs)
    exact Or.inr (Or.inr (Or.inl ⟨m, hm, hms⟩))
  · obtain ⟨m, hm, hms⟩ := List.mem_map.mp (mem_collectIds hs)
    exact Or.inr (Or.inr (Or.inr ⟨m, hm, hms⟩))

theorem mem_allStrings_name {chroms : List ChrIn} {c : ChrIn} (hc : c ∈ chroms) : c.name ∈ allStrings chroms :=
  List.mem_flatMap.mpr ⟨c, hc, by simp⟩

theorem mem_allStrings_record {chroms : List ChrIn} {c : ChrIn} (hc : c ∈ chroms) {r : ReadAssignment}
    (hr : r ∈ c.groups.flatMap (·.2)) {s : String} (hs : s ∈ raStrings r) : s ∈ allStrings chroms :=
  List.mem_flatMap.mpr ⟨c, hc, List.mem_cons_of_mem _ (List.mem_flatMap.mpr ⟨r, hr, hs⟩)⟩

/-- every compact record of the experiment has ids that survive `name` → `intern` -/
theorem streamOf_closed (E : Env) (chroms : List ChrIn) (hE : ∀ s ∈ allStrings chroms, E.name (E.intern s) = s) :
    ∀ r ∈ streamOf E chroms, IdsClosed E r := by
  intro r hr
  obtain ⟨c, hc, hrc⟩ := List.mem_flatMap.mp hr
  rw [streamOf_chr] at hrc
  obtain ⟨x, hx, rfl⟩ := List.mem_map.mp hrc
  exact idsClosed_toRec E _ (fun s hs => hE s (mem_allStrings_record hc hx (basicStrings_subset x s hs)))

theorem mem_chrPRecs_quant {E : Env} {gs : List (Group ReadAssignment)} {p : PRec}
    (h : p ∈ chrPRecs E (quantGroups gs)) : ∃ g ∈ gs, ∃ r ∈ g.2, p = toPRec E g.1 (quantRA r) := by
  simp only [chrPRecs, quantGroups, List.mem_flatMap, List.mem_map] at h
  obtain ⟨g', ⟨g, hg, hg'⟩, r', hr', hp⟩ := h
  subst hg'
  simp only [List.mem_map] at hr'
  obtain ⟨r, hr, hrr⟩ := hr'
  subst hrr
  exact ⟨g, hg, r, hr, hp.symm⟩

/-! ### plumbing of the composition -/

theorem mem_of_mem_zipIdx' {α : Type} {l : List α} {x : α × Nat} (h : x ∈ l.zipIdx) : x.1 ∈ l :=
  List.mem_of_getElem? (List.mem_zipIdx_iff_getElem?.mp h)

theorem stampChr_self (c : Nat) (ids : Nat → Nat) (l : List PRec)
    (h : ∀ i p, l[i]? = some p → p.basic.chr = c ∧ ids i = p.basic.aid) : stampChr c ids l = l := by
  apply List.ext_getElem?
  intro i
  simp only [stampChr, List.getElem?_map, List.getElem?_zipIdx]
  cases hp : l[i]? with
  | none => rfl
  | some p =>
    obtain ⟨h1, h2⟩ := h i p hp
    simp only [Option.map_some, Nat.zero_add, PRec.stamp, Option.some.injEq]
    rw [h2, ← h1]

/-- what a successful `collect_reads` went through -/
theorem collectReads_unpack {E : Env} {hm : Bool} {readGroups : List String} {ua : Nat} {chroms : List ChrIn}
    {files : Saved} (hsave : collectReads E hm readGroups ua chroms = some files) :
    ∃ saves d resolved mms info,
      chroms.mapM (fun c => writeStream (ungroup c.groups)) = some saves ∧
      perReadLists E hm chroms saves = some d ∧ resolveDict d.1 = some resolved ∧
      unknownChr E chroms resolved = false ∧
      chroms.mapM (fun c => writeMultimap (multimapLists E (E.intern c.name) resolved)) = some mms ∧
      writeInfoFile (infoOf readGroups d resolved) (ua : Int) = some info ∧
      files = { info := info, chrs := (saves.zip mms).map (fun x => ⟨x.1, x.2⟩) } := by
  unfold collectReads at hsave
  cases hs : chroms.mapM (fun c => writeStream (ungroup c.groups)) with
  | none => rw [hs] at hsave; cases hsave
  | some saves =>
  rw [hs] at hsave
  simp only at hsave
  cases hd : perReadLists E hm chroms saves with
  | none => rw [hd] at hsave; cases hsave
  | some d =>
  rw [hd] at hsave
  simp only at hsave
  cases hr : resolveDict d.1 with
  | none => rw [hr] at hsave; cases hsave
  | some resolved =>
  rw [hr] at hsave
  simp only at hsave
  cases hu : unknownChr E chroms resolved with
  | true => rw [hu] at hsave; cases hsave
  | false =>
  rw [hu] at hsave
  simp only [Bool.false_eq_true, if_false] at hsave
  cases hm' : chroms.mapM (fun c => writeMultimap (multimapLists E (E.intern c.name) resolved)) with
  | none => rw [hm'] at hsave; cases hsave
  | some mms =>
  cases hi : writeInfoFile (infoOf readGroups d resolved) (ua : Int) with
  | none => rw [hm', hi] at hsave; cases hsave
  | some info =>
  rw [hm', hi] at hsave
  simp only [Option.some.injEq] at hsave
  exact ⟨saves, d, resolved, mms, info, rfl, hd, hr, hu, hm', hi, hsave.symm⟩

/-! ### the totals of `resolve_multimappers` do not depend on the memory mode -/

theorem dictAppend_flat_perm (d : ResolverFlow.Dict) (r : Rec) :
    ((dictAppend d r).flatMap (·.2)).Perm (d.flatMap (·.2) ++ [r]) := by
  induction d with
  | nil => simp [dictAppend]
  | cons kv rest ih =>
    obtain ⟨k, v⟩ := kv
    by_cases hk : (k == r.readId) = true
    · simp only [dictAppend, hk, if_true, List.flatMap_cons, List.append_assoc]
      exact List.Perm.append_left v List.perm_append_comm
    · simp only [dictAppend, hk, Bool.false_eq_true, if_false, List.flatMap_cons, List.append_assoc]
      exact List.Perm.append_left v ih

theorem foldl_dictAppend_flat_perm (l : List Rec) (d : ResolverFlow.Dict) :
    ((l.foldl dictAppend d).flatMap (·.2)).Perm (d.flatMap (·.2) ++ l) := by
  induction l generalizing d with
  | nil => simp
  | cons r t ih =>
    rw [List.foldl_cons]
    refine (ih (dictAppend d r)).trans ?_
    have := (dictAppend_flat_perm d r).append_right t
    simpa [List.append_assoc] using this

theorem dictAppend_nonempty (d : ResolverFlow.Dict) (r : Rec) (h : ∀ kv ∈ d, kv.2 ≠ []) :
    ∀ kv ∈ dictAppend d r, kv.2 ≠ [] := by
  induction d with
  | nil => intro kv hkv; simp only [dictAppend, List.mem_singleton] at hkv; subst hkv; simp
  | cons kv0 rest ih =>
    obtain ⟨k, v⟩ := kv0
    intro kv hkv
    by_cases hk : (k == r.readId) = true
    · simp only [dictAppend, hk, if_true, List.mem_cons] at hkv
      rcases hkv with rfl | hkv
      · simp
      · exact h kv (List.mem_cons_of_mem _ hkv)
    · simp only [dictAppend, hk, Bool.false_eq_true, if_false, List.mem_cons] at hkv
      rcases hkv with rfl | hkv
      · exact h _ (by simp)
      · exact ih (fun kv hkv => h kv (List.mem_cons_of_mem _ hkv)) kv hkv

theorem groupAll_nonempty (s : List Rec) : ∀ kv ∈ groupAll s, kv.2 ≠ [] := by
  unfold groupAll
  have : ∀ (l : List Rec) (d : ResolverFlow.Dict), (∀ kv ∈ d, kv.2 ≠ []) → ∀ kv ∈ l.foldl dictAppend d, kv.2 ≠ [] := by
    intro l
    induction l with
    | nil => intro d h; simpa using h
    | cons r t ih => intro d h; rw [List.foldl_cons]; exact ih _ (dictAppend_nonempty d r h)
  exact this s [] (by simp)

theorem countOf_pos_of_mem {s : List Rec} {r : Rec} (h : r ∈ s) : 1 ≤ countOf s r.readId := by
  unfold countOf
  exact List.length_pos_of_mem (List.mem_filter.mpr ⟨h, by simp⟩)

theorem tally_append (A B : List (List Rec)) :
    tally (A ++ B) = ((tally A).1 + (tally B).1, (tally A).2 + (tally B).2) := by
  simp [tally, List.flatten_append, List.filter_append]

theorem tally_perm {A : List (List Rec)} {l : List Rec} (h : A.flatten.Perm l) :
    tally A = ((l.filter (fun a => !(a.atype == .suspended))).length,
               ((l.filter (fun a => !(a.atype == .suspended))).filter (·.polyA)).length) := by
  simp only [tally]
  exact Prod.ext ((h.filter _).length_eq) (((h.filter _).filter _).length_eq)

/-- the lists of one record of the `--high_memory` dict are, as a multiset, the records of the reads seen once -/
theorem singles_groupAll (s : List Rec) :
    (((groupAll s).filter (fun kv => !(1 < kv.2.length))).map (·.2)).flatten.Perm
      (s.filter (fun r => countOf s r.readId == 1)) := by
  have hfil : (groupAll s).filter (fun kv => !(1 < kv.2.length)) =
      (groupAll s).filter (fun kv => (fun k => !(1 < countOf s k)) kv.1) := by
    apply List.filter_congr
    intro kv hkv
    have hlen : kv.2.length = countOf s kv.1 := by rw [groupAll_vals s kv hkv]; rfl
    simp only [hlen]
  have hq := foldl_dictAppend_filter (fun k => !(1 < countOf s k)) s []
  have hs1 : s.filter (fun r => !(1 < countOf s r.readId)) = s.filter (fun r => countOf s r.readId == 1) := by
    apply List.filter_congr
    intro r hr
    have := countOf_pos_of_mem hr
    by_cases h1 : countOf s r.readId = 1
    · simp [h1]
    · have : 1 < countOf s r.readId := by omega
      simp [h1, this]
  rw [hfil]
  unfold groupAll
  rw [hq, List.filter_nil, hs1]
  have := foldl_dictAppend_flat_perm (s.filter (fun r => countOf s r.readId == 1)) []
  simpa [List.flatMap_def] using this

/-- the default-mode dict has no list of one record -/
theorem singles_groupMulti (s : List Rec) : (groupMulti s).filter (fun kv => !(1 < kv.2.length)) = [] := by
  have hfilter : groupMulti s = (groupAll s).filter (fun kv => !(countOf s kv.1 == 1)) := by
    have := foldl_dictAppend_filter (fun k => !(countOf s k == 1)) s []
    simpa [groupMulti, groupAll] using this.symm
  rw [hfilter, List.filter_filter, List.filter_eq_nil_iff]
  intro kv hkv
  have hlen : kv.2.length = countOf s kv.1 := by rw [groupAll_vals s kv hkv]; rfl
  have hne : kv.2.length ≠ 0 := by
    intro h0
    exact groupAll_nonempty s kv hkv (List.eq_nil_of_length_eq_zero h0)
  rw [← hlen]
  by_cases h1 : kv.2.length = 1
  · simp [h1]
  · have : 1 < kv.2.length := by omega
    simp [this]

/-- **the `_info` totals are the same in both memory modes** when no input record is `suspended`: `--high_memory`
    counts the lists of one record inside `resolve_multimappers` (skipping suspended ones), the default mode counted
    them in `prepare_multimapper_dict` (without looking at the type) -/
theorem infoOf_memory_modes (readGroups : List String) (s : List Rec) (resolved : List (Nat × List Rec))
    (hNS : ∀ r ∈ s, r.atype ≠ .suspended) :
    infoOf readGroups (listsOf true s) resolved = infoOf readGroups (listsOf false s) resolved := by
  have hT : collectTotals (listsOf true s).1 resolved =
      ((tally (resolved.map (·.2))).1 + (s.filter (fun r => countOf s r.readId == 1)).length,
       (tally (resolved.map (·.2))).2 + ((s.filter (fun r => countOf s r.readId == 1)).filter (·.polyA)).length) := by
    simp only [collectTotals, listsOf, if_true, tally_append]
    rw [tally_perm (singles_groupAll s)]
    have hid : (s.filter (fun r => countOf s r.readId == 1)).filter (fun a => !(a.atype == .suspended)) =
        s.filter (fun r => countOf s r.readId == 1) := by
      rw [List.filter_eq_self]
      intro a ha
      have := hNS a (List.mem_filter.mp ha).1
      simpa using this
    rw [hid]
    exact Prod.ext (Nat.add_comm _ _) (Nat.add_comm _ _)
  have hF : collectTotals (listsOf false s).1 resolved = tally (resolved.map (·.2)) := by
    rw [listsOf_fst]
    simp only [collectTotals, Bool.false_eq_true, if_false, singles_groupMulti, List.map_nil, List.nil_append]
  have hu : (listsOf false s).2 = ((s.filter (fun r => countOf s r.readId == 1)).length,
      ((s.filter (fun r => countOf s r.readId == 1)).filter (·.polyA)).length) := by
    simp only [listsOf, Bool.false_eq_true, if_false, prepareMultimapperDict, countIds_map]
  simp only [infoOf, hT, hF, hu]
  rfl

end IsoVerif.Lemmas.C15
