/-
Helper lemmas for C12 (cache clause): dictionary / file-system lookups and the world invariant that is kept by
every operation of a history.
-/
import IsoVerif.Model.GtfCache

namespace IsoVerif.Lemmas.C12
open IsoVerif.Model.C12

theorem lookup_cons_eq {β : Type} (k k' : String) (v : β) (t : List (String × β)) :
    List.lookup k ((k', v) :: t) = if k = k' then some v else List.lookup k t := by
  by_cases h : k = k'
  · subst h; simp [List.lookup]
  · have : (k == k') = false := by simpa using h
    simp [List.lookup, this, h]

theorem lookup_filter_ne {β : Type} (k p : String) (l : List (String × β)) :
    List.lookup k (l.filter (fun kv => decide (kv.1 ≠ p))) = if k = p then none else List.lookup k l := by
  induction l with
  | nil => simp [List.lookup]
  | cons a t ih =>
    obtain ⟨k', v⟩ := a
    by_cases hp : k' = p
    · subst hp
      simp only [List.filter_cons, ne_eq, not_true_eq_false, decide_false, Bool.false_eq_true, if_false]
      rw [ih, lookup_cons_eq]
      by_cases hk : k = k' <;> simp [hk]
    · have : decide (k' ≠ p) = true := by simpa using hp
      simp only [List.filter_cons, this, if_true]
      rw [lookup_cons_eq, lookup_cons_eq, ih]
      by_cases hk : k = k'
      · subst hk; simp [hp]
      · simp [hk]

theorem get_set (c : Cache) (g k : String) (e : CacheEntry) :
    (c.set g e).get k = if k = g then some e else c.get k := by
  induction c with
  | nil =>
    simp only [Cache.set, Cache.get]
    rw [lookup_cons_eq]
  | cons a t ih =>
    obtain ⟨k', e'⟩ := a
    simp only [Cache.get] at ih ⊢
    by_cases h : k' = g
    · subst h
      simp only [Cache.set, if_true]
      rw [lookup_cons_eq, lookup_cons_eq]
      by_cases hk : k = k' <;> simp [hk]
    · simp only [Cache.set, h, if_false]
      rw [lookup_cons_eq, lookup_cons_eq, ih]
      by_cases hk : k = k'
      · subst hk; simp [h]
      · simp [hk]

/-- the world invariant -/
structure Inv (conv : Nat → Bool → Nat) (w : World) : Prop where
  /-- every file is older than the clock -/
  fsBelow : ∀ p f, List.lookup p w.fs = some f → f.mtime < w.clock
  /-- every mtime remembered in the cache is older than the clock -/
  cacheBelow : ∀ k e m, w.cache.get k = some e → (e.gtfMtime = some m ∨ e.dbMtime = some m) → m < w.clock
  /-- a cache entry whose two files still carry the remembered mtimes points to a database that holds the
      conversion of the GTF's current content with the remembered flag -/
  coherent : ∀ g e db c fg fd, w.cache.get g = some e → e.genedb = some db → e.complete = some c →
    List.lookup g w.fs = some fg → List.lookup db w.fs = some fd →
    e.gtfMtime = some fg.mtime → e.dbMtime = some fd.mtime → fd.data = conv fg.data c

theorem inv_write (conv : Nat → Bool → Nat) (w : World) (p : String) (d : Nat) (h : Inv conv w) :
    Inv conv (applyOp conv w (.write p d)) := by
  refine ⟨?_, ?_, ?_⟩
  · intro q f hq
    simp only [applyOp] at hq ⊢
    rw [lookup_cons_eq] at hq
    by_cases hqp : q = p
    · simp [hqp] at hq; subst hq; simp only; omega
    · simp [hqp] at hq
      have := h.fsBelow q f hq
      omega
  · intro k e m hk hm
    simp only [applyOp] at hk ⊢
    have := h.cacheBelow k e m hk hm
    omega
  · intro g e db c fg fd hg hdb hc hfg hfd hm1 hm2
    simp only [applyOp] at hg hfg hfd
    rw [lookup_cons_eq] at hfg hfd
    by_cases h1 : g = p
    · simp [h1] at hfg; subst hfg
      have := h.cacheBelow g e w.clock hg (Or.inl hm1)
      omega
    · by_cases h2 : db = p
      · simp [h2] at hfd; subst hfd
        have := h.cacheBelow g e w.clock hg (Or.inr hm2)
        omega
      · simp [h1] at hfg; simp [h2] at hfd
        exact h.coherent g e db c fg fd hg hdb hc hfg hfd hm1 hm2

theorem inv_remove (conv : Nat → Bool → Nat) (w : World) (p : String) (h : Inv conv w) :
    Inv conv (applyOp conv w (.remove p)) := by
  refine ⟨?_, ?_, ?_⟩
  · intro q f hq
    simp only [applyOp] at hq ⊢
    rw [lookup_filter_ne] at hq
    by_cases hqp : q = p
    · simp [hqp] at hq
    · simp [hqp] at hq; exact h.fsBelow q f hq
  · intro k e m hk hm
    exact h.cacheBelow k e m hk hm
  · intro g e db c fg fd hg hdb hc hfg hfd hm1 hm2
    simp only [applyOp] at hg hfg hfd
    rw [lookup_filter_ne] at hfg hfd
    by_cases h1 : g = p
    · simp [h1] at hfg
    · by_cases h2 : db = p
      · simp [h2] at hfd
      · simp [h1] at hfg; simp [h2] at hfd
        exact h.coherent g e db c fg fd hg hdb hc hfg hfd hm1 hm2

/-- the world after a conversion that was not served from the cache -/
def converted (conv : Nat → Bool → Nat) (w : World) (gtf db : String) (complete : Bool) (g : File) : World :=
  let fs' : FS := (db, { mtime := w.clock, data := conv g.data complete }) :: w.fs
  { fs := fs',
    cache := w.cache.set gtf { genedb := some db, gtfMtime := FS.mtime fs' gtf, dbMtime := FS.mtime fs' db,
                               complete := some complete },
    clock := w.clock + 1 }

theorem inv_converted (conv : Nat → Bool → Nat) (w : World) (gtf db : String) (complete : Bool) (g : File)
    (hne : gtf ≠ db) (hg : List.lookup gtf w.fs = some g) (h : Inv conv w) :
    Inv conv (converted conv w gtf db complete g) := by
  have hmg : FS.mtime ((db, ({ mtime := w.clock, data := conv g.data complete } : File)) :: w.fs) gtf = some g.mtime := by
    simp only [FS.mtime]; rw [lookup_cons_eq]; simp [hne, hg]
  have hmd : FS.mtime ((db, ({ mtime := w.clock, data := conv g.data complete } : File)) :: w.fs) db = some w.clock := by
    simp only [FS.mtime]; rw [lookup_cons_eq]; simp
  have hgb := h.fsBelow gtf g hg
  refine ⟨?_, ?_, ?_⟩
  · intro q f hq
    simp only [converted] at hq ⊢
    rw [lookup_cons_eq] at hq
    by_cases hqd : q = db
    · simp [hqd] at hq; subst hq; simp only; omega
    · simp [hqd] at hq
      have := h.fsBelow q f hq
      omega
  · intro k e m hk hm
    simp only [converted] at hk ⊢
    rw [get_set, hmg, hmd] at hk
    by_cases hkg : k = gtf
    · simp [hkg] at hk; subst hk
      simp only [Option.some.injEq] at hm
      omega
    · simp [hkg] at hk
      have := h.cacheBelow k e m hk hm
      omega
  · intro g' e db' c fg fd hg' hdb hc hfg hfd hm1 hm2
    simp only [converted] at hg' hfg hfd
    rw [get_set, hmg, hmd] at hg'
    rw [lookup_cons_eq] at hfg hfd
    by_cases hkg : g' = gtf
    · subst hkg
      simp at hg'; subst hg'
      simp only [Option.some.injEq] at hdb hc
      subst hdb; subst hc
      simp [hne, hg] at hfg; simp at hfd
      subst hfg; subst hfd; rfl
    · simp [hkg] at hg'
      by_cases h1 : g' = db
      · simp [h1] at hfg; subst hfg
        have := h.cacheBelow g' e w.clock hg' (Or.inl hm1)
        omega
      · by_cases h2 : db' = db
        · simp [h2] at hfd; subst hfd
          have := h.cacheBelow g' e w.clock hg' (Or.inr hm2)
          omega
        · simp [h1] at hfg; simp [h2] at hfd
          exact h.coherent g' e db' c fg fd hg' hdb hc hfg hfd hm1 hm2

theorem convert_cases (conv : Nat → Bool → Nat) (w : World) (gtf db : String) (complete clean : Bool) :
    (∃ d, convertGtf2Db conv w gtf db complete clean = .ok w gtf d ∧ clean = false ∧
        findConvertedDb w.cache w.fs.mtime gtf complete = .hit d) ∨
    (∃ g, List.lookup gtf w.fs = some g ∧
        convertGtf2Db conv w gtf db complete clean = .ok (converted conv w gtf db complete g) gtf db) ∨
    convertGtf2Db conv w gtf db complete clean = .typeError ∨
    convertGtf2Db conv w gtf db complete clean = .convertFailed := by
  unfold convertGtf2Db
  cases clean with
  | true =>
    simp only [if_true]
    cases hg : List.lookup gtf w.fs with
    | none => simp
    | some g => right; left; exact ⟨g, rfl, rfl⟩
  | false =>
    simp only [Bool.false_eq_true, if_false]
    cases hf : findConvertedDb w.cache w.fs.mtime gtf complete with
    | hit d => left; exact ⟨d, rfl, trivial, rfl⟩
    | typeError => simp
    | miss =>
      cases hg : List.lookup gtf w.fs with
      | none => simp
      | some g => right; left; exact ⟨g, rfl, rfl⟩

end IsoVerif.Lemmas.C12
