/-
Helper lemmas for C05 (growth): a file WITHOUT records inserted into the experiment only shifts the file indices
behind it — for the merger (`C12.merge`), both storages, `forward_alignments` and the whole collector.
-/
import IsoVerif.Model.RegionsMulti
import IsoVerif.Lemmas.RegionsMulti

namespace IsoVerif.Lemmas.RegionsMulti
open IsoVerif.Gen IsoVerif.Model IsoVerif.Model.Regions IsoVerif.Model.RegionsMulti IsoVerif.Lemmas.Regions
open List

/-- the list of files with an empty file inserted at position `j` -/
def insEmpty {α : Type} : Nat → List (List α) → List (List α)
  | 0, l => [] :: l
  | _ + 1, [] => [[]]
  | j + 1, f :: fs => f :: insEmpty j fs

/-- the index of a file after the insertion at `j` -/
def shift (j i : Nat) : Nat := if i < j then i else i + 1

def shiftE (j : Nat) (e : C12.Entry) : C12.Entry := (shift j e.1, e.2)
def shiftF (j : Nat) (e : FAln) : FAln := (shift j e.1, e.2)

theorem shift_le_iff (j a b : Nat) : shift j a ≤ shift j b ↔ a ≤ b := by
  unfold shift; split <;> split <;> omega

theorem shift_inj {j a b : Nat} (h : shift j a = shift j b) : a = b := by
  unfold shift at h; split at h <;> split at h <;> omega

theorem shift_succ (j i : Nat) : shift (j + 1) (i + 1) = shift j i + 1 := by
  unfold shift; split <;> split <;> omega

theorem shiftE_inj {j : Nat} {x y : C12.Entry} (h : shiftE j x = shiftE j y) : x = y := by
  obtain ⟨a, u⟩ := x
  obtain ⟨b, v⟩ := y
  simp only [shiftE, Prod.mk.injEq] at h
  rw [shift_inj h.1, h.2]

/-! ### the merger -/

theorem keyLe_shift (j : Nat) (x y : C12.Entry) : C12.keyLe (shiftE j x) (shiftE j y) = C12.keyLe x y := by
  obtain ⟨a, u⟩ := x
  obtain ⟨b, v⟩ := y
  have hd : decide (shift j a ≤ shift j b) = decide (a ≤ b) := decide_eq_decide.2 (shift_le_iff j a b)
  show (decide (u.start < v.start) || (decide (u.start = v.start) &&
      (decide (u.stop < v.stop) || (decide (u.stop = v.stop) && decide (shift j a ≤ shift j b))))) = _
  rw [hd]
  rfl

theorem minEntry_shift (j : Nat) (q : List C12.Entry) :
    C12.minEntry (q.map (shiftE j)) = (C12.minEntry q).map (shiftE j) := by
  induction q with
  | nil => rfl
  | cons x t ih =>
    simp only [List.map_cons, C12.minEntry, ih]
    cases C12.minEntry t with
    | none => rfl
    | some m =>
      simp only [Option.map_some, keyLe_shift]
      split <;> rfl

theorem erase_shift (j : Nat) (q : List C12.Entry) (m : C12.Entry) :
    (q.map (shiftE j)).erase (shiftE j m) = (q.erase m).map (shiftE j) := by
  induction q with
  | nil => rfl
  | cons x t ih =>
    by_cases h : x = m
    · subst h; simp
    · have h' : shiftE j x ≠ shiftE j m := fun e => h (shiftE_inj e)
      have hb : (x == m) = false := by simpa using h
      have hb' : (shiftE j x == shiftE j m) = false := by simpa using h'
      simp only [List.map_cons, List.erase_cons, hb, hb', Bool.false_eq_true, if_false, ih]

theorem getElem?_insEmpty {α : Type} (j : Nat) (its : List (List α)) (hj : j ≤ its.length) (i : Nat) :
    (insEmpty j its)[shift j i]? = its[i]? := by
  induction j generalizing its i with
  | zero => simp [insEmpty, shift]
  | succ j ih =>
    cases its with
    | nil => simp at hj
    | cons f fs =>
      cases i with
      | zero => simp [insEmpty, shift]
      | succ i =>
        rw [shift_succ]
        simp only [insEmpty, List.getElem?_cons_succ]
        exact ih fs (by simpa using hj) i

theorem set_insEmpty {α : Type} (j : Nat) (its : List (List α)) (hj : j ≤ its.length) (i : Nat) (t : List α) :
    (insEmpty j its).set (shift j i) t = insEmpty j (its.set i t) := by
  induction j generalizing its i with
  | zero => simp [insEmpty, shift]
  | succ j ih =>
    cases its with
    | nil => simp at hj
    | cons f fs =>
      cases i with
      | zero => simp [insEmpty, shift]
      | succ i =>
        rw [shift_succ]
        simp only [insEmpty, List.set_cons_succ]
        rw [ih fs (by simpa using hj) i]

def mapState (j : Nat) (s : C12.MState) : C12.MState := ⟨s.queue.map (shiftE j), insEmpty j s.its⟩

theorem advance_shift (j i : Nat) (s : C12.MState) (hj : j ≤ s.its.length) :
    C12.advance (shift j i) (mapState j s) = mapState j (C12.advance i s) := by
  unfold C12.advance
  simp only [mapState]
  rw [getElem?_insEmpty j s.its hj i]
  cases h : s.its[i]? with
  | none => rfl
  | some f =>
    cases f with
    | nil => rfl
    | cons a t =>
      simp only [List.map_cons, shiftE]
      rw [set_insEmpty j s.its hj i t]

theorem advance_its_length (i : Nat) (s : C12.MState) : (C12.advance i s).its.length = s.its.length := by
  unfold C12.advance
  split
  · simp
  · rfl

theorem run_shift (j n : Nat) (s : C12.MState) (hj : j ≤ s.its.length) :
    C12.run n (mapState j s) = (C12.run n s).map (shiftE j) := by
  induction n generalizing s with
  | zero => rfl
  | succ n ih =>
    simp only [C12.run]
    have hq : (mapState j s).queue = s.queue.map (shiftE j) := rfl
    rw [hq, minEntry_shift]
    cases hm : C12.minEntry s.queue with
    | none => rfl
    | some m =>
      simp only [Option.map_some, List.map_cons]
      have hstep : C12.advance (shiftE j m).1
            { queue := (s.queue.map (shiftE j)).erase (shiftE j m), its := (mapState j s).its } =
          mapState j (C12.advance m.1 { queue := s.queue.erase m, its := s.its }) := by
        rw [erase_shift]
        exact advance_shift j m.1 ⟨s.queue.erase m, s.its⟩ hj
      rw [hstep, ih _ (by rw [advance_its_length]; exact hj)]

theorem initGo_succ (k : Nat) (files : List (List C12.Aln)) :
    C12.initGo (k + 1) files = ((C12.initGo k files).1.map (fun e => (e.1 + 1, e.2)), (C12.initGo k files).2) := by
  induction files generalizing k with
  | nil => rfl
  | cons f fs ih =>
    cases f with
    | nil => simp only [C12.initGo, ih (k + 1)]
    | cons a t => simp only [C12.initGo, ih (k + 1), List.map_cons]

/-- entries with index `≥ k + j` move up by one -/
def shiftEk (k j : Nat) (e : C12.Entry) : C12.Entry := (if e.1 < k + j then e.1 else e.1 + 1, e.2)

theorem initGo_insEmpty (j k : Nat) (files : List (List C12.Aln)) (hj : j ≤ files.length) :
    C12.initGo k (insEmpty j files) =
      ((C12.initGo k files).1.map (shiftEk k j), insEmpty j (C12.initGo k files).2) := by
  induction j generalizing k files with
  | zero =>
    simp only [insEmpty, C12.initGo, initGo_succ]
    congr 1
    apply List.map_congr_left
    intro e he
    have := Lemmas.C12.initGo_index_ge k files e he
    simp only [shiftEk, Nat.add_zero]
    rw [if_neg (by omega)]
  | succ j ih =>
    cases files with
    | nil => simp at hj
    | cons f fs =>
      have hj' : j ≤ fs.length := by simp only [List.length_cons] at hj; omega
      have hk : ∀ e : C12.Entry, shiftEk (k + 1) j e = shiftEk k (j + 1) e := by
        intro e
        have hkj : k + 1 + j = k + (j + 1) := by omega
        simp only [shiftEk, hkj]
      cases f with
      | nil =>
        simp only [insEmpty, C12.initGo, ih (k + 1) fs hj']
        congr 1
        exact List.map_congr_left (fun e _ => hk e)
      | cons a t =>
        simp only [insEmpty, C12.initGo, ih (k + 1) fs hj', List.map_cons]
        congr 1
        congr 1
        · simp only [shiftEk]; rw [if_pos (by omega)]
        · exact List.map_congr_left (fun e _ => hk e)

theorem initGo_its_length (k : Nat) (files : List (List C12.Aln)) : (C12.initGo k files).2.length = files.length := by
  induction files generalizing k with
  | nil => rfl
  | cons f fs ih => cases f <;> simp [C12.initGo, ih]

theorem flatten_insEmpty {α : Type} (j : Nat) (files : List (List α)) : (insEmpty j files).flatten = files.flatten := by
  induction j generalizing files with
  | zero => simp [insEmpty]
  | succ j ih =>
    cases files with
    | nil => simp [insEmpty]
    | cons f fs => simp [insEmpty, ih]

/-- **the merger ignores an empty file**: same stream, indices behind the insertion shifted -/
theorem merge_insEmpty (j : Nat) (files : List (List C12.Aln)) (hj : j ≤ files.length) :
    C12.merge (insEmpty j files) = (C12.merge files).map (shiftE j) := by
  unfold C12.merge
  rw [flatten_insEmpty]
  have hinit : C12.initState (insEmpty j files) = mapState j (C12.initState files) := by
    simp only [C12.initState, mapState, initGo_insEmpty j 0 files hj]
    congr 1
    apply List.map_congr_left
    intro e _
    simp only [shiftEk, shiftE, shift, Nat.zero_add]
  rw [hinit]
  exact run_shift j _ _ (by simp only [C12.initState]; rw [initGo_its_length]; exact hj)

/-! ### the streams, the storages, `forward_alignments`, the collector -/

theorem map_insEmpty {α β : Type} (g : List α → List β) (hg : g [] = []) (j : Nat) (files : List (List α)) :
    (insEmpty j files).map g = insEmpty j (files.map g) := by
  induction j generalizing files with
  | zero => simp [insEmpty, hg]
  | succ j ih =>
    cases files with
    | nil => simp [insEmpty, hg]
    | cons f fs => simp [insEmpty, ih]

theorem regionStream_insEmpty (rest : Nat → Aln) (files : List (List C12.Aln)) (r : Iv) (j : Nat)
    (hj : j ≤ files.length) :
    regionStream rest (insEmpty j files) r = (regionStream rest files r).map (shiftF j) := by
  unfold regionStream
  rw [map_insEmpty (C12.fetch r) rfl, merge_insEmpty j _ (by simpa using hj), List.map_map, List.map_map]
  rfl

/-- a storage with relabelled pairs -/
def relabel (j : Nat) (ms : MStore) : MStore := ⟨ms.base, ms.pairs.map (shiftF j)⟩

def relSt (j : Nat) (st : MPState) : MPState := ⟨relabel j st.store, st.out.map (relabel j), st.stats⟩

theorem step_relabel (j : Nat) (st : MPState) (e : FAln) :
    mProcessStep (relSt j st) (shiftF j e) = relSt j (mProcessStep st e) := by
  unfold mProcessStep relSt
  by_cases h : notAdjacent st.store.base.region e.2 = true
  · simp [h, relabel, MStore.add, MStore.empty, shiftF]
  · simp [h, relabel, MStore.add, shiftF]

theorem foldl_relabel (j : Nat) (l : List FAln) (st : MPState) :
    (l.map (shiftF j)).foldl mProcessStep (relSt j st) = relSt j (l.foldl mProcessStep st) := by
  induction l generalizing st with
  | nil => rfl
  | cons e l ih => simp only [List.map_cons, List.foldl_cons, step_relabel, ih]

theorem relSt_init (j : Nat) : relSt j MPState.init = MPState.init := rfl

theorem stores_relabel (j : Nat) (l : List FAln) :
    mProcessStores (l.map (shiftF j)) = (mProcessStores l).map (relabel j) := by
  have hf := foldl_relabel j l MPState.init
  rw [relSt_init] at hf
  unfold mProcessStores
  rw [hf]
  generalize l.foldl mProcessStep MPState.init = st
  unfold mProcessFinish relSt
  by_cases h : st.store.base.region.isSome = true
  · simp [h, relabel]
  · simp [h, relabel]

theorem stats_relabel (j : Nat) (l : List FAln) : mProcessStats (l.map (shiftF j)) = mProcessStats l := by
  have hf := foldl_relabel j l MPState.init
  rw [relSt_init] at hf
  unfold mProcessStats
  rw [hf]
  rfl

theorem filter_shiftF (j : Nat) (p : Aln → Bool) (l : List FAln) :
    (l.map (shiftF j)).filter (fun e => p e.2) = (l.filter (fun e => p e.2)).map (shiftF j) := by
  rw [List.filter_map]; rfl

theorem memGet_relabel (j : Nat) (ms : MStore) (r : Option Iv) :
    (relabel j ms).memGet r = (ms.memGet r).map (List.map (shiftF j)) := by
  unfold MStore.memGet
  cases r with
  | none => rfl
  | some r =>
    simp only [relabel]
    by_cases heq : some r = ms.base.region
    · simp [heq]
    · simp only [heq, if_false]
      cases ms.base.fillIndex with
      | none => rfl
      | some s' =>
        simp only
        cases s'.endIdx.get (bin r.1) with
        | none => rfl
        | some si =>
          cases s'.startIdx.get (bin r.2 + 1) with
          | none => rfl
          | some ei =>
            simp only [List.length_map]
            by_cases hle : ei ≤ ms.pairs.length
            · simp only [hle, if_true, Option.map_some]
              rw [← List.map_take, ← List.map_drop, filter_shiftF j (fun a => overlaps r a.iv)]
            · simp [hle]

def relOut (j : Nat) (out : List (Iv × List FAln)) : List (Iv × List FAln) :=
  out.map (fun p => (p.1, p.2.map (shiftF j)))

theorem getAlignmentsM_relabel (m : Mode) (rest : Nat → Aln) (files : List (List C12.Aln)) (j : Nat)
    (hj : j ≤ files.length) (ms : MStore) (r : Option Iv) :
    getAlignmentsM m rest (insEmpty j files) (relabel j ms) r =
      (getAlignmentsM m rest files ms r).map (List.map (shiftF j)) := by
  cases m with
  | memory => exact memGet_relabel j ms r
  | bam =>
    simp only [getAlignmentsM, relabel]
    cases r with
    | none =>
      cases ms.base.region with
      | none => rfl
      | some R => simp only [Option.map_some, regionStream_insEmpty rest files R j hj]
    | some r' => simp only [Option.map_some, regionStream_insEmpty rest files r' j hj]

theorem mapRegionsM_relabel (j : Nat) (get : Iv → Option (List FAln)) (regs : List Iv) :
    mapRegionsM (fun r => (get r).map (List.map (shiftF j))) regs = (mapRegionsM get regs).map (relOut j) := by
  induction regs with
  | nil => rfl
  | cons r rs ih =>
    simp only [mapRegionsM, ih]
    cases get r with
    | none => rfl
    | some x =>
      cases mapRegionsM get rs with
      | none => rfl
      | some xs => rfl

theorem forwardM_relabel (m : Mode) (rest : Nat → Aln) (files : List (List C12.Aln)) (j : Nat)
    (hj : j ≤ files.length) (ms : MStore) :
    forwardM m rest (insEmpty j files) (relabel j ms) = (forwardM m rest files ms).map (relOut j) := by
  unfold forwardM
  have hb : (relabel j ms).base = ms.base := rfl
  rw [hb]
  cases ms.base.region with
  | none => rfl
  | some R =>
    simp only
    cases splitCoverageRegions R ms.base.alns.length ms.base.cov with
    | none => rfl
    | some regs =>
      match regs with
      | [] => rfl
      | [r0] =>
        simp only [getAlignmentsM_relabel m rest files j hj, Option.map_map]
        rfl
      | r0 :: r1 :: rs =>
        simp only [getAlignmentsM_relabel m rest files j hj]
        exact mapRegionsM_relabel j (fun r => getAlignmentsM m rest files ms (some r)) (r0 :: r1 :: rs)

theorem collectStoresM_relabel (j : Nat) (f f' : MStore → Option (List (Iv × List FAln)))
    (h : ∀ ms, f' (relabel j ms) = (f ms).map (relOut j)) (ss : List MStore) :
    collectStoresM f' (ss.map (relabel j)) = (collectStoresM f ss).map (relOut j) := by
  induction ss with
  | nil => rfl
  | cons s ss ih =>
    simp only [List.map_cons, collectStoresM, h, ih]
    cases f s with
    | none => rfl
    | some x =>
      cases collectStoresM f ss with
      | none => rfl
      | some xs => simp [relOut]

theorem collectM_insEmpty (m : Mode) (rest : Nat → Aln) (files : List (List C12.Aln)) (L : Int) (j : Nat)
    (hj : j ≤ files.length) :
    collectM m rest (insEmpty j files) L =
      (collectM m rest files L).map (fun out => out.map (fun p => (p.1, p.2.map (shiftF j)))) := by
  unfold collectM scanStream
  rw [regionStream_insEmpty rest files (0, L) j hj, stores_relabel]
  exact collectStoresM_relabel j _ _ (forwardM_relabel m rest files j hj) _

theorem chromStats_insEmpty (rest : Nat → Aln) (files : List (List C12.Aln)) (L : Int) (j : Nat)
    (hj : j ≤ files.length) : chromStats rest (insEmpty j files) L = chromStats rest files L := by
  unfold chromStats scanStream
  rw [regionStream_insEmpty rest files (0, L) j hj, stats_relabel]

end IsoVerif.Lemmas.RegionsMulti
