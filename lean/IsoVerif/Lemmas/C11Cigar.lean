/-
C11 helper lemmas — Model/Cigar.lean (C16): translation of the reference start and reversal of the CIGAR.

The exon list / read-block list of the specification are instances of one scheme (`genSpec len s`): a segment
`(pre, seg)` with an aligned base yields the block `(s + 1 + len pre, s + len pre + len seg)` for an additive length
function `len` (`refLen` with `s = reference_start`, `queryLen` with `s = -1`).  Both equivariance facts are proved once
for the scheme:
   genSpec len (s + k) ops            = shiftL k (genSpec len s ops)
   genSpec len (L - s - len ops) ops.reverse = mirrorL L (genSpec len s ops)      (len additive, reversal invariant)
-/
import IsoVerif.Model.Cigar
import IsoVerif.Model.C11Symmetry
import IsoVerif.Lemmas.Cigar
import IsoVerif.Lemmas.C11Shift
import IsoVerif.Lemmas.C11Mirror

namespace IsoVerif.Lemmas.C11
open IsoVerif.Gen IsoVerif.Model IsoVerif.Model.C11 IsoVerif.Model.C16 IsoVerif.Lemmas.C16

/-! ## the block scheme -/

/-- block of one segment for the length function `len` -/
def genOf (len : List CigarOp → Int) (s : Int) (c : List CigarOp × List CigarOp) : Option Iv :=
  if hasAligned c.2 then some (s + 1 + len c.1, s + len c.1 + len c.2) else none

def genSpec (len : List CigarOp → Int) (s : Int) (ops : List CigarOp) : List Iv := (cuts ops).filterMap (genOf len s)

theorem exonsSpec_eq_gen (s : Int) (ops : List CigarOp) : exonsSpec s ops = genSpec refLen s ops := rfl

theorem queryBlocksSpec_eq_gen (ops : List CigarOp) : queryBlocksSpec ops = genSpec queryLen (-1) ops := by
  unfold queryBlocksSpec genSpec
  congr 1
  funext c
  simp only [queryBlockOf, genOf]
  split
  · congr 1; ext <;> simp <;> omega
  · rfl

/-! ## translation -/

theorem genOf_shift (len : List CigarOp → Int) (s k : Int) (c : List CigarOp × List CigarOp) :
    genOf len (s + k) c = (genOf len s c).map (shiftIv k) := by
  simp only [genOf]
  split
  · simp only [Option.map_some, shiftIv]; congr 1; ext <;> simp <;> omega
  · rfl

theorem filterMap_map_comm {α β γ} (f : α → Option β) (g : β → γ) (l : List α) :
    l.filterMap (fun a => (f a).map g) = (l.filterMap f).map g := by
  induction l with
  | nil => rfl
  | cons a t ih =>
    simp only [List.filterMap_cons]
    cases f a <;> simp [ih]

theorem genSpec_shift (len : List CigarOp → Int) (s k : Int) (ops : List CigarOp) :
    genSpec len (s + k) ops = shiftL k (genSpec len s ops) := by
  unfold genSpec shiftL
  rw [← filterMap_map_comm]
  congr 1
  funext c
  exact genOf_shift len s k c

/-! ## structure of `cuts` -/

/-- moving a prefix out of `cutsAux` -/
theorem cutsAux_prefix (P : List CigarOp) : ∀ (rest P' S : List CigarOp),
    cutsAux (P ++ P') S rest = (cutsAux P' S rest).map (fun c => (P ++ c.1, c.2)) := by
  intro rest
  induction rest with
  | nil => intro P' S; simp [cutsAux]
  | cons op rest ih =>
    intro P' S
    simp only [cutsAux]
    split
    · have := ih (P' ++ S ++ [op]) []
      simp only [List.map_cons, ← List.append_assoc] at this ⊢
      rw [this]
    · exact ih P' (S ++ [op])

theorem cuts_sepfree (seg : List CigarOp) (h : SepFree seg) : cuts seg = [([], seg)] := by
  have := cutsAux_append_sepfree seg [] [] [] h
  simp only [List.append_nil, List.nil_append] at this
  simp [cuts, this, cutsAux]

/-- first separator: the first segment, then the cuts of the rest behind the prefix `seg ++ [sep]` -/
theorem cuts_first (seg rest : List CigarOp) (sep : CigarOp) (h : SepFree seg) (hs : isSep sep.1 = true) :
    cuts (seg ++ sep :: rest) = ([], seg) :: (cuts rest).map (fun c => ((seg ++ [sep]) ++ c.1, c.2)) := by
  have h1 := cutsAux_append_sepfree seg [] [] (sep :: rest) h
  simp only [List.nil_append] at h1
  unfold cuts
  rw [h1]
  simp only [cutsAux, hs, if_true, List.nil_append]
  have := cutsAux_prefix (seg ++ [sep]) rest [] []
  simp only [List.append_nil] at this
  rw [this]

/-- last separator: the cuts of what precedes it, then the last segment -/
theorem cutsAux_last (seg : List CigarOp) (sep : CigarOp) (h : SepFree seg) (hs : isSep sep.1 = true) :
    ∀ (rest P S : List CigarOp),
      cutsAux P S (rest ++ sep :: seg) = cutsAux P S rest ++ [(P ++ S ++ rest ++ [sep], seg)] := by
  intro rest
  induction rest with
  | nil =>
    intro P S
    have h1 := cutsAux_append_sepfree seg (P ++ S ++ [sep]) [] [] h
    simp only [List.append_nil, List.nil_append] at h1
    simp only [List.nil_append, cutsAux, hs, if_true, h1]
    simp
  | cons op rest ih =>
    intro P S
    simp only [List.cons_append, cutsAux]
    split
    · rw [ih]; simp
    · rw [ih]; simp

theorem cuts_last (rest seg : List CigarOp) (sep : CigarOp) (h : SepFree seg) (hs : isSep sep.1 = true) :
    cuts (rest ++ sep :: seg) = cuts rest ++ [(rest ++ [sep], seg)] := by
  have := cutsAux_last seg sep h hs rest [] []
  simpa [cuts] using this

/-- every CIGAR is separator-free or splits at its first separator -/
theorem sepfree_or_split (ops : List CigarOp) :
    SepFree ops ∨ ∃ seg sep rest, ops = seg ++ sep :: rest ∧ SepFree seg ∧ isSep sep.1 = true := by
  induction ops with
  | nil => left; intro o ho; cases ho
  | cons o t ih =>
    cases ho : isSep o.1 with
    | true => right; exact ⟨[], o, t, rfl, (by intro x hx; cases hx), ho⟩
    | false =>
      rcases ih with h | ⟨seg, sep, rest, h1, h2, h3⟩
      · left; intro x hx
        rcases List.mem_cons.1 hx with rfl | hx
        · exact ho
        · exact h x hx
      · right
        refine ⟨o :: seg, sep, rest, by rw [h1]; rfl, ?_, h3⟩
        intro x hx
        rcases List.mem_cons.1 hx with rfl | hx
        · exact ho
        · exact h2 x hx

theorem SepFree_reverse {seg : List CigarOp} (h : SepFree seg) : SepFree seg.reverse :=
  fun o ho => h o (List.mem_reverse.1 ho)

theorem hasAligned_reverse (seg : List CigarOp) : hasAligned seg.reverse = hasAligned seg := by
  simp [hasAligned]

/-! ## reversal -/

/-- an additive, reversal-invariant length function (`refLen`, `queryLen`) -/
structure LenFn (len : List CigarOp → Int) : Prop where
  nil : len [] = 0
  append : ∀ a b, len (a ++ b) = len a + len b
  reverse : ∀ a, len a.reverse = len a

theorem genSpec_sepfree (len : List CigarOp → Int) (hl : LenFn len) (s : Int) (seg : List CigarOp) (h : SepFree seg) :
    genSpec len s seg = if hasAligned seg then [(s + 1, s + len seg)] else [] := by
  by_cases ha : hasAligned seg = true <;>
    simp [genSpec, cuts_sepfree seg h, genOf, hl.nil, ha]

theorem genSpec_first (len : List CigarOp → Int) (hl : LenFn len) (s : Int) (seg rest : List CigarOp) (sep : CigarOp)
    (h : SepFree seg) (hs : isSep sep.1 = true) :
    genSpec len s (seg ++ sep :: rest) =
      genSpec len s seg ++ genSpec len (s + len (seg ++ [sep])) rest := by
  rw [genSpec_sepfree len hl s seg h]
  simp only [genSpec, cuts_first seg rest sep h hs, List.filterMap_cons, List.filterMap_map]
  have hrest : (cuts rest).filterMap (genOf len s ∘ fun c => ((seg ++ [sep]) ++ c.1, c.2)) =
      (cuts rest).filterMap (genOf len (s + len (seg ++ [sep]))) := by
    congr 1
    funext c
    simp only [Function.comp, genOf, hl.append]
    split
    · congr 1; ext <;> simp <;> omega
    · rfl
  rw [hrest]
  by_cases ha : hasAligned seg = true <;> simp [genOf, hl.nil, ha]

theorem genSpec_last (len : List CigarOp → Int) (hl : LenFn len) (s : Int) (rest seg : List CigarOp) (sep : CigarOp)
    (h : SepFree seg) (hs : isSep sep.1 = true) :
    genSpec len s (rest ++ sep :: seg) =
      genSpec len s rest ++ genSpec len (s + len (rest ++ [sep])) seg := by
  rw [genSpec_sepfree len hl _ seg h]
  by_cases ha : hasAligned seg = true
  · simp only [genSpec, cuts_last rest seg sep h hs, List.filterMap_append, List.filterMap_cons, List.filterMap_nil,
      genOf, ha, if_true]
    have : s + 1 + len (rest ++ [sep]) = s + len (rest ++ [sep]) + 1 := by omega
    rw [this]
  · simp [genSpec, cuts_last rest seg sep h hs, genOf, ha]

theorem genSpec_reverse_aux (len : List CigarOp → Int) (hl : LenFn len) (L : Int) :
    ∀ (n : Nat) (ops : List CigarOp), ops.length ≤ n → ∀ s : Int,
      genSpec len (L - s - len ops) ops.reverse = mirrorL L (genSpec len s ops) := by
  intro n
  induction n with
  | zero =>
    intro ops hn s
    have : ops = [] := List.eq_nil_of_length_eq_zero (by omega)
    subst this
    have hsf : SepFree ([] : List CigarOp) := by intro o ho; cases ho
    simp [genSpec_sepfree len hl _ [] hsf, hasAligned_nil, mirrorL]
  | succ n ih =>
    intro ops hn s
    rcases sepfree_or_split ops with h | ⟨seg, sep, rest, rfl, h2, h3⟩
    · rw [genSpec_sepfree len hl _ _ (SepFree_reverse h), genSpec_sepfree len hl _ _ h, hasAligned_reverse, hl.reverse]
      split
      · simp only [mirrorL_singleton, mirrorIv]
        have e1 : L - s - len ops + 1 = L + 1 - (s + len ops) := by omega
        have e2 : L - s - len ops + len ops = L + 1 - (s + 1) := by omega
        rw [e1, e2]
      · rfl
    · have hrev : (seg ++ sep :: rest).reverse = rest.reverse ++ sep :: seg.reverse := by simp
      rw [hrev, genSpec_last len hl _ _ _ _ (SepFree_reverse h2) h3, genSpec_first len hl s seg rest sep h2 h3,
        mirrorL_append]
      have hlen : rest.length ≤ n := by simp at hn; omega
      have e1 := ih rest hlen (s + len (seg ++ [sep]))
      have hA : len (seg ++ sep :: rest) = len seg + len [sep] + len rest := by
        have : seg ++ sep :: rest = seg ++ ([sep] ++ rest) := by simp
        rw [this, hl.append, hl.append]; omega
      have hB : len (rest.reverse ++ [sep]) = len rest + len [sep] := by rw [hl.append, hl.reverse]
      have hC : len (seg ++ [sep]) = len seg + len [sep] := hl.append _ _
      have s1 : L - s - len (seg ++ sep :: rest) = L - (s + len (seg ++ [sep])) - len rest := by omega
      rw [s1, e1]
      congr 1
      -- the first segment becomes the last one
      have e2 := ih seg (by simp at hn; omega) s
      rw [genSpec_sepfree len hl _ _ (SepFree_reverse h2), hasAligned_reverse, hl.reverse] at e2 ⊢
      rw [← e2]
      have s2 : L - (s + len (seg ++ [sep])) - len rest + len (rest.reverse ++ [sep]) = L - s - len seg := by omega
      rw [s2]

theorem genSpec_reverse (len : List CigarOp → Int) (hl : LenFn len) (L s : Int) (ops : List CigarOp) :
    genSpec len (L - s - len ops) ops.reverse = mirrorL L (genSpec len s ops) :=
  genSpec_reverse_aux len hl L ops.length ops (Nat.le_refl _) s

theorem refLen_reverse (l : List CigarOp) : refLen l.reverse = refLen l := by
  induction l with
  | nil => rfl
  | cons o t ih => rw [List.reverse_cons, refLen_append, ih, refLen_cons, refLen_cons, refLen_nil]; omega

theorem queryLen_reverse (l : List CigarOp) : queryLen l.reverse = queryLen l := by
  induction l with
  | nil => rfl
  | cons o t ih => rw [List.reverse_cons, queryLen_append, ih, queryLen_cons, queryLen_cons, queryLen_nil]; omega

theorem lenFn_refLen : LenFn refLen := ⟨refLen_nil, refLen_append, refLen_reverse⟩
theorem lenFn_queryLen : LenFn queryLen := ⟨queryLen_nil, queryLen_append, queryLen_reverse⟩

theorem NonNeg_reverse {l : List CigarOp} (h : NonNeg l) : NonNeg l.reverse :=
  fun o ho => h o (List.mem_reverse.1 ho)

end IsoVerif.Lemmas.C11
