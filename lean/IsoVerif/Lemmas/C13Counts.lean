/-
Helper lemmas for C13: association-list counters, the `add_read_info_from_profile` loop, counter invariants.
Core Lean only.
-/
import IsoVerif.Model.FeatureCounts

namespace IsoVerif.Lemmas.C13
open IsoVerif.Model IsoVerif.Model.C13

/-! ### association lists -/
section assoc
variable {α : Type} [BEq α] [LawfulBEq α]
set_option linter.unusedSectionVars false

theorem getCount_cons (b : α) (n : Nat) (m : List (α × Nat)) (a : α) :
    getCount ((b, n) :: m) a = if a == b then n else getCount m a := by
  simp only [getCount, List.lookup_cons]
  cases h : (a == b) <;> simp

theorem getCount_incr (m : List (α × Nat)) (a b : α) :
    getCount (incr m a) b = getCount m b + (if b == a then 1 else 0) := by
  induction m with
  | nil =>
    simp only [incr, getCount_cons]
    cases h : (b == a) <;> simp [getCount]
  | cons p m ih =>
    obtain ⟨c, n⟩ := p
    simp only [incr]
    by_cases hac : a == c
    · have hac' : a = c := by simpa using hac
      subst hac'
      simp only [BEq.rfl, if_true, getCount_cons]
      by_cases hb : b == a <;> simp [hb]
    · rw [if_neg hac]
      simp only [getCount_cons, ih]
      by_cases hb : b == c
      · have : b = c := by simpa using hb
        subst this
        have : (b == a) = false := by
          cases h : (b == a)
          · rfl
          · have : b = a := by simpa using h
            subst this; simp at hac
        simp [this]
      · simp [hb]

theorem lookup_append_single {β : Type} (l : List (α × β)) (a b : α) (v : β) :
    (l ++ [(b, v)]).lookup a = match l.lookup a with | some x => some x | none => if a == b then some v else none := by
  induction l with
  | nil => simp [List.lookup]; cases (a == b) <;> rfl
  | cons p l ih =>
    obtain ⟨c, w⟩ := p
    simp only [List.cons_append, List.lookup_cons]
    cases h : (a == c) <;> simp [ih]

theorem lookup_some_mem {β : Type} (l : List (α × β)) (a : α) (v : β) (h : l.lookup a = some v) : (a, v) ∈ l := by
  induction l with
  | nil => simp [List.lookup] at h
  | cons p l ih =>
    obtain ⟨c, w⟩ := p
    simp only [List.lookup_cons] at h
    cases hc : (a == c) <;> simp [hc] at h
    · exact List.mem_cons_of_mem _ (ih h)
    · have : a = c := by simpa using hc
      subst this; subst h; simp

theorem lookup_of_mem_nodup {β : Type} (l : List (α × β)) (a : α) (v : β) (h : (a, v) ∈ l) (hnd : (l.map (·.1)).Nodup) :
    l.lookup a = some v := by
  induction l with
  | nil => simp at h
  | cons p rest ih =>
    obtain ⟨b, w⟩ := p
    simp only [List.map_cons, List.nodup_cons] at hnd
    rcases List.mem_cons.mp h with e | e
    · simp only [Prod.mk.injEq] at e
      obtain ⟨e1, e2⟩ := e
      subst e1; subst e2
      simp [List.lookup]
    · have hne : a ≠ b := by
        intro e'; subst e'
        exact hnd.1 (List.mem_map.mpr ⟨(a, v), e, rfl⟩)
      have : (a == b) = false := by simpa using hne
      simp only [List.lookup_cons, this]
      exact ih e hnd.2

theorem lookup_none_iff {β : Type} (l : List (α × β)) (a : α) : l.lookup a = none ↔ a ∉ l.map (·.1) := by
  induction l with
  | nil => simp [List.lookup]
  | cons p l ih =>
    obtain ⟨c, w⟩ := p
    simp only [List.lookup_cons, List.map_cons, List.mem_cons, not_or]
    cases hc : (a == c)
    · have : a ≠ c := by intro e; subst e; simp at hc
      simp [ih, this]
    · have : a = c := by simpa using hc
      simp [this]

end assoc

/-! ### the profile loop -/
section loop
variable {κ : Type} [BEq κ] [LawfulBEq κ] {upd : FeatureInfo → FeatureInfo → FeatureInfo}
set_option linter.unusedSectionVars false

/-- number of positions `i` with `profile[i] = v` whose feature `pmap[i]` has key `k` -/
def hits (key : FeatureInfo → κ) (v : Int) (k : κ) (prof : List Int) (pm : List FeatureInfo) : Nat :=
  (prof.zip pm).countP (fun p => p.1 == v && key p.2 == k)

theorem hits_nil_left (key : FeatureInfo → κ) (v : Int) (k : κ) (pm : List FeatureInfo) : hits key v k [] pm = 0 := by
  simp [hits]

theorem hits_nil_right (key : FeatureInfo → κ) (v : Int) (k : κ) (prof : List Int) : hits key v k prof [] = 0 := by
  simp [hits]

theorem hits_cons_cons (key : FeatureInfo → κ) (v : Int) (k : κ) (x : Int) (xs : List Int) (f : FeatureInfo) (fs : List FeatureInfo) :
    hits key v k (x :: xs) (f :: fs) = hits key v k xs fs + (if x = v ∧ key f == k then 1 else 0) := by
  simp only [hits, List.zip_cons_cons, List.countP_cons]
  congr 1
  by_cases h1 : x = v <;> by_cases h2 : key f == k <;> simp [h1, h2]

theorem hits_skip (key : FeatureInfo → κ) (v : Int) (k : κ) (x : Int) (xs : List Int) (pm : List FeatureInfo) (h : x ≠ v) :
    hits key v k (x :: xs) pm = hits key v k xs pm.tail := by
  cases pm with
  | nil => simp [hits]
  | cons f fs => simp [hits_cons_cons, h]

theorem getCount_incr_pair (m : List ((κ × Nat) × Nat)) (a : κ) (gid : Nat) (k : κ) (n : Nat) :
    getCount (incr m (a, gid)) (k, n) = getCount m (k, n) + (if n = gid ∧ a == k then 1 else 0) := by
  rw [getCount_incr]
  congr 1
  by_cases h1 : n = gid <;> by_cases h2 : a == k
  · have : a = k := by simpa using h2
    simp [h1, this]
  · have : ¬ a = k := by simpa using h2
    have : ¬ k = a := fun e => this e.symm
    simp [h1, h2, this]
  · simp [h1]
  · simp [h1]

/-- effect of a successful run of the loop on the counters; the group table is untouched -/
theorem addLoop_counts (key : FeatureInfo → κ) (gid : Nat) (prof : List Int) :
    ∀ (pm : List FeatureInfo) (st st' : PCounter κ), addLoop key upd gid prof pm st = some st' →
      st'.groupIds = st.groupIds ∧ st'.nextGroup = st.nextGroup ∧
      (∀ k n, getCount st'.incl (k, n) = getCount st.incl (k, n) + (if n = gid then hits key 1 k prof pm else 0)) ∧
      (∀ k n, getCount st'.excl (k, n) = getCount st.excl (k, n) + (if n = gid then hits key (-1) k prof pm else 0)) := by
  induction prof with
  | nil => intro pm st st' h; simp [addLoop] at h; subst h; simp [hits_nil_left]
  | cons v vs ih =>
    intro pm st st' h
    unfold addLoop at h
    by_cases h1 : v = 1
    · simp only [h1, if_true] at h
      cases pm with
      | nil => simp at h
      | cons fi rest =>
        simp only at h
        obtain ⟨hg, hn, hi, he⟩ := ih rest _ st' h
        simp only at hg hn hi he
        refine ⟨hg, hn, ?_, ?_⟩
        · intro k n
          rw [hi k n, h1, hits_cons_cons, getCount_incr_pair]
          by_cases hn' : n = gid <;> by_cases hk : key fi == k <;> simp [hn', hk] <;> omega
        · intro k n
          rw [he k n, h1, hits_cons_cons]
          simp
    · simp only [h1, if_false] at h
      by_cases h2 : v = -1
      · simp only [h2, if_true] at h
        cases pm with
        | nil => simp at h
        | cons fi rest =>
          simp only at h
          obtain ⟨hg, hn, hi, he⟩ := ih rest _ st' h
          simp only at hg hn hi he
          refine ⟨hg, hn, ?_, ?_⟩
          · intro k n
            rw [hi k n, h2, hits_cons_cons]
            simp
          · intro k n
            rw [he k n, h2, hits_cons_cons, getCount_incr_pair]
            by_cases hn' : n = gid <;> by_cases hk : key fi == k <;> simp [hn', hk] <;> omega
      · simp only [h2, if_false] at h
        obtain ⟨hg, hn, hi, he⟩ := ih pm.tail st st' h
        refine ⟨hg, hn, ?_, ?_⟩
        · intro k n; rw [hi k n, hits_skip key 1 k v vs pm h1]
        · intro k n; rw [he k n, hits_skip key (-1) k v vs pm h2]

/-! ### the name table -/

theorem addName_keys (names : List (κ × FeatureInfo)) (k : κ) (fi : FeatureInfo) :
    (addName upd names k fi).map (·.1) = if k ∈ names.map (·.1) then names.map (·.1) else names.map (·.1) ++ [k] := by
  induction names with
  | nil => simp [addName]
  | cons p rest ih =>
    obtain ⟨k', f'⟩ := p
    unfold addName
    by_cases h : k == k'
    · have e : k = k' := by simpa using h
      subst e; simp
    · have hne : k ≠ k' := by simpa using h
      simp only [h, Bool.false_eq_true, if_false, List.map_cons, ih]
      by_cases hm : k ∈ rest.map (·.1)
      · simp [hm]
      · simp [hm, hne]

theorem addName_key_mem (names : List (κ × FeatureInfo)) (k : κ) (fi : FeatureInfo) :
    k ∈ (addName upd names k fi).map (·.1) := by
  rw [addName_keys]; split
  · assumption
  · simp

theorem addName_keys_old (names : List (κ × FeatureInfo)) (k : κ) (fi : FeatureInfo) (k' : κ)
    (h : k' ∈ names.map (·.1)) : k' ∈ (addName upd names k fi).map (·.1) := by
  rw [addName_keys]; split
  · exact h
  · exact List.mem_append_left _ h

theorem addName_nodup (names : List (κ × FeatureInfo)) (k : κ) (fi : FeatureInfo)
    (h : (names.map (·.1)).Nodup) : ((addName upd names k fi).map (·.1)).Nodup := by
  rw [addName_keys]; split
  · exact h
  · rename_i hk
    rw [List.nodup_append]
    refine ⟨h, by simp, ?_⟩
    intro a ha b hb
    simp at hb
    subst hb
    intro e; subst e; exact hk ha

theorem addName_keys_prefix (names : List (κ × FeatureInfo)) (k : κ) (fi : FeatureInfo) :
    names.map (·.1) <+: (addName upd names k fi).map (·.1) := by
  rw [addName_keys]; split
  · exact List.prefix_refl _
  · exact List.prefix_append _ _

/-- every stored description has the key it is stored under, provided `upd` does not change the key -/
theorem addName_names_key (key : FeatureInfo → κ) (hupd : ∀ a b, key (upd a b) = key a)
    (names : List (κ × FeatureInfo)) (fi : FeatureInfo) (h : ∀ p ∈ names, key p.2 = p.1) :
    ∀ p ∈ addName upd names (key fi) fi, key p.2 = p.1 := by
  induction names with
  | nil => intro p hp; simp [addName] at hp; subst hp; rfl
  | cons q rest ih =>
    obtain ⟨k', f'⟩ := q
    intro p hp
    unfold addName at hp
    by_cases hk : key fi == k'
    · simp only [hk, if_true] at hp
      rcases List.mem_cons.mp hp with e | e
      · subst e; simp only; rw [hupd]; exact h (k', f') (List.mem_cons_self ..)
      · exact h p (List.mem_cons_of_mem _ e)
    · simp only [hk, Bool.false_eq_true, if_false] at hp
      rcases List.mem_cons.mp hp with e | e
      · subst e; exact h (k', f') (List.mem_cons_self ..)
      · exact ih (fun p hp => h p (List.mem_cons_of_mem _ hp)) p e

theorem lookup_addName (names : List (κ × FeatureInfo)) (k : κ) (fi : FeatureInfo) (k' : κ) :
    (addName upd names k fi).lookup k' =
      if k' == k then some (match names.lookup k with | some a => upd a fi | none => fi) else names.lookup k' := by
  induction names with
  | nil =>
    by_cases h : k' == k
    · have e : k' = k := by simpa using h
      subst e; simp [addName, List.lookup]
    · simp [addName, List.lookup, h]
  | cons q rest ih =>
    obtain ⟨k2, f2⟩ := q
    unfold addName
    by_cases hk : k == k2
    · have e : k = k2 := by simpa using hk
      subst e
      simp only [BEq.rfl, if_true, List.lookup_cons]
      by_cases h : k' == k
      · simp [h]
      · simp [h]
    · have hne : k ≠ k2 := by simpa using hk
      have hk2 : (k == k2) = false := by simpa using hne
      simp only [hk2, Bool.false_eq_true, if_false, List.lookup_cons, ih]
      by_cases h : k' == k
      · have e : k' = k := by simpa using h
        subst e
        simp [hk2]
      · simp only [h, Bool.false_eq_true, if_false]

/-- the name table after feeding a list of descriptions -/
def nameFold (key : FeatureInfo → κ) (upd : FeatureInfo → FeatureInfo → FeatureInfo) (names : List (κ × FeatureInfo))
    (l : List FeatureInfo) : List (κ × FeatureInfo) :=
  l.foldl (fun nm fi => addName upd nm (key fi) fi) names

/-- what is stored under a key: the first description with that key, updated with the later ones in order -/
theorem lookup_nameFold (key : FeatureInfo → κ) (l : List FeatureInfo) : ∀ (names : List (κ × FeatureInfo)) (k : κ),
    (nameFold key upd names l).lookup k =
      match names.lookup k with
      | some a => some ((l.filter (fun fi => key fi == k)).foldl upd a)
      | none =>
        match l.filter (fun fi => key fi == k) with
        | [] => none
        | f :: r => some (r.foldl upd f) := by
  induction l with
  | nil => intro names k; simp [nameFold]; cases names.lookup k <;> rfl
  | cons fi rest ih =>
    intro names k
    have hunf : nameFold key upd names (fi :: rest) = nameFold key upd (addName upd names (key fi) fi) rest := rfl
    rw [hunf, ih, lookup_addName]
    by_cases hk : k = key fi
    · subst hk
      simp only [BEq.rfl, if_true, List.filter_cons]
      cases names.lookup (key fi) <;> simp
    · have hk' : (key fi == k) = false := by
        simp only [beq_eq_false_iff_ne, ne_eq]; exact fun e => hk e.symm
      have hk2 : (k == key fi) = false := by
        simp only [beq_eq_false_iff_ne, ne_eq]; exact hk
      simp only [hk2, Bool.false_eq_true, if_false, List.filter_cons, hk']

/-- the descriptions at the positions of a property map where the profile is +1 or −1, in order -/
def touchedOf (prof : List Int) (pm : List FeatureInfo) : List FeatureInfo :=
  ((prof.zip pm).filter (fun x => x.1 == 1 || x.1 == -1)).map (·.2)

/-- the part of the counter invariant that concerns the name table -/
structure NInv (key : FeatureInfo → κ) (st : PCounter κ) : Prop where
  names_key : ∀ p ∈ st.names, key p.2 = p.1
  names_nodup : (st.names.map (·.1)).Nodup
  counted_named : ∀ k n, 0 < getCount st.incl (k, n) + getCount st.excl (k, n) → k ∈ st.names.map (·.1)

theorem NInv_step_incl (key : FeatureInfo → κ) (hupd : ∀ a b, key (upd a b) = key a) (st : PCounter κ) (fi : FeatureInfo)
    (gid : Nat) (h : NInv key st) :
    NInv key { st with incl := incr st.incl (key fi, gid), names := addName upd st.names (key fi) fi } := by
  refine ⟨addName_names_key key hupd _ _ h.names_key, addName_nodup _ _ _ h.names_nodup, ?_⟩
  intro k n hpos
  simp only [getCount_incr_pair] at hpos
  by_cases hk : key fi == k
  · have : key fi = k := by simpa using hk
    subst this; exact addName_key_mem _ _ _
  · have hold : 0 < getCount st.incl (k, n) + getCount st.excl (k, n) := by
      simp [hk] at hpos; exact hpos
    exact addName_keys_old _ _ _ _ (h.counted_named k n hold)

theorem NInv_step_excl (key : FeatureInfo → κ) (hupd : ∀ a b, key (upd a b) = key a) (st : PCounter κ) (fi : FeatureInfo)
    (gid : Nat) (h : NInv key st) :
    NInv key { st with excl := incr st.excl (key fi, gid), names := addName upd st.names (key fi) fi } := by
  refine ⟨addName_names_key key hupd _ _ h.names_key, addName_nodup _ _ _ h.names_nodup, ?_⟩
  intro k n hpos
  simp only [getCount_incr_pair] at hpos
  by_cases hk : key fi == k
  · have : key fi = k := by simpa using hk
    subst this; exact addName_key_mem _ _ _
  · have hold : 0 < getCount st.incl (k, n) + getCount st.excl (k, n) := by
      simp [hk] at hpos; exact hpos
    exact addName_keys_old _ _ _ _ (h.counted_named k n hold)

/-- the loop keeps the name-table invariant, and the name table afterwards is the one before fed with the descriptions
    at the +1 / −1 positions, in order -/
theorem addLoop_names (key : FeatureInfo → κ) (hupd : ∀ a b, key (upd a b) = key a) (gid : Nat) (prof : List Int) :
    ∀ (pm : List FeatureInfo) (st st' : PCounter κ), addLoop key upd gid prof pm st = some st' → NInv key st →
      NInv key st' ∧ st'.names = nameFold key upd st.names (touchedOf prof pm) := by
  induction prof with
  | nil => intro pm st st' h hi; simp [addLoop] at h; subst h; exact ⟨hi, by simp [touchedOf, nameFold]⟩
  | cons v vs ih =>
    intro pm st st' h hinv
    unfold addLoop at h
    by_cases h1 : v = 1
    · simp only [h1, if_true] at h
      cases pm with
      | nil => simp at h
      | cons fi rest =>
        simp only at h
        obtain ⟨hi', hn⟩ := ih rest _ st' h (NInv_step_incl key hupd st fi gid hinv)
        refine ⟨hi', ?_⟩
        rw [hn]; simp [touchedOf, nameFold, h1]
    · simp only [h1, if_false] at h
      by_cases h2 : v = -1
      · simp only [h2, if_true] at h
        cases pm with
        | nil => simp at h
        | cons fi rest =>
          simp only at h
          obtain ⟨hi', hn⟩ := ih rest _ st' h (NInv_step_excl key hupd st fi gid hinv)
          refine ⟨hi', ?_⟩
          rw [hn]; simp [touchedOf, nameFold, h2]
      · simp only [h2, if_false] at h
        obtain ⟨hi', hn⟩ := ih pm.tail st st' h hinv
        refine ⟨hi', ?_⟩
        rw [hn]
        cases pm with
        | nil => simp [touchedOf]
        | cons f fs => simp [touchedOf, h1, h2]

/-! ### read groups, one read, a history -/

/-- the part of the counter invariant that concerns the numeric group ids -/
structure GInv (st : PCounter κ) : Prop where
  ids_lt : ∀ p ∈ st.groupIds, p.2 < st.nextGroup
  ids_inj : ∀ p ∈ st.groupIds, ∀ q ∈ st.groupIds, p.2 = q.2 → p.1 = q.1
  grp_nodup : (st.groupIds.map (·.1)).Nodup
  incl_fresh : ∀ k n, st.nextGroup ≤ n → getCount st.incl (k, n) = 0
  excl_fresh : ∀ k n, st.nextGroup ≤ n → getCount st.excl (k, n) = 0

theorem GInv_init (ignore : Bool) (dflt : String) : GInv (PCounter.init ignore dflt : PCounter κ) := by
  cases ignore <;> constructor <;> simp [PCounter.init, getCount]

theorem NInv_init (key : FeatureInfo → κ) (ignore : Bool) (dflt : String) :
    NInv key (PCounter.init ignore dflt : PCounter κ) := by
  constructor <;> simp [PCounter.init, getCount]

theorem ensureGroup_spec (st : PCounter κ) (g : String) (hG : GInv st) :
    GInv (ensureGroup st g) ∧ (ensureGroup st g).incl = st.incl ∧ (ensureGroup st g).excl = st.excl ∧
    (ensureGroup st g).names = st.names ∧
    ((∃ n, st.groupIds.lookup g = some n ∧ ensureGroup st g = st) ∨
     (st.groupIds.lookup g = none ∧ (ensureGroup st g).groupIds = st.groupIds ++ [(g, st.nextGroup)] ∧
      (ensureGroup st g).nextGroup = st.nextGroup + 1)) := by
  unfold ensureGroup
  split
  · rename_i n hn
    exact ⟨hG, rfl, rfl, rfl, Or.inl ⟨n, hn, rfl⟩⟩
  · rename_i hn
    have hg : g ∉ st.groupIds.map (·.1) := (lookup_none_iff _ g).mp hn
    refine ⟨?_, rfl, rfl, rfl, Or.inr ⟨hn, rfl, rfl⟩⟩
    constructor
    · intro p hp
      simp only [List.mem_append, List.mem_singleton] at hp
      rcases hp with hp | hp
      · have := hG.ids_lt p hp; simp only; omega
      · subst hp; simp
    · intro p hp q hq hpq
      simp only [List.mem_append, List.mem_singleton] at hp hq
      rcases hp with hp | hp <;> rcases hq with hq | hq
      · exact hG.ids_inj p hp q hq hpq
      · subst hq; have := hG.ids_lt p hp; simp at hpq; omega
      · subst hp; have := hG.ids_lt q hq; simp at hpq; omega
      · subst hp; subst hq; rfl
    · simp only [List.map_append, List.map_cons, List.map_nil]
      rw [List.nodup_append]
      refine ⟨hG.grp_nodup, by simp, ?_⟩
      intro a ha b hb
      simp at hb; subst hb
      intro e; subst e; exact hg ha
    · intro k n hn'; exact hG.incl_fresh k n (by simp only at hn'; omega)
    · intro k n hn'; exact hG.excl_fresh k n (by simp only at hn'; omega)

theorem lookup_inj_of_GInv (st : PCounter κ) (hG : GInv st) (g g' : String) (n : Nat)
    (h1 : st.groupIds.lookup g = some n) (h2 : st.groupIds.lookup g' = some n) : g = g' :=
  hG.ids_inj (g, n) (lookup_some_mem _ _ _ h1) (g', n) (lookup_some_mem _ _ _ h2) rfl

/-- one call of `add_read_info_from_profile` -/
theorem addRead_counts (key : FeatureInfo → κ) (st st' : PCounter κ) (prof : List Int) (pm : List FeatureInfo) (g : String)
    (hG : GInv st) (h : addReadInfoFromProfile key upd st prof pm g = some st') :
    GInv st' ∧
    (∀ k g', st'.inclOf k g' = st.inclOf k g' + (if g' = g then hits key 1 k prof pm else 0)) ∧
    (∀ k g', st'.exclOf k g' = st.exclOf k g' + (if g' = g then hits key (-1) k prof pm else 0)) ∧
    (∀ g', g' ∈ st'.groupIds.map (·.1) ↔ g' ∈ st.groupIds.map (·.1) ∨ g' = g) := by
  unfold addReadInfoFromProfile at h
  obtain ⟨hG1, hi1, he1, _, hcase⟩ := ensureGroup_spec st g hG
  simp only at h
  split at h
  · simp at h
  · rename_i gid hgid
    obtain ⟨hgr, hnx, hic, hec⟩ := addLoop_counts key gid prof pm _ st' h
    have hG' : GInv st' := by
      constructor
      · rw [hgr, hnx]; exact hG1.ids_lt
      · rw [hgr]; exact hG1.ids_inj
      · rw [hgr]; exact hG1.grp_nodup
      · intro k n hn
        rw [hic k n, hG1.incl_fresh k n (by omega)]
        have : gid < (ensureGroup st g).nextGroup := hG1.ids_lt (g, gid) (lookup_some_mem _ _ _ hgid)
        have : n ≠ gid := by omega
        simp [this]
      · intro k n hn
        rw [hec k n, hG1.excl_fresh k n (by omega)]
        have : gid < (ensureGroup st g).nextGroup := hG1.ids_lt (g, gid) (lookup_some_mem _ _ _ hgid)
        have : n ≠ gid := by omega
        simp [this]
    -- counts per group name
    have key_fact : ∀ (cnt cnt' : List ((κ × Nat) × Nat)) (v : Int), cnt' = cnt →
        ∀ (c' : List ((κ × Nat) × Nat)),
        (∀ k n, getCount c' (k, n) = getCount cnt' (k, n) + (if n = gid then hits key v k prof pm else 0)) →
        (∀ k n, st.nextGroup ≤ n → getCount cnt (k, n) = 0) →
        ∀ k g', (match st'.groupIds.lookup g' with | some m => getCount c' (k, m) | none => 0) =
          (match st.groupIds.lookup g' with | some m => getCount cnt (k, m) | none => 0) +
            (if g' = g then hits key v k prof pm else 0) := by
      intro cnt cnt' v hcc c' hc hfresh k g'
      subst hcc
      rw [hgr]
      rcases hcase with ⟨n, hn, heq⟩ | ⟨hnone, hgrp, hnext⟩
      · rw [heq] at hgid ⊢
        have : n = gid := by rw [hn] at hgid; simpa using hgid
        subst this
        cases hl : st.groupIds.lookup g' with
        | none =>
          have : g' ≠ g := by intro e; subst e; rw [hn] at hl; simp at hl
          simp [this]
        | some m =>
          simp only [hc k m]
          by_cases hm : m = n
          · subst hm
            have : g' = g := lookup_inj_of_GInv st hG g' g m hl hn
            simp [this]
          · have : g' ≠ g := by intro e; subst e; rw [hn] at hl; simp at hl; exact hm hl.symm
            simp [hm, this]
      · rw [hgrp] at hgid ⊢
        rw [lookup_append_single] at hgid ⊢
        rw [hnone] at hgid
        simp at hgid
        cases hl : st.groupIds.lookup g' with
        | some m =>
          have hm : m < st.nextGroup := hG.ids_lt (g', m) (lookup_some_mem _ _ _ hl)
          have : g' ≠ g := by intro e; subst e; rw [hnone] at hl; simp at hl
          have hmg : m ≠ gid := by omega
          simp [hc k m, hmg, this]
        | none =>
          by_cases hgg : g' = g
          · subst hgg
            simp [hc k gid, hgid, hfresh k gid (by omega)]
          · simp [hgg]
    refine ⟨hG', ?_, ?_, ?_⟩
    · intro k g'
      exact key_fact st.incl (ensureGroup st g).incl 1 hi1 st'.incl hic hG.incl_fresh k g'
    · intro k g'
      exact key_fact st.excl (ensureGroup st g).excl (-1) he1 st'.excl hec hG.excl_fresh k g'
    · intro g'
      rw [hgr]
      rcases hcase with ⟨n, hn, heq⟩ | ⟨hnone, hgrp, hnext⟩
      · rw [heq]
        constructor
        · intro h'; exact Or.inl h'
        · rintro (h' | h')
          · exact h'
          · subst h'
            exact List.mem_map.mpr ⟨(g', n), lookup_some_mem _ _ _ hn, rfl⟩
      · rw [hgrp]; simp

theorem addRead_names (key : FeatureInfo → κ) (hupd : ∀ a b, key (upd a b) = key a) (st st' : PCounter κ) (prof : List Int)
    (pm : List FeatureInfo) (g : String)
    (hN : NInv key st) (h : addReadInfoFromProfile key upd st prof pm g = some st') :
    NInv key st' ∧ st'.names = nameFold key upd st.names (touchedOf prof pm) := by
  unfold addReadInfoFromProfile at h
  simp only at h
  split at h
  · simp at h
  · rename_i gid hgid
    have hN1 : NInv key (ensureGroup st g) := by
      unfold ensureGroup; split
      · exact hN
      · exact ⟨hN.names_key, hN.names_nodup, hN.counted_named⟩
    have hnm : (ensureGroup st g).names = st.names := by
      unfold ensureGroup; split <;> rfl
    have := addLoop_names key hupd gid prof pm _ st' h hN1
    rw [hnm] at this
    exact this

/-- the descriptions a history counts, in order -/
def touched (evs : List ReadEv) : List FeatureInfo := evs.flatMap (fun ev => touchedOf ev.profile ev.pmap)

theorem mem_touched (evs : List ReadEv) (x : FeatureInfo) :
    x ∈ touched evs ↔ ∃ ev ∈ evs, ∃ p ∈ ev.profile.zip ev.pmap, (p.1 = 1 ∨ p.1 = -1) ∧ p.2 = x := by
  simp only [touched, touchedOf, List.mem_flatMap, List.mem_map, List.mem_filter, Bool.or_eq_true, beq_iff_eq]
  constructor
  · rintro ⟨ev, hev, p, ⟨hp, hv⟩, hx⟩; exact ⟨ev, hev, p, hp, hv, hx⟩
  · rintro ⟨ev, hev, p, hp, hv, hx⟩; exact ⟨ev, hev, p, ⟨hp, hv⟩, hx⟩

/-- the read group a counter files an event under -/
def groupOf (ignore : Bool) (dflt : String) (ev : ReadEv) : String := if ignore then dflt else ev.group

/-- a whole history: invariants, counts as sums over the events, registered groups, name provenance -/
theorem run_spec (key : FeatureInfo → κ) (hupd : ∀ a b, key (upd a b) = key a) (ignore : Bool) (dflt : String) :
    ∀ (evs : List ReadEv) (st st' : PCounter κ), GInv st → NInv key st →
      runCounter key upd ignore dflt st evs = some st' →
      GInv st' ∧ NInv key st' ∧
      (∀ k g, st'.inclOf k g = st.inclOf k g +
        ((evs.filter (fun ev => groupOf ignore dflt ev == g)).map (fun ev => hits key 1 k ev.profile ev.pmap)).sum) ∧
      (∀ k g, st'.exclOf k g = st.exclOf k g +
        ((evs.filter (fun ev => groupOf ignore dflt ev == g)).map (fun ev => hits key (-1) k ev.profile ev.pmap)).sum) ∧
      (∀ g, g ∈ st'.groupIds.map (·.1) ↔ g ∈ st.groupIds.map (·.1) ∨ ∃ ev ∈ evs, groupOf ignore dflt ev = g) ∧
      st'.names = nameFold key upd st.names (touched evs) := by
  intro evs
  induction evs with
  | nil =>
    intro st st' hG hN h
    simp [runCounter] at h; subst h
    exact ⟨hG, hN, by simp, by simp, by simp, by simp [touched, nameFold]⟩
  | cons ev evs ih =>
    intro st st' hG hN h
    unfold runCounter at h
    split at h
    · simp at h
    · rename_i st1 h1
      unfold addReadInfo at h1
      obtain ⟨hG1, hi1, he1, hg1⟩ := addRead_counts key st st1 ev.profile ev.pmap _ hG h1
      obtain ⟨hN1, hn1⟩ := addRead_names key hupd st st1 ev.profile ev.pmap _ hN h1
      obtain ⟨hG', hN', hi, he, hg, hn⟩ := ih st1 st' hG1 hN1 h
      refine ⟨hG', hN', ?_, ?_, ?_, ?_⟩
      · intro k g
        rw [hi k g, hi1 k g]
        simp only [List.filter_cons, groupOf]
        by_cases hgg : (if ignore = true then dflt else ev.group) = g
        · simp [hgg]; omega
        · have : ¬ g = (if ignore = true then dflt else ev.group) := fun e => hgg e.symm
          simp [hgg, this]
      · intro k g
        rw [he k g, he1 k g]
        simp only [List.filter_cons, groupOf]
        by_cases hgg : (if ignore = true then dflt else ev.group) = g
        · simp [hgg]; omega
        · have : ¬ g = (if ignore = true then dflt else ev.group) := fun e => hgg e.symm
          simp [hgg, this]
      · intro g
        rw [hg g, hg1 g]
        simp only [List.mem_cons, groupOf]
        constructor
        · rintro ((h' | h') | ⟨e, he', hge⟩)
          · exact Or.inl h'
          · exact Or.inr ⟨ev, Or.inl rfl, h'.symm⟩
          · exact Or.inr ⟨e, Or.inr he', hge⟩
        · rintro (h' | ⟨e, he' | he', hge⟩)
          · exact Or.inl (Or.inl h')
          · subst he'; exact Or.inl (Or.inr hge.symm)
          · exact Or.inr ⟨e, he', hge⟩
      · rw [hn, hn1]; simp [touched, nameFold, List.foldl_append]

/-! ### sorting the group names, dumping -/

theorem insertStr_perm (x : String) (l : List String) : (insertStr x l).Perm (x :: l) := by
  induction l with
  | nil => simp [insertStr]
  | cons y ys ih =>
    unfold insertStr
    split
    · exact List.Perm.refl _
    · exact (List.Perm.cons y ih).trans (List.Perm.swap x y ys)

theorem sortStrs_perm (l : List String) : (sortStrs l).Perm l := by
  induction l with
  | nil => simp [sortStrs]
  | cons x xs ih => exact (insertStr_perm x _).trans (List.Perm.cons x ih)

theorem mem_sortStrs (l : List String) (x : String) : x ∈ sortStrs l ↔ x ∈ l := (sortStrs_perm l).mem_iff

theorem sortStrs_nodup (l : List String) (h : l.Nodup) : (sortStrs l).Nodup := (sortStrs_perm l).nodup_iff.mpr h

/-- membership in the dumped table -/
theorem mem_dumpRows (st : PCounter κ) (r : CountRow) :
    r ∈ dumpRows st ↔ ∃ k, (k, r.fi) ∈ st.names ∧ ∃ gid, st.groupIds.lookup r.group = some gid ∧
      r.incl = getCount st.incl (k, gid) ∧ r.excl = getCount st.excl (k, gid) ∧ (0 < r.incl ∨ 0 < r.excl) := by
  unfold dumpRows
  simp only [List.mem_flatMap, List.mem_filterMap, mem_sortStrs]
  constructor
  · rintro ⟨⟨k, fi⟩, hkf, g, hg, hrow⟩
    simp only at hrow
    split at hrow
    · simp at hrow
    · rename_i gid hgid
      split at hrow
      · rename_i hpos
        simp at hrow; subst hrow
        exact ⟨k, hkf, gid, hgid, rfl, rfl, hpos⟩
      · simp at hrow
  · rintro ⟨k, hkf, gid, hgid, hi, he, hpos⟩
    refine ⟨(k, r.fi), hkf, r.group, List.mem_map.mpr ⟨(r.group, gid), lookup_some_mem _ _ _ hgid, rfl⟩, ?_⟩
    simp only [hgid]
    rw [← hi, ← he]
    simp [hpos]

/-- no two dumped rows share (row key, group) -/
theorem dumpRows_nodup (key : FeatureInfo → κ) (st : PCounter κ) (hG : GInv st) (hN : NInv key st) :
    ((dumpRows st).map (fun r => (key r.fi, r.group))).Pairwise (· ≠ ·) := by
  unfold dumpRows
  rw [List.pairwise_map, List.pairwise_flatMap]
  constructor
  · rintro ⟨k, fi⟩ _
    rw [List.pairwise_filterMap]
    have hs : (sortStrs (st.groupIds.map (·.1))).Pairwise (· ≠ ·) := sortStrs_nodup _ hG.grp_nodup
    refine hs.imp ?_
    intro g g' hne b hb b' hb'
    simp only at hb hb'
    split at hb
    · simp at hb
    · split at hb
      · split at hb'
        · simp at hb'
        · split at hb'
          · simp at hb hb'; subst hb; subst hb'
            simp only [ne_eq, Prod.mk.injEq, not_and]; intro _; exact hne
          · simp at hb'
      · simp at hb
  · have hk : (st.names.map (·.1)).Pairwise (· ≠ ·) := hN.names_nodup
    rw [List.pairwise_map] at hk
    refine List.Pairwise.imp_of_mem ?_ hk
    rintro ⟨k, fi⟩ ⟨k', fi'⟩ hm hm' hne x hx y hy
    simp only [List.mem_filterMap] at hx hy
    obtain ⟨g, _, hx⟩ := hx
    obtain ⟨g', _, hy⟩ := hy
    split at hx
    · simp at hx
    · split at hx
      · split at hy
        · simp at hy
        · split at hy
          · simp at hx hy; subst hx; subst hy
            simp only [ne_eq, Prod.mk.injEq, not_and]
            intro e
            have h1 := hN.names_key _ hm
            have h2 := hN.names_key _ hm'
            simp only at h1 h2
            rw [h1, h2] at e
            exact absurd e hne
          · simp at hy
      · simp at hx

/-! ### sums over groups -/

theorem sum_map_add {α : Type} (l : List α) (p q : α → Nat) :
    (l.map (fun x => p x + q x)).sum = (l.map p).sum + (l.map q).sum := by
  induction l with
  | nil => simp
  | cons x xs ih => simp only [List.map_cons, List.sum_cons, ih]; omega

theorem sum_map_zero {α : Type} (l : List α) : (l.map (fun _ => (0 : Nat))).sum = 0 := by
  induction l with
  | nil => rfl
  | cons x xs ih => simp [ih]

theorem sum_indicator (gs : List String) (hnd : gs.Nodup) (a : String) (c : Nat) (ha : a ∈ gs) :
    (gs.map (fun g => if a = g then c else 0)).sum = c := by
  induction gs with
  | nil => simp at ha
  | cons g gs ih =>
    simp only [List.map_cons, List.sum_cons]
    have hnd' : gs.Nodup := (List.nodup_cons.mp hnd).2
    have hg : g ∉ gs := (List.nodup_cons.mp hnd).1
    by_cases hag : a = g
    · subst hag
      have : (gs.map (fun g => if a = g then c else 0)).sum = 0 := by
        have : ∀ g ∈ gs, (if a = g then c else 0) = 0 := by
          intro g' hg'; have : a ≠ g' := fun e => hg (e ▸ hg'); simp [this]
        rw [List.map_congr_left this]; exact sum_map_zero gs
      simp [this]
    · have : a ∈ gs := by simpa [hag] using ha
      simp [hag, ih hnd' this]

/-- summing, over the distinct groups, the per-group sums gives the sum over all events -/
theorem sum_by_group {α : Type} (gs : List String) (hnd : gs.Nodup) (evs : List α) (grp : α → String) (f : α → Nat)
    (hall : ∀ ev ∈ evs, grp ev ∈ gs) :
    (gs.map (fun g => ((evs.filter (fun ev => grp ev == g)).map f).sum)).sum = (evs.map f).sum := by
  induction evs with
  | nil => simp [sum_map_zero]
  | cons ev evs ih =>
    have h1 : ∀ g, ((List.filter (fun ev => grp ev == g) (ev :: evs)).map f).sum =
        (if grp ev = g then f ev else 0) + ((evs.filter (fun ev => grp ev == g)).map f).sum := by
      intro g
      by_cases hg : grp ev = g <;> simp [hg]
    simp only [h1, sum_map_add]
    rw [sum_indicator gs hnd (grp ev) (f ev) (hall ev (by simp)), ih (fun e he => hall e (by simp [he]))]
    simp

/-! ### one read contributes at most once to a feature when the keys of its property map are distinct -/

/-- the read's profile holds `v` at (a position whose feature has) key `k` -/
def marks (key : FeatureInfo → κ) (v : Int) (k : κ) (ev : ReadEv) : Bool :=
  (ev.profile.zip ev.pmap).any (fun p => p.1 == v && key p.2 == k)

theorem hits_le_one (key : FeatureInfo → κ) (v : Int) (k : κ) (prof : List Int) :
    ∀ pm : List FeatureInfo, (pm.map key).Nodup → hits key v k prof pm ≤ 1 ∧
      (hits key v k prof pm = 1 ↔ (prof.zip pm).any (fun p => p.1 == v && key p.2 == k) = true) := by
  induction prof with
  | nil => intro pm _; simp [hits]
  | cons x xs ih =>
    intro pm hnd
    cases pm with
    | nil => simp [hits]
    | cons f fs =>
      have hnd' : (fs.map key).Nodup := (List.nodup_cons.mp (by simpa using hnd)).2
      have hf : key f ∉ fs.map key := (List.nodup_cons.mp (by simpa using hnd)).1
      obtain ⟨ih1, ih2⟩ := ih fs hnd'
      rw [hits_cons_cons]
      by_cases hc : x = v ∧ key f == k
      · have hk : key f = k := by simpa using hc.2
        have hz : hits key v k xs fs = 0 := by
          unfold hits
          rw [List.countP_eq_zero]
          intro p hp
          have : p.2 ∈ fs := (List.of_mem_zip hp).2
          have : key p.2 ≠ k := by
            intro e; apply hf; rw [hk, ← e]; exact List.mem_map.mpr ⟨p.2, this, rfl⟩
          simp [this]
        simp [hc, hz, hk]
      · simp only [hc, if_false, Nat.add_zero]
        refine ⟨ih1, ?_⟩
        rw [ih2]
        simp only [List.zip_cons_cons, List.any_cons]
        have : (x == v && key f == k) = false := by
          by_cases hx : x = v
          · have : ¬ (key f == k) = true := fun h => hc ⟨hx, h⟩
            simp [this]
          · simp [hx]
        simp [this]

theorem hits_eq_marks (key : FeatureInfo → κ) (v : Int) (k : κ) (ev : ReadEv) (h : (ev.pmap.map key).Nodup) :
    hits key v k ev.profile ev.pmap = if marks key v k ev then 1 else 0 := by
  obtain ⟨h1, h2⟩ := hits_le_one key v k ev.profile ev.pmap h
  unfold marks
  by_cases hm : (ev.profile.zip ev.pmap).any (fun p => p.1 == v && key p.2 == k) = true
  · simp [hm, h2.mpr hm]
  · have : hits key v k ev.profile ev.pmap ≠ 1 := fun e => hm (h2.mp e)
    simp [hm]; omega

theorem sum_ite_eq_countP {α : Type} (l : List α) (p : α → Bool) :
    (l.map (fun x => if p x then 1 else 0)).sum = l.countP p := by
  induction l with
  | nil => rfl
  | cons x xs ih => simp only [List.map_cons, List.sum_cons, List.countP_cons, ih]; split <;> omega

/-! ### sums over the dumped table -/

/-- the row `dump` writes for one feature and one group name, if any -/
def rowOpt (st : PCounter κ) (p : κ × FeatureInfo) (g : String) : Option CountRow :=
  match st.groupIds.lookup g with
  | none => none
  | some gid =>
    let i := getCount st.incl (p.1, gid)
    let e := getCount st.excl (p.1, gid)
    if i > 0 ∨ e > 0 then some { fi := p.2, group := g, incl := i, excl := e } else none

/-- the rows `dump` writes for one feature -/
def rowsFor (st : PCounter κ) (G : List String) (p : κ × FeatureInfo) : List CountRow :=
  G.filterMap (rowOpt st p)

theorem dumpRows_eq (st : PCounter κ) :
    dumpRows st = st.names.flatMap (rowsFor st (sortStrs (st.groupIds.map (·.1)))) := by
  unfold dumpRows rowsFor rowOpt
  rfl

theorem rowOpt_spec (st : PCounter κ) (p : κ × FeatureInfo) (g : String) :
    ((rowOpt st p g).map (·.incl)).getD 0 = st.inclOf p.1 g ∧
    ((rowOpt st p g).map (·.excl)).getD 0 = st.exclOf p.1 g ∧
    (∀ r, rowOpt st p g = some r → r.fi = p.2) := by
  unfold rowOpt PCounter.inclOf PCounter.exclOf
  cases hl : st.groupIds.lookup g with
  | none => simp
  | some gid =>
    simp only
    by_cases hpos : getCount st.incl (p.1, gid) > 0 ∨ getCount st.excl (p.1, gid) > 0
    · refine ⟨by simp [hpos], by simp [hpos], ?_⟩
      intro r hr; simp only [hpos, if_true, Option.some.injEq] at hr; rw [← hr]
    · refine ⟨?_, ?_, ?_⟩
      · simp only [hpos, if_false, Option.map_none, Option.getD_none]; omega
      · simp only [hpos, if_false, Option.map_none, Option.getD_none]; omega
      · intro r hr; simp [hpos] at hr

theorem sum_filterMap {α β : Type} (f : α → Option β) (h : β → Nat) (l : List α) :
    ((l.filterMap f).map h).sum = (l.map (fun a => ((f a).map h).getD 0)).sum := by
  induction l with
  | nil => rfl
  | cons a t ih =>
    simp only [List.filterMap_cons, List.map_cons, List.sum_cons]
    cases hf : f a with
    | none => simp [ih]
    | some b => simp [ih]

theorem rowsFor_fi (st : PCounter κ) (G : List String) (p : κ × FeatureInfo) (r : CountRow) (h : r ∈ rowsFor st G p) :
    r.fi = p.2 := by
  unfold rowsFor at h
  obtain ⟨g, _, hg⟩ := List.mem_filterMap.mp h
  exact (rowOpt_spec st p g).2.2 r hg

theorem rowsFor_sum (st : PCounter κ) (p : κ × FeatureInfo) (G : List String) :
    ((rowsFor st G p).map (·.incl)).sum = (G.map (fun g => st.inclOf p.1 g)).sum ∧
    ((rowsFor st G p).map (·.excl)).sum = (G.map (fun g => st.exclOf p.1 g)).sum := by
  unfold rowsFor
  rw [sum_filterMap, sum_filterMap]
  constructor
  · congr 1; apply List.map_congr_left; intro g _; exact (rowOpt_spec st p g).1
  · congr 1; apply List.map_congr_left; intro g _; exact (rowOpt_spec st p g).2.1

/-- summed over the rows of one feature key, the dumped include / exclude counts are the sums over the registered
    groups of the per-group counts -/
theorem dumpRows_sum (key : FeatureInfo → κ) (st : PCounter κ) (hN : NInv key st) (k : κ) :
    (((dumpRows st).filter (fun r => key r.fi == k)).map (·.incl)).sum =
      ((st.groupIds.map (·.1)).map (fun g => st.inclOf k g)).sum ∧
    (((dumpRows st).filter (fun r => key r.fi == k)).map (·.excl)).sum =
      ((st.groupIds.map (·.1)).map (fun g => st.exclOf k g)).sum := by
  -- the sorted group list is a permutation of the registered groups
  have hperm := sortStrs_perm (st.groupIds.map (·.1))
  have hTi : ((sortStrs (st.groupIds.map (·.1))).map (fun g => st.inclOf k g)).sum =
      ((st.groupIds.map (·.1)).map (fun g => st.inclOf k g)).sum := (hperm.map _).sum_nat
  have hTe : ((sortStrs (st.groupIds.map (·.1))).map (fun g => st.exclOf k g)).sum =
      ((st.groupIds.map (·.1)).map (fun g => st.exclOf k g)).sum := (hperm.map _).sum_nat
  rw [← hTi, ← hTe, dumpRows_eq]
  generalize sortStrs (st.groupIds.map (·.1)) = G
  -- induction over the name table
  have main : ∀ (N : List (κ × FeatureInfo)), (∀ p ∈ N, key p.2 = p.1) → (N.map (·.1)).Nodup →
      (((N.flatMap (rowsFor st G)).filter (fun r => key r.fi == k)).map (·.incl)).sum =
        (if k ∈ N.map (·.1) then (G.map (fun g => st.inclOf k g)).sum else 0) ∧
      (((N.flatMap (rowsFor st G)).filter (fun r => key r.fi == k)).map (·.excl)).sum =
        (if k ∈ N.map (·.1) then (G.map (fun g => st.exclOf k g)).sum else 0) := by
    intro N
    induction N with
    | nil => intro _ _; simp
    | cons p N ih =>
      intro hkey hnd
      have hnd' : (N.map (·.1)).Nodup := (List.nodup_cons.mp (by simpa using hnd)).2
      have hp : p.1 ∉ N.map (·.1) := (List.nodup_cons.mp (by simpa using hnd)).1
      obtain ⟨ih1, ih2⟩ := ih (fun q hq => hkey q (by simp [hq])) hnd'
      simp only [List.flatMap_cons, List.filter_append, List.map_append, List.sum_append, ih1, ih2, List.map_cons,
        List.mem_cons]
      have hpk : key p.2 = p.1 := hkey p (by simp)
      by_cases hk : p.1 = k
      · subst hk
        have hall : (rowsFor st G p).filter (fun r => key r.fi == p.1) = rowsFor st G p := by
          apply List.filter_eq_self.mpr
          intro r hr
          rw [rowsFor_fi st G p r hr, hpk]; simp
        rw [hall, (rowsFor_sum st p G).1, (rowsFor_sum st p G).2]
        simp [hp]
      · have hnone : (rowsFor st G p).filter (fun r => key r.fi == k) = [] := by
          apply List.filter_eq_nil_iff.mpr
          intro r hr
          rw [rowsFor_fi st G p r hr, hpk]; simpa using hk
        have hk' : ¬ k = p.1 := fun e => hk e.symm
        rw [hnone]
        have hmem : (k ∈ List.map (fun x => x.1) (p :: N)) ↔ (k ∈ List.map (fun x => x.1) N) := by
          simp [hk']
        by_cases hm : k ∈ List.map (fun x => x.1) N
        · have hm' : k ∈ List.map (fun x => x.1) (p :: N) := hmem.mpr hm
          simp only [if_pos hm, if_pos hm']
          constructor <;> simp
        · have hm' : ¬ k ∈ List.map (fun x => x.1) (p :: N) := fun h => hm (hmem.mp h)
          simp only [if_neg hm, if_neg hm']
          constructor <;> simp
  obtain ⟨m1, m2⟩ := main st.names hN.names_key hN.names_nodup
  rw [m1, m2]
  by_cases hmem : k ∈ st.names.map (·.1)
  · simp [hmem]
  · -- a key that has no name has no counts
    have hz : ∀ g, st.inclOf k g = 0 ∧ st.exclOf k g = 0 := by
      intro g
      unfold PCounter.inclOf PCounter.exclOf
      cases hl : st.groupIds.lookup g with
      | none => simp
      | some gid =>
        simp only
        have := hN.counted_named k gid
        constructor <;> (apply Classical.byContradiction; intro hne; exact hmem (this (by omega)))
    simp only [hmem, if_false]
    constructor
    · symm; rw [List.map_congr_left (fun g _ => (hz g).1)]; exact sum_map_zero G
    · symm; rw [List.map_congr_left (fun g _ => (hz g).2)]; exact sum_map_zero G

/-- the ungrouped counter never registers another group: its table stays `{default: 0}` -/
theorem run_groupIds_ungrouped_aux (key : FeatureInfo → κ) (dflt : String) :
    ∀ (evs : List ReadEv) (st st' : PCounter κ), st.groupIds = [(dflt, 0)] →
      runCounter key upd true dflt st evs = some st' → st'.groupIds = [(dflt, 0)] := by
  intro evs
  induction evs with
  | nil => intro st st' h0 h; simp [runCounter] at h; subst h; exact h0
  | cons ev evs ih =>
    intro st st' h0 h
    unfold runCounter at h
    split at h
    · simp at h
    · rename_i st1 h1
      apply ih st1 st' ?_ h
      unfold addReadInfo addReadInfoFromProfile at h1
      simp only [if_true] at h1
      have he : ensureGroup st dflt = st := by
        unfold ensureGroup; rw [h0]; simp [List.lookup]
      rw [he] at h1
      split at h1
      · simp at h1
      · rename_i gid _
        rw [(addLoop_counts key gid ev.profile ev.pmap st st1 h1).1, h0]

theorem run_groupIds_ungrouped (key : FeatureInfo → κ) (dflt : String) (evs : List ReadEv) (st : PCounter κ)
    (h : countAll key upd true dflt evs = some st) : st.groupIds = [(dflt, 0)] :=
  run_groupIds_ungrouped_aux key dflt evs _ st (by simp [PCounter.init]) h

/-! ### no IndexError on a well-formed feed -/

theorem addLoop_isSome (key : FeatureInfo → κ) (gid : Nat) (prof : List Int) :
    ∀ (pm : List FeatureInfo) (st : PCounter κ), prof.length ≤ pm.length → (addLoop key upd gid prof pm st).isSome := by
  induction prof with
  | nil => intro pm st _; simp [addLoop]
  | cons v vs ih =>
    intro pm st h
    cases pm with
    | nil => simp at h
    | cons f fs =>
      have h' : vs.length ≤ fs.length := by simpa using h
      unfold addLoop
      split
      · exact ih fs _ h'
      · split
        · exact ih fs _ h'
        · exact ih fs _ h'

theorem addRead_isSome (key : FeatureInfo → κ) (st : PCounter κ) (prof : List Int) (pm : List FeatureInfo) (g : String)
    (h : prof.length ≤ pm.length) : (addReadInfoFromProfile key upd st prof pm g).isSome := by
  unfold addReadInfoFromProfile
  simp only
  have : ∃ gid, (ensureGroup st g).groupIds.lookup g = some gid := by
    unfold ensureGroup
    split
    · rename_i n hn; exact ⟨n, hn⟩
    · rename_i hn
      refine ⟨st.nextGroup, ?_⟩
      simp only [lookup_append_single, hn]
      simp
  obtain ⟨gid, hgid⟩ := this
  rw [hgid]
  exact addLoop_isSome key gid prof pm _ h

theorem runCounter_isSome (key : FeatureInfo → κ) (ignore : Bool) (dflt : String) :
    ∀ (evs : List ReadEv) (st : PCounter κ), (∀ ev ∈ evs, ev.profile.length ≤ ev.pmap.length) →
      (runCounter key upd ignore dflt st evs).isSome := by
  intro evs
  induction evs with
  | nil => intro st _; simp [runCounter]
  | cons ev evs ih =>
    intro st h
    unfold runCounter
    have h1 := addRead_isSome (upd := upd) key st ev.profile ev.pmap (if ignore then dflt else ev.group) (h ev (by simp))
    unfold addReadInfo
    cases hc : addReadInfoFromProfile key upd st ev.profile ev.pmap (if ignore then dflt else ev.group) with
    | none => rw [hc] at h1; simp at h1
    | some st' => exact ih st' (fun e he => h e (by simp [he]))

end loop
end IsoVerif.Lemmas.C13
