/-
Helper lemmas for C06 (process pool, natural sort key, id renumbering).
-/
import IsoVerif.Model.Schedule

namespace IsoVerif.Lemmas.C06
open IsoVerif.Model.C06

/-! ### process pool -/

/-- every started task of a schedule has a completion record, and its output is `f` applied to *some*
    worker state (the state of its worker at that moment) -/
theorem lookup_runEvents {σ χ ω : Type} (f : σ → χ → ω × σ) (chrs : List χ) :
    ∀ (s : List Event) (st : Nat → σ) (i : Nat) (c : χ), chrs[i]? = some c → i ∈ s.map Prod.snd →
      ∃ σ₀, (runEvents f chrs st s).1.lookup i = some (f σ₀ c).1 := by
  intro s
  induction s with
  | nil => intro st i c _ hi; simp at hi
  | cons e es ih =>
    intro st i c hc hi
    obtain ⟨w, t⟩ := e
    simp only [List.map_cons, List.mem_cons] at hi
    unfold runEvents
    cases ht : chrs[t]? with
    | none =>
      simp only
      have hne : i ≠ t := by intro h; subst h; rw [hc] at ht; cases ht
      rcases hi with hi | hi
      · exact absurd hi hne
      · exact ih st i c hc hi
    | some c' =>
      simp only
      by_cases hit : i = t
      · subst hit
        rw [hc] at ht; cases ht
        exact ⟨st w, by simp [List.lookup]⟩
      · have hi' : i ∈ es.map Prod.snd := by
          rcases hi with hi | hi
          · exact absurd hi hit
          · exact hi
        obtain ⟨σ₀, h⟩ := ih (setW st w (f (st w) c').2) i c hc hi'
        refine ⟨σ₀, ?_⟩
        have : (i == t) = false := by simp [hit]
        simp [List.lookup, this, h]

theorem poolMap_getElem? {σ χ ω : Type} (f : σ → χ → ω × σ) (chrs : List χ) (st : Nat → σ) (s : List Event)
    (hs : ValidSchedule chrs.length s) (i : Nat) (c : χ) (hc : chrs[i]? = some c) :
    ∃ σ₀, (poolMap f chrs st s)[i]? = some (some (f σ₀ c).1) := by
  have hi : i < chrs.length := by
    rcases Nat.lt_or_ge i chrs.length with h | h
    · exact h
    · rw [List.getElem?_eq_none h] at hc; cases hc
  have hmem : i ∈ s.map Prod.snd := (hs.mem_iff).2 (List.mem_range.2 hi)
  obtain ⟨σ₀, h⟩ := lookup_runEvents f chrs s st i c hc hmem
  refine ⟨σ₀, ?_⟩
  simp [poolMap, List.getElem?_map, List.getElem?_range hi, h]

theorem poolMap_length {σ χ ω : Type} (f : σ → χ → ω × σ) (chrs : List χ) (st : Nat → σ) (s : List Event) :
    (poolMap f chrs st s).length = chrs.length := by simp [poolMap]

/-! ### sorting strings: the result depends only on the multiset / on the set of elements -/

theorem insertBy_perm {α : Type} (le : α → α → Bool) (x : α) : ∀ l : List α, (insertBy le x l).Perm (x :: l)
  | [] => by simp [insertBy]
  | y :: ys => by
    unfold insertBy
    by_cases h : le x y = true
    · simp [h]
    · simp only [h]
      exact ((insertBy_perm le x ys).cons y).trans (List.Perm.swap x y ys)

theorem isort_perm {α : Type} (le : α → α → Bool) : ∀ l : List α, (isort le l).Perm l
  | [] => by simp [isort]
  | x :: xs => by
    unfold isort
    exact (insertBy_perm le x _).trans ((isort_perm le xs).cons x)

theorem insertBy_pairwise {α : Type} (le : α → α → Bool)
    (trans : ∀ a b c, le a b = true → le b c = true → le a c = true)
    (total : ∀ a b, le a b = true ∨ le b a = true) (x : α) :
    ∀ l : List α, l.Pairwise (fun a b => le a b = true) → (insertBy le x l).Pairwise (fun a b => le a b = true)
  | [], _ => by simp [insertBy]
  | y :: ys, h => by
    unfold insertBy
    have hy := List.pairwise_cons.1 h
    by_cases hxy : le x y = true
    · simp only [hxy, if_true]
      refine List.pairwise_cons.2 ⟨?_, h⟩
      intro z hz
      rcases List.mem_cons.1 hz with rfl | hz
      · exact hxy
      · exact trans _ _ _ hxy (hy.1 z hz)
    · simp only [hxy]
      have hyx : le y x = true := by
        rcases total x y with h' | h'
        · exact absurd h' hxy
        · exact h'
      refine List.pairwise_cons.2 ⟨?_, insertBy_pairwise le trans total x ys hy.2⟩
      intro z hz
      rcases List.mem_cons.1 ((insertBy_perm le x ys).mem_iff.1 hz) with rfl | hz
      · exact hyx
      · exact hy.1 z hz

theorem isort_pairwise {α : Type} (le : α → α → Bool)
    (trans : ∀ a b c, le a b = true → le b c = true → le a c = true)
    (total : ∀ a b, le a b = true ∨ le b a = true) :
    ∀ l : List α, (isort le l).Pairwise (fun a b => le a b = true)
  | [] => by simp [isort]
  | x :: xs => by
    unfold isort
    exact insertBy_pairwise le trans total x _ (isort_pairwise le trans total xs)

theorem sortStr_pairwise (l : List String) : (sortStr l).Pairwise (fun a b => decide (a ≤ b) = true) := by
  unfold sortStr
  apply isort_pairwise
  · intro a b c hab hbc
    simp only [decide_eq_true_eq] at *
    exact String.le_trans hab hbc
  · intro a b
    rcases String.le_total a b with h | h <;> simp [h]

theorem sortStr_perm (l : List String) : (sortStr l).Perm l := isort_perm _ _

theorem sortStr_eq_of_perm {l l' : List String} (h : l.Perm l') : sortStr l = sortStr l' := by
  apply List.Perm.eq_of_pairwise (le := fun a b => decide (a ≤ b) = true)
  · intro a b _ _ hab hba
    simp only [decide_eq_true_eq] at hab hba
    exact String.le_antisymm hab hba
  · exact sortStr_pairwise l
  · exact sortStr_pairwise l'
  · exact (sortStr_perm l).trans (h.trans (sortStr_perm l').symm)

theorem mem_dedup {x : String} : ∀ {l : List String}, x ∈ dedup l ↔ x ∈ l
  | [] => by simp [dedup]
  | y :: ys => by
    unfold dedup
    by_cases hy : ys.contains y = true
    · simp only [hy, if_true]
      rw [mem_dedup (l := ys)]
      simp only [List.contains_iff_mem] at hy
      constructor
      · intro h; exact List.mem_cons_of_mem _ h
      · intro h
        rcases List.mem_cons.1 h with rfl | h
        · exact hy
        · exact h
    · have hy' : ys.contains y = false := by simpa using hy
      simp only [hy', Bool.false_eq_true, if_false, List.mem_cons]
      rw [mem_dedup (l := ys)]

theorem nodup_dedup : ∀ (l : List String), (dedup l).Nodup
  | [] => by simp [dedup]
  | y :: ys => by
    unfold dedup
    by_cases hy : ys.contains y = true
    · simp only [hy, if_true]; exact nodup_dedup ys
    · have hy' : ys.contains y = false := by simpa using hy
      simp only [hy', Bool.false_eq_true, if_false]
      refine List.nodup_cons.2 ⟨?_, nodup_dedup ys⟩
      rw [mem_dedup]
      simpa [List.contains_iff_mem] using hy

/-- `sorted(set(l))` depends only on which strings occur in `l` -/
theorem sortStr_dedup_eq_of_mem_iff {l l' : List String} (h : ∀ x, x ∈ l ↔ x ∈ l') :
    sortStr (dedup l) = sortStr (dedup l') := by
  apply sortStr_eq_of_perm
  rw [List.perm_ext_iff_of_nodup (nodup_dedup l) (nodup_dedup l')]
  intro a
  rw [mem_dedup, mem_dedup]
  exact h a

end IsoVerif.Lemmas.C06
