/-
Helper lemmas for C15 (serialisation round trips): big-endian ints, writer sequences, the generic
"reader undoes writer" predicate `RT` and its closure under lists, and one `RT` lemma per primitive of
src/serialization.py.  Core Lean only.
-/
import IsoVerif.Model.Serial

namespace IsoVerif.Lemmas.Serial
open IsoVerif.Gen IsoVerif.Model IsoVerif.Model.Serial

/-! ### big-endian -/

theorem toBE_length (k n : Nat) : (toBE k n).length = k := by
  induction k generalizing n with
  | zero => rfl
  | succ k ih => simp [toBE, ih]

theorem fromBE_append (a b : Bytes) :
    fromBE (a ++ b) = b.foldl (fun acc x => acc * 256 + x.toNat) (fromBE a) := by
  simp [fromBE, List.foldl_append]

theorem fromBE_toBE (k n : Nat) (h : n < 256 ^ k) : fromBE (toBE k n) = n := by
  induction k generalizing n with
  | zero => simp [toBE, fromBE] at *; omega
  | succ k ih =>
    have h' : n / 256 < 256 ^ k := by
      rw [Nat.pow_succ] at h
      exact Nat.div_lt_of_lt_mul (by omega)
    have hb : (UInt8.ofNat (n % 256)).toNat = n % 256 := by simp
    simp only [toBE, fromBE_append, ih _ h', List.foldl_cons, List.foldl_nil, hb]
    omega

theorem intToBytes_eq_some {k : Nat} {v : Int} {bs : Bytes} (h : intToBytes k v = some bs) :
    0 ≤ v ∧ v.toNat < 256 ^ k ∧ bs = toBE k v.toNat := by
  unfold intToBytes at h
  split at h
  · rename_i hv; cases h; exact ⟨hv.1, hv.2, rfl⟩
  · cases h

theorem intToBytes_isSome_iff (k : Nat) (v : Int) :
    (intToBytes k v).isSome ↔ (0 ≤ v ∧ v.toNat < 256 ^ k) := by
  unfold intToBytes
  split <;> rename_i h <;> simp [h]

theorem intToBytes_length {k : Nat} {v : Int} {bs : Bytes} (h : intToBytes k v = some bs) : bs.length = k := by
  obtain ⟨_, _, rfl⟩ := intToBytes_eq_some h
  exact toBE_length _ _

/-! ### writer sequences -/

@[simp] theorem seqW_nil : seqW [] = some [] := rfl

theorem seqW_cons_eq_some_iff {a : Option Bytes} {l : List (Option Bytes)} {bs : Bytes} :
    seqW (a :: l) = some bs ↔ ∃ x y, a = some x ∧ seqW l = some y ∧ bs = x ++ y := by
  cases a with
  | none => simp [seqW]
  | some x =>
    cases hl : seqW l with
    | none => simp [seqW, hl]
    | some y =>
      simp only [seqW, hl, Option.bind_eq_bind, Option.bind_some, Option.pure_def, Option.some.injEq]
      constructor
      · intro h; exact ⟨x, y, rfl, rfl, h.symm⟩
      · rintro ⟨x', y', hx, hy, rfl⟩; cases hx; cases hy; rfl

theorem seqW_nil_eq_some_iff {bs : Bytes} : seqW [] = some bs ↔ bs = [] := by
  simp [seqW, eq_comm]

theorem seqW_append_eq_some_iff {l₁ l₂ : List (Option Bytes)} {bs : Bytes} :
    seqW (l₁ ++ l₂) = some bs ↔ ∃ x y, seqW l₁ = some x ∧ seqW l₂ = some y ∧ bs = x ++ y := by
  induction l₁ generalizing bs with
  | nil => simp
  | cons a t ih =>
    simp only [List.cons_append, seqW_cons_eq_some_iff, ih]
    constructor
    · rintro ⟨x, y, ha, ⟨x', y', h1, h2, rfl⟩, rfl⟩
      exact ⟨x ++ x', y', ⟨x, x', ha, h1, rfl⟩, h2, by simp⟩
    · rintro ⟨x, y, ⟨x', y', ha, h1, rfl⟩, h2, rfl⟩
      exact ⟨x', y' ++ y, ha, ⟨y', y, h1, h2, rfl⟩, by simp⟩

theorem seqW_isSome_iff (l : List (Option Bytes)) : (seqW l).isSome ↔ ∀ o ∈ l, o.isSome := by
  induction l with
  | nil => simp
  | cons a t ih =>
    cases a with
    | none => simp [seqW]
    | some x =>
      cases ht : seqW t with
      | none => simp [seqW, ht] at ih ⊢; exact ih
      | some y => simp [seqW, ht] at ih ⊢; exact ih

/-! ### reader basics -/

@[simp] theorem raise_run {α} (bs : Bytes) : (raise : Rd α).run bs = none := rfl

theorem readBytes_append (a rest : Bytes) (k : Nat) (h : a.length = k) :
    (readBytes k).run (a ++ rest) = some (a, rest) := by
  subst h
  simp [readBytes, StateT.run]

theorem readNat_toBE (k n : Nat) (rest : Bytes) (h : n < 256 ^ k) :
    (readNat k).run (toBE k n ++ rest) = some (n, rest) := by
  simp [readNat, readBytes_append _ _ _ (toBE_length k n), fromBE_toBE _ _ h]

theorem readNat_write {k n : Nat} {bs : Bytes} (rest : Bytes) (h : intToBytes k (n : Int) = some bs) :
    (readNat k).run (bs ++ rest) = some (n, rest) := by
  obtain ⟨_, h2, rfl⟩ := intToBytes_eq_some h
  simpa using readNat_toBE k n rest (by simpa using h2)

theorem readInt_write {k : Nat} {v : Int} {bs : Bytes} (rest : Bytes) (h : intToBytes k v = some bs) :
    (readInt k).run (bs ++ rest) = some (v, rest) := by
  obtain ⟨h1, h2, rfl⟩ := intToBytes_eq_some h
  simp [readInt, readNat_toBE _ _ rest h2]
  omega

/-! ### "the reader undoes the writer" -/

/-- for every `x` satisfying `P` on which the writer succeeds, the reader applied to the written bytes followed by
    anything returns `x` and leaves exactly what followed -/
def RT {α} (w : α → Option Bytes) (r : Rd α) (P : α → Prop) : Prop :=
  ∀ x bs rest, P x → w x = some bs → r.run (bs ++ rest) = some (x, rest)

theorem RT.mono {α} {w : α → Option Bytes} {r : Rd α} {P Q : α → Prop} (h : RT w r P) (hq : ∀ x, Q x → P x) :
    RT w r Q := fun x bs rest hx hw => h x bs rest (hq x hx) hw

/-- the same up to a normalisation of the value (used for penalties, which are stored with 20 fractional bits) -/
def RTn {α} (w : α → Option Bytes) (r : Rd α) (norm : α → α) (P : α → Prop) : Prop :=
  ∀ x bs rest, P x → w x = some bs → r.run (bs ++ rest) = some (norm x, rest)

theorem RT.toRTn {α} {w : α → Option Bytes} {r : Rd α} {P : α → Prop} (h : RT w r P) : RTn w r id P := h

theorem RTn.toRT {α} {w : α → Option Bytes} {r : Rd α} {P : α → Prop} {norm : α → α} (h : RTn w r norm P)
    (hid : ∀ x, P x → norm x = x) : RT w r P := by
  intro x bs rest hx hw
  rw [h x bs rest hx hw, hid x hx]

theorem readN_writes_n {α} {w : α → Option Bytes} {r : Rd α} {norm : α → α} {P : α → Prop} (hrt : RTn w r norm P) :
    ∀ (l : List α) (bs rest : Bytes), (∀ x ∈ l, P x) → seqW (l.map w) = some bs →
      (readN r l.length).run (bs ++ rest) = some (l.map norm, rest) := by
  intro l
  induction l with
  | nil =>
    intro bs rest _ h
    cases (seqW_nil_eq_some_iff.mp h)
    simp [readN]
  | cons x t ih =>
    intro bs rest hP h
    simp only [List.map_cons, seqW_cons_eq_some_iff] at h
    obtain ⟨b1, b2, h1, h2, rfl⟩ := h
    simp only [List.length_cons, readN, List.append_assoc, StateT.run_bind,
      hrt x b1 _ (hP x (by simp)) h1, Option.bind_eq_bind, Option.bind_some,
      ih b2 rest (fun y hy => hP y (by simp [hy])) h2, StateT.run_pure, Option.pure_def, List.map_cons]

theorem readN_writes {α} {w : α → Option Bytes} {r : Rd α} {P : α → Prop} (hrt : RT w r P)
    (l : List α) (bs rest : Bytes) (hP : ∀ x ∈ l, P x) (h : seqW (l.map w) = some bs) :
    (readN r l.length).run (bs ++ rest) = some (l, rest) := by
  simpa using readN_writes_n hrt.toRTn l bs rest hP h

theorem RTn_writeList {α} {w : α → Option Bytes} {r : Rd α} {norm : α → α} {P : α → Prop} (hrt : RTn w r norm P) :
    RTn (fun l => writeList l w) (readList r) (List.map norm) (fun l => ∀ x ∈ l, P x) := by
  intro l bs rest hP h
  simp only [writeList, seqW_cons_eq_some_iff] at h
  obtain ⟨b1, b2, h1, h2, rfl⟩ := h
  simp only [readList, List.append_assoc, StateT.run_bind, readNat_write _ h1, Option.bind_eq_bind,
    Option.bind_some]
  exact readN_writes_n hrt l b2 rest hP h2

theorem RT_writeList {α} {w : α → Option Bytes} {r : Rd α} {P : α → Prop} (hrt : RT w r P) :
    RT (fun l => writeList l w) (readList r) (fun l => ∀ x ∈ l, P x) := by
  intro l bs rest hP h
  simpa using RTn_writeList hrt.toRTn l bs rest hP h

theorem writeList_length {α} {w : α → Option Bytes} {l : List α} {bs : Bytes} (h : writeList l w = some bs) :
    l.length < 256 ^ ser_LONG_INT_BYTES := by
  simp only [writeList, seqW_cons_eq_some_iff] at h
  obtain ⟨b1, _, h1, _, _⟩ := h
  have := (intToBytes_eq_some h1).2.1
  simpa using this

theorem RT_pair {w : Int → Option Bytes} {r : Rd Int} {P : Int → Prop} (hrt : RT w r P) :
    RT (fun v : Int × Int => seqW [w v.1, w v.2]) (do let a ← r; let b ← r; pure (a, b))
      (fun v => P v.1 ∧ P v.2) := by
  intro v bs rest hP h
  simp only [seqW_cons_eq_some_iff, seqW_nil_eq_some_iff] at h
  obtain ⟨b1, _, h1, ⟨b2, _, h2, rfl, rfl⟩, rfl⟩ := h
  simp [StateT.run_bind, hrt v.1 b1 _ hP.1 h1, hrt v.2 b2 _ hP.2 h2]

theorem RT_writeListOfPairs {w : Int → Option Bytes} {r : Rd Int} {P : Int → Prop} (hrt : RT w r P) :
    RT (fun l => writeListOfPairs l w) (readListOfPairs r) (fun l => ∀ v ∈ l, P v.1 ∧ P v.2) := by
  intro l bs rest hP h
  simp only [writeListOfPairs, seqW_cons_eq_some_iff] at h
  obtain ⟨b1, b2, h1, h2, rfl⟩ := h
  simp only [readListOfPairs, List.append_assoc, StateT.run_bind, readNat_write _ h1, Option.bind_eq_bind,
    Option.bind_some]
  exact readN_writes (RT_pair hrt) l b2 rest hP h2

/-! ### ints -/

theorem RT_writeInt (k : Nat) : RT (fun v => writeInt v k) (readInt k) (fun _ => True) :=
  fun _ _ rest _ h => readInt_write rest h

theorem RT_writeShortInt : RT writeShortInt readShortInt (fun _ => True) :=
  fun _ _ rest _ h => readInt_write rest h

/-! ### strings -/

theorem decodeUtf8_utf8 (s : String) : decodeUtf8 (utf8 s) = some s := by
  simp [decodeUtf8, utf8, String.fromUTF8?, String.toUTF8, s.isValidUTF8, String.fromUTF8]

theorem utf8_length (s : String) : (utf8 s).length = s.utf8ByteSize := by
  unfold utf8 String.toUTF8
  rw [Array.length_toList]
  rfl

theorem RT_writeString : RT writeString readString (fun _ => True) := by
  intro s bs rest _ h
  simp only [writeString, seqW_cons_eq_some_iff, seqW_nil_eq_some_iff] at h
  obtain ⟨b1, _, h1, ⟨b2, _, h2, rfl, rfl⟩, rfl⟩ := h
  cases h2
  simp [readString, StateT.run_bind, readNat_write _ h1, readBytes_append _ _ _ rfl, decodeUtf8_utf8]

theorem RT_writeStringOrNone :
    RT writeStringOrNone readStringOrNone (fun o => ∀ s, o = some s → (utf8 s).length ≠ ser_NONE_STR_LEN) := by
  intro o bs rest hP h
  cases o with
  | none =>
    simp only [writeStringOrNone] at h
    simp [readStringOrNone, StateT.run_bind, readNat_write _ h]
  | some s =>
    simp only [writeStringOrNone, seqW_cons_eq_some_iff, seqW_nil_eq_some_iff] at h
    obtain ⟨b1, _, h1, ⟨b2, _, h2, rfl, rfl⟩, rfl⟩ := h
    cases h2
    have hne := hP s rfl
    simp [readStringOrNone, StateT.run_bind, readNat_write _ h1, hne, readBytes_append _ _ _ rfl, decodeUtf8_utf8]

/-! ### sign-bit ints -/

theorem and_two_pow_eq_zero_iff (x i : Nat) : x &&& 2 ^ i = 0 ↔ x.testBit i = false := by
  constructor
  · intro h
    have := congrArg (fun y => y.testBit i) h
    simpa [Nat.testBit_and, Nat.testBit_two_pow_self] using this
  · intro h
    apply Nat.eq_of_testBit_eq
    intro j
    by_cases hj : i = j
    · subst hj; simp [Nat.testBit_and, h]
    · simp [Nat.testBit_and, Nat.testBit_two_pow_of_ne hj]

theorem testBit31_iff (x : Nat) (hx : x < 2 ^ 32) : x.testBit 31 = true ↔ 2 ^ 31 ≤ x := by
  rw [Nat.testBit_eq_decide_div_mod_eq]
  simp only [decide_eq_true_eq]
  omega

theorem and_bit31_eq_zero_iff (x : Nat) (hx : x < 2 ^ 32) : x &&& (1 <<< 31) = 0 ↔ x < 2 ^ 31 := by
  rw [Nat.one_shiftLeft, and_two_pow_eq_zero_iff]
  have := testBit31_iff x hx
  cases hb : x.testBit 31 <;> simp [hb] at this ⊢ <;> omega

theorem and_bit31_ne_zero_of_ge (x : Nat) (h1 : 2 ^ 31 ≤ x) (h2 : x < 2 ^ 32) : x &&& (1 <<< 31) ≠ 0 := by
  intro h
  have := (and_bit31_eq_zero_iff x h2).mp h
  omega

theorem or_bit31 (a : Nat) (h : a < 2 ^ 31) : a ||| (1 <<< 31) = a + 2 ^ 31 := by
  rw [Nat.one_shiftLeft]; exact Nat.or_two_pow_eq_add_of_lt h

theorem mask31 (x : Nat) : x &&& ((1 <<< 31) - 1) = x % 2 ^ 31 := by
  rw [Nat.one_shiftLeft]; exact Nat.and_two_pow_sub_one_eq_mod x 31

theorem pow4 : 256 ^ ser_LONG_INT_BYTES = 2 ^ 32 := by decide

/-- arithmetic reading of the three bit operations of `write_int_neg` / `read_int_neg` on naturals -/
theorem bit31_clear_iff (x : Nat) : x &&& (1 <<< 31) = 0 ↔ x / 2 ^ 31 % 2 = 0 := by
  rw [Nat.one_shiftLeft, and_two_pow_eq_zero_iff, Nat.testBit_eq_decide_div_mod_eq]
  simp only [decide_eq_false_iff_not]
  omega

theorem writeIntNeg_eq (v : Int) :
    writeIntNeg v =
      if -(2 ^ 31 : Int) < v ∧ v < 2 ^ 31 then
        some (toBE 4 (if v < 0 then v.natAbs + 2 ^ 31 else v.toNat))
      else none := by
  unfold writeIntNeg intToBytes
  rw [pow4]
  by_cases hv : v < 0
  · simp only [hv, if_true]
    by_cases hbit : v.natAbs &&& (1 <<< 31) = 0
    · have hb := (bit31_clear_iff v.natAbs).mp hbit
      simp only [hbit, ne_eq, not_true_eq_false, if_false]
      by_cases hsmall : v.natAbs < 2 ^ 31
      · rw [or_bit31 _ hsmall]
        have h1 : (0 : Int) ≤ ((v.natAbs + 2 ^ 31 : Nat) : Int) ∧ ((v.natAbs + 2 ^ 31 : Nat) : Int).toNat < 2 ^ 32 := by
          omega
        have h2 : -(2 ^ 31 : Int) < v ∧ v < 2 ^ 31 := by omega
        rw [if_pos h1, if_pos h2, Int.toNat_natCast]
        rfl
      · have hor : v.natAbs ≤ v.natAbs ||| (1 <<< 31) := Nat.left_le_or
        have h1 : ¬ ((0 : Int) ≤ ((v.natAbs ||| (1 <<< 31) : Nat) : Int) ∧
            ((v.natAbs ||| (1 <<< 31) : Nat) : Int).toNat < 2 ^ 32) := by omega
        have h2 : ¬ (-(2 ^ 31 : Int) < v ∧ v < 2 ^ 31) := by omega
        rw [if_neg h1, if_neg h2]
    · have hb := (not_congr (bit31_clear_iff v.natAbs)).mp hbit
      have h2 : ¬ (-(2 ^ 31 : Int) < v ∧ v < 2 ^ 31) := by omega
      simp only [hbit, ne_eq, not_false_eq_true, if_true]
      rw [if_neg h2]
  · simp only [hv, if_false]
    by_cases hbit : v.toNat &&& (1 <<< 31) = 0
    · have hb := (bit31_clear_iff v.toNat).mp hbit
      simp only [hbit, ne_eq, not_true_eq_false, if_false]
      by_cases hsmall : v < 2 ^ 31
      · have h1 : 0 ≤ v ∧ v.toNat < 2 ^ 32 := by omega
        have h2 : -(2 ^ 31 : Int) < v ∧ v < 2 ^ 31 := by omega
        rw [if_pos h1, if_pos h2]
        simp [ser_LONG_INT_BYTES]
      · have h1 : ¬ (0 ≤ v ∧ v.toNat < 2 ^ 32) := by omega
        have h2 : ¬ (-(2 ^ 31 : Int) < v ∧ v < 2 ^ 31) := by omega
        rw [if_neg h1, if_neg h2]
    · have hb := (not_congr (bit31_clear_iff v.toNat)).mp hbit
      have h2 : ¬ (-(2 ^ 31 : Int) < v ∧ v < 2 ^ 31) := by omega
      simp only [hbit, ne_eq, not_false_eq_true, if_true]
      rw [if_neg h2]


theorem writeIntNeg_isSome_iff (v : Int) : (writeIntNeg v).isSome ↔ (-(2 ^ 31 : Int) < v ∧ v < 2 ^ 31) := by
  rw [writeIntNeg_eq]
  split <;> rename_i h
  · simpa using h
  · simp only [Option.isSome_none, Bool.false_eq_true, false_iff]; exact h

theorem readIntNeg_run (bs : Bytes) :
    readIntNeg.run bs =
      let v := fromBE (bs.take ser_LONG_INT_BYTES)
      some (if v &&& (1 <<< 31) ≠ 0 then -((v &&& ((1 <<< 31) - 1) : Nat) : Int) else (v : Int),
            bs.drop ser_LONG_INT_BYTES) := by
  simp only [readIntNeg, readNat, readBytes, StateT.run, bind, StateT.bind, pure, StateT.pure,
    Option.bind]
  split <;> rfl

theorem readIntNeg_nonneg (n : Nat) (rest : Bytes) (h : n < 2 ^ 31) :
    readIntNeg.run (toBE ser_LONG_INT_BYTES n ++ rest) = some ((n : Int), rest) := by
  have hlt : n < 256 ^ ser_LONG_INT_BYTES := by rw [pow4]; omega
  have hbit : n &&& (1 <<< 31) = 0 := by
    rw [bit31_clear_iff]; omega
  rw [readIntNeg_run]
  have hl := toBE_length ser_LONG_INT_BYTES n
  simp only [List.take_left' hl, List.drop_left' hl, fromBE_toBE _ _ hlt]
  rw [if_neg (by simpa using hbit)]

theorem readIntNeg_neg (a : Nat) (rest : Bytes) (h : a < 2 ^ 31) :
    readIntNeg.run (toBE ser_LONG_INT_BYTES (a + 2 ^ 31) ++ rest) = some (-(a : Int), rest) := by
  have hlt : a + 2 ^ 31 < 256 ^ ser_LONG_INT_BYTES := by rw [pow4]; omega
  have hne : (a + 2 ^ 31) &&& (1 <<< 31) ≠ 0 := by
    rw [ne_eq, bit31_clear_iff]; omega
  have hmod : (a + 2 ^ 31) % 2 ^ 31 = a := by omega
  rw [readIntNeg_run]
  have hl := toBE_length ser_LONG_INT_BYTES (a + 2 ^ 31)
  simp only [List.take_left' hl, List.drop_left' hl, fromBE_toBE _ _ hlt]
  rw [if_pos hne, mask31, hmod]

theorem RT_writeIntNeg : RT writeIntNeg readIntNeg (fun _ => True) := by
  intro v bs rest _ h
  rw [writeIntNeg_eq] at h
  split at h
  · rename_i hr
    cases h
    by_cases hv : v < 0
    · rw [if_pos hv, show (4 : Nat) = ser_LONG_INT_BYTES from rfl, readIntNeg_neg _ rest (by omega)]
      congr 2; omega
    · rw [if_neg hv, show (4 : Nat) = ser_LONG_INT_BYTES from rfl, readIntNeg_nonneg _ rest (by omega)]
      congr 2; omega
  · cases h

/-! ### bool arrays -/

theorem testBit_boolBits (l : List Bool) (i acc j : Nat) :
    (boolBits l i acc).testBit j = (acc.testBit j || (decide (i ≤ j) && l.getD (j - i) false)) := by
  induction l generalizing i acc with
  | nil => simp [boolBits]
  | cons b t ih =>
    rw [boolBits, ih]
    by_cases hji : j = i
    · subst hji
      have h1 : ¬ (j + 1 ≤ j) := by omega
      cases b <;> simp [Nat.testBit_or, Nat.one_shiftLeft, Nat.testBit_two_pow_self, h1]
    · have hne : (2 ^ i).testBit j = false := Nat.testBit_two_pow_of_ne (Ne.symm hji)
      by_cases hlt : i ≤ j
      · have h1 : i + 1 ≤ j := by omega
        have h2 : j - i = (j - (i + 1)) + 1 := by omega
        cases b <;> simp [Nat.testBit_or, Nat.one_shiftLeft, hne, hlt, h1, h2]
      · have h1 : ¬ (i + 1 ≤ j) := by omega
        cases b <;> simp [Nat.testBit_or, Nat.one_shiftLeft, hne, hlt, h1]

theorem mask_test (v i : Nat) : (v &&& (1 <<< i) != 0) = v.testBit i := by
  rw [Nat.one_shiftLeft]
  cases hb : v.testBit i
  · have := (and_two_pow_eq_zero_iff v i).mpr hb
    simp [this]
  · have : v &&& 2 ^ i ≠ 0 := fun h => by
      have := (and_two_pow_eq_zero_iff v i).mp h
      simp [hb] at this
    simp [this]

theorem map_range_getD (l : List Bool) : (List.range l.length).map (fun i => l.getD i false) = l := by
  apply List.ext_getElem
  · simp
  · intro i h1 h2
    simp at h1
    simp [h1]

theorem RT_writeBoolArray (n : Nat) : RT writeBoolArray (readBoolArray n) (fun l => l.length = n) := by
  intro l bs rest hn h
  subst hn
  unfold writeBoolArray at h
  split at h
  · simp only [readBoolArray, StateT.run_bind, readNat_write rest h, Option.bind_eq_bind, Option.bind_some,
      StateT.run_pure, Option.pure_def, Option.some.injEq, Prod.mk.injEq, and_true]
    have : (fun i => (boolBits l 0 0 &&& (1 <<< i) != 0)) = (fun i => l.getD i false) := by
      funext i
      rw [mask_test, testBit_boolBits]
      simp
    rw [this, map_range_getD]
  · cases h

/-! ### dicts -/

theorem RT_writeDictEntry : RT writeDictEntry readDictEntry (fun _ => True) := by
  intro kv bs rest _ h
  obtain ⟨k, v⟩ := kv
  cases v with
  | int v =>
    simp only [writeDictEntry, seqW_cons_eq_some_iff, seqW_nil_eq_some_iff] at h
    obtain ⟨b1, _, h1, ⟨b2, _, h2, ⟨b3, _, h3, rfl, rfl⟩, rfl⟩, rfl⟩ := h
    simp [readDictEntry, StateT.run_bind, RT_writeString k b1 _ trivial h1, readNat_write _ h2,
      RT_writeIntNeg v b3 _ trivial h3]
  | str s =>
    simp only [writeDictEntry, seqW_cons_eq_some_iff, seqW_nil_eq_some_iff] at h
    obtain ⟨b1, _, h1, ⟨b2, _, h2, ⟨b3, _, h3, rfl, rfl⟩, rfl⟩, rfl⟩ := h
    have hne : ser_DICT_STR_TYPE ≠ ser_DICT_INT_TYPE := by decide
    simp [readDictEntry, StateT.run_bind, RT_writeString k b1 _ trivial h1, readNat_write _ h2,
      RT_writeString s b3 _ trivial h3, hne]
  | pair a b =>
    simp only [writeDictEntry, seqW_cons_eq_some_iff, seqW_nil_eq_some_iff] at h
    obtain ⟨b1, _, h1, ⟨b2, _, h2, ⟨b3, _, h3, ⟨b4, _, h4, rfl, rfl⟩, rfl⟩, rfl⟩, rfl⟩ := h
    have hne1 : ser_DICT_INT_PAIR_TYPE ≠ ser_DICT_INT_TYPE := by decide
    have hne2 : ser_DICT_INT_PAIR_TYPE ≠ ser_DICT_STR_TYPE := by decide
    simp [readDictEntry, StateT.run_bind, RT_writeString k b1 _ trivial h1, readNat_write _ h2,
      RT_writeIntNeg a b3 _ trivial h3, RT_writeIntNeg b b4 _ trivial h4, hne1, hne2]

theorem dictSet_new (d : Dict) (k : String) (v : DictVal) (h : k ∉ d.map (·.1)) :
    dictSet d k v = d ++ [(k, v)] := by
  induction d with
  | nil => rfl
  | cons kv t ih =>
    obtain ⟨k', v'⟩ := kv
    simp only [List.map_cons, List.mem_cons, not_or] at h
    have hne : ¬ (k' = k) := fun e => h.1 e.symm
    simp [dictSet, hne, ih h.2]

theorem readDictLoop_writes (l d : Dict) (bs rest : Bytes)
    (hnd : ((d ++ l).map (·.1)).Nodup) (h : seqW (l.map writeDictEntry) = some bs) :
    (readDictLoop readDictEntry l.length d).run (bs ++ rest) = some (d ++ l, rest) := by
  induction l generalizing d bs with
  | nil =>
    cases (seqW_nil_eq_some_iff.mp h)
    simp [readDictLoop]
  | cons kv t ih =>
    simp only [List.map_cons, seqW_cons_eq_some_iff] at h
    obtain ⟨b1, b2, h1, h2, rfl⟩ := h
    have hk : kv.1 ∉ d.map (·.1) := by
      simp only [List.map_append, List.map_cons, List.nodup_append, List.mem_cons] at hnd
      intro hmem
      exact hnd.2.2 _ hmem _ (Or.inl rfl) rfl
    have hnd' : (((d ++ [kv]) ++ t).map (·.1)).Nodup := by simpa using hnd
    simp only [List.length_cons, readDictLoop, List.append_assoc, StateT.run_bind,
      RT_writeDictEntry kv b1 _ trivial h1, Option.bind_eq_bind, Option.bind_some, dictSet_new d kv.1 kv.2 hk]
    rw [ih (d ++ [kv]) b2 hnd' h2]
    simp

theorem RT_writeDict : RT writeDict readDict (fun d => (d.map (·.1)).Nodup) := by
  intro d bs rest hnd h
  simp only [writeDict, seqW_cons_eq_some_iff] at h
  obtain ⟨b1, b2, h1, h2, rfl⟩ := h
  simp only [readDict, List.append_assoc, StateT.run_bind, readNat_write _ h1, Option.bind_eq_bind,
    Option.bind_some]
  simpa using readDictLoop_writes d [] b2 rest (by simpa using hnd) h2

/-! ### enums (facts about the generated tables, re-checked whenever /repo changes them) -/

theorem RT_enum {ε} (value : ε → Nat) (ofValue? : Nat → Option ε) (k : Nat)
    (hov : ∀ e, ofValue? (value e) = some e) :
    RT (fun e => writeInt (value e : Nat) k) (readEnum ofValue? k) (fun _ => True) := by
  intro e bs rest _ h
  simp [readEnum, StateT.run_bind, readNat_write rest h, hov]

theorem MatchEventSubtype.ofValue_value (e : MatchEventSubtype) : MatchEventSubtype.ofValue? e.value = some e := by
  cases e <;> rfl
theorem MatchClassification.ofValue_value (e : MatchClassification) :
    MatchClassification.ofValue? e.value = some e := by
  cases e <;> rfl
theorem ReadAssignmentType.ofValue_value (e : ReadAssignmentType) :
    ReadAssignmentType.ofValue? e.value = some e := by
  cases e <;> rfl

theorem MatchEventSubtype.value_lt (e : MatchEventSubtype) : e.value < 256 ^ ser_SHORT_INT_BYTES := by
  cases e <;> decide
theorem MatchClassification.value_lt (e : MatchClassification) : e.value < 256 ^ ser_SHORT_INT_BYTES := by
  cases e <;> decide
theorem ReadAssignmentType.value_lt (e : ReadAssignmentType) : e.value < 256 ^ ser_SHORT_INT_BYTES := by
  cases e <;> decide

/-! ### penalties -/

theorem penaltyToInt_of_multiple (n : Int) :
    penaltyToInt ((n : Rat) / ((ser_SHORT_FLOAT_MULTIPLIER : Nat) : Rat)) = n := by
  unfold penaltyToInt
  have hne : ((ser_SHORT_FLOAT_MULTIPLIER : Nat) : Rat) ≠ 0 := by decide
  simp only [Rat.div_mul_cancel hne, Rat.num_intCast, Rat.den_intCast]
  simp

/-- what a stored penalty reads back as: the value truncated to 20 fractional bits -/
def quantPenalty (q : Rat) : Rat := ((penaltyToInt q : Int) : Rat) / ((ser_SHORT_FLOAT_MULTIPLIER : Nat) : Rat)

theorem quantPenalty_of_multiple (n : Int) :
    quantPenalty ((n : Rat) / ((ser_SHORT_FLOAT_MULTIPLIER : Nat) : Rat)) = (n : Rat) / ((ser_SHORT_FLOAT_MULTIPLIER : Nat) : Rat) := by
  unfold quantPenalty; rw [penaltyToInt_of_multiple]

theorem penaltyToInt_quantPenalty (q : Rat) : penaltyToInt (quantPenalty q) = penaltyToInt q :=
  penaltyToInt_of_multiple _

theorem RTn_writePenalty : RTn writePenalty readPenalty quantPenalty (fun _ => True) := by
  intro q bs rest _ h
  simp only [writePenalty, writeInt] at h
  obtain ⟨h0, _, _⟩ := intToBytes_eq_some h
  have hn : penaltyToInt q = ((penaltyToInt q).toNat : Int) := by omega
  rw [hn] at h
  simp only [readPenalty, StateT.run_bind, readNat_write rest h, Option.bind_eq_bind, Option.bind_some,
    StateT.run_pure, Option.pure_def]
  rw [← hn]; rfl

theorem RT_writePenalty :
    RT writePenalty readPenalty (fun q => ∃ n : Int, q = (n : Rat) / ((ser_SHORT_FLOAT_MULTIPLIER : Nat) : Rat)) := by
  intro q bs rest hq hw
  obtain ⟨n, rfl⟩ := hq
  rw [RTn_writePenalty _ bs rest trivial hw, quantPenalty_of_multiple]

/-! ### stepping through a writer sequence and the matching reader -/

/-- one statement of a writer sequence against one `let x ← reader` of the matching reader -/
theorem RTn.step {α β} {w : α → Option Bytes} {r : Rd α} {norm : α → α} {P : α → Prop} (hrt : RTn w r norm P)
    {x : α} (hx : P x) {l : List (Option Bytes)} {bs rest : Bytes} {f : α → Rd β} {y : β}
    (h : seqW (w x :: l) = some bs)
    (hk : ∀ bs', seqW l = some bs' → (f (norm x)).run (bs' ++ rest) = some (y, rest)) :
    (r >>= f).run (bs ++ rest) = some (y, rest) := by
  obtain ⟨b1, b2, h1, h2, rfl⟩ := seqW_cons_eq_some_iff.mp h
  rw [List.append_assoc, StateT.run_bind, hrt x b1 _ hx h1]
  exact hk b2 h2

theorem RT.step {α β} {w : α → Option Bytes} {r : Rd α} {P : α → Prop} (hrt : RT w r P)
    {x : α} (hx : P x) {l : List (Option Bytes)} {bs rest : Bytes} {f : α → Rd β} {y : β}
    (h : seqW (w x :: l) = some bs)
    (hk : ∀ bs', seqW l = some bs' → (f x).run (bs' ++ rest) = some (y, rest)) :
    (r >>= f).run (bs ++ rest) = some (y, rest) :=
  RTn.step hrt.toRTn hx h hk

/-- a reader step that does not touch the stream (e.g. `bool_arr[0]`) -/
theorem pure_step {α β} {r : Rd α} {f : α → Rd β} {s : Bytes} {x : α} {res : Option (β × Bytes)}
    (hr : r.run s = some (x, s)) (hk : (f x).run s = res) : (r >>= f).run s = res := by
  rw [StateT.run_bind, hr]; exact hk

theorem done_step {β} {bs rest : Bytes} {y y' : β} (h : seqW [] = some bs) (hy : y = y') :
    (pure y : Rd β).run (bs ++ rest) = some (y', rest) := by
  cases seqW_nil_eq_some_iff.mp h
  subst hy
  rfl

theorem RT_enumRAT (k : Nat) :
    RT (fun e : ReadAssignmentType => writeInt (e.value : Nat) k) (readEnum ReadAssignmentType.ofValue? k) (fun _ => True) :=
  RT_enum ReadAssignmentType.value ReadAssignmentType.ofValue? k ReadAssignmentType.ofValue_value

theorem boolAt_run (l : List Bool) (i : Nat) (b : Bool) (rest : Bytes) (h : l[i]? = some b) :
    (boolAt l i).run rest = some (b, rest) := by
  simp [boolAt, h]


theorem RT_writeGeneHeader : RT writeGeneHeader readGeneHeader (fun _ => True) := by
  intro x bs rest _ h
  unfold writeGeneHeader at h
  unfold readGeneHeader
  refine RT.step (RT_writeInt _) trivial h ?_; clear h; intro bs h
  refine RT.step (RT_writeList RT_writeString) (fun _ _ => trivial) h ?_; clear h; intro bs h
  refine RT.step RT_writeString trivial h ?_; clear h; intro bs h
  refine RT.step (RT_writeInt _) trivial h ?_; clear h; intro bs h
  refine RT.step (RT_writeInt _) trivial h ?_; clear h; intro bs h
  exact done_step h rfl

end IsoVerif.Lemmas.Serial
