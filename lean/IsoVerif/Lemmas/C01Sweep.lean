/-
Invariants of `OverlappingFeaturesProfileConstructor.construct_profile_for_features` (Model/Profiles.lean
`ovSweep`, `ovEliminate`, `constructOverlapping`) needed by C01: what a `1`, a `−1` in the read / gene profile mean.
Core Lean only.
-/
import IsoVerif.Model.Profiles

namespace IsoVerif.Lemmas.C01
open IsoVerif.Gen IsoVerif.Model

/-! ### the main sweep -/

/-- invariant of the sweep; `K`/`R` are the full known / read feature lists, `gi` the current gene position,
    `NZ` a fixed set of gene positions that are known to hold a non-zero mark -/
structure SweepInv (cmp : Iv → Iv → Bool) (K R : List Iv) (NZ : Nat → Prop) (gi : Nat) (st : OvState) : Prop where
  glen : st.gene.length = K.length
  rlen : st.read.length = R.length
  matched_ok : ∀ q ∈ st.matched, q.2 < gi ∧ st.gene[q.2]? = some 1 ∧
      ∃ r k, R[q.1]? = some r ∧ K[q.2]? = some k ∧ cmp r k = true
  read1 : ∀ j, st.read[j]? = some 1 → ∃ g, (j, g) ∈ st.matched
  gene1 : ∀ g, st.gene[g]? = some 1 → ∃ j, (j, g) ∈ st.matched
  dom : ∀ v ∈ st.read, v = -1 ∨ v = 0 ∨ v = 1
  sorted : st.matched.Pairwise (fun a b => a.2 < b.2)
  nz : ∀ g, NZ g → ∃ v, st.gene[g]? = some v ∧ v ≠ 0

theorem drop_cons_get {α} {l : List α} {i : Nat} {a : α} {t : List α} (h : l.drop i = a :: t) :
    l[i]? = some a ∧ l.drop (i + 1) = t := by
  constructor
  · have := List.head?_drop (l := l) (i := i)
    rw [h] at this; simpa using this.symm
  · have := List.tail_drop (l := l) (i := i)
    rw [h] at this; simpa using this.symm

theorem getElem?_lt {α} {l : List α} {i : Nat} {a : α} (h : l[i]? = some a) : i < l.length :=
  (List.getElem?_eq_some_iff.mp h).1

/-- marking gene position `gi` (−1 or 1) keeps the invariant for the next position, provided a `1` comes with
    its match -/
theorem inv_set_gene_neg {cmp K R NZ gi} {st : OvState} (h : SweepInv cmp K R NZ gi st) :
    SweepInv cmp K R NZ (gi + 1) { st with gene := st.gene.set gi (-1) } := by
  refine ⟨by simp [h.glen], h.rlen, ?_, h.read1, ?_, h.dom, h.sorted, ?_⟩
  · intro q hq
    obtain ⟨h1, h2, h3⟩ := h.matched_ok q hq
    refine ⟨by omega, ?_, h3⟩
    show (st.gene.set gi (-1))[q.2]? = some 1
    rw [List.getElem?_set_ne (by omega)]; exact h2
  · intro g hg
    have hg' : (st.gene.set gi (-1))[g]? = some 1 := hg
    by_cases e : gi = g
    · subst e
      rw [List.getElem?_set] at hg'
      simp at hg'
    · rw [List.getElem?_set_ne e] at hg'; exact h.gene1 g hg'
  · intro g hg
    obtain ⟨v, hv, hv0⟩ := h.nz g hg
    show ∃ v, (st.gene.set gi (-1))[g]? = some v ∧ v ≠ 0
    by_cases e : gi = g
    · subst e
      exact ⟨-1, by rw [List.getElem?_set_self (getElem?_lt hv)], by omega⟩
    · exact ⟨v, by rw [List.getElem?_set_ne e]; exact hv, hv0⟩

theorem inv_step_gene {cmp K R NZ gi} {st : OvState} (h : SweepInv cmp K R NZ gi st) :
    SweepInv cmp K R NZ (gi + 1) st := by
  refine ⟨h.glen, h.rlen, ?_, h.read1, h.gene1, h.dom, h.sorted, h.nz⟩
  intro q hq
  obtain ⟨h1, h2, h3⟩ := h.matched_ok q hq
  exact ⟨by omega, h2, h3⟩

theorem inv_set_read_neg {cmp K R NZ gi} {st : OvState} (ri : Nat) (h : SweepInv cmp K R NZ gi st) :
    SweepInv cmp K R NZ gi { st with read := st.read.set ri (-1) } := by
  refine ⟨h.glen, by simp [h.rlen], h.matched_ok, ?_, h.gene1, ?_, h.sorted, h.nz⟩
  · intro j hj
    have hj' : (st.read.set ri (-1))[j]? = some 1 := hj
    by_cases e : ri = j
    · subst e
      rw [List.getElem?_set] at hj'
      simp at hj'
    · rw [List.getElem?_set_ne e] at hj'; exact h.read1 j hj'
  · intro v hv
    rcases List.mem_or_eq_of_mem_set hv with h1 | h1
    · exact h.dom v h1
    · left; exact h1

theorem inv_match {cmp K R NZ gi} {st : OvState} (ri : Nat) (r k : Iv) (h : SweepInv cmp K R NZ gi st)
    (hr : R[ri]? = some r) (hk : K[gi]? = some k) (hc : cmp r k = true) :
    SweepInv cmp K R NZ (gi + 1)
      { gene := st.gene.set gi 1, read := st.read.set ri 1, matched := st.matched ++ [(ri, gi)] } := by
  have hgi : gi < st.gene.length := by rw [h.glen]; exact getElem?_lt hk
  refine ⟨by simp [h.glen], by simp [h.rlen], ?_, ?_, ?_, ?_, ?_, ?_⟩
  · intro q hq
    simp only [List.mem_append, List.mem_singleton] at hq
    rcases hq with hq | hq
    · obtain ⟨h1, h2, h3⟩ := h.matched_ok q hq
      refine ⟨by omega, ?_, h3⟩
      show (st.gene.set gi 1)[q.2]? = some 1
      rw [List.getElem?_set_ne (by omega)]; exact h2
    · subst hq
      refine ⟨by simp, ?_, r, k, hr, hk, hc⟩
      show (st.gene.set gi 1)[gi]? = some 1
      exact List.getElem?_set_self hgi
  · intro j hj
    have hj' : (st.read.set ri 1)[j]? = some 1 := hj
    by_cases e : ri = j
    · subst e; exact ⟨gi, by simp⟩
    · rw [List.getElem?_set_ne e] at hj'
      obtain ⟨g, hg⟩ := h.read1 j hj'
      exact ⟨g, by simp [hg]⟩
  · intro g hg
    have hg' : (st.gene.set gi 1)[g]? = some 1 := hg
    by_cases e : gi = g
    · subst e; exact ⟨ri, by simp⟩
    · rw [List.getElem?_set_ne e] at hg'
      obtain ⟨j, hj⟩ := h.gene1 g hg'
      exact ⟨j, by simp [hj]⟩
  · intro v hv
    rcases List.mem_or_eq_of_mem_set hv with h1 | h1
    · exact h.dom v h1
    · right; right; exact h1
  · show (st.matched ++ [(ri, gi)]).Pairwise (fun a b => a.2 < b.2)
    rw [List.pairwise_append]
    refine ⟨h.sorted, by simp, ?_⟩
    intro a ha b hb
    simp at hb; subst hb
    exact (h.matched_ok a ha).1
  · intro g hg
    obtain ⟨v, hv, hv0⟩ := h.nz g hg
    show ∃ v, (st.gene.set gi 1)[g]? = some v ∧ v ≠ 0
    by_cases e : gi = g
    · subst e
      exact ⟨1, by rw [List.getElem?_set_self hgi], by omega⟩
    · exact ⟨v, by rw [List.getElem?_set_ne e]; exact hv, hv0⟩

/-- the sweep preserves the invariant (for some final gene position) -/
theorem ovSweep_inv (cmp absent : Iv → Iv → Bool) (mapped : Iv) (K R : List Iv) (NZ : Nat → Prop)
    (ks : List Iv) (gi : Nat) (rs : List Iv) (ri : Nat) (st : OvState)
    (hK : K.drop gi = ks) (hR : R.drop ri = rs) (h : SweepInv cmp K R NZ gi st) :
    ∃ gi', SweepInv cmp K R NZ gi' (ovSweep cmp absent mapped ks gi rs ri st) := by
  fun_induction ovSweep cmp absent mapped ks gi rs ri st with
  | case1 gi rs ri st => exact ⟨gi, h⟩
  | case2 k ks gi ri st => exact ⟨gi, h⟩
  | case3 k ks gi r rs ri st hlt st' ih =>
    obtain ⟨_, hR'⟩ := drop_cons_get hR
    apply ih hK hR'
    show SweepInv cmp K R NZ gi (if (st.read.getD ri 0 == 0 && decide (gi > 0)) = true then _ else st)
    split
    · exact inv_set_read_neg ri h
    · exact h
  | case4 k ks gi r rs ri st h1 hlt st' ih =>
    obtain ⟨_, hK'⟩ := drop_cons_get hK
    apply ih hK' hR
    show SweepInv cmp K R NZ (gi + 1) (if ri > 0 then _ else st)
    split
    · exact inv_set_gene_neg h
    · exact inv_step_gene h
  | case5 k ks gi r rs ri st h1 h2 hc ih =>
    obtain ⟨hk, hK'⟩ := drop_cons_get hK
    obtain ⟨hr, _⟩ := drop_cons_get hR
    exact ih hK' hR (inv_match ri r k h hr hk hc)
  | case6 k ks gi r rs ri st h1 h2 hc hov st' ih =>
    obtain ⟨_, hK'⟩ := drop_cons_get hK
    apply ih hK' hR
    show SweepInv cmp K R NZ (gi + 1) (if absent mapped k = true then _ else st)
    split
    · exact inv_set_gene_neg h
    · exact inv_step_gene h
  | case7 k ks gi r rs ri st h1 h2 hc hov => exact ⟨gi, h⟩

/-- the initial state of `construct_profile_for_features` satisfies the invariant; the gene positions that
    the absence test marks are the non-zero ones -/
theorem init_inv (cmp absent : Iv → Iv → Bool) (K R : List Iv) (mapped geneRegion : Iv) :
    SweepInv cmp K R (fun g => ∃ k, K[g]? = some k ∧ absent mapped k = true) 0
      { gene := K.map (fun k => if absent mapped k then -1 else 0),
        read := R.map (fun r => if absent geneRegion r then -1 else 0), matched := [] } := by
  refine ⟨by simp, by simp, by simp, ?_, ?_, ?_, by simp, ?_⟩
  · intro j hj
    simp only [List.getElem?_map] at hj
    cases hr : R[j]? with
    | none => simp [hr] at hj
    | some r => simp [hr] at hj; split at hj <;> omega
  · intro g hg
    simp only [List.getElem?_map] at hg
    cases hk : K[g]? with
    | none => simp [hk] at hg
    | some k => simp [hk] at hg; split at hg <;> omega
  · intro v hv
    simp only [List.mem_map] at hv
    obtain ⟨r, _, hv⟩ := hv
    split at hv <;> omega
  · rintro g ⟨k, hk, ha⟩
    refine ⟨-1, ?_, by omega⟩
    simp [List.getElem?_map, hk, ha]

/-! ### tie elimination -/

theorem foldl_inv {α β} (Q : β → Prop) (f : β → α → β) (l : List α) (b : β)
    (h0 : Q b) (hstep : ∀ b a, a ∈ l → Q b → Q (f b a)) : Q (l.foldl f b) := by
  induction l generalizing b with
  | nil => exact h0
  | cons a t ih =>
    simp only [List.foldl_cons]
    apply ih
    · exact hstep b a (by simp) h0
    · intro b' a' ha' hb'; exact hstep b' a' (by simp [ha']) hb'

theorem minList_mem : ∀ (l : List Int) (m : Int), minList l = some m → m ∈ l ∧ ∀ x ∈ l, m ≤ x := by
  intro l
  induction l with
  | nil => intro m h; simp [minList] at h
  | cons a t ih =>
    intro m h
    simp only [minList] at h
    cases ht : minList t with
    | none =>
      rw [ht] at h
      simp at h; subst h
      cases t with
      | nil => simp
      | cons b t' =>
        simp only [minList] at ht
        cases h2 : minList t' <;> simp [h2] at ht
    | some m' =>
      rw [ht] at h
      simp at h
      obtain ⟨h1, h2⟩ := ih m' ht
      subst h
      constructor
      · by_cases hle : a ≤ m'
        · simp [Int.min_def, hle]
        · simp [Int.min_def, hle, h1]
      · intro x hx
        rcases List.mem_cons.mp hx with hx | hx
        · subst hx; exact Int.min_le_left _ _
        · exact Int.le_trans (Int.min_le_right _ _) (h2 x hx)

/-- distance used by the tie elimination (with the model's defaults for out-of-range positions) -/
def tieDist (known read : List Iv) (j i : Nat) : Int :=
  matchDelta (read.getD j (0, 0)) (known.getD i (0, 0))

/-- gene position `i` lost a tie: it shares a read feature with a strictly closer known feature -/
def Beaten (known read : List Iv) (matched : List (Nat × Nat)) (i : Nat) : Prop :=
  ∃ j i', (j, i) ∈ matched ∧ (j, i') ∈ matched ∧ tieDist known read j i' < tieDist known read j i

def ElimQ (known read : List Iv) (matched : List (Nat × Nat)) (gene acc : List Int) : Prop :=
  acc.length = gene.length ∧
    ∀ i, acc[i]? = gene[i]? ∨ (acc[i]? = some (-1) ∧ Beaten known read matched i)

/-- the tie elimination changes a mark only to −1 and only at positions that lost a tie -/
theorem ovEliminate_spec (known read : List Iv) (matched : List (Nat × Nat)) (gene : List Int) :
    ElimQ known read matched gene (ovEliminate known read matched gene) := by
  unfold ovEliminate
  refine foldl_inv (ElimQ known read matched gene) _ _ _ ⟨rfl, fun i => Or.inl rfl⟩ ?_
  · intro acc ri _ hacc
    simp only
    split
    · -- more than one match for read feature ri
      rename_i hlen
      split
      · exact hacc
      · rename_i best hbest
        obtain ⟨hbm, _⟩ := minList_mem _ _ hbest
        simp only [List.mem_map] at hbm
        obtain ⟨i', hi', hbd⟩ := hbm
        have mem_ms : ∀ g, g ∈ (matched.filter (fun p => p.1 == ri)).map (·.2) → (ri, g) ∈ matched := by
          intro g hg
          simp only [List.mem_map, List.mem_filter] at hg
          obtain ⟨q, ⟨hq, hq1⟩, hq2⟩ := hg
          have : q = (ri, g) := by
            cases q with
            | mk a b => simp at hq1 hq2; simp [hq1, hq2]
          rw [← this]; exact hq
        refine foldl_inv (ElimQ known read matched gene) _ _ _ hacc ?_
        · intro acc' p hp hacc'
          split
          · rename_i hgt
            -- p.1 is set to -1: it lost the tie against i'
            have hp' := List.of_mem_zip hp
            have hp2 : p.2 = matchDelta (read.getD ri (0, 0)) (known.getD p.1 (0, 0)) := by
              have := hp
              rw [List.zip_map_right] at this
              simp only [List.mem_map] at this
              obtain ⟨q, hq, hqp⟩ := this
              have hq' := List.of_mem_zip hq
              -- q ∈ zip ms ms means q.1 = q.2? no: zip ms ms' with ms' = ms
              have hqq : q.1 = q.2 := by
                clear hqp hq'
                revert hq
                generalize (List.map (fun x => x.2) (List.filter (fun p => p.1 == ri) matched)) = ms
                intro hq
                induction ms with
                | nil => simp at hq
                | cons a t ih =>
                  simp only [List.zip_cons_cons, List.mem_cons] at hq
                  rcases hq with hq | hq
                  · subst hq; rfl
                  · exact ih hq
              subst hqp
              simp [Prod.map, hqq]
            have hb : Beaten known read matched p.1 := by
              refine ⟨ri, i', mem_ms p.1 hp'.1, mem_ms i' (List.mem_map.mpr hi'), ?_⟩
              unfold tieDist
              rw [← hp2, hbd]; exact hgt
            refine ⟨by simp [hacc'.1], ?_⟩
            intro i
            by_cases e : p.1 = i
            · subst e
              by_cases hl : p.1 < acc'.length
              · right; exact ⟨List.getElem?_set_self hl, hb⟩
              · left
                rw [List.getElem?_eq_none (by simp; omega), List.getElem?_eq_none (by rw [← hacc'.1]; omega)]
            · rw [List.getElem?_set_ne e]; exact hacc'.2 i
          · exact hacc'
    · exact hacc

/-! ### polyA / polyT masking and the profile range -/

/-- a mask overwrites with −2 exactly the positions whose known feature satisfies `c` -/
theorem mask_spec (K : List Iv) (g : List Int) (c : Iv → Bool) (hlen : g.length = K.length) :
    (List.zipWith (fun (k : Iv) (v : Int) => if c k then -2 else v) K g).length = K.length ∧
    ∀ i : Nat, ((List.zipWith (fun (k : Iv) (v : Int) => if c k then -2 else v) K g)[i]? = g[i]? ∧
            ∀ k, K[i]? = some k → c k = false) ∨
         ((List.zipWith (fun (k : Iv) (v : Int) => if c k then -2 else v) K g)[i]? = some (-2) ∧
            ∃ k, K[i]? = some k ∧ c k = true) := by
  refine ⟨by simp [hlen], ?_⟩
  intro i
  rw [List.getElem?_zipWith]
  cases hk : K[i]? with
  | none =>
    left
    have : g[i]? = none := by
      apply List.getElem?_eq_none
      have := List.getElem?_eq_none_iff.mp hk
      omega
    simp [this]
  | some k =>
    have hi : i < g.length := by rw [hlen]; exact getElem?_lt hk
    have hg : g[i]? = some g[i] := by simp [hi]
    rw [hg]
    cases hc : c k
    · left; simp [hc]
    · right; simp [hc]

theorem leadingZeros_le (l : List Int) (i : Nat) (v : Int) (h : l[i]? = some v) (hv : v ≠ 0) :
    leadingZeros l ≤ i := by
  induction l generalizing i with
  | nil => simp at h
  | cons x xs ih =>
    cases i with
    | zero =>
      simp at h; subst h
      simp [leadingZeros, hv]
    | succ i =>
      simp at h
      have := ih i h
      simp only [leadingZeros]
      split <;> omega

theorem leadingZeros_le_length (l : List Int) : leadingZeros l ≤ l.length := by
  induction l with
  | nil => simp [leadingZeros]
  | cons x xs ih => simp only [leadingZeros]; split <;> simp <;> omega

/-- a non-zero mark lies inside `profileRange` -/
theorem nonzero_in_range (l : List Int) (i : Nat) (v : Int) (h : l[i]? = some v) (hv : v ≠ 0) :
    (profileRange l).1 ≤ (i : Int) ∧ (i : Int) < (profileRange l).2 := by
  have hi : i < l.length := getElem?_lt h
  have h1 := leadingZeros_le l i v h hv
  have h2 : leadingZeros l.reverse ≤ l.length - 1 - i := by
    apply leadingZeros_le l.reverse (l.length - 1 - i) v _ hv
    rw [List.getElem?_reverse (by omega)]
    have : l.length - 1 - (l.length - 1 - i) = i := by omega
    rw [this]; exact h
  simp only [profileRange]
  omega

/-! ### what the marks of `construct_profile_for_features` mean -/

theorem exists_min_on (f : Nat → Int) : ∀ (l : List Nat), l ≠ [] → ∃ m ∈ l, ∀ x ∈ l, f m ≤ f x := by
  intro l
  induction l with
  | nil => intro h; exact absurd rfl h
  | cons a t ih =>
    intro _
    cases t with
    | nil => exact ⟨a, by simp, by simp⟩
    | cons b t' =>
      obtain ⟨m, hm, hmin⟩ := ih (by simp)
      by_cases hle : f a ≤ f m
      · refine ⟨a, by simp, ?_⟩
        intro x hx
        rcases List.mem_cons.mp hx with hx | hx
        · subst hx; omega
        · have := hmin x hx; omega
      · refine ⟨m, List.mem_cons_of_mem _ hm, ?_⟩
        intro x hx
        rcases List.mem_cons.mp hx with hx | hx
        · subst hx; omega
        · exact hmin x hx

theorem pairwise_snd_inj {l : List (Nat × Nat)} (h : l.Pairwise (fun a b => a.2 < b.2)) {a b g : Nat}
    (ha : (a, g) ∈ l) (hb : (b, g) ∈ l) : a = b := by
  induction l with
  | nil => simp at ha
  | cons x t ih =>
    rw [List.pairwise_cons] at h
    rcases List.mem_cons.mp ha with ha | ha <;> rcases List.mem_cons.mp hb with hb | hb
    · rw [← ha] at hb; simpa using hb.symm
    · have := h.1 _ hb; rw [← ha] at this; simp at this
    · have := h.1 _ ha; rw [← hb] at this; simp at this
    · exact ih h.2 ha hb

/-- masked by the polyA position (beyond it) or by the polyT position (before it) -/
def Masked (delta polya polyt : Int) (k : Iv) : Prop :=
  (polya ≠ -1 ∧ k.1 > polya + delta) ∨ (polyt ≠ -1 ∧ k.2 < polyt - delta)

structure OvSpec (cmp absent : Iv → Iv → Bool) (K R : List Iv) (mapped : Iv) (delta polya polyt : Int)
    (res : ProfileResult) : Prop where
  glen : res.gene.length = K.length
  rlen : res.read.length = R.length
  dom : ∀ v ∈ res.read, v = -1 ∨ v = 0 ∨ v = 1
  /-- a read feature marked 1 matches a known feature that is marked 1, unless the polyA/T mask hides it -/
  read_one : ∀ (j : Nat) (r : Iv), R[j]? = some r → res.read[j]? = some 1 →
      ∃ (gi : Nat) (k : Iv), K[gi]? = some k ∧ cmp r k = true ∧
        (res.gene[gi]? = some 1 ∨ (res.gene[gi]? = some (-2) ∧ Masked delta polya polyt k))
  /-- a known feature for which the absence test holds never keeps a 0 -/
  absent_nonzero : ∀ (gi : Nat) (k : Iv), K[gi]? = some k → absent mapped k = true → ∃ v, res.gene[gi]? = some v ∧ v ≠ 0
  /-- a known feature marked 1 is matched by a read feature -/
  gene_one : ∀ (gi : Nat) (k : Iv), K[gi]? = some k → res.gene[gi]? = some 1 → ∃ (j : Nat) (r : Iv), R[j]? = some r ∧ cmp r k = true
  /-- a read feature is marked 1 only if it matches some known feature -/
  read_one_only : ∀ (j : Nat) (r : Iv), R[j]? = some r → res.read[j]? = some 1 → ∃ k ∈ K, cmp r k = true
  range_ok : ∀ (i : Nat) (v : Int), res.gene[i]? = some v → v ≠ 0 → res.range.1 ≤ (i : Int) ∧ (i : Int) < res.range.2

theorem constructOverlapping_spec (K : List Iv) (geneRegion : Iv) (cmp absent : Iv → Iv → Bool) (delta : Int)
    (R : List Iv) (mapped : Iv) (polya polyt : Int) :
    OvSpec cmp absent K R mapped delta polya polyt
      (constructOverlapping K geneRegion cmp absent delta R mapped polya polyt) := by
  -- the sweep
  obtain ⟨gi', hinv⟩ := ovSweep_inv cmp absent mapped K R (fun g => ∃ k, K[g]? = some k ∧ absent mapped k = true)
    K 0 R 0 _ (by simp) (by simp) (init_inv cmp absent K R mapped geneRegion)
  generalize hst : ovSweep cmp absent mapped K 0 R 0
    { gene := K.map (fun k => if absent mapped k then -1 else 0),
      read := R.map (fun r => if absent geneRegion r then -1 else 0), matched := [] } = st at hinv
  -- elimination
  obtain ⟨hel, helim⟩ := ovEliminate_spec K R st.matched st.gene
  generalize hg1 : ovEliminate K R st.matched st.gene = g1 at hel helim
  have hg1len : g1.length = K.length := by rw [hel, hinv.glen]
  -- masks
  let cA : Iv → Bool := fun k => decide (k.1 > polya + delta)
  let cT : Iv → Bool := fun k => decide (k.2 < polyt - delta)
  let g2 : List Int := if polya != -1 then List.zipWith (fun (k : Iv) (v : Int) => if k.1 > polya + delta then -2 else v) K g1 else g1
  let g3 : List Int := if polyt != -1 then List.zipWith (fun (k : Iv) (v : Int) => if k.2 < polyt - delta then -2 else v) K g2 else g2
  have hres : constructOverlapping K geneRegion cmp absent delta R mapped polya polyt
      = { gene := g3, read := st.read, range := profileRange g3 } := by
    simp only [constructOverlapping, hst, hg1, g2, g3]
  rw [hres]
  -- relation g2 ~ g1
  have h2 : g2.length = K.length ∧ ∀ i : Nat, (g2[i]? = g1[i]?) ∨
      (g2[i]? = some (-2) ∧ ∃ k : Iv, K[i]? = some k ∧ polya ≠ -1 ∧ k.1 > polya + delta) := by
    by_cases hp : polya = -1
    · have : g2 = g1 := by simp [g2, hp]
      rw [this]; exact ⟨hg1len, fun i => Or.inl rfl⟩
    · have : g2 = List.zipWith (fun (k : Iv) (v : Int) => if cA k then -2 else v) K g1 := by
        simp [g2, hp, cA]
      obtain ⟨ml, mi⟩ := mask_spec K g1 cA hg1len
      rw [this]
      refine ⟨ml, fun i => ?_⟩
      rcases mi i with ⟨h, _⟩ | ⟨h, k, hk, hc⟩
      · left; exact h
      · right; exact ⟨h, k, hk, hp, by simpa [cA] using hc⟩
  have h3 : g3.length = K.length ∧ ∀ i : Nat, (g3[i]? = g2[i]?) ∨
      (g3[i]? = some (-2) ∧ ∃ k : Iv, K[i]? = some k ∧ polyt ≠ -1 ∧ k.2 < polyt - delta) := by
    by_cases hp : polyt = -1
    · have : g3 = g2 := by simp [g3, hp]
      rw [this]; exact ⟨h2.1, fun i => Or.inl rfl⟩
    · have : g3 = List.zipWith (fun (k : Iv) (v : Int) => if cT k then -2 else v) K g2 := by
        simp [g3, hp, cT]
      obtain ⟨ml, mi⟩ := mask_spec K g2 cT h2.1
      rw [this]
      refine ⟨ml, fun i => ?_⟩
      rcases mi i with ⟨h, _⟩ | ⟨h, k, hk, hc⟩
      · left; exact h
      · right; exact ⟨h, k, hk, hp, by simpa [cT] using hc⟩
  -- g3 vs the sweep's gene profile
  have hrel : ∀ i : Nat, g3[i]? = st.gene[i]? ∨ (g3[i]? = some (-1) ∧ Beaten K R st.matched i) ∨
      (g3[i]? = some (-2) ∧ ∃ k : Iv, K[i]? = some k ∧ Masked delta polya polyt k) := by
    intro i
    rcases h3.2 i with e3 | ⟨e3, k, hk, hp, hc⟩
    · rcases h2.2 i with e2 | ⟨e2, k, hk, hp, hc⟩
      · rcases helim i with e1 | ⟨e1, hb⟩
        · left; rw [e3, e2, e1]
        · right; left; exact ⟨by rw [e3, e2, e1], hb⟩
      · right; right; exact ⟨by rw [e3, e2], k, hk, Or.inl ⟨hp, hc⟩⟩
    · right; right; exact ⟨e3, k, hk, Or.inr ⟨hp, hc⟩⟩
  have read_match : ∀ (j : Nat) (r : Iv), R[j]? = some r → st.read[j]? = some 1 →
      ∃ (gi : Nat) (k : Iv), K[gi]? = some k ∧ cmp r k = true ∧ st.gene[gi]? = some 1 ∧ (j, gi) ∈ st.matched ∧
        ¬ Beaten K R st.matched gi := by
    intro j r hr h1
    obtain ⟨g0, hg0⟩ := hinv.read1 j h1
    -- candidates: all gene positions matched to j
    let cand := (st.matched.filter (fun q => q.1 == j)).map (·.2)
    have hc0 : g0 ∈ cand := by
      simp only [cand, List.mem_map, List.mem_filter]
      exact ⟨(j, g0), ⟨hg0, by simp⟩, rfl⟩
    obtain ⟨m, hm, hmin⟩ := exists_min_on (fun g => tieDist K R j g) cand (List.ne_nil_of_mem hc0)
    have mem_c : ∀ g, g ∈ cand ↔ (j, g) ∈ st.matched := by
      intro g
      simp only [cand, List.mem_map, List.mem_filter]
      constructor
      · rintro ⟨q, ⟨hq, hq1⟩, hq2⟩
        have : q = (j, g) := by
          cases q with
          | mk a b => simp at hq1 hq2; simp [hq1, hq2]
        rw [← this]; exact hq
      · intro h; exact ⟨(j, g), ⟨h, by simp⟩, rfl⟩
    have hjm := (mem_c m).mp hm
    obtain ⟨_, hgm, r', k, hr', hk, hcmp⟩ := hinv.matched_ok (j, m) hjm
    simp only at hr' hk hgm
    rw [hr] at hr'; injection hr' with hr'; subst hr'
    refine ⟨m, k, hk, hcmp, hgm, hjm, ?_⟩
    rintro ⟨j', i', hj'm, hj'i', hlt⟩
    have : j' = j := pairwise_snd_inj hinv.sorted hj'm hjm
    subst this
    have := hmin i' ((mem_c i').mpr hj'i')
    omega
  refine ⟨h3.1, hinv.rlen, hinv.dom, ?_, ?_, ?_, ?_, ?_⟩
  · -- read_one
    intro j r hr h1
    obtain ⟨gi, k, hk, hcmp, hg, _, hnb⟩ := read_match j r hr h1
    refine ⟨gi, k, hk, hcmp, ?_⟩
    rcases hrel gi with e | ⟨_, hb⟩ | ⟨e, k', hk', hm⟩
    · left; show g3[gi]? = some 1; rw [e]; exact hg
    · exact absurd hb hnb
    · right
      rw [hk] at hk'; injection hk' with hk'; subst hk'
      exact ⟨e, hm⟩
  · -- absent_nonzero
    intro gi k hk ha
    obtain ⟨v, hv, hv0⟩ := hinv.nz gi ⟨k, hk, ha⟩
    show ∃ v, g3[gi]? = some v ∧ v ≠ 0
    rcases hrel gi with e | ⟨e, _⟩ | ⟨e, _⟩
    · exact ⟨v, by rw [e]; exact hv, hv0⟩
    · exact ⟨-1, e, by omega⟩
    · exact ⟨-2, e, by omega⟩
  · -- gene_one
    intro gi k hk h1
    have h1' : g3[gi]? = some 1 := h1
    have hs : st.gene[gi]? = some 1 := by
      rcases hrel gi with e | ⟨e, _⟩ | ⟨e, _⟩
      · rw [← e]; exact h1'
      · rw [e] at h1'; simp at h1'
      · rw [e] at h1'; simp at h1'
    obtain ⟨j, hj⟩ := hinv.gene1 gi hs
    obtain ⟨_, _, r, k', hr, hk', hcmp⟩ := hinv.matched_ok (j, gi) hj
    simp only at hr hk'
    rw [hk] at hk'; injection hk' with hk'; subst hk'
    exact ⟨j, r, hr, hcmp⟩
  · -- read_one_only
    intro j r hr h1
    obtain ⟨gi, k, hk, hcmp, _⟩ := read_match j r hr h1
    exact ⟨k, List.mem_of_getElem? hk, hcmp⟩
  · intro i v hv hv0
    exact nonzero_in_range g3 i v hv hv0

end IsoVerif.Lemmas.C01
