/-
C11 helper lemmas — Model/PolyA.lean (C16: `count_polya_exons`, `count_polyt_exons`, `shift_polya`, `shift_polyt`,
`PolyAFixer.correct_read_info`, `AlignmentInfo.add_polya_info`) under translation and reflection.
(The C16 definitions are referred to as `C16.f`; Model/C11Polya.lean has older, C11-local copies of four of them.)
-/
import IsoVerif.Model.PolyA
import IsoVerif.Model.C11SymPolyA
import IsoVerif.Lemmas.PolyA
import IsoVerif.Lemmas.C11Shift
import IsoVerif.Lemmas.C11Mirror

namespace IsoVerif.Lemmas.C11
open IsoVerif.Gen IsoVerif.Model IsoVerif.Model.C11

/-- a real position is not moved onto the sentinel -/
def NoColl (k p : Int) : Prop := p ≠ -1 → p + k ≠ -1
def NoCollM (L p : Int) : Prop := p ≠ -1 → L + 1 - p ≠ -1

/-! ## the clamp of the repaired `add_polya_info` (c16x: external position cut down to the internal one) commutes with
    both transformations: the test `both_found` reads the positions BEFORE the shift -/

theorem pa16_clampA_shift (k oi oe ia ea : Int) (h1 : NoColl k oi) (h2 : NoColl k oe) :
    C16.clampA (shiftPos k oi) (shiftPos k oe) (shiftPosBy oi k ia) (shiftPosBy oe k ea) =
      shiftPosBy oe k (C16.clampA oi oe ia ea) := by
  unfold C16.clampA shiftPos shiftPosBy
  unfold NoColl at h1 h2
  by_cases c1 : oi = -1
  · simp [c1]
  · by_cases c2 : oe = -1
    · simp [c2]
    · have a1 := h1 c1
      have a2 := h2 c2
      simp only [c1, c2, a1, a2, if_false, ne_eq, not_false_eq_true, and_self, if_true]
      omega

theorem pa16_clampT_shift (k oi oe ia ea : Int) (h1 : NoColl k oi) (h2 : NoColl k oe) :
    C16.clampT (shiftPos k oi) (shiftPos k oe) (shiftPosBy oi k ia) (shiftPosBy oe k ea) =
      shiftPosBy oe k (C16.clampT oi oe ia ea) := by
  unfold C16.clampT shiftPos shiftPosBy
  unfold NoColl at h1 h2
  by_cases c1 : oi = -1
  · simp [c1]
  · by_cases c2 : oe = -1
    · simp [c2]
    · have a1 := h1 c1
      have a2 := h2 c2
      simp only [c1, c2, a1, a2, if_false, ne_eq, not_false_eq_true, and_self, if_true]
      omega

theorem pa16_clampA_mirror (L oi oe ia ea : Int) (h1 : NoCollM L oi) (h2 : NoCollM L oe) :
    C16.clampA (mirrorPos L oi) (mirrorPos L oe) (mirrorPosBy oi L ia) (mirrorPosBy oe L ea) =
      mirrorPosBy oe L (C16.clampT oi oe ia ea) := by
  unfold C16.clampA C16.clampT mirrorPos mirrorPosBy
  unfold NoCollM at h1 h2
  by_cases c1 : oi = -1
  · simp [c1]
  · by_cases c2 : oe = -1
    · simp [c2]
    · have a1 := h1 c1
      have a2 := h2 c2
      simp only [c1, c2, a1, a2, if_false, ne_eq, not_false_eq_true, and_self, if_true]
      omega

theorem pa16_clampT_mirror (L oi oe ia ea : Int) (h1 : NoCollM L oi) (h2 : NoCollM L oe) :
    C16.clampT (mirrorPos L oi) (mirrorPos L oe) (mirrorPosBy oi L ia) (mirrorPosBy oe L ea) =
      mirrorPosBy oe L (C16.clampA oi oe ia ea) := by
  unfold C16.clampA C16.clampT mirrorPos mirrorPosBy
  unfold NoCollM at h1 h2
  by_cases c1 : oi = -1
  · simp [c1]
  · by_cases c2 : oe = -1
    · simp [c2]
    · have a1 := h1 c1
      have a2 := h2 c2
      simp only [c1, c2, a1, a2, if_false, ne_eq, not_false_eq_true, and_self, if_true]
      omega

/-! ## translation -/

theorem pa16_isPolyaExon_shift (mf pos k : Int) (e : Iv) :
    C16.isPolyaExon mf (pos + k) (shiftIv k e) = C16.isPolyaExon mf pos e := by
  simp only [C16.isPolyaExon, shiftIv_fst, shiftIv_snd]
  have e1 : pos + k - (e.1 + k) = pos - e.1 := by omega
  have e2 : e.2 + k - (pos + k) = e.2 - pos := by omega
  simp only [e1, e2]

theorem pa16_isPolytExon_shift (mf pos k : Int) (e : Iv) :
    C16.isPolytExon mf (pos + k) (shiftIv k e) = C16.isPolytExon mf pos e := by
  simp only [C16.isPolytExon, shiftIv_fst, shiftIv_snd]
  have e1 : pos + k - (e.1 + k) = pos - e.1 := by omega
  have e2 : e.2 + k - (pos + k) = e.2 - pos := by omega
  simp only [e1, e2]

theorem pa16_countPolyaLoop_shift (mf pos k : Int) (l : List Iv) (c : Int) :
    C16.countPolyaLoop mf (pos + k) c (shiftL k l) = C16.countPolyaLoop mf pos c l := by
  induction l generalizing c with
  | nil => rfl
  | cons e es ih =>
    simp only [shiftL_cons, C16.countPolyaLoop, pa16_isPolyaExon_shift, ih, shiftIv_snd]
    have : (e.2 + k ≤ pos + k) ↔ (e.2 ≤ pos) := by omega
    simp only [this]

theorem pa16_countPolytLoop_shift (mf pos k : Int) (l : List Iv) (c : Int) :
    C16.countPolytLoop mf (pos + k) c (shiftL k l) = C16.countPolytLoop mf pos c l := by
  induction l generalizing c with
  | nil => rfl
  | cons e es ih =>
    simp only [shiftL_cons, C16.countPolytLoop, pa16_isPolytExon_shift, ih, shiftIv_fst]
    have : (e.1 + k ≥ pos + k) ↔ (e.1 ≥ pos) := by omega
    simp only [this]

theorem pa16_countPolyaExons_shift (mf k : Int) (l : List Iv) (pos : Int) (h : NoColl k pos) :
    C16.countPolyaExons mf (shiftL k l) (shiftPos k pos) = C16.countPolyaExons mf l pos := by
  simp only [C16.countPolyaExons, shiftPos]
  by_cases c : pos = -1
  · simp [c]
  · simp only [c, if_false, h c, ← shiftL_reverse, pa16_countPolyaLoop_shift]

theorem pa16_countPolytExons_shift (mf k : Int) (l : List Iv) (pos : Int) (h : NoColl k pos) :
    C16.countPolytExons mf (shiftL k l) (shiftPos k pos) = C16.countPolytExons mf l pos := by
  simp only [C16.countPolytExons, shiftPos]
  by_cases c : pos = -1
  · simp [c]
  · simp only [c, if_false, h c, pa16_countPolytLoop_shift]

theorem pa16_correctReadInfo_shift (mf k : Int) (l : List Iv) (i : C16.PolyAInfo)
    (ha : NoColl k i.internalPolyA) (ht : NoColl k i.internalPolyT) :
    C16.correctReadInfo mf (shiftL k l) (shiftInfo k i) = C16.correctReadInfo mf l i := by
  simp only [C16.correctReadInfo, shiftL_length, shiftInfo, pa16_countPolyaExons_shift mf k l _ ha,
    pa16_countPolytExons_shift mf k l _ ht]

theorem pa16_shiftDistA_shift (pos k : Int) (l : List Iv) (d : Int) :
    C16.shiftDistA (pos + k) d (shiftL k l) = C16.shiftDistA pos d l := by
  induction l generalizing d with
  | nil => rfl
  | cons e es ih =>
    simp only [shiftL_cons, C16.shiftDistA, ih, shiftIv_fst, interval_len, shiftIv_snd]
    have c1 : (e.1 + k > pos + k) ↔ (e.1 > pos) := by omega
    have e1 : pos + k - (e.1 + k) = pos - e.1 := by omega
    have e2 : e.2 + k - (e.1 + k) + 1 = e.2 - e.1 + 1 := by omega
    simp only [c1, e1, e2]

theorem pa16_shiftDistT_shift (pos k : Int) (l : List Iv) (d : Int) :
    C16.shiftDistT (pos + k) d (shiftL k l) = C16.shiftDistT pos d l := by
  induction l generalizing d with
  | nil => rfl
  | cons e es ih =>
    simp only [shiftL_cons, C16.shiftDistT, ih, shiftIv_fst, interval_len, shiftIv_snd]
    have c1 : (e.2 + k < pos + k) ↔ (e.2 < pos) := by omega
    have e1 : e.2 + k - (pos + k) = e.2 - pos := by omega
    have e2 : e.2 + k - (e.1 + k) + 1 = e.2 - e.1 + 1 := by omega
    simp only [c1, e1, e2]

theorem pa16_shiftPolya_shift (k : Int) (l : List Iv) (c pos : Int) (h : NoColl k pos) :
    C16.shiftPolya (shiftL k l) c (shiftPos k pos) = (C16.shiftPolya l c pos).map (shiftPosBy pos k) := by
  simp only [C16.shiftPolya, shiftL_length, shiftPos, shiftPosBy]
  by_cases hp : pos = -1
  · simp [hp, shiftPosBy]
  · have hk := h hp
    simp only [hp, hk, if_false, or_false]
    by_cases c1 : c = 0 ∨ c = (l.length : Int)
    · simp [c1, shiftPosBy, hp]
    · simp only [c1, if_false]
      split
      · rfl
      · rw [pyGet?_shiftL, ← shiftL_reverse, ← shiftL_take, pa16_shiftDistA_shift]
        cases pyGet? l (-c - 1) with
        | none => rfl
        | some x => simp [shiftPosBy, hp]; omega

theorem pa16_shiftPolyt_shift (k : Int) (l : List Iv) (c pos : Int) (h : NoColl k pos) :
    C16.shiftPolyt (shiftL k l) c (shiftPos k pos) = (C16.shiftPolyt l c pos).map (shiftPosBy pos k) := by
  simp only [C16.shiftPolyt, shiftL_length, shiftPos, shiftPosBy]
  by_cases hp : pos = -1
  · simp [hp, shiftPosBy]
  · have hk := h hp
    simp only [hp, hk, if_false, or_false]
    by_cases c1 : c = 0 ∨ c = (l.length : Int)
    · simp [c1, shiftPosBy, hp]
    · simp only [c1, if_false]
      split
      · rfl
      · rw [pyGet?_shiftL, ← shiftL_take, pa16_shiftDistT_shift]
        cases pyGet? l c with
        | none => rfl
        | some x => simp [shiftPosBy, hp]; omega

theorem shiftPosBy_self (k p : Int) : shiftPosBy p k p = shiftPos k p := by
  unfold shiftPosBy shiftPos; split <;> simp_all


theorem shiftInfoBy_self (k : Int) (i : C16.PolyAInfo) : shiftInfoBy i k i = shiftInfo k i := by
  simp [shiftInfoBy, shiftInfo, shiftPosBy_self]

theorem pa16_ainfoInit_shift (k : Int) (ex rb cb : List Iv) (i : C16.PolyAInfo) :
    C16.ainfoInit (shiftL k ex) rb cb (shiftInfo k i) = (C16.ainfoInit ex rb cb i).map (shiftAInfoBy i k) := by
  unfold C16.ainfoInit
  rw [shiftL_head?, shiftL_getLast?]
  cases ex.head? <;> cases ex.getLast? <;> simp [shiftAInfoBy, shiftInfoBy_self]

theorem pa16_trimPolyA_shift (o : C16.PolyAInfo) (k : Int) (st : C16.AInfo) (a : Int)
    (hoA : st.info.internalPolyA = o.internalPolyA) (hoE : st.info.externalPolyA = o.externalPolyA)
    (h1 : NoColl k o.internalPolyA) (h2 : NoColl k o.externalPolyA) :
    C16.trimPolyA (shiftAInfoBy o k st) a = (C16.trimPolyA st a).map (shiftAInfoBy o k) := by
  unfold C16.trimPolyA
  by_cases ha : a > 0
  · simp only [ha, if_true]
    have e1 : (shiftAInfoBy o k st).info.internalPolyA = shiftPos k o.internalPolyA := by
      simp [shiftAInfoBy, shiftInfoBy, hoA, shiftPosBy_self]
    have e2 : (shiftAInfoBy o k st).info.externalPolyA = shiftPos k o.externalPolyA := by
      simp [shiftAInfoBy, shiftInfoBy, hoE, shiftPosBy_self]
    have e3 : (shiftAInfoBy o k st).exons = shiftL k st.exons := rfl
    rw [e1, e2, e3, pa16_shiftPolya_shift k st.exons a _ h1, pa16_shiftPolya_shift k st.exons a _ h2, hoA, hoE]
    cases C16.shiftPolya st.exons a o.internalPolyA with
    | none => rfl
    | some ia =>
      cases C16.shiftPolya st.exons a o.externalPolyA with
      | none => rfl
      | some ea =>
        simp only [Option.map_some, Option.bind_eq_bind, Option.bind_some]
        simp [shiftAInfoBy, shiftInfoBy, shiftL_take, shiftL_length]
        exact pa16_clampA_shift k _ _ ia ea h1 h2
  · simp [ha]

theorem pa16_trimPolyT_shift (o : C16.PolyAInfo) (k : Int) (st : C16.AInfo) (t : Int)
    (hoA : st.info.internalPolyT = o.internalPolyT) (hoE : st.info.externalPolyT = o.externalPolyT)
    (h1 : NoColl k o.internalPolyT) (h2 : NoColl k o.externalPolyT) :
    C16.trimPolyT (shiftAInfoBy o k st) t = (C16.trimPolyT st t).map (shiftAInfoBy o k) := by
  unfold C16.trimPolyT
  by_cases ha : t > 0
  · simp only [ha, if_true]
    have e1 : (shiftAInfoBy o k st).info.internalPolyT = shiftPos k o.internalPolyT := by
      simp [shiftAInfoBy, shiftInfoBy, hoA, shiftPosBy_self]
    have e2 : (shiftAInfoBy o k st).info.externalPolyT = shiftPos k o.externalPolyT := by
      simp [shiftAInfoBy, shiftInfoBy, hoE, shiftPosBy_self]
    have e3 : (shiftAInfoBy o k st).exons = shiftL k st.exons := rfl
    rw [e1, e2, e3, pa16_shiftPolyt_shift k st.exons t _ h1, pa16_shiftPolyt_shift k st.exons t _ h2, hoA, hoE]
    cases C16.shiftPolyt st.exons t o.internalPolyT with
    | none => rfl
    | some ia =>
      cases C16.shiftPolyt st.exons t o.externalPolyT with
      | none => rfl
      | some ea =>
        simp only [Option.map_some, Option.bind_eq_bind, Option.bind_some]
        simp [shiftAInfoBy, shiftInfoBy, shiftL_drop]
        exact pa16_clampT_shift k _ _ ia ea h1 h2
  · simp [ha]

theorem pa16_refreshEnds_shift (o : C16.PolyAInfo) (k : Int) (st : C16.AInfo) :
    C16.refreshEnds (shiftAInfoBy o k st) = (C16.refreshEnds st).map (shiftAInfoBy o k) := by
  unfold C16.refreshEnds
  have e3 : (shiftAInfoBy o k st).exons = shiftL k st.exons := rfl
  have e4 : (shiftAInfoBy o k st).exonsChanged = st.exonsChanged := rfl
  rw [e3, e4, shiftL_head?, shiftL_getLast?]
  by_cases hc : st.exonsChanged = true
  · simp only [hc, if_true]
    cases st.exons.head? <;> cases st.exons.getLast? <;> simp [shiftAInfoBy]
  · simp [hc]

theorem pa16_trimPolyA_keepsT (st st1 : C16.AInfo) (a : Int) (h : C16.trimPolyA st a = some st1) :
    st1.info.internalPolyT = st.info.internalPolyT ∧ st1.info.externalPolyT = st.info.externalPolyT := by
  unfold C16.trimPolyA at h
  by_cases ha : a > 0
  · simp only [ha, if_true] at h
    cases h1 : C16.shiftPolya st.exons a st.info.internalPolyA with
    | none => simp [h1] at h
    | some ia =>
      cases h2 : C16.shiftPolya st.exons a st.info.externalPolyA with
      | none => simp [h1, h2] at h
      | some ea =>
        simp [h1, h2] at h
        subst h; simp
  · simp [ha] at h; subst h; simp

theorem pa16_ainfoInit_info (ex rb cb : List Iv) (i : C16.PolyAInfo) (st : C16.AInfo)
    (h : C16.ainfoInit ex rb cb i = some st) : st.info = i ∧ st.exons = ex ∧ st.readBlocks = rb ∧ st.cigarBlocks = cb := by
  unfold C16.ainfoInit at h
  cases h1 : ex.head? <;> cases h2 : ex.getLast? <;> simp [h1, h2] at h
  subst h; simp

theorem pa16_addPolyaInfo_shift (mf k : Int) (ex rb cb : List Iv) (i : C16.PolyAInfo)
    (h1 : NoColl k i.internalPolyA) (h2 : NoColl k i.externalPolyA)
    (h3 : NoColl k i.internalPolyT) (h4 : NoColl k i.externalPolyT) :
    C16.addPolyaInfo mf (shiftL k ex) rb cb (shiftInfo k i) =
      (C16.addPolyaInfo mf ex rb cb i).map (shiftAInfoBy i k) := by
  unfold C16.addPolyaInfo C16.addPolyaInfoWith
  rw [pa16_ainfoInit_shift, pa16_correctReadInfo_shift mf k ex i h1 h3]
  cases h0 : C16.ainfoInit ex rb cb i with
  | none => rfl
  | some st0 =>
    obtain ⟨hi, _, _, _⟩ := pa16_ainfoInit_info ex rb cb i st0 h0
    cases C16.correctReadInfo mf ex i with
    | none => rfl
    | some at_ =>
      obtain ⟨a, t⟩ := at_
      simp only [Option.map_some, Option.bind_eq_bind, Option.bind_some]
      rw [pa16_trimPolyA_shift i k st0 a (by rw [hi]) (by rw [hi]) h1 h2]
      cases hA : C16.trimPolyA st0 a with
      | none => rfl
      | some st1 =>
        obtain ⟨k1, k2⟩ := pa16_trimPolyA_keepsT st0 st1 a hA
        simp only [Option.map_some, Option.bind_some]
        rw [pa16_trimPolyT_shift i k st1 t (by rw [k1, hi]) (by rw [k2, hi]) h3 h4]
        cases C16.trimPolyT st1 t with
        | none => rfl
        | some st2 =>
          simp only [Option.map_some, Option.bind_some]
          exact pa16_refreshEnds_shift i k st2

/-! ## reflection (polyA ↔ polyT) -/

theorem pa16_isPolytExon_mirror (mf pos L : Int) (e : Iv) :
    C16.isPolytExon mf (L + 1 - pos) (mirrorIv L e) = C16.isPolyaExon mf pos e := by
  simp only [C16.isPolytExon, C16.isPolyaExon, mirrorIv_fst, mirrorIv_snd]
  have e1 : L + 1 - e.1 - (L + 1 - pos) = pos - e.1 := by omega
  have e2 : L + 1 - pos - (L + 1 - e.2) = e.2 - pos := by omega
  simp only [e1, e2]

theorem pa16_isPolyaExon_mirror (mf pos L : Int) (e : Iv) :
    C16.isPolyaExon mf (L + 1 - pos) (mirrorIv L e) = C16.isPolytExon mf pos e := by
  simp only [C16.isPolytExon, C16.isPolyaExon, mirrorIv_fst, mirrorIv_snd]
  have e1 : L + 1 - pos - (L + 1 - e.2) = e.2 - pos := by omega
  have e2 : L + 1 - e.1 - (L + 1 - pos) = pos - e.1 := by omega
  simp only [e1, e2]

theorem pa16_countPolytLoop_mirror (mf pos L : Int) (l : List Iv) (c : Int) :
    C16.countPolytLoop mf (L + 1 - pos) c (l.map (mirrorIv L)) = C16.countPolyaLoop mf pos c l := by
  induction l generalizing c with
  | nil => rfl
  | cons e es ih =>
    simp only [List.map_cons, C16.countPolytLoop, C16.countPolyaLoop, pa16_isPolytExon_mirror, ih, mirrorIv_fst]
    have : (L + 1 - e.2 ≥ L + 1 - pos) ↔ (e.2 ≤ pos) := by omega
    simp only [this]

theorem pa16_countPolyaLoop_mirror (mf pos L : Int) (l : List Iv) (c : Int) :
    C16.countPolyaLoop mf (L + 1 - pos) c (l.map (mirrorIv L)) = C16.countPolytLoop mf pos c l := by
  induction l generalizing c with
  | nil => rfl
  | cons e es ih =>
    simp only [List.map_cons, C16.countPolytLoop, C16.countPolyaLoop, pa16_isPolyaExon_mirror, ih, mirrorIv_snd]
    have : (L + 1 - e.1 ≤ L + 1 - pos) ↔ (e.1 ≥ pos) := by omega
    simp only [this]

theorem pa16_countPolytExons_mirror (mf L : Int) (l : List Iv) (pos : Int) (h : NoCollM L pos) :
    C16.countPolytExons mf (mirrorL L l) (mirrorPos L pos) = C16.countPolyaExons mf l pos := by
  simp only [C16.countPolytExons, C16.countPolyaExons, mirrorPos]
  by_cases c : pos = -1
  · simp [c]
  · simp only [c, if_false, h c, mirrorL_eq_map_reverse, pa16_countPolytLoop_mirror]

theorem pa16_countPolyaExons_mirror (mf L : Int) (l : List Iv) (pos : Int) (h : NoCollM L pos) :
    C16.countPolyaExons mf (mirrorL L l) (mirrorPos L pos) = C16.countPolytExons mf l pos := by
  simp only [C16.countPolytExons, C16.countPolyaExons, mirrorPos]
  by_cases c : pos = -1
  · simp [c]
  · simp only [c, if_false, h c, mirrorL_reverse, pa16_countPolyaLoop_mirror]

theorem pa16_clampLoop_swap : ∀ (fuel : Nat) (n a t : Int),
    C16.clampLoop fuel n t a = (C16.clampLoop fuel n a t).map swapCounts := by
  intro fuel
  induction fuel with
  | zero => intro n a t; rfl
  | succ f ih =>
    intro n a t
    simp only [C16.clampLoop]
    have : (a + t ≥ n) ↔ (t + a ≥ n) := by omega
    simp only [this]
    split
    · exact ih n (a - 1) (t - 1)
    · rfl

theorem pa16_correctReadInfo_mirror (mf L : Int) (l : List Iv) (i : C16.PolyAInfo)
    (ha : NoCollM L i.internalPolyA) (ht : NoCollM L i.internalPolyT) :
    C16.correctReadInfo mf (mirrorL L l) (mirrorInfo L i) = (C16.correctReadInfo mf l i).map swapCounts := by
  simp only [C16.correctReadInfo, mirrorL_length, mirrorInfo, pa16_countPolyaExons_mirror mf L l _ ht,
    pa16_countPolytExons_mirror mf L l _ ha]
  split
  · rfl
  · exact pa16_clampLoop_swap _ _ _ _

theorem pa16_shiftDistT_mirror (pos L : Int) (l : List Iv) (d : Int) :
    C16.shiftDistT (L + 1 - pos) d (l.map (mirrorIv L)) = C16.shiftDistA pos d l := by
  induction l generalizing d with
  | nil => rfl
  | cons e es ih =>
    simp only [List.map_cons, C16.shiftDistT, C16.shiftDistA, ih, mirrorIv_fst, mirrorIv_snd, interval_len]
    have c1 : (L + 1 - e.1 < L + 1 - pos) ↔ (e.1 > pos) := by omega
    have e1 : L + 1 - e.1 - (L + 1 - pos) = pos - e.1 := by omega
    have e2 : L + 1 - e.1 - (L + 1 - e.2) + 1 = e.2 - e.1 + 1 := by omega
    simp only [c1, e1, e2]

theorem pa16_shiftDistA_mirror (pos L : Int) (l : List Iv) (d : Int) :
    C16.shiftDistA (L + 1 - pos) d (l.map (mirrorIv L)) = C16.shiftDistT pos d l := by
  induction l generalizing d with
  | nil => rfl
  | cons e es ih =>
    simp only [List.map_cons, C16.shiftDistT, C16.shiftDistA, ih, mirrorIv_fst, mirrorIv_snd, interval_len]
    have c1 : (L + 1 - e.2 > L + 1 - pos) ↔ (e.2 < pos) := by omega
    have e1 : L + 1 - pos - (L + 1 - e.2) = e.2 - pos := by omega
    have e2 : L + 1 - e.1 - (L + 1 - e.2) + 1 = e.2 - e.1 + 1 := by omega
    simp only [c1, e1, e2]

/-- Python indexing from the other end -/
theorem pyGet?_reverse {α} (l : List α) (i : Int) : pyGet? l.reverse i = pyGet? l (-i - 1) := by
  simp only [pyGet?, List.length_reverse]
  by_cases h0 : 0 ≤ i
  · have h1 : ¬ (0 ≤ -i - 1) := by omega
    simp only [h0, h1, if_true, if_false]
    by_cases h2 : i < l.length
    · have h3 : -(l.length : Int) ≤ -i - 1 := by omega
      simp only [h3, if_true]
      rw [List.getElem?_reverse (by omega)]
      congr 1; omega
    · have h3 : ¬ (-(l.length : Int) ≤ -i - 1) := by omega
      simp only [h3, if_false]
      exact List.getElem?_eq_none (by simp; omega)
  · have h1 : 0 ≤ -i - 1 := by omega
    simp only [h0, h1, if_true, if_false]
    by_cases h2 : -(l.length : Int) ≤ i
    · simp only [h2, if_true]
      rw [List.getElem?_reverse (by omega)]
      congr 1; omega
    · simp only [h2, if_false]
      exact (List.getElem?_eq_none (by omega)).symm

theorem pa16_shiftPolyt_mirror (L : Int) (l : List Iv) (c pos : Int) (h : NoCollM L pos) :
    C16.shiftPolyt (mirrorL L l) c (mirrorPos L pos) = (C16.shiftPolya l c pos).map (mirrorPosBy pos L) := by
  simp only [C16.shiftPolyt, C16.shiftPolya, mirrorL_length, mirrorPos]
  by_cases hp : pos = -1
  · simp [hp, mirrorPosBy]
  · have hk := h hp
    simp only [hp, hk, if_false, or_false]
    by_cases c1 : c = 0 ∨ c = (l.length : Int)
    · simp [c1, mirrorPosBy, hp]
    · simp only [c1, if_false]
      split
      · rfl
      · rw [mirrorL_eq_map_reverse, ← List.map_take, pa16_shiftDistT_mirror]
        have : pyGet? (l.reverse.map (mirrorIv L)) c = (pyGet? l (-c - 1)).map (mirrorIv L) := by
          rw [← pyGet?_reverse]
          simp only [pyGet?, List.length_map, List.getElem?_map]
          split
          · rfl
          · split <;> rfl
        rw [this]
        cases pyGet? l (-c - 1) with
        | none => rfl
        | some x => simp [mirrorPosBy, hp]; omega

theorem pa16_shiftPolya_mirror (L : Int) (l : List Iv) (c pos : Int) (h : NoCollM L pos) :
    C16.shiftPolya (mirrorL L l) c (mirrorPos L pos) = (C16.shiftPolyt l c pos).map (mirrorPosBy pos L) := by
  simp only [C16.shiftPolyt, C16.shiftPolya, mirrorL_length, mirrorPos]
  by_cases hp : pos = -1
  · simp [hp, mirrorPosBy]
  · have hk := h hp
    simp only [hp, hk, if_false, or_false]
    by_cases c1 : c = 0 ∨ c = (l.length : Int)
    · simp [c1, mirrorPosBy, hp]
    · simp only [c1, if_false]
      split
      · rfl
      · rw [mirrorL_reverse, ← List.map_take, pa16_shiftDistA_mirror]
        have : pyGet? (mirrorL L l) (-c - 1) = (pyGet? l c).map (mirrorIv L) := by
          rw [mirrorL_eq_map_reverse]
          have e : pyGet? (l.reverse.map (mirrorIv L)) (-c - 1) = (pyGet? l.reverse (-c - 1)).map (mirrorIv L) := by
            simp only [pyGet?, List.length_map, List.getElem?_map]
            split
            · rfl
            · split <;> rfl
          rw [e, pyGet?_reverse]
          congr 2; omega
        rw [this]
        cases pyGet? l c with
        | none => rfl
        | some x => simp [mirrorPosBy, hp]; omega

/-! ## reflection of `add_polya_info` -/

theorem mirrorPosBy_self (L p : Int) : mirrorPosBy p L p = mirrorPos L p := by
  unfold mirrorPosBy mirrorPos; split <;> simp_all

theorem mirrorInfoBy_self (L : Int) (i : C16.PolyAInfo) : mirrorInfoBy i L i = mirrorInfo L i := by
  simp [mirrorInfoBy, mirrorInfo, mirrorPosBy_self]

theorem pa16_ainfoInit_mirror (L : Int) (ex rb cb : List Iv) (i : C16.PolyAInfo) :
    C16.ainfoInit (mirrorL L ex) rb.reverse cb.reverse (mirrorInfo L i) =
      (C16.ainfoInit ex rb cb i).map (mirrorAInfoBy i L) := by
  unfold C16.ainfoInit
  rw [mirrorL_head?, mirrorL_getLast?]
  cases h1 : ex.head? <;> cases h2 : ex.getLast? <;> simp [mirrorAInfoBy, mirrorInfoBy_self]

theorem reverse_take_sub {α} (l : List α) (j : Nat) : l.reverse.take (l.length - j) = (l.drop j).reverse := by
  rw [List.take_reverse]
  by_cases h : j ≤ l.length
  · congr 2; omega
  · have e1 : l.length - (l.length - j) = l.length := by omega
    rw [e1, List.drop_of_length_le (Nat.le_refl _), List.drop_of_length_le (by omega)]

theorem reverse_drop_eq {α} (l : List α) (j : Nat) : l.reverse.drop j = (l.take (l.length - j)).reverse := by
  rw [List.drop_reverse]

theorem mirrorL_take_sub (L : Int) (l : List Iv) (j : Nat) : (mirrorL L l).take (l.length - j) = mirrorL L (l.drop j) := by
  simp only [mirrorL]
  have := reverse_take_sub (l.map (mirrorIv L)) j
  simpa [List.map_drop] using this

theorem mirrorL_drop_eq (L : Int) (l : List Iv) (j : Nat) : (mirrorL L l).drop j = mirrorL L (l.take (l.length - j)) := by
  simp only [mirrorL]
  have := reverse_drop_eq (l.map (mirrorIv L)) j
  simpa [List.map_take] using this

theorem pa16_trimPolyA_mirror (o : C16.PolyAInfo) (L : Int) (st : C16.AInfo) (t : Int)
    (hoA : st.info.internalPolyT = o.internalPolyT) (hoE : st.info.externalPolyT = o.externalPolyT)
    (h1 : NoCollM L o.internalPolyT) (h2 : NoCollM L o.externalPolyT) :
    C16.trimPolyA (mirrorAInfoBy o L st) t = (C16.trimPolyT st t).map (mirrorAInfoBy o L) := by
  unfold C16.trimPolyA C16.trimPolyT
  by_cases ha : t > 0
  · simp only [ha, if_true]
    have e1 : (mirrorAInfoBy o L st).info.internalPolyA = mirrorPos L o.internalPolyT := by
      simp [mirrorAInfoBy, mirrorInfoBy, hoA, mirrorPosBy_self]
    have e2 : (mirrorAInfoBy o L st).info.externalPolyA = mirrorPos L o.externalPolyT := by
      simp [mirrorAInfoBy, mirrorInfoBy, hoE, mirrorPosBy_self]
    have e3 : (mirrorAInfoBy o L st).exons = mirrorL L st.exons := rfl
    rw [e1, e2, e3, pa16_shiftPolya_mirror L st.exons t _ h1, pa16_shiftPolya_mirror L st.exons t _ h2, hoA, hoE]
    cases C16.shiftPolyt st.exons t o.internalPolyT with
    | none => rfl
    | some ia =>
      cases C16.shiftPolyt st.exons t o.externalPolyT with
      | none => rfl
      | some ea =>
        simp only [Option.map_some, Option.bind_eq_bind, Option.bind_some]
        simp [mirrorAInfoBy, mirrorInfoBy, mirrorL_take_sub, mirrorL_length, reverse_take_sub]
        exact pa16_clampA_mirror L _ _ ia ea h1 h2
  · simp [ha]

theorem pa16_trimPolyT_mirror (o : C16.PolyAInfo) (L : Int) (st : C16.AInfo) (a : Int)
    (hoA : st.info.internalPolyA = o.internalPolyA) (hoE : st.info.externalPolyA = o.externalPolyA)
    (h1 : NoCollM L o.internalPolyA) (h2 : NoCollM L o.externalPolyA) :
    C16.trimPolyT (mirrorAInfoBy o L st) a = (C16.trimPolyA st a).map (mirrorAInfoBy o L) := by
  unfold C16.trimPolyA C16.trimPolyT
  by_cases ha : a > 0
  · simp only [ha, if_true]
    have e1 : (mirrorAInfoBy o L st).info.internalPolyT = mirrorPos L o.internalPolyA := by
      simp [mirrorAInfoBy, mirrorInfoBy, hoA, mirrorPosBy_self]
    have e2 : (mirrorAInfoBy o L st).info.externalPolyT = mirrorPos L o.externalPolyA := by
      simp [mirrorAInfoBy, mirrorInfoBy, hoE, mirrorPosBy_self]
    have e3 : (mirrorAInfoBy o L st).exons = mirrorL L st.exons := rfl
    rw [e1, e2, e3, pa16_shiftPolyt_mirror L st.exons a _ h1, pa16_shiftPolyt_mirror L st.exons a _ h2, hoA, hoE]
    cases C16.shiftPolya st.exons a o.internalPolyA with
    | none => rfl
    | some ia =>
      cases C16.shiftPolya st.exons a o.externalPolyA with
      | none => rfl
      | some ea =>
        simp only [Option.map_some, Option.bind_eq_bind, Option.bind_some]
        simp [mirrorAInfoBy, mirrorInfoBy, mirrorL_drop_eq, reverse_drop_eq]
        exact pa16_clampT_mirror L _ _ ia ea h1 h2
  · simp [ha]

theorem pa16_refreshEnds_mirror (o : C16.PolyAInfo) (L : Int) (st : C16.AInfo) :
    C16.refreshEnds (mirrorAInfoBy o L st) = (C16.refreshEnds st).map (mirrorAInfoBy o L) := by
  unfold C16.refreshEnds
  have e3 : (mirrorAInfoBy o L st).exons = mirrorL L st.exons := rfl
  have e4 : (mirrorAInfoBy o L st).exonsChanged = st.exonsChanged := rfl
  rw [e3, e4, mirrorL_head?, mirrorL_getLast?]
  by_cases hc : st.exonsChanged = true
  · simp only [hc, if_true]
    cases h1 : st.exons.head? <;> cases h2 : st.exons.getLast? <;> simp [mirrorAInfoBy]
  · simp [hc]

/-! ### the two trims commute when at least one exon is kept -/

theorem pa16_shiftPolyt_take (ex : List Iv) (a t p : Int) (ht : 0 < t)
    (hlt : a.toNat + t.toNat < ex.length) :
    C16.shiftPolyt (ex.take (ex.length - a.toNat)) t p = C16.shiftPolyt ex t p := by
  have hT : (t.toNat : Int) = t := by omega
  have hlen : (ex.take (ex.length - a.toNat)).length = ex.length - a.toNat := by simp
  unfold C16.shiftPolyt
  rw [hlen]
  have c1 : ¬ (t = 0) := by omega
  have c2 : ¬ (t = ((ex.length - a.toNat : Nat) : Int)) := by omega
  have c3 : ¬ (t = (ex.length : Int)) := by omega
  have c4 : ¬ (t > ((ex.length - a.toNat : Nat) : Int)) := by omega
  have c5 : ¬ (t > (ex.length : Int)) := by omega
  simp only [c1, c2, c3, c4, c5, false_or, if_false]
  have g : pyGet? (ex.take (ex.length - a.toNat)) t = pyGet? ex t := by
    have h0 : 0 ≤ t := by omega
    simp only [pyGet?, h0, if_true]
    rw [List.getElem?_take_of_lt (by omega)]
  have tk : (ex.take (ex.length - a.toNat)).take t.toNat = ex.take t.toNat := by
    rw [List.take_take]; congr 1; omega
  rw [g, tk]

theorem pa16_shiftPolya_drop (ex : List Iv) (a t p : Int) (ha : 0 < a)
    (hlt : a.toNat + t.toNat < ex.length) :
    C16.shiftPolya (ex.drop t.toNat) a p = C16.shiftPolya ex a p := by
  have hlen : (ex.drop t.toNat).length = ex.length - t.toNat := by simp
  unfold C16.shiftPolya
  rw [hlen]
  have c1 : ¬ (a = 0) := by omega
  have c2 : ¬ (a = ((ex.length - t.toNat : Nat) : Int)) := by omega
  have c3 : ¬ (a = (ex.length : Int)) := by omega
  have c4 : ¬ (a > ((ex.length - t.toNat : Nat) : Int)) := by omega
  have c5 : ¬ (a > (ex.length : Int)) := by omega
  simp only [c1, c2, c3, c4, c5, false_or, if_false]
  have g : pyGet? (ex.drop t.toNat) (-a - 1) = pyGet? ex (-a - 1) := by
    have h0 : ¬ (0 ≤ -a - 1) := by omega
    have h1 : -((ex.length - t.toNat : Nat) : Int) ≤ -a - 1 := by omega
    have h2 : -(ex.length : Int) ≤ -a - 1 := by omega
    simp only [pyGet?, h0, if_false, hlen, h1, h2, if_true]
    rw [List.getElem?_drop]
    congr 1; omega
  have tk : (ex.drop t.toNat).reverse.take a.toNat = ex.reverse.take a.toNat := by
    rw [List.reverse_drop, List.take_take]; congr 1; omega
  rw [g, tk]

theorem pa16_trims_commute (st : C16.AInfo) (a t : Int) (hlt : a.toNat + t.toNat < st.exons.length) :
    (C16.trimPolyA st a).bind (fun s => C16.trimPolyT s t) = (C16.trimPolyT st t).bind (fun s => C16.trimPolyA s a) := by
  by_cases ha : a > 0
  · by_cases ht : t > 0
    · unfold C16.trimPolyA C16.trimPolyT
      simp only [ha, ht, if_true]
      cases hia : C16.shiftPolya st.exons a st.info.internalPolyA with
      | none =>
        simp only [Option.bind_eq_bind, Option.bind_none]
        cases hit : C16.shiftPolyt st.exons t st.info.internalPolyT with
        | none => rfl
        | some it =>
          cases het : C16.shiftPolyt st.exons t st.info.externalPolyT with
          | none => rfl
          | some et =>
            simp only [Option.bind_some]
            rw [pa16_shiftPolya_drop st.exons a t _ ha hlt, hia]; rfl
      | some ia =>
        cases hea : C16.shiftPolya st.exons a st.info.externalPolyA with
        | none =>
          simp only [Option.bind_eq_bind, Option.bind_none, Option.bind_some]
          cases hit : C16.shiftPolyt st.exons t st.info.internalPolyT with
          | none => rfl
          | some it =>
            cases het : C16.shiftPolyt st.exons t st.info.externalPolyT with
            | none => rfl
            | some et =>
              simp only [Option.bind_some]
              rw [pa16_shiftPolya_drop st.exons a t _ ha hlt, pa16_shiftPolya_drop st.exons a t _ ha hlt, hia, hea]; rfl
        | some ea =>
          simp only [Option.bind_eq_bind, Option.bind_some]
          rw [pa16_shiftPolyt_take st.exons a t _ ht hlt, pa16_shiftPolyt_take st.exons a t _ ht hlt]
          cases hit : C16.shiftPolyt st.exons t st.info.internalPolyT with
          | none => rfl
          | some it =>
            cases het : C16.shiftPolyt st.exons t st.info.externalPolyT with
            | none => rfl
            | some et =>
              simp only [Option.bind_some]
              rw [pa16_shiftPolya_drop st.exons a t _ ha hlt, pa16_shiftPolya_drop st.exons a t _ ha hlt, hia, hea]
              simp only [Option.bind_some, List.length_drop, List.drop_take, List.length_take]
              congr 2
              · congr 1; omega
              · congr 1
                · omega
              · congr 1
                · omega
    · have h1 : ∀ s, C16.trimPolyT s t = some s := by intro s; simp [C16.trimPolyT, ht]
      simp only [h1, Option.bind_some]
      cases C16.trimPolyA st a <;> rfl
  · have h1 : ∀ s, C16.trimPolyA s a = some s := by intro s; simp [C16.trimPolyA, ha]
    simp only [h1, Option.bind_some]
    cases C16.trimPolyT st t <;> rfl

theorem pa16_trimPolyT_keepsA (st st1 : C16.AInfo) (t : Int) (h : C16.trimPolyT st t = some st1) :
    st1.info.internalPolyA = st.info.internalPolyA ∧ st1.info.externalPolyA = st.info.externalPolyA := by
  unfold C16.trimPolyT at h
  by_cases ha : t > 0
  · simp only [ha, if_true] at h
    cases h1 : C16.shiftPolyt st.exons t st.info.internalPolyT with
    | none => simp [h1] at h
    | some ia =>
      cases h2 : C16.shiftPolyt st.exons t st.info.externalPolyT with
      | none => simp [h1, h2] at h
      | some ea =>
        simp [h1, h2] at h
        subst h; simp
  · simp [ha] at h; subst h; simp

theorem pa16_addPolyaInfo_mirror (mf L : Int) (ex rb cb : List Iv) (i : C16.PolyAInfo)
    (h1 : NoCollM L i.internalPolyA) (h2 : NoCollM L i.externalPolyA)
    (h3 : NoCollM L i.internalPolyT) (h4 : NoCollM L i.externalPolyT) :
    C16.addPolyaInfo mf (mirrorL L ex) rb.reverse cb.reverse (mirrorInfo L i) =
      (C16.addPolyaInfo mf ex rb cb i).map (mirrorAInfoBy i L) := by
  unfold C16.addPolyaInfo C16.addPolyaInfoWith
  rw [pa16_ainfoInit_mirror, pa16_correctReadInfo_mirror mf L ex i h1 h3]
  cases h0 : C16.ainfoInit ex rb cb i with
  | none => rfl
  | some st0 =>
    obtain ⟨hi, hex, _, _⟩ := pa16_ainfoInit_info ex rb cb i st0 h0
    have hne : ex ≠ [] := by
      intro e; subst e; simp [C16.ainfoInit] at h0
    obtain ⟨a, t, hcri, hlt, _⟩ := IsoVerif.Lemmas.C16.correctReadInfo_spec mf ex i hne
    rw [hcri]
    simp only [Option.map_some, Option.bind_eq_bind, Option.bind_some, swapCounts]
    have hcomm := pa16_trims_commute st0 a t (by rw [hex]; exact hlt)
    rw [pa16_trimPolyA_mirror i L st0 t (by rw [hi]) (by rw [hi]) h3 h4]
    -- right-hand side: reorder the two trims
    have rhs : ((C16.trimPolyA st0 a).bind fun st1 => (C16.trimPolyT st1 t).bind fun st2 => C16.refreshEnds st2) =
        ((C16.trimPolyT st0 t).bind fun s => C16.trimPolyA s a).bind C16.refreshEnds := by
      rw [← hcomm]
      cases C16.trimPolyA st0 a <;> simp
    rw [rhs]
    cases hT : C16.trimPolyT st0 t with
    | none => rfl
    | some s1 =>
      obtain ⟨k1, k2⟩ := pa16_trimPolyT_keepsA st0 s1 t hT
      simp only [Option.map_some, Option.bind_some]
      rw [pa16_trimPolyT_mirror i L s1 a (by rw [k1, hi]) (by rw [k2, hi]) h1 h2]
      cases C16.trimPolyA s1 a with
      | none => rfl
      | some s2 =>
        simp only [Option.map_some, Option.bind_some]
        exact pa16_refreshEnds_mirror i L s2

end IsoVerif.Lemmas.C11
