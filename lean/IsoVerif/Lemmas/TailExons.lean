/-
Helper lemmas for C16: on a sorted disjoint exon list the loops of `count_polya_exons` / `count_polyt_exons`
(src/polya_verification.py) count exactly the exons that satisfy a per-exon predicate, and those exons are the last
(first) ones of the list.
-/
import IsoVerif.Model.PolyA
import IsoVerif.Lemmas.PolyA

namespace IsoVerif.Lemmas.C16
open IsoVerif.Gen IsoVerif.Model IsoVerif.Model.C16

/-- list in descending genomic order (the order in which `count_polya_exons` visits the exons) -/
def Desc (l : List Iv) : Prop := WFs l ∧ l.Pairwise (fun a b => b.2 < a.1)

theorem Desc.tail {e : Iv} {l : List Iv} (h : Desc (e :: l)) : Desc l :=
  ⟨fun x hx => h.1 x (by simp [hx]), (List.pairwise_cons.1 h.2).2⟩

theorem SD.desc_reverse {l : List Iv} (h : SD l) : Desc l.reverse :=
  ⟨fun x hx => h.1 x (List.mem_reverse.1 hx), List.pairwise_reverse.2 h.2⟩

theorem SD.tail {e : Iv} {l : List Iv} (h : SD (e :: l)) : SD l :=
  ⟨fun x hx => h.1 x (by simp [hx]), (List.pairwise_cons.1 h.2).2⟩

/-- once an exon ends at or before the position, no exon further down is counted -/
theorem countP_polya_zero_of_below (mf pos : Int) (l : List Iv) (h : ∀ e ∈ l, e.2 ≤ pos) :
    l.countP (polyaCounted mf pos) = 0 := by
  rw [List.countP_eq_zero]
  intro e he
  have := h e he
  simp [polyaCounted]; intro h'; omega

theorem countPolyaLoop_of_below (mf pos cnt : Int) (l : List Iv) (h : ∀ e ∈ l, e.2 ≤ pos) :
    countPolyaLoop mf pos cnt l = cnt := by
  cases l with
  | nil => rfl
  | cons e rest => simp [countPolyaLoop, h e (by simp)]

/-- **the loop of `count_polya_exons` on a descending list = number of exons with the per-exon predicate** -/
theorem countPolyaLoop_eq_countP (mf pos : Int) : ∀ (l : List Iv) (cnt : Int), Desc l →
    countPolyaLoop mf pos cnt l = cnt + (l.countP (polyaCounted mf pos) : Nat) := by
  intro l
  induction l with
  | nil => intro cnt _; simp [countPolyaLoop]
  | cons e rest ih =>
    intro cnt hd
    have hwf := hd.1 e (by simp)
    have hpw := (List.pairwise_cons.1 hd.2).1
    by_cases hle : e.2 ≤ pos
    · have hall : ∀ x ∈ e :: rest, x.2 ≤ pos := by
        intro x hx
        rcases List.mem_cons.1 hx with h | h
        · subst h; exact hle
        · have := hpw x h; omega
      rw [countPolyaLoop_of_below mf pos cnt _ hall, countP_polya_zero_of_below mf pos _ hall]; simp
    · have hgt : e.2 > pos := by omega
      by_cases hp : isPolyaExon mf pos e = true
      · simp only [countPolyaLoop, hle, if_false, hp, if_true, List.countP_cons, polyaCounted, hgt, decide_true,
          Bool.true_and]
        rw [ih (cnt + 1) hd.tail]
        push_cast; omega
      · have hp' : isPolyaExon mf pos e = false := by simpa using hp
        have hlen : pos - e.1 > 0 := by
          simp only [isPolyaExon, Bool.or_eq_false_iff, decide_eq_false_iff_not] at hp'
          omega
        have hall : ∀ x ∈ rest, x.2 ≤ pos := by
          intro x hx; have := hpw x hx; omega
        simp only [countPolyaLoop, hle, if_false, hp', Bool.false_eq_true, List.countP_cons, polyaCounted, hgt,
          decide_true, Bool.true_and]
        rw [countPolyaLoop_of_below mf pos cnt _ hall]
        have := countP_polya_zero_of_below mf pos _ hall
        rw [this]; simp

/-- the first `k` exons visited are all counted as long as `k` does not exceed the count -/
theorem counted_take_polya (mf pos : Int) : ∀ (l : List Iv) (cnt : Int) (k : Nat), Desc l →
    cnt + k ≤ countPolyaLoop mf pos cnt l → ∀ e ∈ l.take k, polyaCounted mf pos e = true := by
  intro l
  induction l with
  | nil => intro cnt k _ _ e he; simp at he
  | cons x rest ih =>
    intro cnt k hd hk e he
    cases k with
    | zero => simp at he
    | succ k =>
      have hpw := (List.pairwise_cons.1 hd.2).1
      by_cases hle : x.2 ≤ pos
      · simp only [countPolyaLoop, hle, if_true] at hk
        push_cast at hk; omega
      · have hgt : x.2 > pos := by omega
        by_cases hp : isPolyaExon mf pos x = true
        · simp only [countPolyaLoop, hle, if_false, hp, if_true] at hk
          rcases List.mem_cons.1 (by simpa using he) with h | h
          · subst h; simp [polyaCounted, hgt, hp]
          · exact ih (cnt + 1) k hd.tail (by push_cast at hk ⊢; omega) e h
        · have hp' : isPolyaExon mf pos x = false := by simpa using hp
          have hlen : pos - x.1 > 0 := by
            simp only [isPolyaExon, Bool.or_eq_false_iff, decide_eq_false_iff_not] at hp'
            omega
          have hall : ∀ y ∈ rest, y.2 ≤ pos := by
            intro y hy; have := hpw y hy; omega
          simp only [countPolyaLoop, hle, if_false, hp', Bool.false_eq_true] at hk
          rw [countPolyaLoop_of_below mf pos cnt _ hall] at hk
          push_cast at hk; omega

/-! ### mirror image: `count_polyt_exons` on the ascending list -/

theorem countP_polyt_zero_of_above (mf pos : Int) (l : List Iv) (h : ∀ e ∈ l, e.1 ≥ pos) :
    l.countP (polytCounted mf pos) = 0 := by
  rw [List.countP_eq_zero]
  intro e he
  have := h e he
  simp [polytCounted]; intro h'; omega

theorem countPolytLoop_of_above (mf pos cnt : Int) (l : List Iv) (h : ∀ e ∈ l, e.1 ≥ pos) :
    countPolytLoop mf pos cnt l = cnt := by
  cases l with
  | nil => rfl
  | cons e rest => simp [countPolytLoop, h e (by simp)]

theorem countPolytLoop_eq_countP (mf pos : Int) : ∀ (l : List Iv) (cnt : Int), SD l →
    countPolytLoop mf pos cnt l = cnt + (l.countP (polytCounted mf pos) : Nat) := by
  intro l
  induction l with
  | nil => intro cnt _; simp [countPolytLoop]
  | cons e rest ih =>
    intro cnt hd
    have hwf := hd.1 e (by simp)
    have hpw := (List.pairwise_cons.1 hd.2).1
    by_cases hge : e.1 ≥ pos
    · have hall : ∀ x ∈ e :: rest, x.1 ≥ pos := by
        intro x hx
        rcases List.mem_cons.1 hx with h | h
        · subst h; exact hge
        · have := hpw x h; omega
      rw [countPolytLoop_of_above mf pos cnt _ hall, countP_polyt_zero_of_above mf pos _ hall]; simp
    · have hlt : e.1 < pos := by omega
      by_cases hp : isPolytExon mf pos e = true
      · simp only [countPolytLoop, hge, if_false, hp, if_true, List.countP_cons, polytCounted, hlt, decide_true,
          Bool.true_and]
        rw [ih (cnt + 1) hd.tail]
        push_cast; omega
      · have hp' : isPolytExon mf pos e = false := by simpa using hp
        have hlen : e.2 - pos > 0 := by
          simp only [isPolytExon, Bool.or_eq_false_iff, decide_eq_false_iff_not] at hp'
          omega
        have hall : ∀ x ∈ rest, x.1 ≥ pos := by
          intro x hx; have := hpw x hx; omega
        simp only [countPolytLoop, hge, if_false, hp', Bool.false_eq_true, List.countP_cons, polytCounted, hlt,
          decide_true, Bool.true_and]
        rw [countPolytLoop_of_above mf pos cnt _ hall]
        have := countP_polyt_zero_of_above mf pos _ hall
        rw [this]; simp

theorem counted_take_polyt (mf pos : Int) : ∀ (l : List Iv) (cnt : Int) (k : Nat), SD l →
    cnt + k ≤ countPolytLoop mf pos cnt l → ∀ e ∈ l.take k, polytCounted mf pos e = true := by
  intro l
  induction l with
  | nil => intro cnt k _ _ e he; simp at he
  | cons x rest ih =>
    intro cnt k hd hk e he
    cases k with
    | zero => simp at he
    | succ k =>
      have hpw := (List.pairwise_cons.1 hd.2).1
      by_cases hge : x.1 ≥ pos
      · simp only [countPolytLoop, hge, if_true] at hk
        push_cast at hk; omega
      · have hlt : x.1 < pos := by omega
        by_cases hp : isPolytExon mf pos x = true
        · simp only [countPolytLoop, hge, if_false, hp, if_true] at hk
          rcases List.mem_cons.1 (by simpa using he) with h | h
          · subst h; simp [polytCounted, hlt, hp]
          · exact ih (cnt + 1) k hd.tail (by push_cast at hk ⊢; omega) e h
        · have hp' : isPolytExon mf pos x = false := by simpa using hp
          have hlen : x.2 - pos > 0 := by
            simp only [isPolytExon, Bool.or_eq_false_iff, decide_eq_false_iff_not] at hp'
            omega
          have hall : ∀ y ∈ rest, y.1 ≥ pos := by
            intro y hy; have := hpw y hy; omega
          simp only [countPolytLoop, hge, if_false, hp', Bool.false_eq_true] at hk
          rw [countPolytLoop_of_above mf pos cnt _ hall] at hk
          push_cast at hk; omega

/-- a sublist all of whose `k = countP p l` elements satisfy `p` holds every element of `l` that satisfies `p` -/
theorem mem_drop_of_countP {α} (p : α → Bool) (l : List α) (k : Nat) (hk : k ≤ l.length)
    (hall : ∀ e ∈ l.drop (l.length - k), p e = true) (hcount : l.countP p = k) :
    ∀ e ∈ l, p e = true → e ∈ l.drop (l.length - k) := by
  intro e he hpe
  have hsplit := List.take_append_drop (l.length - k) l
  have hc : (l.take (l.length - k)).countP p + (l.drop (l.length - k)).countP p = k := by
    rw [← List.countP_append, hsplit, hcount]
  have hd : (l.drop (l.length - k)).countP p = k := by
    rw [List.countP_eq_length.2 hall, List.length_drop]; omega
  have h0 : (l.take (l.length - k)).countP p = 0 := by omega
  rw [← hsplit] at he
  rcases List.mem_append.1 he with h | h
  · rw [List.countP_eq_zero] at h0
    exact absurd hpe (h0 e h)
  · exact h

theorem mem_take_of_countP {α} (p : α → Bool) (l : List α) (k : Nat)
    (hall : ∀ e ∈ l.take k, p e = true) (hk : k ≤ l.length) (hcount : l.countP p = k) :
    ∀ e ∈ l, p e = true → e ∈ l.take k := by
  intro e he hpe
  have hsplit := List.take_append_drop k l
  have hc : (l.take k).countP p + (l.drop k).countP p = k := by
    rw [← List.countP_append, hsplit, hcount]
  have hd : (l.take k).countP p = k := by
    rw [List.countP_eq_length.2 hall, List.length_take]; omega
  have h0 : (l.drop k).countP p = 0 := by omega
  rw [← hsplit] at he
  rcases List.mem_append.1 he with h | h
  · exact h
  · rw [List.countP_eq_zero] at h0
    exact absurd hpe (h0 e h)

end IsoVerif.Lemmas.C16
