/-
Helper lemmas for C09 option strings (core Lean only): `option.split(':')` on text assembled from colon-free fields.
-/
import IsoVerif.Model.C09Options
import IsoVerif.Lemmas.C09Split

namespace IsoVerif.Lemmas.C09Options
open IsoVerif.Gen IsoVerif.Model.C09 IsoVerif.Lemmas.C09Split

/-- a field without a colon -/
def NoColon (s : List Char) : Prop := ':' ∉ s

instance (s : List Char) : Decidable (NoColon s) := by unfold NoColon; infer_instance

theorem splitGo_colon_cons (r : List Char) : ∀ (a : List Char), NoColon a →
    splitGo ':' [] (a ++ ':' :: r) = (a, (splitGo ':' [] r).1 :: (splitGo ':' [] r).2)
  | [], _ => by
    rw [List.nil_append, splitGo]
    simp
  | c :: a, h => by
    have hc : c ≠ ':' := fun e => h (by rw [e]; exact List.mem_cons_self)
    have ih := splitGo_colon_cons r a (fun hm => h (List.mem_cons_of_mem _ hm))
    rw [List.cons_append, splitGo]
    simp [hc, ih]

/-- the first field of an option string is the text before the first colon -/
theorem colonPieces_cons (a r : List Char) (ha : NoColon a) : colonPieces (a ++ ':' :: r) = a :: colonPieces r := by
  simp [colonPieces, splitGo_colon_cons r a ha]

theorem colonPieces_cons' (a r : List Char) (ha : NoColon a) : colonPieces (a ++ [':'] ++ r) = a :: colonPieces r := by
  rw [List.append_assoc]; exact colonPieces_cons a r ha

theorem colonPieces_noColon (a : List Char) (ha : NoColon a) : colonPieces a = [a] := by
  simp [colonPieces, splitGo_no_delim ':' a ha]

/-- joining the pieces with colons gives the text back (whatever the text) -/
theorem join_colonPieces (d : List Char) : joinWith [':'] (colonPieces d) = d := by
  simpa [colonPieces] using splitGo_join ':' [] d

theorem pySplit_colon (o : List Char) : pySplit [':'] o = .ok (colonPieces o) := rfl

theorem joinWith_cons_cons (a b : List Char) (rest : List (List Char)) :
    joinWith [':'] (a :: b :: rest) = a ++ ':' :: joinWith [':'] (b :: rest) := by
  simp [joinWith]

end IsoVerif.Lemmas.C09Options
