/-
Helper lemmas for `TranscriptToGeneJoiner` (Model/GeneJoiner.lean): the strand invariant of the gene tables.
Core Lean only.
-/
import IsoVerif.Model.GeneJoiner
import IsoVerif.Lemmas.IntronGraph

namespace IsoVerif.Lemmas.C04
open IsoVerif.Gen IsoVerif.Model IsoVerif.Model.C04

theorem mem_setUnion {α} [DecidableEq α] {s l : List α} {x : α} : x ∈ setUnion s l ↔ x ∈ s ∨ x ∈ l := by
  unfold setUnion
  induction l generalizing s with
  | nil => simp
  | cons a t ih =>
    simp only [List.foldl_cons]
    rw [ih, mem_setAdd]
    simp only [List.mem_cons]
    constructor
    · rintro ((h | h) | h)
      · exact Or.inl h
      · exact Or.inr (Or.inl h)
      · exact Or.inr (Or.inr h)
    · rintro (h | h | h)
      · exact Or.inl (Or.inl h)
      · exact Or.inl (Or.inr h)
      · exact Or.inr h

theorem zero_lt_cutoff : Score.lt Score.zero scoreCutoff = true := by decide

def novel (m : TModel) : Prop := m.ttype ≠ .known

/-- every novel model listed under a gene has the gene's strand, and such a gene has a region -/
def StrandInv (storage : List TModel) (j : Joiner) : Prop :=
  ∀ p ∈ j.g2t, ∀ m ∈ storage, novel m → m.tid ∈ p.2 → amGet? j.strands p.1 = some m.strand ∧ amHas j.regions p.1 = true

/-- a score at or above the merge cutoff relates two genes of one strand -/
def ScoreInv (strands : List (String × Strand)) (sc : List ((String × String) × Score)) : Prop :=
  ∀ p ∈ sc, Score.lt p.2 scoreCutoff = false → ∃ st, amGet? strands p.1.1 = some st ∧ amGet? strands p.1.2 = some st

theorem countScore_strands {heur : ScoreFn} {j : Joiner} {a b : String} {s : Score}
    (h : j.countScore heur a b = some s) (hs : Score.lt s scoreCutoff = false) :
    ∃ st, amGet? j.strands a = some st ∧ amGet? j.strands b = some st := by
  unfold Joiner.countScore at h
  split at h
  · rename_i s1 s2 h1 h2
    split at h
    · simp at h; subst h; rw [zero_lt_cutoff] at hs; cases hs
    · rename_i heq
      simp at heq
      exact ⟨s1, h1, by rw [h2, heq]⟩
  · simp at h

/-! ### `__init__` -/

theorem foldlM_option_inv {α β} (P : β → Prop) (f : β → α → Option β) (l : List α) (b b' : β) (hb : P b)
    (hstep : ∀ x a y, a ∈ l → P x → f x a = some y → P y) (h : l.foldlM f b = some b') : P b' := by
  induction l generalizing b with
  | nil => simp [List.foldlM] at h; subst h; exact hb
  | cons a t ih =>
    simp only [List.foldlM_cons] at h
    cases hf : f b a with
    | none => simp [hf] at h
    | some y =>
      simp only [hf, Option.bind_eq_bind, Option.bind_some] at h
      exact ih y (hstep b a y (by simp) hb hf) (fun x a' y' ha' => hstep x a' y' (by simp [ha'])) h

theorem joinerRefGenes_g2t {gs : List RefGene} {j : Joiner} (h : joinerRefGenes gs = some j) : j.g2t = [] := by
  unfold joinerRefGenes at h
  refine foldlM_option_inv (fun j => j.g2t = []) _ gs _ j rfl ?_ h
  intro x a y _ hx hf
  try simp only at hf
  split at hf
  · cases hf
  · simp only [Option.some.injEq] at hf; subst hf; exact hx

theorem joinerRefTranscripts_g2t (ts : List (String × String × List Iv)) (j : Joiner) :
    ∀ p ∈ (joinerRefTranscripts j ts).g2t, ∀ tid ∈ p.2, (∃ t ∈ ts, t.1 = tid) ∨ ∃ p0 ∈ j.g2t, tid ∈ p0.2 := by
  unfold joinerRefTranscripts
  induction ts generalizing j with
  | nil => intro p hp tid ht; exact Or.inr ⟨p, by simpa using hp, ht⟩
  | cons t rest ih =>
    simp only [List.foldl_cons]
    intro p hp tid ht
    rcases ih _ p hp tid ht with ⟨t', ht', e⟩ | ⟨p0, hp0, ht0⟩
    · exact Or.inl ⟨t', by simp [ht'], e⟩
    · simp only at hp0
      rcases mem_amSet hp0 with h' | h'
      · subst h'
        simp only at ht0
        rcases mem_setAdd.1 ht0 with h'' | h''
        · cases hg : amGet? j.g2t t.2.1 with
          | none => simp [hg] at h''
          | some old =>
            simp only [hg, Option.getD_some] at h''
            exact Or.inr ⟨(t.2.1, old), amGet?_mem hg, h''⟩
        · exact Or.inl ⟨t, by simp, h''.symm⟩
      · exact Or.inr ⟨p0, h', ht0⟩

theorem joinerRefTranscripts_strands (ts : List (String × String × List Iv)) (j : Joiner) :
    (joinerRefTranscripts j ts).strands = j.strands ∧ (joinerRefTranscripts j ts).regions = j.regions := by
  unfold joinerRefTranscripts
  induction ts generalizing j with
  | nil => exact ⟨rfl, rfl⟩
  | cons t rest ih => simp only [List.foldl_cons]; exact ih _

theorem amHas_amSet {α β} [DecidableEq α] (m : List (α × β)) (k j : α) (v : β) :
    amHas (amSet m k v) j = (decide (j = k) || amHas m j) := by
  unfold amHas
  by_cases h : j = k
  · subst h; simp [amGet?_amSet_self]
  · simp [amGet?_amSet_ne _ _ _ _ h, h]

theorem joinerAddModel_inv {storage : List TModel} {j j' : Joiner} {t : TModel} (ht : t ∈ storage)
    (hid : ∀ m1 ∈ storage, ∀ m2 ∈ storage, novel m1 → novel m2 → m1.tid = m2.tid → m1.strand = m2.strand)
    (hinv : StrandInv storage j) (h : joinerAddModel j t = some j') : StrandInv storage j' := by
  unfold joinerAddModel at h
  split at h
  · simp at h; subst h; exact hinv
  · rename_i hnk
    split at h
    · rename_i f l _ _
      cases hj1 : joinerRegionStep j t f l with
      | none => simp [hj1] at h
      | some j1 =>
        simp only [hj1, Option.map_some, Option.some.injEq] at h
        subst h
        unfold joinerRegionStep at hj1
        -- facts about j1
        have hg2t : j1.g2t = j.g2t := by
          split at hj1
          · simp at hj1; subst hj1; rfl
          · split at hj1
            · simp at hj1
            · split at hj1
              · simp at hj1; subst hj1; rfl
              · simp at hj1
        have hown : amGet? j1.strands t.gene = some t.strand ∧ amHas j1.regions t.gene = true := by
          split at hj1
          · simp at hj1; subst hj1
            exact ⟨amGet?_amSet_self _ _ _, by simp [amHas_amSet]⟩
          · split at hj1
            · simp at hj1
            · rename_i s hs
              split at hj1
              · rename_i hst
                simp at hj1; subst hj1
                exact ⟨by rw [hs, hst], by simp [amHas_amSet]⟩
              · simp at hj1
        have hother : ∀ p ∈ j.g2t, ∀ m ∈ storage, novel m → m.tid ∈ p.2 →
            amGet? j1.strands p.1 = some m.strand ∧ amHas j1.regions p.1 = true := by
          intro p hp m hm hn hmt
          have hold := hinv p hp m hm hn hmt
          split at hj1
          · rename_i hnone
            simp at hj1; subst hj1
            have hne : p.1 ≠ t.gene := by
              intro he
              have := hold.2
              rw [he] at this
              simp [amHas, hnone] at this
            simp only
            rw [amGet?_amSet_ne _ _ _ _ hne]
            exact ⟨hold.1, by simp [amHas_amSet, hold.2]⟩
          · split at hj1
            · simp at hj1
            · split at hj1
              · simp at hj1; subst hj1
                exact ⟨hold.1, by simp [amHas_amSet, hold.2]⟩
              · simp at hj1
        intro p hp m hm hn hmt
        simp only at hp
        rcases mem_amSet hp with h' | h'
        · subst h'
          simp only at hmt ⊢
          rcases mem_setAdd.1 hmt with h'' | h''
          · cases hg : amGet? j1.g2t t.gene with
            | none => simp [hg] at h''
            | some old =>
              simp only [hg, Option.getD_some] at h''
              have hmem : (t.gene, old) ∈ j.g2t := by rw [← hg2t]; exact amGet?_mem hg
              exact hother (t.gene, old) hmem m hm hn h''
          · rw [hid m hm t ht hn hnk h'']
            exact hown
        · rw [hg2t] at h'
          exact hother p h' m hm hn hmt
    · simp at h

theorem init_inv {gs : List RefGene} {ts : List (String × String × List Iv)} {storage : List TModel} {j : Joiner}
    (hid : ∀ m1 ∈ storage, ∀ m2 ∈ storage, novel m1 → novel m2 → m1.tid = m2.tid → m1.strand = m2.strand)
    (href : ∀ t ∈ ts, ∀ m ∈ storage, novel m → m.tid ≠ t.1)
    (h : Joiner.init gs ts storage = some j) : StrandInv storage j := by
  unfold Joiner.init at h
  split at h
  · simp at h
  · rename_i j0 hj0
    have h0 : StrandInv storage (joinerRefTranscripts j0 ts) := by
      intro p hp m hm hn hmt
      rcases joinerRefTranscripts_g2t ts j0 p hp m.tid hmt with ⟨t, ht, e⟩ | ⟨p0, hp0, _⟩
      · exact absurd e.symm (href t ht m hm hn)
      · rw [joinerRefGenes_g2t hj0] at hp0; cases hp0
    exact foldlM_option_inv (StrandInv storage) joinerAddModel storage _ j h0
      (fun x a y ha hx hf => joinerAddModel_inv ha hid hx hf) h

theorem joinerRefTranscripts_scores (ts : List (String × String × List Iv)) (j : Joiner) :
    (joinerRefTranscripts j ts).scores = j.scores := by
  unfold joinerRefTranscripts
  induction ts generalizing j with
  | nil => rfl
  | cons t rest ih => simp only [List.foldl_cons]; exact ih _

theorem init_scores {gs : List RefGene} {ts : List (String × String × List Iv)} {storage : List TModel} {j : Joiner}
    (h : Joiner.init gs ts storage = some j) : j.scores = [] := by
  unfold Joiner.init at h
  split at h
  · simp at h
  · rename_i jr hjr
    have hr : jr.scores = [] := by
      unfold joinerRefGenes at hjr
      refine foldlM_option_inv (fun j => j.scores = []) _ gs _ jr rfl ?_ hjr
      intro x a y _ hx hf
      try simp only at hf
      split at hf
      · cases hf
      · simp only [Option.some.injEq] at hf; subst hf; exact hx
    refine foldlM_option_inv (fun j => j.scores = []) joinerAddModel storage _ j
      (by rw [joinerRefTranscripts_scores]; exact hr) ?_ h
    intro x a y _ hx hf
    unfold joinerAddModel at hf
    split at hf
    · simp at hf; subst hf; exact hx
    · split at hf
      · simp only [Option.map_eq_some_iff] at hf
        obtain ⟨j1', hj1', rfl⟩ := hf
        unfold joinerRegionStep at hj1'
        split at hj1'
        · simp at hj1'; subst hj1'; exact hx
        · split at hj1'
          · simp at hj1'
          · split at hj1'
            · simp at hj1'; subst hj1'; exact hx
            · simp at hj1'
      · simp at hf

/-! ### `count_scores` -/

theorem countScoresStep_inv {heur : ScoreFn} {j : Joiner} {sc sc' : List ((String × String) × Score)} {g1 g2 : String}
    (hsc : ScoreInv j.strands sc) (h : countScoresStep heur j sc g1 g2 = some sc') : ScoreInv j.strands sc' := by
  unfold countScoresStep at h
  split at h
  · simp at h; subst h; exact hsc
  · split at h
    · simp at h; subst h; exact hsc
    · simp only [Option.map_eq_some_iff] at h
      obtain ⟨s, hs, rfl⟩ := h
      intro p hp hlt
      rcases mem_amSet hp with h' | h'
      · subst h'
        obtain ⟨st, h1, h2⟩ := countScore_strands hs hlt
        unfold sortedPair
        split
        · exact ⟨st, h1, h2⟩
        · exact ⟨st, h2, h1⟩
      · exact hsc p h' hlt

theorem countScores_spec {heur : ScoreFn} {j j' : Joiner} (hsc : ScoreInv j.strands j.scores)
    (h : j.countScores heur = some j') :
    j'.strands = j.strands ∧ j'.g2t = j.g2t ∧ j'.regions = j.regions ∧ j'.refGenes = j.refGenes ∧
      ScoreInv j'.strands j'.scores := by
  unfold Joiner.countScores at h
  simp only [Option.map_eq_some_iff] at h
  obtain ⟨sc, hsc', rfl⟩ := h
  refine ⟨rfl, rfl, rfl, rfl, ?_⟩
  simp only
  refine foldlM_option_inv (ScoreInv j.strands) _ (amKeys j.g2t) _ sc hsc ?_ hsc'
  intro x g1 y _ hx hf
  exact foldlM_option_inv (ScoreInv j.strands) _ (amKeys j.g2t) _ y hx
    (fun x' g2 y' _ hx' hf' => countScoresStep_inv hx' hf') hf

/-! ### `merge_genes` -/

theorem rescore_inv {heur : ScoreFn} {j : Joiner} {g1 g2 : String} {old : List (String × Strand)}
    (hold : ∀ a, a ≠ g2 → amGet? j.strands a = amGet? old a)
    (sc sc' : List ((String × String) × Score)) (hsc : ScoreInv old sc) (h : rescore heur j g1 g2 sc = some sc') :
    ScoreInv j.strands sc' := by
  induction sc generalizing sc' with
  | nil => simp [rescore] at h; subst h; intro p hp; cases hp
  | cons p t ih =>
    simp only [rescore] at h
    cases hr : rescore heur j g1 g2 t with
    | none => simp [hr] at h
    | some t' =>
      have iht := ih t' (fun q hq => hsc q (by simp [hq])) hr
      simp only [hr] at h
      split at h
      · simp at h; subst h; exact iht
      · rename_i hn2
        split at h
        · simp only [Option.map_eq_some_iff] at h
          obtain ⟨s, hs, rfl⟩ := h
          intro q hq hlt
          rcases List.mem_cons.mp hq with rfl | hq
          · exact countScore_strands hs hlt
          · exact iht q hq hlt
        · simp at h; subst h
          intro q hq hlt
          rcases List.mem_cons.mp hq with rfl | hq
          · obtain ⟨st, h1, h2⟩ := hsc q (by simp) hlt
            have hn : q.1.1 ≠ g2 ∧ q.1.2 ≠ g2 := by
              constructor <;> (intro he; exact hn2 (by simp [he]))
            exact ⟨st, by rw [hold _ hn.1]; exact h1, by rw [hold _ hn.2]; exact h2⟩
          · exact iht q hq hlt

theorem mergeGenes_inv {storage : List TModel} {heur : ScoreFn} {j j' : Joiner} {g1 g2 : String}
    (hinv : StrandInv storage j) (hsc : ScoreInv j.strands j.scores)
    (hst : ∃ st, amGet? j.strands g1 = some st ∧ amGet? j.strands g2 = some st)
    (h : j.mergeGenes heur g1 g2 = some j') :
    StrandInv storage j' ∧ ScoreInv j'.strands j'.scores ∧ j'.refGenes = j.refGenes ∧
      (∀ g s, amGet? j'.strands g = some s → amGet? j.strands g = some s) := by
  unfold Joiner.mergeGenes at h
  split at h
  · rename_i r1 r2 _ _ hr1 hr2 _ _
    simp only [Option.map_eq_some_iff] at h
    obtain ⟨sc, hsc', rfl⟩ := h
    have hstr : ∀ a, a ≠ g2 → amGet? (amErase j.strands g2) a = amGet? j.strands a := by
      intro a ha; rw [amGet?_amErase]; simp [ha]
    refine ⟨?_, ?_, rfl, ?_⟩
    · intro p hp m hm hn hmt
      simp only at hp ⊢
      obtain ⟨hp1, hpne⟩ := mem_amErase hp
      rw [hstr _ hpne]
      have hreg : ∀ a, a ≠ g2 → amHas j.regions a = true →
          amHas (amErase (amSet j.regions g1 (min r1.1 r2.1, max r1.2 r2.2)) g2) a = true := by
        intro a ha hh
        unfold amHas at hh ⊢
        rw [amGet?_amErase]
        simp only [ha, if_false]
        by_cases hag : a = g1
        · subst hag; simp [amGet?_amSet_self]
        · rw [amGet?_amSet_ne _ _ _ _ hag]; exact hh
      rcases mem_amSet hp1 with h' | h'
      · subst h'
        simp only at hmt hpne ⊢
        obtain ⟨st, hs1, hs2⟩ := hst
        have hg1reg : amHas j.regions g1 = true := by simp [amHas, hr1]
        rcases mem_setUnion.1 hmt with h'' | h''
        · cases hg : amGet? j.g2t g1 with
          | none => simp [hg] at h''
          | some old =>
            simp only [hg, Option.getD_some] at h''
            have := hinv (g1, old) (amGet?_mem hg) m hm hn h''
            exact ⟨this.1, hreg g1 hpne hg1reg⟩
        · cases hg : amGet? j.g2t g2 with
          | none => simp [hg] at h''
          | some old =>
            simp only [hg, Option.getD_some] at h''
            have := hinv (g2, old) (amGet?_mem hg) m hm hn h''
            simp only at this
            rw [hs2] at this
            rw [hs1]
            exact ⟨this.1, hreg g1 hpne hg1reg⟩
      · have := hinv p h' m hm hn hmt
        exact ⟨this.1, hreg _ hpne this.2⟩
    · simp only
      exact rescore_inv (j := { j with
          regions := amErase (amSet j.regions g1 (min r1.1 r2.1, max r1.2 r2.2)) g2,
          introns := amErase (amSet j.introns g1 (setUnion ((amGet? j.introns g1).getD []) ((amGet? j.introns g2).getD []))) g2,
          g2t := amErase (amSet j.g2t g1 (setUnion ((amGet? j.g2t g1).getD []) ((amGet? j.g2t g2).getD []))) g2,
          strands := amErase j.strands g2 }) (old := j.strands) hstr j.scores sc hsc hsc'
    · intro g s hg
      simp only at hg
      rw [amGet?_amErase] at hg
      split at hg
      · simp at hg
      · exact hg
  · simp at h

theorem bestPair_mem {sc : List ((String × String) × Score)} {p : (String × String) × Score}
    (h : bestPair sc = some p) : p ∈ sc := by
  induction sc generalizing p with
  | nil => simp [bestPair] at h
  | cons a t ih =>
    simp only [bestPair] at h
    cases hb : bestPair t with
    | none => simp [hb] at h; subst h; simp
    | some q =>
      simp only [hb] at h
      split at h
      · simp at h; subst h; exact List.mem_cons_of_mem _ (ih hb)
      · simp at h; subst h; simp

theorem mergeLoop_inv {storage : List TModel} {heur : ScoreFn} (fuel : Nat) {j j' : Joiner}
    (hinv : StrandInv storage j) (hsc : ScoreInv j.strands j.scores)
    (h : Joiner.mergeLoop heur fuel j = some j') :
    StrandInv storage j' ∧ (∀ g s, amGet? j'.strands g = some s → amGet? j.strands g = some s) := by
  induction fuel generalizing j with
  | zero => simp [Joiner.mergeLoop] at h
  | succ n ih =>
    simp only [Joiner.mergeLoop] at h
    split at h
    · simp at h; subst h; exact ⟨hinv, fun _ _ hg => hg⟩
    · split at h
      · simp at h; subst h; exact ⟨hinv, fun _ _ hg => hg⟩
      · rename_i pair s hbest
        have hmem := bestPair_mem hbest
        split at h
        · simp at h; subst h; exact ⟨hinv, fun _ _ hg => hg⟩
        · rename_i hlt
          have hlt' : Score.lt s scoreCutoff = false := by simpa using hlt
          obtain ⟨st, hs1, hs2⟩ := hsc (pair, s) hmem hlt'
          simp only at hs1 hs2
          split at h
          · split at h
            · simp at h
            · cases hm : j.mergeGenes heur pair.1 pair.2 with
              | none => simp [hm] at h
              | some j1 =>
                simp only [hm, Option.bind_some] at h
                obtain ⟨a1, a2, _, a4⟩ := mergeGenes_inv hinv hsc ⟨st, hs1, hs2⟩ hm
                obtain ⟨b1, b2⟩ := ih a1 a2 h
                exact ⟨b1, fun g s' hg => a4 g s' (b2 g s' hg)⟩
          · cases hm : j.mergeGenes heur pair.2 pair.1 with
            | none => simp [hm] at h
            | some j1 =>
              simp only [hm, Option.bind_some] at h
              obtain ⟨a1, a2, _, a4⟩ := mergeGenes_inv hinv hsc ⟨st, hs2, hs1⟩ hm
              obtain ⟨b1, b2⟩ := ih a1 a2 h
              exact ⟨b1, fun g s' hg => a4 g s' (b2 g s' hg)⟩

/-! ### the merge loop ends: every merge removes at least the merged pair from `scores` -/

theorem rescore_length {heur : ScoreFn} {j : Joiner} {g1 g2 : String} (sc sc' : List ((String × String) × Score))
    (h : rescore heur j g1 g2 sc = some sc') :
    sc'.length ≤ sc.length ∧ ((∃ p ∈ sc, p.1.1 = g2 ∨ p.1.2 = g2) → sc'.length < sc.length) := by
  induction sc generalizing sc' with
  | nil => simp [rescore] at h; subst h; simp
  | cons p t ih =>
    simp only [rescore] at h
    cases hr : rescore heur j g1 g2 t with
    | none => simp [hr] at h
    | some t' =>
      obtain ⟨i1, i2⟩ := ih t' hr
      simp only [hr] at h
      split at h
      · simp at h; subst h
        simp only [List.length_cons]
        exact ⟨by omega, fun _ => by omega⟩
      · rename_i hn2
        have hex : (∃ q ∈ p :: t, q.1.1 = g2 ∨ q.1.2 = g2) → ∃ q ∈ t, q.1.1 = g2 ∨ q.1.2 = g2 := by
          rintro ⟨q, hq, hq2⟩
          rcases List.mem_cons.mp hq with rfl | hq
          · exact absurd hq2 hn2
          · exact ⟨q, hq, hq2⟩
        split at h
        · simp only [Option.map_eq_some_iff] at h
          obtain ⟨s', _, rfl⟩ := h
          simp only [List.length_cons]
          exact ⟨by omega, fun he => by have := i2 (hex he); omega⟩
        · simp at h; subst h
          simp only [List.length_cons]
          exact ⟨by omega, fun he => by have := i2 (hex he); omega⟩

theorem mergeGenes_scores {heur : ScoreFn} {j j' : Joiner} {g1 g2 : String} (h : j.mergeGenes heur g1 g2 = some j')
    (hp : ∃ p ∈ j.scores, p.1.1 = g2 ∨ p.1.2 = g2) : j'.scores.length < j.scores.length := by
  unfold Joiner.mergeGenes at h
  split at h
  · simp only [Option.map_eq_some_iff] at h
    obtain ⟨sc, hsc, rfl⟩ := h
    exact (rescore_length _ _ hsc).2 hp
  · simp at h

theorem mergeLoop_fuel (heur : ScoreFn) (f1 f2 : Nat) (j : Joiner) (h1 : j.scores.length < f1) (h2 : j.scores.length < f2) :
    Joiner.mergeLoop heur f1 j = Joiner.mergeLoop heur f2 j := by
  induction f1 generalizing f2 j with
  | zero => omega
  | succ n ih =>
    cases f2 with
    | zero => omega
    | succ m =>
      simp only [Joiner.mergeLoop]
      split
      · rfl
      · split
        · rfl
        · rename_i pair s hbest
          have hmem := bestPair_mem hbest
          split
          · rfl
          · split
            · split
              · rfl
              · cases hm : j.mergeGenes heur pair.1 pair.2 with
                | none => rfl
                | some j1 =>
                  have := mergeGenes_scores hm ⟨(pair, s), hmem, Or.inr rfl⟩
                  simp only [Option.bind_some]
                  exact ih m j1 (by omega) (by omega)
            · cases hm : j.mergeGenes heur pair.2 pair.1 with
              | none => rfl
              | some j1 =>
                have := mergeGenes_scores hm ⟨(pair, s), hmem, Or.inl rfl⟩
                simp only [Option.bind_some]
                exact ih m j1 (by omega) (by omega)

theorem geneOf_mem {j : Joiner} {tid g : String} (h : j.geneOf tid = some g) : ∃ l, (g, l) ∈ j.g2t ∧ tid ∈ l := by
  unfold Joiner.geneOf at h
  simp only [Option.map_eq_some_iff] at h
  obtain ⟨p, hp, rfl⟩ := h
  have := List.mem_of_getLast? hp
  simp only [List.mem_filter, decide_eq_true_eq] at this
  exact ⟨p.2, this.1, this.2⟩

theorem mapM_option_mem {α β} (f : α → Option β) (l : List α) (r : List β) (h : l.mapM f = some r) :
    ∀ y ∈ r, ∃ x ∈ l, f x = some y := by
  induction l generalizing r with
  | nil => simp at h; subst h; simp
  | cons a t ih =>
    simp only [List.mapM_cons] at h
    cases hf : f a with
    | none => simp [hf] at h
    | some b =>
      cases ht : t.mapM f with
      | none => simp [hf, ht] at h
      | some r' =>
        simp [hf, ht] at h
        subst h
        intro y hy
        rcases List.mem_cons.mp hy with rfl | hy
        · exact ⟨a, by simp, hf⟩
        · obtain ⟨x, hx, e⟩ := ih r' ht y hy
          exact ⟨x, by simp [hx], e⟩

end IsoVerif.Lemmas.C04
