/-
C11 helper lemmas — translation `x ↦ x + k` of the list functions of Model/Interval.lean.
One section per model file, so that further models can be appended.
-/
import IsoVerif.Gen.Prims
import IsoVerif.Model.Interval
import IsoVerif.Model.C11Symmetry

namespace IsoVerif.Lemmas.C11
open IsoVerif.Gen IsoVerif.Model IsoVerif.Model.C11

/-! ## generic list facts -/

theorem shiftL_nil (k : Int) : shiftL k [] = [] := rfl
theorem shiftL_cons (k : Int) (a : Iv) (l : List Iv) : shiftL k (a :: l) = shiftIv k a :: shiftL k l := rfl
theorem shiftL_append (k : Int) (l1 l2 : List Iv) : shiftL k (l1 ++ l2) = shiftL k l1 ++ shiftL k l2 := by
  simp [shiftL]
theorem shiftL_reverse (k : Int) (l : List Iv) : shiftL k l.reverse = (shiftL k l).reverse := by
  simp [shiftL]
theorem shiftL_length (k : Int) (l : List Iv) : (shiftL k l).length = l.length := by simp [shiftL]
theorem shiftL_head? (k : Int) (l : List Iv) : (shiftL k l).head? = l.head?.map (shiftIv k) := by
  simp [shiftL]
theorem shiftL_getLast? (k : Int) (l : List Iv) : (shiftL k l).getLast? = l.getLast?.map (shiftIv k) := by
  simp [shiftL]
theorem shiftL_getElem? (k : Int) (l : List Iv) (i : Nat) : (shiftL k l)[i]? = l[i]?.map (shiftIv k) := by
  simp [shiftL]
theorem shiftL_drop (k : Int) (l : List Iv) (n : Nat) : shiftL k (l.drop n) = (shiftL k l).drop n := by
  simp [shiftL]
theorem shiftL_take (k : Int) (l : List Iv) (n : Nat) : shiftL k (l.take n) = (shiftL k l).take n := by
  simp [shiftL]

theorem pyGet?_shiftL (k : Int) (l : List Iv) (i : Int) :
    pyGet? (shiftL k l) i = (pyGet? l i).map (shiftIv k) := by
  simp only [pyGet?, shiftL_length, shiftL_getElem?]
  split
  · rfl
  · split <;> rfl

theorem pySlice_shiftL (k : Int) (l : List Iv) (a b : Int) :
    pySlice (shiftL k l) a b = shiftL k (pySlice l a b) := by
  simp only [pySlice, shiftL_length, shiftL_take, shiftL_drop]

@[simp] theorem shiftIv_fst (k : Int) (a : Iv) : (shiftIv k a).1 = a.1 + k := rfl
@[simp] theorem shiftIv_snd (k : Int) (a : Iv) : (shiftIv k a).2 = a.2 + k := rfl

/-! ## Model/Interval.lean -/

theorem intervalsTotalLength_shift (k : Int) (l : List Iv) :
    intervalsTotalLength (shiftL k l) = intervalsTotalLength l := by
  induction l with
  | nil => rfl
  | cons a t ih =>
    simp only [shiftL_cons, intervalsTotalLength, ih, interval_len, shiftIv_fst, shiftIv_snd]; omega

theorem sumToLoop_shift (k p : Int) (l : List Iv) : sumToLoop (p + k) (shiftL k l) = sumToLoop p l := by
  induction l with
  | nil => rfl
  | cons a t ih =>
    simp only [shiftL_cons, sumToLoop, ih, shiftIv_fst, shiftIv_snd]
    grind

theorem sumFromLoop_shift (k p : Int) (l : List Iv) : sumFromLoop (p + k) (shiftL k l) = sumFromLoop p l := by
  induction l with
  | nil => rfl
  | cons a t ih =>
    simp only [shiftL_cons, sumFromLoop, ih, shiftIv_fst, shiftIv_snd]
    grind


theorem tailUnion_shift (k : Int) (inc : Bool) (l : List Iv) : tailUnion inc (shiftL k l) = tailUnion inc l := by
  induction l generalizing inc with
  | nil => rfl
  | cons a t ih => simp only [shiftL_cons, tailUnion, ih, shiftIv_fst, shiftIv_snd]; grind

theorem ovInter_shift (k : Int) (a b : Iv) : ovInter (shiftIv k a) (shiftIv k b) = ovInter a b := by
  simp only [ovInter, shiftIv_fst, shiftIv_snd]; omega

theorem ovUnion_shift (k : Int) (a b : Iv) (i1 i2 : Bool) :
    ovUnion (shiftIv k a) (shiftIv k b) i1 i2 = ovUnion a b i1 i2 := by
  simp only [ovUnion, shiftIv_fst, shiftIv_snd]; grind

theorem overlaps_shift (k : Int) (a b : Iv) : overlaps (shiftIv k a) (shiftIv k b) = overlaps a b := by
  simp only [overlaps, shiftIv]; grind
theorem left_of_shift (k : Int) (a b : Iv) : left_of (shiftIv k a) (shiftIv k b) = left_of a b := by
  simp only [left_of, shiftIv]; grind


theorem readCoverageSweep_shift (k : Int) (l1 l2 : List Iv) :
    readCoverageSweep (shiftL k l1) (shiftL k l2) = readCoverageSweep l1 l2 := by
  fun_induction readCoverageSweep l1 l2 with
  | case1 l2 => simp [shiftL_nil, readCoverageSweep]
  | case2 a as => simp [shiftL_nil, shiftL_cons, readCoverageSweep]
  | case3 a as b bs hov hlt ih =>
    have h' : b.2 + k < a.2 + k := by omega
    simp only [shiftL_cons] at ih ⊢
    rw [readCoverageSweep]
    simp only [overlaps_shift, hov, if_true, shiftIv_fst, shiftIv_snd, h', ih]; grind
  | case4 a as b bs hov hlt ih =>
    have h' : ¬ (b.2 + k < a.2 + k) := by omega
    simp only [shiftL_cons] at ih ⊢
    rw [readCoverageSweep]
    simp only [overlaps_shift, hov, if_true, if_false, shiftIv_fst, shiftIv_snd, h', ih]; grind
  | case5 a as b bs hov hlo ih =>
    simp only [shiftL_cons] at ih ⊢
    rw [readCoverageSweep]
    simp only [overlaps_shift, left_of_shift, hov, hlo, if_true, ih]; simp
  | case6 a as b bs hov hlo ih =>
    simp only [shiftL_cons] at ih ⊢
    rw [readCoverageSweep]
    simp only [overlaps_shift, left_of_shift, hov, hlo, ih]; simp

theorem jaccardLoop_shift (k : Int) (l1 : List Iv) (i1 : Bool) (l2 : List Iv) (i2 : Bool) :
    jaccardLoop (shiftL k l1) i1 (shiftL k l2) i2 = jaccardLoop l1 i1 l2 i2 := by
  fun_induction jaccardLoop l1 i1 l2 i2 with
  | case1 i1 l2 i2 => simp [shiftL_nil, jaccardLoop, tailUnion_shift]
  | case2 a as i1 i2 =>
    rw [shiftL_nil, shiftL_cons, jaccardLoop, ← shiftL_cons, tailUnion_shift]
  | case3 a as i1 b bs i2 hov hboth =>
    rw [shiftL_cons, shiftL_cons, jaccardLoop]
    simp only [overlaps_shift, hov, hboth, if_true]
  | case4 a as i1 b bs i2 hov hboth hlt ih =>
    have h' : b.2 + k < a.2 + k := by omega
    simp only [shiftL_cons] at ih ⊢
    rw [jaccardLoop]
    simp only [overlaps_shift, hov, hboth, if_true, shiftIv_snd, h', ovInter_shift, ovUnion_shift, ih]; simp
  | case5 a as i1 b bs i2 hov hboth hlt ih =>
    have h' : ¬ (b.2 + k < a.2 + k) := by omega
    simp only [shiftL_cons] at ih ⊢
    rw [jaccardLoop]
    simp only [overlaps_shift, hov, hboth, if_true, shiftIv_snd, h', ovInter_shift, ovUnion_shift, ih]; simp
  | case6 a as i1 b bs i2 hov hlo ih =>
    have : b.2 + k - (b.1 + k) + 1 = b.2 - b.1 + 1 := by omega
    simp only [shiftL_cons] at ih ⊢
    rw [jaccardLoop]
    simp only [overlaps_shift, left_of_shift, hov, hlo, if_true, shiftIv_fst, shiftIv_snd, ih, this]; simp
  | case7 a as i1 b bs i2 hov hlo ih =>
    have : a.2 + k - (a.1 + k) + 1 = a.2 - a.1 + 1 := by omega
    simp only [shiftL_cons] at ih ⊢
    rw [jaccardLoop]
    simp only [overlaps_shift, left_of_shift, hov, hlo, shiftIv_fst, shiftIv_snd, ih, this]; simp

theorem bumpLast_shift (k : Int) (acc : List Iv) (e : Int) :
    bumpLast (shiftL k acc) (e + k) = (bumpLast acc e).map (shiftL k) := by
  cases acc with
  | nil => rfl
  | cons a t =>
    simp only [shiftL_cons, bumpLast, Option.map_some, shiftIv]
    congr 2; ext <;> simp <;> omega

theorem tailAppend_shift (k : Int) (inc : Bool) (acc l : List Iv) :
    tailAppend inc (shiftL k acc) (shiftL k l) = shiftL k (tailAppend inc acc l) := by
  induction l generalizing inc acc with
  | nil => rfl
  | cons a t ih =>
    simp only [shiftL_cons, tailAppend]
    cases inc <;> simp [← shiftL_cons, ih]

theorem ovAcc_shift (k : Int) (a b : Iv) (i1 i2 : Bool) (acc : List Iv) :
    ovAcc (shiftIv k a) (shiftIv k b) i1 i2 (shiftL k acc) = (ovAcc a b i1 i2 acc).map (shiftL k) := by
  simp only [ovAcc, shiftIv_fst, shiftIv_snd]
  split
  · simp only [Option.map_some, shiftL_cons, shiftIv]
    congr 2; ext <;> simp <;> omega
  · split <;> exact bumpLast_shift k acc _

theorem mergeLoop_shift (k : Int) (l1 : List Iv) (i1 : Bool) (l2 : List Iv) (i2 : Bool) (acc : List Iv) :
    mergeLoop (shiftL k l1) i1 (shiftL k l2) i2 (shiftL k acc) = (mergeLoop l1 i1 l2 i2 acc).map (shiftL k) := by
  fun_induction mergeLoop l1 i1 l2 i2 acc with
  | case1 i1 l2 i2 acc => simp [shiftL_nil, mergeLoop, tailAppend_shift]
  | case2 a as i1 i2 acc =>
    simp only [shiftL_nil, shiftL_cons, mergeLoop, Option.map_some]
    rw [← shiftL_cons, tailAppend_shift]
  | case3 a as i1 b bs i2 acc hov hboth =>
    simp only [shiftL_cons, mergeLoop, overlaps_shift, hov, hboth]; simp
  | case4 a as i1 b bs i2 acc hov hboth hacc =>
    simp only [shiftL_cons, mergeLoop, overlaps_shift, hov, hboth, ovAcc_shift, hacc]; simp
  | case5 a as i1 b bs i2 acc hov hboth acc' hacc hlt ih =>
    have : shiftL k (a :: as) = shiftIv k a :: shiftL k as := rfl
    simp only [shiftL_cons, mergeLoop, overlaps_shift, hov, hboth, ovAcc_shift, hacc, shiftIv_snd] at ih ⊢
    simp only [Option.map_some]
    have h' : b.2 + k < a.2 + k := by omega
    simp only [h', if_true]
    exact ih
  | case6 a as i1 b bs i2 acc hov hboth acc' hacc hlt ih =>
    simp only [shiftL_cons, mergeLoop, overlaps_shift, hov, hboth, ovAcc_shift, hacc, shiftIv_snd] at ih ⊢
    simp only [Option.map_some]
    have h' : ¬ (b.2 + k < a.2 + k) := by omega
    simp only [h', if_false]
    exact ih
  | case7 a as i1 b bs i2 acc hov hlo ih =>
    simp only [shiftL_cons, mergeLoop, overlaps_shift, left_of_shift, hov, hlo] at ih ⊢
    cases i2 <;> simp_all [shiftL_cons]
  | case8 a as i1 b bs i2 acc hov hlo ih =>
    simp only [shiftL_cons, mergeLoop, overlaps_shift, left_of_shift, hov, hlo] at ih ⊢
    cases i1 <;> simp_all [shiftL_cons]

theorem extraExonLoop_shift (k : Int) (reg : Iv) (l : List Iv) :
    extraExonLoop (shiftIv k reg) (shiftL k l) = extraExonLoop reg l := by
  induction l with
  | nil => rfl
  | cons e es ih =>
    simp only [shiftL_cons, extraExonLoop, ih, shiftIv_fst, shiftIv_snd]
    ext <;> simp <;> grind

theorem junctionsFromBlocks_shift (k : Int) (l : List Iv) :
    junctionsFromBlocks (shiftL k l) = shiftL k (junctionsFromBlocks l) := by
  fun_induction junctionsFromBlocks l with
  | case1 => rfl
  | case2 a => rfl
  | case3 a b t h ih =>
    have h' : a.2 + k + 1 < b.1 + k := by omega
    simp only [shiftL_cons, junctionsFromBlocks, shiftIv_fst, shiftIv_snd, h', if_true] at ih ⊢
    rw [ih]; simp only [shiftIv]; congr 1; ext <;> simp <;> omega
  | case4 a b t h ih =>
    have h' : ¬ (a.2 + k + 1 < b.1 + k) := by omega
    simp only [shiftL_cons, junctionsFromBlocks, shiftIv_fst, shiftIv_snd, h', if_false] at ih ⊢
    exact ih

/-- `junctions_from_blocks` never reads the start of the first block -/
theorem junctionsFromBlocks_first (x y e : Int) (t : List Iv) :
    junctionsFromBlocks ((x, e) :: t) = junctionsFromBlocks ((y, e) :: t) := by
  cases t with
  | nil => rfl
  | cons b t => simp [junctionsFromBlocks]

/-- … nor the end of the last block -/
theorem junctionsFromBlocks_last (l : List Iv) (s x y : Int) :
    junctionsFromBlocks (l ++ [(s, x)]) = junctionsFromBlocks (l ++ [(s, y)]) := by
  induction l with
  | nil => rfl
  | cons a t ih =>
    cases t with
    | nil => simp [junctionsFromBlocks]
    | cons b t' =>
      simp only [List.cons_append, junctionsFromBlocks] at ih ⊢
      split <;> simp [ih]

theorem binSearchLoop_shift (k p : Int) (l : List Iv) (fuel ind step : Nat) :
    binSearchLoop (shiftL k l) (p + k) fuel ind step = binSearchLoop l p fuel ind step := by
  induction fuel generalizing ind step with
  | zero => rfl
  | succ f ih =>
    simp only [binSearchLoop, shiftL_getElem?]
    cases h1 : l[ind]? <;> cases h2 : l[ind + 1]? <;> simp only [Option.map_none, Option.map_some]
    rename_i a b
    simp only [shiftIv_fst, ih]
    grind

theorem binSearchRevLoop_shift (k p : Int) (l : List Iv) (fuel ind step : Nat) :
    binSearchRevLoop (shiftL k l) (p + k) fuel ind step = binSearchRevLoop l p fuel ind step := by
  induction fuel generalizing ind step with
  | zero => rfl
  | succ f ih =>
    simp only [binSearchRevLoop, shiftL_getElem?, pyGet?_shiftL]
    cases h1 : pyGet? l ((ind : Int) - 1) <;> cases h2 : l[ind]? <;> simp only [Option.map_none, Option.map_some]
    rename_i a b
    simp only [shiftIv_snd, ih]
    grind

end IsoVerif.Lemmas.C11
