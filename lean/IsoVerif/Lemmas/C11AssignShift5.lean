/-
C11 helper lemmas — translation of the assignment model, part 5: the consistent path.
-/
import IsoVerif.Lemmas.C11AssignShift4

namespace IsoVerif.Lemmas.C11.AssignShift
open IsoVerif.Gen IsoVerif.Model IsoVerif.Model.C01 IsoVerif.Model.C11

def shPairM (k : Int) (Im : IsoInfo × IsoMatch) : IsoInfo × IsoMatch := (shiftIsoInfo k Im.1, shiftMatch k Im.2)
def shPairE (k : Int) (Ie : IsoInfo × List Event) : IsoInfo × List Event := (shiftIsoInfo k Ie.1, shiftEvents k Ie.2)

theorem isEmpty_map' {α β} (f : α → β) (l : List α) : (l.map f).isEmpty = l.isEmpty := by cases l <;> rfl

theorem mapOpt_pair_fst {α β} (f : α → Option β) (l : List α) (r : List (α × β))
    (h : mapOpt (fun x => (f x).map (fun m => (x, m))) l = some r) : r.map (·.1) = l := by
  induction l generalizing r with
  | nil => simp only [mapOpt, Option.some.injEq] at h; subst h; rfl
  | cons x xs ih =>
    simp only [mapOpt] at h
    cases hf : f x with
    | none => simp [hf] at h
    | some b =>
      simp only [hf, Option.map_some] at h
      cases hr : mapOpt (fun x => (f x).map (fun m => (x, m))) xs with
      | none => simp [hr] at h
      | some r' =>
        simp only [hr, Option.some.injEq] at h
        subst h
        simp only [List.map_cons, ih r' hr]

/-! ## events without positions -/

theorem noPos_nil : NoPos [] := fun _ h => by cases h
theorem noPos_single (e : Event) (h : isPosEvent e.ty = false) : NoPos [e] := by
  intro x hx; simp only [List.mem_singleton] at hx; subst hx; exact h
theorem noPos_append {a b : List Event} (ha : NoPos a) (hb : NoPos b) : NoPos (a ++ b) := by
  intro e he
  rcases List.mem_append.mp he with h | h
  · exact ha e h
  · exact hb e h

theorem endEvents_noPos (p : Params) (terminal : Bool) (extra : Int) (a b c d : MatchEventSubtype)
    (ha : isPosEvent a = false) (hb : isPosEvent b = false) (hc : isPosEvent c = false) (hd : isPosEvent d = false) :
    NoPos (endEvents p terminal extra a b c d) := by
  unfold endEvents
  split
  · apply noPos_append
    · split
      · apply noPos_single; simp only; split <;> assumption
      · exact noPos_nil
    · split
      · exact noPos_single _ hc
      · split
        · exact noPos_single _ hd
        · exact noPos_nil
  · split
    · exact noPos_single _ hd
    · exact noPos_nil

theorem elongationEvents_noPos (g : Gene) (p : Params) (rp : ReadProf) (I : IsoInfo) (el : List Event)
    (h : elongationEvents g p rp I = some el) : NoPos el := by
  unfold elongationEvents at h
  simp only at h
  split at h
  · simp at h
  · split at h
    · simp at h
    · split at h
      · simp at h
      · split at h
        · simp at h
        · split at h
          · simp at h; subst h
            apply noPos_append
            · split
              · exact endEvents_noPos _ _ _ _ _ _ _ rfl rfl rfl rfl
              · exact noPos_nil
            · split
              · exact endEvents_noPos _ _ _ _ _ _ _ rfl rfl rfl rfl
              · exact noPos_nil
          · simp at h

theorem spliceMatch_noPos (rp : ReadProf) (I : IsoInfo) (m : IsoMatch) (h : spliceMatch rp I = some m) : NoPos m.events := by
  unfold spliceMatch categorizeSplice at h
  split at h
  · simp only [Option.map_some, Option.some.injEq] at h; subst h; exact noPos_single _ rfl
  · split at h
    · simp at h
    · simp only [Option.map_some, Option.some.injEq] at h; subst h; exact noPos_single _ rfl
    · unfold detectIsmSubtype at h
      cases hr : regionOf I.introns with
      | none => simp [hr] at h
      | some r =>
        simp only [hr, Option.map_some, Option.some.injEq] at h
        subst h
        apply noPos_single
        simp only [mkMatchOne]
        split
        · rfl
        · split
          · rfl
          · split <;> rfl

theorem unsplicedMatch_noPos (I : IsoInfo) (m : IsoMatch) (h : unsplicedMatch I = some m) : NoPos m.events := by
  unfold unsplicedMatch at h
  simp only at h
  cases hc : monoExonClassification
      (if I.exons.length = 1 then [({ ty := MatchEventSubtype.mono_exon_match } : Event)]
       else [{ ty := MatchEventSubtype.mono_exonic }]) with
  | none => simp [hc] at h
  | some c =>
    simp only [hc, Option.map_some, Option.some.injEq] at h
    subst h
    intro e he
    simp only [mkMatchList] at he
    have he' := (List.mem_filter.mp he).1
    split at he'
    · simp only [List.mem_singleton] at he'; subst he'; rfl
    · simp only [List.mem_singleton] at he'; subst he'; rfl

/-! ## `check_read_ends`, `verify_read_ends_for_assignment` -/

theorem checkReadEnds_shift (k : Int) (g : Gene) (p : Params) (rp : ReadProf) (ms : List (IsoInfo × IsoMatch))
    (ty : ReadAssignmentType) :
    checkReadEnds (shiftGene k g) p (shiftReadProf k rp) (ms.map (shPairM k)) ty
      = (checkReadEnds g p rp ms ty).map (fun r => (r.1.map (shPairM k), r.2)) := by
  induction ms generalizing ty with
  | nil => rfl
  | cons Im ms ih =>
    obtain ⟨I, m⟩ := Im
    simp only [List.map_cons, shPairM, checkReadEnds, elongationEvents_shift]
    cases hel : elongationEvents g p rp I with
    | none => rfl
    | some el =>
      have key : List.foldl addSub (shiftMatch k m).events el = shiftEvents k (List.foldl addSub m.events el) := by
        have := foldl_addSub_shift k el m.events
        rwa [shiftEvents_of_noPos k el (elongationEvents_noPos g p rp I el hel)] at this
      simp only [key, ih]
      cases checkReadEnds g p rp ms
        (if (el.any fun e => e.ty.is_major_elongation) = true then
          if (!ty.is_inconsistent) = true then ReadAssignmentType.inconsistent_non_intronic else ty
        else
          if (el.any fun e => e.ty.is_minor_elongation) = true then
            if ty = ReadAssignmentType.unique then ReadAssignmentType.unique_minor_difference else ty
          else ty) with
      | none => rfl
      | some r => rfl

theorem checkReadEnds_fst (g : Gene) (p : Params) (rp : ReadProf) (ms : List (IsoInfo × IsoMatch)) (ty : ReadAssignmentType)
    (r : List (IsoInfo × IsoMatch)) (t : ReadAssignmentType) (h : checkReadEnds g p rp ms ty = some (r, t)) :
    r.map (·.1) = ms.map (·.1) := by
  induction ms generalizing ty r t with
  | nil => simp only [checkReadEnds, Option.some.injEq, Prod.mk.injEq] at h; rw [← h.1]
  | cons Im ms ih =>
    obtain ⟨I, m⟩ := Im
    simp only [checkReadEnds] at h
    split at h
    · cases h
    · split at h
      · cases h
      · rename_i r' t' hr
        simp only [Option.some.injEq, Prod.mk.injEq] at h
        rw [← h.1]
        simp only [List.map_cons, ih _ r' t' hr]

theorem classifyAssignment_shift (k : Int) (l : List (List Event)) :
    classifyAssignment (l.map (shiftEvents k)) = classifyAssignment l := by
  have e : (l.map (shiftEvents k)).flatMap (fun evs => evs.map (·.ty)) = l.flatMap (fun evs => evs.map (·.ty)) := by
    induction l with
    | nil => rfl
    | cons x xs ih =>
      simp only [List.map_cons, List.flatMap_cons, ih]
      congr 1
      simp only [shiftEvents, List.map_map]
      apply List.map_congr_left
      intro e _
      simp only [Function.comp, shiftEvent_ty]
  simp only [classifyAssignment, List.length_map, e]

theorem verifyEndsForAssignment_shift (k : Int) (p : Params) (rp : ReadProf) (ms : List (IsoInfo × IsoMatch))
    (h : ∀ Im ∈ ms, EndsSafe k rp Im.1) :
    verifyEndsForAssignment p (shiftReadProf k rp) (ms.map (shPairM k))
      = (verifyEndsForAssignment p rp ms).map (fun r => (r.1.map (shPairM k), r.2)) := by
  unfold verifyEndsForAssignment
  have e : mapOpt (fun (Im : IsoInfo × IsoMatch) =>
        (verifyReadEnds p (shiftReadProf k rp) Im.1 Im.2.events).map (fun e => (Im.1, { Im.2 with events := e })))
        (ms.map (shPairM k))
      = (mapOpt (fun (Im : IsoInfo × IsoMatch) =>
        (verifyReadEnds p rp Im.1 Im.2.events).map (fun e => (Im.1, { Im.2 with events := e }))) ms).map
          (List.map (shPairM k)) := by
    rw [mapOpt_map, ← mapOpt_comp_map]
    apply mapOpt_congr
    intro Im hIm
    simp only [shPairM, shiftMatch]
    rw [verifyReadEnds_shift k p rp Im.1 Im.2.events (h Im hIm)]
    cases verifyReadEnds p rp Im.1 Im.2.events <;> rfl
  rw [e]
  cases mapOpt (fun (Im : IsoInfo × IsoMatch) =>
        (verifyReadEnds p rp Im.1 Im.2.events).map (fun e => (Im.1, { Im.2 with events := e }))) ms with
  | none => rfl
  | some ms' =>
    simp only [Option.map_some]
    have e2 : (ms'.map (shPairM k)).map (fun x => x.2.events) = (ms'.map (fun x => x.2.events)).map (shiftEvents k) := by
      simp only [List.map_map]
      apply List.map_congr_left
      intro x _
      rfl
    rw [e2, classifyAssignment_shift]

/-! ## isoform selection of the consistent path -/

theorem anyOpt_map (sh : IsoInfo → IsoInfo) (f f' : IsoInfo → Option Bool) (hf : ∀ I, f' (sh I) = f I) (l : List IsoInfo) :
    selectSpliced.anyOpt f' (l.map sh) = selectSpliced.anyOpt f l := by
  induction l with
  | nil => rfl
  | cons x xs ih => simp only [List.map_cons, selectSpliced.anyOpt, hf, ih]

def splicedStage1 (rp : ReadProf) (cons : List IsoInfo) : Option (List IsoInfo) :=
  if cons.length > 1 then
    (findMatchingSplit rp cons).map (fun em => if em.length ≠ 0 then em else cons)
  else some cons

def splicedStage2 (p : Params) (rp : ReadProf) (matched : List IsoInfo) : Option (List IsoInfo) :=
  if matched.length > 1 then
    match p.resolve_ambiguous with
    | .all => resolveByScore (jaccardScore p rp) (some topScoredFactor) matched
    | .monoexon_and_fsm =>
      match selectSpliced.anyOpt (isFsm rp) matched with
      | none => none
      | some true => resolveByScore (jaccardScore p rp) (some topScoredFactor) matched
      | some false => some matched
    | _ => some matched
  else some matched

theorem selectSpliced_eq (p : Params) (rp : ReadProf) (cons : List IsoInfo) :
    selectSpliced p rp cons = (splicedStage1 rp cons).bind (splicedStage2 p rp) := by
  unfold selectSpliced splicedStage1
  simp only
  cases (if cons.length > 1 then
      (findMatchingSplit rp cons).map (fun em => if em.length ≠ 0 then em else cons) else some cons) with
  | none => rfl
  | some m => rfl

theorem splicedStage1_shift (k : Int) (rp : ReadProf) (cons : List IsoInfo) :
    splicedStage1 (shiftReadProf k rp) (cons.map (shiftIsoInfo k))
      = (splicedStage1 rp cons).map (List.map (shiftIsoInfo k)) := by
  unfold splicedStage1
  simp only [List.length_map, findMatchingSplit_shift]
  split
  · cases findMatchingSplit rp cons with
    | none => rfl
    | some em =>
      simp only [Option.map_some, List.length_map]
      split <;> rfl
  · rfl

theorem splicedStage2_shift (k : Int) (p : Params) (rp : ReadProf) (matched : List IsoInfo) :
    splicedStage2 p (shiftReadProf k rp) (matched.map (shiftIsoInfo k))
      = (splicedStage2 p rp matched).map (List.map (shiftIsoInfo k)) := by
  unfold splicedStage2
  simp only [List.length_map, resolveByScore_jaccard_shift,
    anyOpt_map (shiftIsoInfo k) (isFsm rp) (isFsm (shiftReadProf k rp)) (isFsm_shift k rp)]
  split
  · cases p.resolve_ambiguous with
    | all => rfl
    | monoexon_and_fsm =>
      simp only
      cases selectSpliced.anyOpt (isFsm rp) matched with
      | none => rfl
      | some b => cases b <;> rfl
    | none => rfl
    | monoexon_only => rfl
  · rfl

theorem selectSpliced_shift (k : Int) (p : Params) (rp : ReadProf) (cons : List IsoInfo) :
    selectSpliced p (shiftReadProf k rp) (cons.map (shiftIsoInfo k))
      = (selectSpliced p rp cons).map (List.map (shiftIsoInfo k)) := by
  rw [selectSpliced_eq, selectSpliced_eq, splicedStage1_shift]
  cases splicedStage1 rp cons with
  | none => rfl
  | some m => simp only [Option.map_some, Option.bind_some, splicedStage2_shift]

theorem selectUnspliced_shift (k : Int) (p : Params) (rp : ReadProf) (cons : List IsoInfo) :
    selectUnspliced p (shiftReadProf k rp) (cons.map (shiftIsoInfo k))
      = (selectUnspliced p rp cons).map (List.map (shiftIsoInfo k)) := by
  unfold selectUnspliced
  simp only [List.length_map, resolveByScore_jaccard_shift]
  split <;> rfl

theorem consistentIsoforms_shift (k : Int) (g : Gene) (p : Params) (rp : ReadProf) :
    consistentIsoforms (shiftGene k g) p (shiftReadProf k rp)
      = (consistentIsoforms g p rp).map (Option.map (List.map (shiftIsoInfo k))) := by
  unfold consistentIsoforms
  have hg : (shiftGene k g).isos = g.isos.map (shiftIsoInfo k) := rfl
  simp only [hg, findContaining_shift, isEmpty_map', findOverlapping_shift]
  split
  · rfl
  · cases findOverlapping rp (findContaining p rp g.isos) with
    | none => rfl
    | some ov =>
      simp only [Option.map_some, isEmpty_map']
      split
      · rfl
      · rw [findMatchingIntron_shift]
        cases findMatchingIntron rp ov <;> rfl

/-! ## `match_consistent` -/

def consistentTail (g : Gene) (p : Params) (rp : ReadProf) (spliced : Bool) (matched : List IsoInfo) :
    Option (Option Assignment) :=
  if matched.isEmpty then some none
  else
    match mapOpt (fun I => ((if spliced then spliceMatch rp I else unsplicedMatch I)).map (fun m => (I, m))) matched with
    | none => none
    | some ms =>
      match checkReadEnds g p rp ms (if matched.length = 1 then ReadAssignmentType.unique else ReadAssignmentType.ambiguous) with
      | none => none
      | some (ms1, _) =>
        match verifyEndsForAssignment p rp ms1 with
        | none => none
        | some (ms2, ty2) =>
          if ty2.is_inconsistent then some none
          else some (some { ty := ty2, isoMatches := ms2.map (·.2) })

theorem matchConsistent_eq (g : Gene) (p : Params) (rp : ReadProf) :
    matchConsistent g p rp =
      match consistentIsoforms g p rp with
      | none => none
      | some none => some none
      | some (some consistent) =>
        (if !rp.intron.read.isEmpty then selectSpliced p rp consistent else selectUnspliced p rp consistent).bind
          (consistentTail g p rp (!rp.intron.read.isEmpty)) := by
  unfold matchConsistent consistentTail
  cases consistentIsoforms g p rp with
  | none => rfl
  | some oc =>
    cases oc with
    | none => rfl
    | some consistent =>
      simp only
      cases (if (!rp.intron.read.isEmpty) = true then selectSpliced p rp consistent else selectUnspliced p rp consistent) with
      | none => rfl
      | some matched => rfl

theorem consistentTail_shift (k : Int) (g : Gene) (p : Params) (rp : ReadProf) (spliced : Bool) (matched : List IsoInfo)
    (h : ∀ I ∈ matched, EndsSafe k rp I) :
    consistentTail (shiftGene k g) p (shiftReadProf k rp) spliced (matched.map (shiftIsoInfo k))
      = (consistentTail g p rp spliced matched).map (Option.map (shiftAssignment k)) := by
  unfold consistentTail
  simp only [isEmpty_map', List.length_map]
  split
  · rfl
  · have e : mapOpt (fun I => ((if spliced then spliceMatch (shiftReadProf k rp) I else unsplicedMatch I)).map (fun m => (I, m)))
          (matched.map (shiftIsoInfo k))
        = (mapOpt (fun I => ((if spliced then spliceMatch rp I else unsplicedMatch I)).map (fun m => (I, m))) matched).map
            (List.map (shPairM k)) := by
      rw [mapOpt_map, ← mapOpt_comp_map]
      apply mapOpt_congr
      intro I _
      cases spliced with
      | true =>
        simp only [if_true, spliceMatch_shift]
        cases hm : spliceMatch rp I with
        | none => rfl
        | some m =>
          simp only [Option.map_some, shPairM, shiftMatch, shiftEvents_of_noPos k _ (spliceMatch_noPos rp I m hm)]
      | false =>
        simp only [Bool.false_eq_true, if_false, unsplicedMatch_shift]
        cases hm : unsplicedMatch I with
        | none => rfl
        | some m =>
          simp only [Option.map_some, shPairM, shiftMatch, shiftEvents_of_noPos k _ (unsplicedMatch_noPos I m hm)]
    rw [e]
    cases hms : mapOpt (fun I => ((if spliced then spliceMatch rp I else unsplicedMatch I)).map (fun m => (I, m))) matched with
    | none => rfl
    | some ms =>
      simp only [Option.map_some, checkReadEnds_shift]
      cases hcr : checkReadEnds g p rp ms
          (if matched.length = 1 then ReadAssignmentType.unique else ReadAssignmentType.ambiguous) with
      | none => rfl
      | some r1 =>
        obtain ⟨ms1, t1⟩ := r1
        simp only [Option.map_some]
        have hfst := checkReadEnds_fst g p rp ms _ ms1 t1 hcr
        have hms_fst : ms.map (·.1) = matched := mapOpt_pair_fst _ matched ms hms
        have hsafe : ∀ Im ∈ ms1, EndsSafe k rp Im.1 := by
          intro Im hIm
          apply h
          rw [← hms_fst, ← hfst]
          exact List.mem_map.mpr ⟨Im, hIm, rfl⟩
        rw [verifyEndsForAssignment_shift k p rp ms1 hsafe]
        cases verifyEndsForAssignment p rp ms1 with
        | none => rfl
        | some r2 =>
          obtain ⟨ms2, ty2⟩ := r2
          simp only [Option.map_some]
          split
          · rfl
          · simp only [Option.map_some, shiftAssignment, List.map_map]
            rfl

theorem matchConsistent_shift (k : Int) (g : Gene) (p : Params) (rp : ReadProf) (h : ∀ I ∈ g.isos, EndsSafe k rp I) :
    matchConsistent (shiftGene k g) p (shiftReadProf k rp)
      = (matchConsistent g p rp).map (Option.map (shiftAssignment k)) := by
  rw [matchConsistent_eq, matchConsistent_eq, consistentIsoforms_shift]
  cases hc : consistentIsoforms g p rp with
  | none => rfl
  | some oc =>
    cases oc with
    | none => rfl
    | some consistent =>
      simp only [Option.map_some]
      have hr : (shiftReadProf k rp).intron = rp.intron := rfl
      rw [hr, selectSpliced_shift, selectUnspliced_shift]
      have hsub : ∀ matched, (if (!rp.intron.read.isEmpty) = true then selectSpliced p rp consistent
          else selectUnspliced p rp consistent) = some matched → ∀ I ∈ matched, I ∈ g.isos := by
        intro matched hm I hI
        have hcons := IsoVerif.Lemmas.C01.consistentIsoforms_mem g p rp consistent hc
        split at hm
        · exact (hcons I (IsoVerif.Lemmas.C01.selectSpliced_sub p rp consistent matched hm I hI)).1
        · exact (hcons I (IsoVerif.Lemmas.C01.selectUnspliced_sub p rp consistent matched hm I hI)).1
      cases hsel : (if (!rp.intron.read.isEmpty) = true then selectSpliced p rp consistent
          else selectUnspliced p rp consistent) with
      | none =>
        split at hsel
        · rename_i hb; simp only [hb, if_true, hsel]; rfl
        · rename_i hb; simp only [hb, if_false, hsel]; rfl
      | some matched =>
        have hs := hsub matched hsel
        split at hsel
        · rename_i hb
          simp only [hb, if_true, hsel, Option.map_some, Option.bind_some]
          exact consistentTail_shift k g p rp _ matched (fun I hI => h I (hs I hI))
        · rename_i hb
          simp only [hb, if_false, hsel, Option.map_some, Option.bind_some]
          exact consistentTail_shift k g p rp _ matched (fun I hI => h I (hs I hI))

end IsoVerif.Lemmas.C11.AssignShift
