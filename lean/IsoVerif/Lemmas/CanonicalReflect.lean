/-
Helper lemmas for Props/C18Reflect.lean: reverse complement of a (mixed-case) reference sequence, the splice-site pair
of a mirrored intron, and the windows of a slice of a slice (Props/C18Downstream.lean).  Core Lean only.
-/
import IsoVerif.Lemmas.Canonical

namespace IsoVerif.Lemmas.C18
open IsoVerif.Gen IsoVerif.Model IsoVerif.Model.C18

/-! ### complement of a base, in either case -/

/-- complement of a reference base; soft-masked (lower-case) bases stay lower case, everything else (`N`, `n`, …) is kept -/
def compl (c : Char) : Char :=
  if c = 'A' then 'T' else if c = 'T' then 'A' else if c = 'C' then 'G' else if c = 'G' then 'C'
  else if c = 'a' then 't' else if c = 't' then 'a' else if c = 'c' then 'g' else if c = 'g' then 'c' else c

/-- complement of an upper-case base (what the tables are written in) -/
def complU (c : Char) : Char :=
  if c = 'A' then 'T' else if c = 'T' then 'A' else if c = 'C' then 'G' else if c = 'G' then 'C' else c

/-- reverse complement of a reference sequence -/
def rcSeq (s : Seq) : Seq := s.reverse.map compl

/-- the splice-site pair of the same intron read on the reverse-complemented chromosome: sides swapped, each reversed and
    complemented -/
def mirrorSite (p : Site) : Site := (p.2.reverse.map complU, p.1.reverse.map complU)

theorem complU_involutive (c : Char) : complU (complU c) = c := by
  unfold complU
  by_cases h1 : c = 'A' <;> by_cases h2 : c = 'T' <;> by_cases h3 : c = 'C' <;> by_cases h4 : c = 'G' <;> simp_all

theorem mirrorSite_involutive (p : Site) : mirrorSite (mirrorSite p) = p := by
  have : (complU ∘ complU) = id := by funext c; exact complU_involutive c
  simp [mirrorSite, List.map_reverse, this]

/-- `c.upper() == X` for an upper-case letter `X` whose lower-case form is `x`: exactly `X` and `x`
    (the script of C16 `is_a_flag_iff`) -/
local macro "to_upper_iff" : tactic => `(tactic| (
  constructor
  · intro h'
    unfold Char.toUpper at h'
    split at h'
    · rename_i hl
      right
      apply Char.ext
      have h2 := congrArg (fun y => y.val.toNat) h'
      obtain ⟨l1, l2⟩ := hl
      rw [UInt32.le_iff_toNat_le] at l1 l2
      apply UInt32.toNat_inj.1
      simp [UInt32.toNat_add] at h2 l1 l2 ⊢
      omega
    · left; exact h'
  · intro h
    rcases h with h | h <;> subst h <;> decide))

theorem toUpper_A (c : Char) : c.toUpper = 'A' ↔ c = 'A' ∨ c = 'a' := by to_upper_iff
theorem toUpper_C (c : Char) : c.toUpper = 'C' ↔ c = 'C' ∨ c = 'c' := by to_upper_iff
theorem toUpper_G (c : Char) : c.toUpper = 'G' ↔ c = 'G' ∨ c = 'g' := by to_upper_iff
theorem toUpper_T (c : Char) : c.toUpper = 'T' ↔ c = 'T' ∨ c = 't' := by to_upper_iff

/-- case folding commutes with complementing: `compl(c).upper() = complU(c.upper())` for EVERY character -/
theorem toUpper_compl (c : Char) : (compl c).toUpper = complU c.toUpper := by
  by_cases h1 : c = 'A'; · subst h1; decide
  by_cases h2 : c = 'T'; · subst h2; decide
  by_cases h3 : c = 'C'; · subst h3; decide
  by_cases h4 : c = 'G'; · subst h4; decide
  by_cases h5 : c = 'a'; · subst h5; decide
  by_cases h6 : c = 't'; · subst h6; decide
  by_cases h7 : c = 'c'; · subst h7; decide
  by_cases h8 : c = 'g'; · subst h8; decide
  have e1 : compl c = c := by simp [compl, h1, h2, h3, h4, h5, h6, h7, h8]
  have nA : c.toUpper ≠ 'A' := fun h => by rcases (toUpper_A c).mp h with h | h <;> contradiction
  have nT : c.toUpper ≠ 'T' := fun h => by rcases (toUpper_T c).mp h with h | h <;> contradiction
  have nC : c.toUpper ≠ 'C' := fun h => by rcases (toUpper_C c).mp h with h | h <;> contradiction
  have nG : c.toUpper ≠ 'G' := fun h => by rcases (toUpper_G c).mp h with h | h <;> contradiction
  rw [e1]
  simp [complU, nA, nT, nC, nG]

/-! ### windows of a reversed list, of a slice of a slice -/

theorem window_reverse' {α} (l : List α) (i m : Nat) (h : i + m ≤ l.length) :
    (l.reverse.drop i).take m = ((l.drop (l.length - i - m)).take m).reverse := by
  rw [List.drop_reverse, List.take_reverse]
  congr 1
  simp only [List.length_take]
  have : min (l.length - i) l.length = l.length - i := by omega
  rw [this, List.drop_take]
  congr 1; omega

/-- a window of `(l.drop k).take m` that lies inside the first `m` positions is a window of `l` -/
theorem take_drop_window {α} (l : List α) (k m a n : Nat) (h : a + n ≤ m) :
    (((l.drop k).take m).drop a).take n = (l.drop (k + a)).take n := by
  rw [List.drop_take, List.take_take, List.drop_drop]
  congr 1
  omega

/-- the two dinucleotides of an intron inside a sequence read at `ref_region_start = 1` -/
theorem siteRaw_one (s : Seq) (it : Iv) (h1 : 1 ≤ it.1) (h2 : 2 ≤ it.2) :
    siteRaw s 1 it = ((s.drop (it.1 - 1).toNat).take 2, (s.drop (it.2 - 2).toNat).take 2) := by
  simp only [siteRaw]
  have e2 : it.2 - 1 + 1 = (it.2 - 1 - 1) + 2 := by omega
  rw [e2, pySlice_two _ _ (by omega), pySlice_two _ _ (by omega)]
  have : (it.2 - 1 - 1).toNat = (it.2 - 2).toNat := by omega
  rw [this]

/-- **mirror_site**: the case-folded splice-site pair of the mirrored intron on the reverse-complemented chromosome is the
    mirror image (sides swapped, reversed, complemented) of the case-folded pair of the intron -/
theorem mirror_site (chr : Seq) (it : Iv) (h1 : 1 ≤ it.1) (h1' : it.1 + 1 ≤ chr.length) (h2 : 2 ≤ it.2)
    (h2' : it.2 ≤ chr.length) :
    upperSite (siteRaw (rcSeq chr) 1 ((chr.length : Int) + 1 - it.2, (chr.length : Int) + 1 - it.1)) =
      mirrorSite (upperSite (siteRaw chr 1 it)) := by
  rw [siteRaw_one chr it h1 h2, siteRaw_one (rcSeq chr) _ (by simp only; omega) (by simp only; omega)]
  simp only [upperSite, mirrorSite, rcSeq, ← List.map_drop, ← List.map_take, List.map_map]
  have hL : ((chr.length : Int) + 1 - it.2 - 1).toNat + 2 ≤ chr.length := by omega
  have hR : ((chr.length : Int) + 1 - it.1 - 2).toNat + 2 ≤ chr.length := by omega
  rw [window_reverse' chr _ 2 hL, window_reverse' chr _ 2 hR]
  have i1 : chr.length - ((chr.length : Int) + 1 - it.2 - 1).toNat - 2 = (it.2 - 2).toNat := by omega
  have i2 : chr.length - ((chr.length : Int) + 1 - it.1 - 2).toNat - 2 = (it.1 - 1).toNat := by omega
  rw [i1, i2]
  have hf : (Char.toUpper ∘ compl) = (complU ∘ Char.toUpper) := by funext c; exact toUpper_compl c
  simp only [hf, List.map_reverse, ← List.map_map]

end IsoVerif.Lemmas.C18
