import IsoVerif.Lemmas.Interval
import IsoVerif.Model.Profiles

namespace IsoVerif.Lemmas
open IsoVerif.Gen IsoVerif.Model

theorem markLoop_length (cmp : Iv → Iv → Bool) (tf ks : List Iv) (m : Bool) :
    (markLoop cmp tf ks m).length = ks.length := by
  fun_induction markLoop cmp tf ks m <;> simp_all

/-- a mark implies a match with one of the (remaining) transcript features -/
theorem markLoop_sound (cmp : Iv → Iv → Bool) (tf ks : List Iv) (m : Bool) (i : Nat) (k : Iv)
    (hk : ks[i]? = some k) (h : (markLoop cmp tf ks m)[i]? = some true) : ∃ f ∈ tf, cmp f k = true := by
  fun_induction markLoop cmp tf ks m generalizing i with
  | case1 feats m => simp at h
  | case2 f tf m => simp at hk
  | case3 f tf k0 ks m hc ih =>
    cases i with
    | zero => simp at hk; subst hk; exact ⟨f, by simp, hc⟩
    | succ i => simp at hk h; exact ih i hk h
  | case4 f tf k0 ks hc ih =>
    obtain ⟨g, hg, hgk⟩ := ih i hk h
    exact ⟨g, by simp [hg], hgk⟩
  | case5 f tf k0 ks m hc hm ih =>
    cases i with
    | zero => simp at h
    | succ i => simp at hk h; exact ih i hk h

theorem setProfiles_length (cmp : Iv → Iv → Bool) (features tf : List Iv) (region : Iv) :
    (setProfiles features tf region cmp).1.length = features.length := by
  simp [setProfiles, markLoop_length]

theorem setProfiles_get (cmp : Iv → Iv → Bool) (features tf : List Iv) (region : Iv) (i : Nat) (k : Iv)
    (hk : features[i]? = some k) :
    ∃ m, (markLoop cmp tf features false)[i]? = some m ∧
      (setProfiles features tf region cmp).1[i]? = some (if m then 1 else (if overlaps k region then -1 else -2)) := by
  have hlen : i < features.length := (List.getElem?_eq_some_iff.mp hk).1
  have hm : i < (markLoop cmp tf features false).length := by rw [markLoop_length]; exact hlen
  refine ⟨(markLoop cmp tf features false)[i], by simp [hm], ?_⟩
  simp only [setProfiles, List.getElem?_zipWith, List.getElem?_map, hk, Option.map_some]
  simp [hm]

theorem setProfiles_sound (cmp : Iv → Iv → Bool) (features tf : List Iv) (region : Iv) (i : Nat) (k : Iv)
    (hk : features[i]? = some k) (h1 : (setProfiles features tf region cmp).1[i]? = some 1) :
    ∃ f ∈ tf, cmp f k = true := by
  obtain ⟨m, hm, hv⟩ := setProfiles_get cmp features tf region i k hk
  rw [hv] at h1
  cases m with
  | true => exact markLoop_sound cmp tf features false i k hk hm
  | false => simp at h1; split at h1 <;> omega

theorem setProfiles_values (cmp : Iv → Iv → Bool) (features tf : List Iv) (region : Iv) (i : Nat) (k : Iv) (v : Int)
    (hk : features[i]? = some k) (hv : (setProfiles features tf region cmp).1[i]? = some v) :
    v = 1 ∨ (v = -1 ∧ overlaps k region = true) ∨ (v = -2 ∧ overlaps k region = false) := by
  obtain ⟨m, _, hv'⟩ := setProfiles_get cmp features tf region i k hk
  rw [hv'] at hv
  cases m with
  | true => simp at hv; left; omega
  | false =>
    simp at hv
    cases ho : overlaps k region
    · right; right; simp [ho] at hv; exact ⟨by omega, rfl⟩
    · right; left; simp [ho] at hv; exact ⟨by omega, rfl⟩

/-- strict lexicographic order on intervals -/
def lexLt (a b : Iv) : Prop := a.1 < b.1 ∨ (a.1 = b.1 ∧ a.2 < b.2)

def LexSorted : List Iv → Prop
  | [] => True
  | [_] => True
  | a :: b :: t => lexLt a b ∧ LexSorted (b :: t)

theorem LexSorted_tail {a : Iv} {l : List Iv} (h : LexSorted (a :: l)) : LexSorted l := by
  cases l with
  | nil => trivial
  | cons b t => exact h.2

theorem lexLt_trans {a b c : Iv} (h1 : lexLt a b) (h2 : lexLt b c) : lexLt a c := by
  unfold lexLt at *; omega

theorem LexSorted_head_lt {a : Iv} {l : List Iv} (h : LexSorted (a :: l)) : ∀ r ∈ l, lexLt a r := by
  induction l generalizing a with
  | nil => intro r hr; cases hr
  | cons b t ih =>
    intro r hr
    cases hr with
    | head => exact h.1
    | tail _ hr' => exact lexLt_trans h.1 (ih h.2 r hr')

theorem eq0_iff (a b : Iv) : equal_ranges a b 0 = true ↔ a = b := by
  simp only [equal_ranges, Bool.and_eq_true, decide_eq_true_eq, iabs_le]
  constructor
  · intro h; ext <;> omega
  · intro h; subst h; omega

theorem lexLt_irrefl (a : Iv) : ¬ lexLt a a := by unfold lexLt; omega

theorem lexLt_asymm {a b : Iv} (h1 : lexLt a b) (h2 : lexLt b a) : False := by
  unfold lexLt at *; omega

theorem lexLt_ne {a b : Iv} (h : lexLt a b) : a ≠ b := by
  intro e; subst e; exact lexLt_irrefl a h

/-- completeness of the sweep for the equality comparator on strictly sorted lists (generalised over the
    `inMatch` flag: while in a match run the head transcript feature has already been matched) -/
theorem markLoop_complete_gen (tf ks : List Iv) (m : Bool)
    (hs : LexSorted ks) (ht : LexSorted tf)
    (hB : ∀ g ∈ tf, g ∈ ks ∨ (m = true ∧ tf.head? = some g))
    (hC : m = true → ∀ f ∈ tf.head?, ∀ r ∈ ks, lexLt f r)
    (i : Nat) (k : Iv) (hk : ks[i]? = some k) (hin : k ∈ tf) :
    (markLoop (fun a b => equal_ranges a b 0) tf ks m)[i]? = some true := by
  fun_induction markLoop (fun a b => equal_ranges a b 0) tf ks m generalizing i with
  | case1 feats m => simp at hin
  | case2 f tf m => simp at hk
  | case3 f tf k0 ks m hc ih =>
    have hfk : f = k0 := (eq0_iff f k0).mp hc
    subst hfk
    cases i with
    | zero => simp
    | succ i =>
      simp at hk ⊢
      apply ih (LexSorted_tail hs) ht ?_ ?_ i hk hin
      · intro g hg
        rcases List.mem_cons.mp hg with h | h
        · right; simp [h]
        · rcases hB g hg with h' | h'
          · rcases List.mem_cons.mp h' with h'' | h''
            · right; simp [h'']
            · left; exact h''
          · right; simp at h'; simp [h'.2]
      · intro _ f' hf' r hr
        simp at hf'; subst hf'
        exact LexSorted_head_lt hs r hr
  | case4 f tf k0 ks hc ih =>
    have hfk : ∀ r ∈ k0 :: ks, lexLt f r := hC rfl f (by simp)
    have hkin : k ∈ k0 :: ks := List.mem_of_getElem? hk
    have hkf : k ≠ f := fun e => lexLt_ne (hfk k hkin) e.symm
    have hin' : k ∈ tf := by
      rcases List.mem_cons.mp hin with h | h
      · exact absurd h hkf
      · exact h
    apply ih hs (LexSorted_tail ht) ?_ (by simp) i hk hin'
    intro g hg
    rcases hB g (List.mem_cons_of_mem _ hg) with h | h
    · left; exact h
    · exfalso
      simp at h
      exact lexLt_ne (LexSorted_head_lt ht g hg) h
  | case5 f tf k0 ks m hc hm ih =>
    have hmf : m = false := by cases m <;> simp_all
    subst hmf
    have hfne : f ≠ k0 := fun e => hc ((eq0_iff f k0).mpr e)
    -- k0 is not a transcript feature
    have hk0 : k0 ∉ f :: tf := by
      intro hmem
      rcases List.mem_cons.mp hmem with h | h
      · exact hfne h.symm
      · have hfg : lexLt f k0 := LexSorted_head_lt ht k0 h
        rcases hB f (by simp) with h' | h'
        · rcases List.mem_cons.mp h' with h'' | h''
          · exact hfne h''
          · exact lexLt_asymm hfg (LexSorted_head_lt hs f h'')
        · simp at h'
    cases i with
    | zero =>
      simp at hk; subst hk; exact absurd hin hk0
    | succ i =>
      simp at hk ⊢
      apply ih (LexSorted_tail hs) ht ?_ (by simp) i hk hin
      intro g hg
      rcases hB g hg with h | h
      · rcases List.mem_cons.mp h with h' | h'
        · subst h'; exact absurd hg hk0
        · left; exact h'
      · simp at h

theorem setProfiles_complete_eq (features tf : List Iv) (region : Iv)
    (hs : LexSorted features) (ht : LexSorted tf) (hsub : ∀ f ∈ tf, f ∈ features)
    (i : Nat) (k : Iv) (hk : features[i]? = some k) (hin : k ∈ tf) :
    (setProfiles features tf region (fun a b => equal_ranges a b 0)).1[i]? = some 1 := by
  obtain ⟨m, hm, hv⟩ := setProfiles_get (fun a b => equal_ranges a b 0) features tf region i k hk
  have := markLoop_complete_gen tf features false hs ht (fun g hg => Or.inl (hsub g hg)) (by simp) i k hk hin
  rw [this] at hm
  injection hm with hm
  subst hm
  simpa using hv

end IsoVerif.Lemmas
